(* C20: overridden serialization as the implementation runs it -- a CHAIN of replacements per position.

   on_type_with_overridden_serialization (schema.py) is the first schema creator.  For an instance of type t it asks
   get_overridden_serialization_method for the option in force (field level once -- /repo 42523b8 --, then the tables of
   Config.dialect / Config by the type and by its origin) and
     - pass_through / a strategy without "serialize" / a string engine: returns None, the other creators run on t;
     - one of str/int/float/bool: update_type(b), returns None: the other creators run on b (no second lookup);
     - a callable with return annotation t': if t' IS t returns None (the creators run on t), else update_type(t') and
       get_schema(instance) AGAIN: the replacement type is looked up in the tables again, and so are the element types
       derived from it;
     - a callable without return annotation: Any, get_schema again.
   SchemaGen.resolve_ty is the one-step fragment of this (a replacement type carries no overridden key); here the
   lookup is iterated with fuel, which is what the implementation does with the Python stack.  A table whose replacement
   types lead back to an overridden key (int -> List[int], int -> str -> int) never stops: RecursionError
   (known finding C20/schema-table-override-recursion), C20_chain_total_refuted below. *)
From Coq Require Import List String Ascii ZArith Bool Lia.
From Verif Require Import SchemaGen SchemaGenProofs.
Import ListNotations.
Open Scope string_scope.

Section MapM.
  Context {A B: Type} (f: A -> option B).
  Fixpoint mapM (l: list A) : option (list B) :=
    match l with
    | [] => Some []
    | x :: r => match f x, mapM r with Some y, Some ys => Some (y :: ys) | _, _ => None end
    end.
End MapM.

Definition opt_str_eqb (a b: option string) : bool :=
  match a, b with Some x, Some y => String.eqb x y | None, None => true | _, _ => false end.

(* `new_type is instance.type` on the fragment the correspondence generates replacement types from (typing caches
   List[str] / Dict[str, int] / Tuple[..] / Optional[..], so equal spellings are the same object); other shapes are
   never reported as the same (the model then goes on with the chain where the implementation may stop) *)
Fixpoint ty_same (a b: ty) {struct a} : bool :=
  match a, b with
  | TInt, TInt | TFloat, TFloat | TBool, TBool | TStr, TStr | TNone, TNone | TAny, TAny => true
  | TList x, TList y | TSet x, TSet y | TDict x, TDict y => ty_same x y
  | TMap k x, TMap k' y => ty_same k k' && ty_same x y
  | TTuple xs, TTuple ys | TUnion xs, TUnion ys =>
      (fix go (l m: list ty) {struct l} : bool :=
         match l, m with
         | [], [] => true
         | x :: l', y :: m' => ty_same x y && go l' m'
         | _, _ => false
         end) xs ys
  | TOpaque n, TOpaque m | TClass n, TClass m => String.eqb n m
  | TLeaf tp f p, TLeaf tp' f' p' => String.eqb tp tp' && opt_str_eqb f f' && opt_str_eqb p p'
  | _, _ => false
  end.

(* the element positions of a type, one level: what the creators derive instances for *)
Definition rdesc (f: ty -> option ty) (t: ty) : option ty :=
  match t with
  | TList a => option_map TList (f a)
  | TSet a => option_map TSet (f a)
  | TWrap a => option_map TWrap (f a)
  | TDict a => option_map TDict (f a)
  | TMap k a => match f k, f a with Some k', Some a' => Some (TMap k' a') | _, _ => None end
  | TAnn cs a => option_map (TAnn cs) (f a)
  | TTuple ts => option_map TTuple (mapM f ts)
  | TUnion ts => option_map TUnion (mapM f ts)
  | TNamed a n ts d => option_map (fun ts' => TNamed a n ts' d) (mapM f ts)
  | TTyped n ts r => option_map (fun ts' => TTyped n ts' r) (mapM f ts)
  | _ => Some t
  end.

(* what the first creator does with an instance of type t under the option o *)
Inductive step := Stay | Final (b: ty) | Again (t': ty).
Definition step_of (o: option ov) (t: ty) : step :=
  match o with
  | Some (OBasic b) => Final b
  | Some (ORet (Some t')) => if ty_same t' t then Stay else Again t'
  | Some (ORet None) => Again TAny
  | _ => Stay
  end.

(* the type a chained option leads to (to be resolved again) *)
Definition repl_of (o: ov) : option ty :=
  match o with ORet (Some t') => Some t' | ORet None => Some TAny | _ => None end.

Section Chain.
  Variables dial conf : list (string * ov).

  Fixpoint rchain (n: nat) (t: ty) {struct n} : option ty :=
    match n with
    | O => None
    | S n' =>
        match step_of (table_ov dial conf t) t with
        | Stay => rdesc (rchain n') t
        | Final b => Some b
        | Again t' => rchain n' t'
        end
    end.

  Lemma rchain_S n t :
    rchain (S n) t = match step_of (table_ov dial conf t) t with
                     | Stay => rdesc (rchain n) t | Final b => Some b | Again t' => rchain n t' end.
  Proof. reflexivity. Qed.

  (* every registered replacement type resolves within N steps: computable, false exactly for tables that lead back *)
  Definition chain_ok (N: nat) : bool :=
    forallb (fun o => match repl_of o with Some t' => match rchain N t' with Some _ => true | None => false end | None => true end)
            (map snd (dial ++ conf)).

  (* ---- more fuel never changes a result ---- *)
  Lemma mapM_mono (f g: ty -> option ty) ts us :
    Forall (fun t => forall u, f t = Some u -> g t = Some u) ts -> mapM f ts = Some us -> mapM g ts = Some us.
  Proof.
    intros H. revert us. induction H as [|x r Hx Hr IH]; intros us; simpl; [auto|].
    destruct (f x) as [y|] eqn:Ef; [|discriminate]. destruct (mapM f r) as [ys|] eqn:Em; [|discriminate].
    intros E. rewrite (Hx _ eq_refl), (IH _ eq_refl). exact E.
  Qed.

  Lemma rdesc_mono (f g: ty -> option ty) t u :
    (forall x y, f x = Some y -> g x = Some y) -> rdesc f t = Some u -> rdesc g t = Some u.
  Proof.
    intros H. assert (HM: forall ts us, mapM f ts = Some us -> mapM g ts = Some us).
    { intros ts us. apply mapM_mono. apply Forall_forall. intros x _ y. apply H. }
    destruct t; simpl; try (intros E; exact E);
      try (destruct (f t) as [y|] eqn:Ef; [rewrite (H _ _ Ef); auto|discriminate]).
    - destruct (f t1) as [k'|] eqn:E1; [|discriminate]. destruct (f t2) as [a'|] eqn:E2; [|discriminate].
      rewrite (H _ _ E1), (H _ _ E2). auto.
    - destruct (mapM f ts) as [us|] eqn:Em; [rewrite (HM _ _ Em); auto|discriminate].
    - destruct (mapM f ts) as [us|] eqn:Em; [rewrite (HM _ _ Em); auto|discriminate].
    - destruct (mapM f ts) as [us|] eqn:Em; [rewrite (HM _ _ Em); auto|discriminate].
    - destruct (mapM f ts) as [us|] eqn:Em; [rewrite (HM _ _ Em); auto|discriminate].
  Qed.

  Lemma rchain_mono n : forall t u, rchain n t = Some u -> rchain (S n) t = Some u.
  Proof.
    induction n as [|n IH]; intros t u; [discriminate|].
    rewrite (rchain_S (S n)), (rchain_S n).
    destruct (step_of (table_ov dial conf t) t) as [|b|t']; [|auto|apply IH].
    apply rdesc_mono. exact IH.
  Qed.

  Lemma rchain_mono_le n m t u : n <= m -> rchain n t = Some u -> rchain m t = Some u.
  Proof. induction 1 as [|m Hle IH]; [auto|]. intros H. apply rchain_mono. exact (IH H). Qed.

  (* ---- totality: if every registered replacement type resolves, every type does ---- *)
  Lemma lookup_in_snd {A} k (l: list (string * A)) v : lookup k l = Some v -> In v (map snd l).
  Proof.
    induction l as [|[k' x] r IH]; simpl; [discriminate|]. destruct (String.eqb k' k); [intros E; inversion E; auto|auto].
  Qed.

  Lemma first_ser_in k o : first_ser [lookup k dial; lookup k conf] = Some o -> In o (map snd (dial ++ conf)).
  Proof.
    rewrite map_app, in_app_iff. cbn [first_ser].
    destruct (lookup k dial) as [od|] eqn:Ed.
    - assert (Hd := lookup_in_snd _ _ _ Ed).
      destruct od; try (intros E; inversion E; subst; left; exact Hd).
      destruct (lookup k conf) as [oc|] eqn:Ec; [|discriminate]. assert (Hc := lookup_in_snd _ _ _ Ec).
      destruct oc; try discriminate; intros E; inversion E; subst; right; exact Hc.
    - destruct (lookup k conf) as [oc|] eqn:Ec; [|discriminate]. assert (Hc := lookup_in_snd _ _ _ Ec).
      destruct oc; try discriminate; intros E; inversion E; subst; right; exact Hc.
  Qed.

  Lemma table_ov_in t o : table_ov dial conf t = Some o -> In o (map snd (dial ++ conf)).
  Proof.
    unfold table_ov. destruct (tykey t) as [k|]; [apply first_ser_in|].
    destruct (okey t) as [k|]; [apply first_ser_in|discriminate].
  Qed.

  Lemma step_total N t : chain_ok N = true ->
    step_of (table_ov dial conf t) t = Stay \/ exists u, rchain (S N) t = Some u.
  Proof.
    intros Hok. rewrite rchain_S. destruct (table_ov dial conf t) as [o|] eqn:Et; [|left; reflexivity].
    assert (Hin := table_ov_in _ _ Et). unfold chain_ok in Hok. rewrite forallb_forall in Hok. specialize (Hok _ Hin).
    destruct o as [|b|[t'|]|]; cbn [step_of repl_of] in *; try (left; reflexivity).
    - right. eexists; reflexivity.
    - destruct (ty_same t' t); [left; reflexivity|]. right.
      destruct (rchain N t') as [u|]; [exists u; reflexivity|discriminate].
    - right. destruct (rchain N TAny) as [u|]; [exists u; reflexivity|discriminate].
  Qed.

  Lemma mapM_total ts :
    Forall (fun t => exists n u, rchain n t = Some u) ts -> exists n us, mapM (rchain n) ts = Some us.
  Proof.
    induction 1 as [|x r [n [u Hx]] Hr [m [us IH]]]; [exists 0, []; reflexivity|].
    exists (Nat.max n m), (u :: us). simpl.
    rewrite (rchain_mono_le n (Nat.max n m) x u (Nat.le_max_l _ _) Hx).
    assert (E: mapM (rchain (Nat.max n m)) r = Some us).
    { revert IH. apply mapM_mono. apply Forall_forall. intros y _ w. apply rchain_mono_le. apply Nat.le_max_r. }
    rewrite E. reflexivity.
  Qed.

  Theorem rchain_total N : chain_ok N = true -> forall t, exists n u, rchain n t = Some u.
  Proof.
    intros Hok t.
    induction t using ty_ind';
      (match goal with |- exists n u, rchain n ?t0 = Some u =>
         destruct (step_total N t0 Hok) as [Hs|[u Hu]]; [|exists (S N), u; exact Hu] end);
      try (eexists 1, _; rewrite rchain_S, Hs; reflexivity);
      try (destruct IHt as [n [u Hn]]; eexists (S n), _; rewrite rchain_S, Hs; cbn [rdesc]; rewrite Hn; reflexivity);
      try (destruct (mapM_total _ H) as [n [us Hn]]; eexists (S n), _; rewrite rchain_S, Hs; cbn [rdesc]; rewrite Hn; reflexivity).
    (* TMap *)
    destruct IHt1 as [n1 [u1 H1]]. destruct IHt2 as [n2 [u2 H2]].
    eexists (S (Nat.max n1 n2)), _. rewrite rchain_S, Hs. cbn [rdesc].
    rewrite (rchain_mono_le n1 _ _ _ (Nat.le_max_l _ _) H1), (rchain_mono_le n2 _ _ _ (Nat.le_max_r _ _) H2). reflexivity.
  Qed.
End Chain.

(* ---- the statement at full strength is false for the faithful model: tables that lead back to an overridden key ---- *)
Definition conf_cyc1 : list (string * ov) := [("int", ORet (Some (TList TInt)))].                       (* int -> List[int] *)
Definition conf_cyc2 : list (string * ov) := [("int", ORet (Some TStr)); ("str", ORet (Some TInt))].    (* int -> str -> int *)

Lemma cyc1_diverges n : rchain [] conf_cyc1 n TInt = None /\ rchain [] conf_cyc1 n (TList TInt) = None.
Proof.
  induction n as [|n [IH1 IH2]]; [split; reflexivity|]. split.
  - rewrite rchain_S. cbn. exact IH2.
  - rewrite rchain_S. cbn. rewrite IH1. reflexivity.
Qed.

Lemma cyc2_diverges n : rchain [] conf_cyc2 n TInt = None /\ rchain [] conf_cyc2 n TStr = None.
Proof.
  induction n as [|n [IH1 IH2]]; [split; reflexivity|]. split.
  - rewrite rchain_S. cbn. exact IH2.
  - rewrite rchain_S. cbn. exact IH1.
Qed.

Theorem rchain_total_refuted : ~ (forall dial conf t, exists n u, rchain dial conf n t = Some u).
Proof. intros H. destruct (H [] conf_cyc1 TInt) as [n [u Hu]]. rewrite (proj1 (cyc1_diverges n)) in Hu. discriminate. Qed.

(* ---- /repo <sha> (table-override-once): Instance._overridden_types -- a table strategy is not applied again below its own
        replacement: the keys that already replaced a type on the way to a position are skipped (vis).  With it the
        rewriting is total for EVERY table (rchain_v_total); tables that do not lead back never meet a key twice, so there
        rchain_v [] and rchain agree (checked per case by SchemaCorr on chain_ok tables). ---- *)
Fixpoint smem (k: string) (l: list string) : bool :=
  match l with [] => false | x :: r => String.eqb x k || smem k r end.
Definition key_of (t: ty) : option string := match tykey t with Some k => Some k | None => okey t end.

Section ChainV.
  Variables dial conf : list (string * ov).

  Definition table_ov_v (vis: list string) (t: ty) : option (string * ov) :=
    match key_of t with
    | Some k => if smem k vis then None else match table_ov dial conf t with Some o => Some (k, o) | None => None end
    | None => None
    end.

  Fixpoint rchain_v (n: nat) (vis: list string) (t: ty) {struct n} : option ty :=
    match n with
    | O => None
    | S n' =>
        match table_ov_v vis t with
        | Some (k, OBasic b) => Some b
        | Some (k, ORet (Some t')) => if ty_same t' t then rdesc (rchain_v n' (k :: vis)) t else rchain_v n' (k :: vis) t'
        | Some (k, ORet None) => rchain_v n' (k :: vis) TAny
        | _ => rdesc (rchain_v n' vis) t
        end
    end.

  Lemma rchain_v_S n vis t :
    rchain_v (S n) vis t =
      match table_ov_v vis t with
      | Some (k, OBasic b) => Some b
      | Some (k, ORet (Some t')) => if ty_same t' t then rdesc (rchain_v n (k :: vis)) t else rchain_v n (k :: vis) t'
      | Some (k, ORet None) => rchain_v n (k :: vis) TAny
      | _ => rdesc (rchain_v n vis) t
      end.
  Proof. reflexivity. Qed.

  Lemma rchain_v_mono n : forall vis t u, rchain_v n vis t = Some u -> rchain_v (S n) vis t = Some u.
  Proof.
    induction n as [|n IH]; intros vis t u; [discriminate|].
    rewrite (rchain_v_S (S n)), (rchain_v_S n).
    destruct (table_ov_v vis t) as [[k [|b|[t'|]|]]|]; auto;
      try (apply rdesc_mono; intros x y; apply IH).
    destruct (ty_same t' t); [apply rdesc_mono; intros x y; apply IH|apply IH].
  Qed.

  Lemma rchain_v_mono_le n m vis t u : n <= m -> rchain_v n vis t = Some u -> rchain_v m vis t = Some u.
  Proof. induction 1 as [|m Hle IH]; [auto|]. intros H. apply rchain_v_mono. exact (IH H). Qed.

  (* the keys not yet used on the path: every chained step uses one up *)
  Definition allkeys : list string := map fst (dial ++ conf).
  Definition unvisited (vis: list string) : nat := List.length (filter (fun k => negb (smem k vis)) allkeys).

  Lemma filter_len_le (f g: string -> bool) l : (forall x, f x = true -> g x = true) ->
    List.length (filter f l) <= List.length (filter g l).
  Proof.
    intros H. induction l as [|x r IH]; simpl; [lia|].
    destruct (f x) eqn:Ef; [rewrite (H _ Ef); simpl; lia|destruct (g x); simpl; lia].
  Qed.

  Lemma filter_len_lt (f g: string -> bool) l k : (forall x, f x = true -> g x = true) -> In k l -> f k = false -> g k = true ->
    List.length (filter f l) < List.length (filter g l).
  Proof.
    intros H. induction l as [|x r IH]; simpl; [contradiction|]. intros [E|Hin] Hf Hg.
    - subst x. rewrite Hf, Hg. simpl. assert (L := filter_len_le f g r H). lia.
    - specialize (IH Hin Hf Hg). destruct (f x) eqn:Ef; [rewrite (H _ Ef); simpl; lia|destruct (g x); simpl; lia].
  Qed.

  Lemma smem_cons k x vis : smem x (k :: vis) = String.eqb k x || smem x vis.
  Proof. reflexivity. Qed.

  Lemma unvisited_decr k vis : In k allkeys -> smem k vis = false -> unvisited (k :: vis) < unvisited vis.
  Proof.
    intros Hin Hm. unfold unvisited. apply (filter_len_lt _ _ allkeys k); auto.
    - intros x. rewrite smem_cons. destruct (String.eqb k x); simpl; [discriminate|auto].
    - rewrite smem_cons, String.eqb_refl. reflexivity.
    - rewrite Hm. reflexivity.
  Qed.

  Lemma lookup_in_fst {A} k (l: list (string * A)) v : lookup k l = Some v -> In k (map fst l).
  Proof.
    induction l as [|[k' x] r IH]; simpl; [discriminate|]. destruct (String.eqb k' k) eqn:E; [|auto].
    intros _. left. apply String.eqb_eq. exact E.
  Qed.

  Lemma first_ser_key k o : first_ser [lookup k dial; lookup k conf] = Some o -> In k allkeys.
  Proof.
    unfold allkeys. rewrite map_app, in_app_iff. cbn [first_ser].
    destruct (lookup k dial) as [od|] eqn:Ed.
    - intros _. left. exact (lookup_in_fst _ _ _ Ed).
    - destruct (lookup k conf) as [oc|] eqn:Ec; [|discriminate]. intros _. right. exact (lookup_in_fst _ _ _ Ec).
  Qed.

  Lemma table_ov_v_key vis t k o : table_ov_v vis t = Some (k, o) -> In k allkeys /\ smem k vis = false.
  Proof.
    unfold table_ov_v, key_of, table_ov.
    destruct (tykey t) as [k1|].
    - destruct (smem k1 vis) eqn:Em; [discriminate|].
      destruct (first_ser [lookup k1 dial; lookup k1 conf]) as [o1|] eqn:Ef; [|discriminate].
      intros E; inversion E; subst. split; [exact (first_ser_key _ _ Ef)|exact Em].
    - destruct (okey t) as [k1|]; [|discriminate].
      destruct (smem k1 vis) eqn:Em; [discriminate|].
      destruct (first_ser [lookup k1 dial; lookup k1 conf]) as [o1|] eqn:Ef; [|discriminate].
      intros E; inversion E; subst. split; [exact (first_ser_key _ _ Ef)|exact Em].
  Qed.

  Lemma mapM_v_total vis ts :
    Forall (fun t => exists n u, rchain_v n vis t = Some u) ts -> exists n us, mapM (rchain_v n vis) ts = Some us.
  Proof.
    induction 1 as [|x r [n [u Hx]] Hr [m [us IH]]]; [exists 0, []; reflexivity|].
    exists (Nat.max n m), (u :: us). simpl.
    rewrite (rchain_v_mono_le n (Nat.max n m) vis x u (Nat.le_max_l _ _) Hx).
    assert (E: mapM (rchain_v (Nat.max n m) vis) r = Some us).
    { revert IH. apply mapM_mono. apply Forall_forall. intros y _ w. apply rchain_v_mono_le. apply Nat.le_max_r. }
    rewrite E. reflexivity.
  Qed.

  (* one level below a position, for a fixed path: if every type resolves under vis, rdesc does *)
  Lemma rdesc_v_total vis : (forall t, exists n u, rchain_v n vis t = Some u) ->
    forall t, exists n u, rdesc (rchain_v n vis) t = Some u.
  Proof.
    intros H t. destruct t;
      try (exists 0; eexists; reflexivity);
      try (destruct (H t) as [n [u Hn]]; exists n; eexists; cbn [rdesc]; rewrite Hn; reflexivity);
      try (destruct (mapM_v_total vis ts (proj2 (Forall_forall _ _) (fun x _ => H x))) as [n [us Hn]];
           exists n; eexists; cbn [rdesc]; rewrite Hn; reflexivity).
    destruct (H t1) as [n1 [u1 H1]]. destruct (H t2) as [n2 [u2 H2]].
    exists (Nat.max n1 n2); eexists. cbn [rdesc].
    rewrite (rchain_v_mono_le n1 _ _ _ _ (Nat.le_max_l _ _) H1), (rchain_v_mono_le n2 _ _ _ _ (Nat.le_max_r _ _) H2). reflexivity.
  Qed.

  Theorem rchain_v_total_aux m : forall vis, unvisited vis < m -> forall t, exists n u, rchain_v n vis t = Some u.
  Proof.
    induction m as [|m IHm]; intros vis Hm; [lia|].
    assert (Hnext: forall k, In k allkeys -> smem k vis = false -> forall t, exists n u, rchain_v n (k :: vis) t = Some u).
    { intros k Hin Hs. apply IHm. assert (D := unvisited_decr k vis Hin Hs). lia. }
    intros t.
    induction t using ty_ind';
      (match goal with |- exists n u, rchain_v n vis ?t0 = Some u =>
         destruct (table_ov_v vis t0) as [[k o]|] eqn:Et;
         [destruct (table_ov_v_key _ _ _ _ Et) as [Hin Hs];
          destruct o as [|b|[t'|]|];
          [ | exists 1, b; rewrite rchain_v_S, Et; reflexivity
            | destruct (ty_same t' t0) eqn:Es;
              [destruct (rdesc_v_total (k :: vis) (Hnext k Hin Hs) t0) as [fn [fu Hfn]]; exists (S fn), fu; rewrite rchain_v_S, Et, Es; exact Hfn
              |destruct (Hnext k Hin Hs t') as [fn [fu Hfn]]; exists (S fn), fu; rewrite rchain_v_S, Et, Es; exact Hfn]
            | destruct (Hnext k Hin Hs TAny) as [fn [fu Hfn]]; exists (S fn), fu; rewrite rchain_v_S, Et; exact Hfn
            | ]
         |] end);
      try (eexists 1, _; rewrite rchain_v_S, Et; reflexivity);
      try (destruct IHt as [n [u Hn]]; eexists (S n), _; rewrite rchain_v_S, Et; cbn [rdesc]; rewrite Hn; reflexivity);
      try (destruct (mapM_v_total vis _ H) as [n [us Hn]]; eexists (S n), _; rewrite rchain_v_S, Et; cbn [rdesc]; rewrite Hn; reflexivity);
      try (destruct IHt1 as [n1 [u1 H1]]; destruct IHt2 as [n2 [u2 H2]];
           eexists (S (Nat.max n1 n2)), _; rewrite rchain_v_S, Et; cbn [rdesc];
           rewrite (rchain_v_mono_le n1 _ _ _ _ (Nat.le_max_l _ _) H1), (rchain_v_mono_le n2 _ _ _ _ (Nat.le_max_r _ _) H2); reflexivity).
  Qed.

  Theorem rchain_v_total : forall vis t, exists n u, rchain_v n vis t = Some u.
  Proof. intros vis t. exact (rchain_v_total_aux (S (unvisited vis)) vis (Nat.lt_succ_diag_r _) t). Qed.
End ChainV.

(* ---- Instance.fields() with the chain: the field-level option once, then the tables on the replacement ---- *)
Definition resolve_field_chain (n: nat) (dial conf: list (string * ov)) (r: rfld) : option ty :=
  match first_ser [r.(r_ser); r.(r_strat)] with
  | Some OPass => Some r.(r_ty)
  | Some o =>
      let base := match r.(r_ty) with TAnn _ a => a | x => x end in
      let wrap := fun t' => match r.(r_ty) with TAnn cs _ => if r.(r_final) then t' else TAnn cs t' | _ => t' end in
      (* under Final[..] the instance type is the Final form, never the replacement type itself: always looked up again *)
      match (match o, r.(r_final) with ORet (Some t'), true => Again t' | _, _ => step_of (Some o) base end) with
      | Final b => Some (wrap b)
      | Again t' => option_map wrap (rchain_v dial conf n [] t')      (* _field_override_applied: only the tables from here on; _overridden_types starts empty *)
      | Stay => option_map wrap (rdesc (rchain_v dial conf n []) base)  (* t' is the field type: the creators run on it *)
      end
  | None => rchain_v dial conf n [] r.(r_ty)
  end.

Definition digest_field_chain (n: nat) (aliases: list (string * string)) (omit_none: bool) (dial conf: list (string * ov)) (r: rfld)
  : option (option fld) :=
  match digest_field aliases omit_none dial conf r with
  | None => Some None
  | Some f => option_map (fun t => Some (mkfld f.(f_alias) t f.(f_req) f.(f_default) f.(f_descr))) (resolve_field_chain n dial conf r)
  end.

Fixpoint digest_fields_chain (n: nat) (aliases: list (string * string)) (omit_none: bool) (dial conf: list (string * ov)) (l: list rfld)
  : option (list fld) :=
  match l with
  | [] => Some []
  | r :: t => match digest_field_chain n aliases omit_none dial conf r, digest_fields_chain n aliases omit_none dial conf t with
              | Some (Some f), Some fs => Some (f :: fs)
              | Some None, Some fs => Some fs
              | _, _ => None end
  end.

Definition digest_tab_chain (n: nat) (E: list (string * rcls)) : option ctab :=
  mapM (fun c => option_map (fun fs => (fst c, fs))
                   (digest_fields_chain n (snd c).(rc_aliases) (eff_omit_none (snd c)) (snd c).(rc_dialect) (snd c).(rc_strats)
                                        (snd c).(rc_fields))) E.

(* ---- the one-step fragment: no replacement type (of a table, or of a field option) mentions an overridden key;
        there SchemaGen.digest_tab and digest_tab_chain must produce the same documents (checked per case by SchemaCorr) ---- *)
Section Flat.
  Variables dial conf : list (string * ov).
  Fixpoint mentions (t: ty) : bool :=
    match table_ov dial conf t with
    | Some _ => true
    | None =>
      match t with
      | TList a | TSet a | TDict a | TWrap a | TAnn _ a => mentions a
      | TMap k a => mentions k || mentions a
      | TTuple ts | TUnion ts | TNamed _ _ ts _ | TTyped _ ts _ => existsb mentions ts
      | _ => false
      end
    end.
  Definition ov_flat (o: option ov) : bool :=
    match o with Some o' => match repl_of o' with Some t' => negb (mentions t') | None => true end | None => true end.
End Flat.
Definition cls_flat (c: rcls) : bool :=
  forallb (fun e => ov_flat c.(rc_dialect) c.(rc_strats) (Some (snd e))) (c.(rc_dialect) ++ c.(rc_strats))
  && forallb (fun r => ov_flat c.(rc_dialect) c.(rc_strats) r.(r_ser) && ov_flat c.(rc_dialect) c.(rc_strats) r.(r_strat)) c.(rc_fields).
Definition tab_flat (E: list (string * rcls)) : bool := forallb (fun c => cls_flat (snd c)) E.

(* ---- non-vacuity: a two-step chain, a container replacement resolved again, a field-level replacement seen by the tables ---- *)
Definition EC : list (string * rcls) :=
  [("Ch", mkrcls [] None None [("Pt", ORet (Some TInt))] [("int", ORet (Some (TList TStr))); ("list", ORet (Some TBool)); ("float", ORet (Some TFloat))]
      [mkrfld "p" None None (TOpaque "Pt") false true RNone None None None;                        (* Pt -> int -> List[str] -> bool *)
       mkrfld "q" None None (TDict TInt) false true RNone None None None;                           (* Dict[str, int] -> Dict[str, bool] *)
       mkrfld "r" None None TStr false true RNone None (Some (ORet (Some (TTuple [TInt; TStr])))) None;   (* field level, then the tables below *)
       mkrfld "s" None None TFloat false true RNone None None None;                                 (* float -> float: the same type, stays *)
       mkrfld "t" None None TStr false true RNone None None (Some (ORet None))])].                  (* unannotated field strategy: Any *)

Example chain_nonvacuous :
  digest_tab_chain 8 EC =
    Some [("Ch", [mkfld "p" TBool true None None; mkfld "q" (TDict TBool) true None None;
                  mkfld "r" (TTuple [TBool; TStr]) true None None; mkfld "s" TFloat true None None; mkfld "t" TAny true None None])]
  /\ chain_ok [("Pt", ORet (Some TInt))] [("int", ORet (Some (TList TStr))); ("list", ORet (Some TBool)); ("float", ORet (Some TFloat))] 4 = true
  /\ tab_flat EC = false
  /\ chain_ok [] conf_cyc1 50 = false /\ chain_ok [] conf_cyc2 50 = false
  (* with _overridden_types the tables that lead back stop at the second visit of a key *)
  /\ rchain_v [] conf_cyc1 6 [] TInt = Some (TList TInt) /\ rchain_v [] conf_cyc1 6 [] (TDict TInt) = Some (TDict (TList TInt))
  /\ rchain_v [] conf_cyc2 6 [] TInt = Some TInt /\ rchain_v [] conf_cyc2 6 [] TStr = Some TStr.
Proof. repeat split; vm_compute; reflexivity. Qed.
