(* C13: forwarding of the call dialect to nested from_dict / to_dict calls -- theorems over
   K13U (get_unpack_method_flags + the flag call sites of pack.py / unpack.py) translated on this run. *)
From Coq Require Import List String Ascii ZArith Bool.
From Verif Require Import Regex PyK PyK_c08.
From VerifGen Require Import K13U.
Import ListNotations.
Open Scope string_scope.

(* is ADD_DIALECT_SUPPORT enabled in an options namespace *)
Definition dl_enabled (ns: kv) : bool := k_truthy (k_getattr3 ns (KStr cu_ADD_DIALECT_SUPPORT) (KBool false)).

(* the argument list of a nested from_dict call: `dialect=dialect` iff dialect support is enabled
   on BOTH the class being built and the class whose method is called *)
Theorem unpack_flags_spec s o :
  get_unpack_method_flags s o = Ok (KStr (if dl_enabled o && dl_enabled s then "dialect=dialect" else "")).
Proof.
  unfold get_unpack_method_flags, dl_enabled.
  destruct (k_truthy (k_getattr3 o (KStr cu_ADD_DIALECT_SUPPORT) (KBool false))) eqn:Eo;
  destruct (k_truthy (k_getattr3 s (KStr cu_ADD_DIALECT_SUPPORT) (KBool false))) eqn:Es;
  unfold cu_ADD_DIALECT_SUPPORT in *; cbn; rewrite ?Eo, ?Es; cbn; rewrite ?Es; reflexivity.
Qed.

(* a Self position calls the builder's own class: the dialect is forwarded whenever the class has support *)
Corollary self_forwards_dialect s :
  dl_enabled s = true -> get_unpack_method_flags s s = Ok (KStr "dialect=dialect").
Proof. intros H. rewrite unpack_flags_spec, H. reflexivity. Qed.

(* the flags are computed for the class whose method the generated code calls *)
Definition ends_with_dataclass (s: string) : bool :=
  String.eqb s "pack_dataclass" || String.eqb s "unpack_dataclass".

Definition site_ok (x: string * string * string * string) : bool :=
  let '(_, site, _, arg) := x in
  if String.eqb site "is_self" then String.eqb arg "spec.builder.cls"
  else if ends_with_dataclass site then String.eqb arg "spec.type"
  else String.eqb arg "".

Lemma flag_sites_sweep : forallb site_ok flag_call_sites = true.
Proof. vm_compute. reflexivity. Qed.

Theorem flag_sites_ok x : In x flag_call_sites -> site_ok x = true.
Proof. exact (proj1 (forallb_forall _ _) flag_sites_sweep x). Qed.

(* both directions have a Self site and a nested-dataclass site *)
Definition has_site (file site: string) : bool :=
  existsb (fun x => let '(f, s, _, _) := x in String.eqb f file && String.eqb s site) flag_call_sites.

Lemma self_sites_present :
  has_site "pack.py" "is_self" = true /\ has_site "unpack.py" "is_self" = true /\
  has_site "pack.py" "pack_dataclass" = true /\ has_site "unpack.py" "unpack_dataclass" = true.
Proof. vm_compute. repeat split. Qed.
