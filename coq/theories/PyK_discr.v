(* Primitives of kernel K12 (tools/kernels/k12_discr.py): entries of the generated variants tuple.
   the tuple display ( *iter_all_subclasses(A), *iter_all_subclasses(B), A, B ) is a Python tuple display: starred
   entries are expanded in place, in order (trusted: CPython tuple display semantics). *)
From Coq Require Import List.
Import ListNotations.

Inductive vname := VStar (b: nat) | VName (b: nat).

Definition eval_names (all_sub: nat -> list nat) (l: list vname) : list nat :=
  flat_map (fun n => match n with VStar b => all_sub b | VName b => [b] end) l.

(* exception classes that matter to the generated dispatcher, and CPython's subclass relation between them (trusted) *)
Inductive exn := EKeyError | EAttributeError | ELookupError | EValueError | ETypeError | EException.

Definition subclass_of (a b: exn) : bool :=
  match a, b with
  | _, EException => true
  | EKeyError, EKeyError | EKeyError, ELookupError | ELookupError, ELookupError => true
  | EAttributeError, EAttributeError | EValueError, EValueError | ETypeError, ETypeError => true
  | _, _ => false
  end.

(* does `except <handler>` catch an exception whose class has the given bases? *)
Definition catches (handler bases: list exn) : bool :=
  existsb (fun b => existsb (fun h => subclass_of b h) handler) bases.

(* The statements emitted for the registry region of the field-mode dispatcher (DiscriminatedUnionUnpackerBuilder._add_body
   after the hash test, and _add_register_variant_tags): one constructor per emitted line shape; NAME = the variant
   method name, REG = the registry expression (`<holder>.<variants attr>`).  Meaning: coq/theories/DiscrEmit.v. *)
Inductive estmt :=
| SLookup                  (* __variant = REG[discriminator] *)
| SOwnCheck                (* if 'NAME' not in __variant.__dict__: raise AttributeError *)
| SBind                    (* unpack = __variant.NAME *)
| SBindReg                 (* unpack = <attrs registry>[REG[discriminator]].NAME *)
| SSetMap                  (* variants_map = REG *)
| SForVariants (body: list estmt)                                  (* for variant in <variants>: *)
| STry (body: list estmt) (handler: list exn) (hbody: list estmt)   (* try: ... except <handler>: ... *)
| SRegOwn                  (* variants_map[variant.__dict__['<field>']] = variant *)
| STags                    (* variant_tags = <tagger>(variant) *)
| SIfList (a b: list estmt)                                        (* if type(variant_tags) is list: ... else: ... *)
| SForTags (body: list estmt)                                      (* for varint_tag in variant_tags: *)
| SRegTagVar               (* variants_map[varint_tag] = variant *)
| SRegTagsVar              (* variants_map[variant_tags] = variant *)
| SContinue                (* continue *)
| SBuild                   (* the lines of _add_build_variant_unpacker: (re)build the variant's unpacker unless it is its own *)
| SRetry                   (* unpack = variants_map[discriminator].NAME *)
| SRetryReg                (* unpack = <attrs registry>[variants_map[discriminator]].NAME *)
| SRaiseNotFound           (* raise SuitableVariantNotFoundError(...) from None *)
| SReturnCall.             (* return unpack(value, ...) *)
