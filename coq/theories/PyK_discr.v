(* Primitives of kernel K12 (tools/kernels/k12_discr.py): entries of the generated variants tuple.
   the tuple display ( *iter_all_subclasses(A), *iter_all_subclasses(B), A, B ) is a Python tuple display: starred
   entries are expanded in place, in order (trusted: CPython tuple display semantics). *)
From Coq Require Import List.
Import ListNotations.

Inductive vname := VStar (b: nat) | VName (b: nat).

Definition eval_names (all_sub: nat -> list nat) (l: list vname) : list nat :=
  flat_map (fun n => match n with VStar b => all_sub b | VName b => [b] end) l.

(* exception classes that matter to the generated dispatcher, and CPython's subclass relation between them (trusted) *)
Inductive exn := EKeyError | EAttributeError | ELookupError | EValueError | ETypeError | EException.

Definition subclass_of (a b: exn) : bool :=
  match a, b with
  | _, EException => true
  | EKeyError, EKeyError | EKeyError, ELookupError | ELookupError, ELookupError => true
  | EAttributeError, EAttributeError | EValueError, EValueError | ETypeError, ETypeError => true
  | _, _ => false
  end.

(* does `except <handler>` catch an exception whose class has the given bases? *)
Definition catches (handler bases: list exn) : bool :=
  existsb (fun b => existsb (fun h => subclass_of b h) handler) bases.
