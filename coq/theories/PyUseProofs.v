(* C16 (round 6) - the ROLE of the spliced literal on the generated line (PyUse.v): proofs. *)
From Coq Require Import List NArith Bool Lia.
From Verif Require Import PyStrLit PyStrLitProofs PyLine PyLineProofs Splice PyUse.
Import ListNotations.
Open Scope N_scope.

(* ------------------------------------------------------------------ key equality is exact *)
Lemma leqb_true_eq : forall a b, leqb a b = true -> a = b.
Proof.
  induction a as [|x a IH]; destruct b as [|y b]; cbn; intros H; try discriminate; [reflexivity|].
  apply andb_true_iff in H. destruct H as [H1 H2]. apply N.eqb_eq in H1. subst y.
  f_equal. apply IH. exact H2.
Qed.
Lemma leqb_refl : forall a, leqb a a = true.
Proof. induction a as [|x a IH]; cbn; [reflexivity|]. rewrite N.eqb_refl. exact IH. Qed.

(* two key tokens are equal keys iff they are the same sequence of code points (and both str or both bytes) *)
Theorem lval_eqb_eq a b : lval_eqb a b = true <-> a = b.
Proof.
  split.
  - destruct a, b; cbn; intros H; try discriminate; f_equal; apply leqb_true_eq; exact H.
  - intros <-. destruct a; cbn; apply leqb_refl.
Qed.

(* ------------------------------------------------------------------ the role is stable under earlier text *)
Lemma skipb_app w x : skipb w <> [] -> skipb (w ++ x) = skipb w ++ x.
Proof.
  induction w as [|c w IH]; cbn; intros H; [congruence|].
  destruct (c =? 32); [apply IH; exact H | reflexivity].
Qed.

Lemma is_dotget_mono r x g : is_dotget r = Some g -> is_dotget (r ++ x) = Some g.
Proof.
  destruct r as [|c1 [|c2 [|c3 [|c4 r]]]]; cbn; intros H; try discriminate;
  repeat match type of H with context [if ?b then _ else _] => destruct b end;
  try discriminate; exact H.
Qed.

Theorem luse_mono w x nx u : luse w nx = Some u -> luse (w ++ x) nx = Some u.
Proof.
  unfold luse. destruct (skipb w) as [|c1 r] eqn:E; [discriminate|].
  rewrite skipb_app by (rewrite E; discriminate). rewrite E. cbn [app].
  destruct (c1 =? 91).
  { destruct r as [|c0 r]; [discriminate|]. cbn [app]. exact (fun H => H). }
  destruct (c1 =? 40).
  { destruct r as [|c0 r]; [discriminate|]. cbn [app].
    destruct (exprend c0); [|exact (fun H => H)].
    change (c0 :: r ++ x) with ((c0 :: r) ++ x).
    destruct (is_dotget (c0 :: r)) as [g|] eqn:G; [|discriminate].
    rewrite (is_dotget_mono _ x g G). exact (fun H => H). }
  destruct ((c1 =? 123) || (c1 =? 44)); [exact (fun H => H)|].
  destruct (c1 =? 61); [|exact (fun H => H)].
  destruct r as [|c0 r]; [discriminate|]. cbn [app]. exact (fun H => H).
Qed.

Lemma luse_pad_of w x nx u : luse w nx = Some u -> luse_pad (w ++ x) nx = u.
Proof.
  intros H. unfold luse_pad. rewrite <- app_assoc. rewrite (luse_mono w (x ++ pad) nx u H). reflexivity.
Qed.

(* ------------------------------------------------------------------ the tokenizer only adds tokens *)
Lemma tok_line_acc : forall l s acc ts, tok_line s acc l = Some ts -> exists post, ts = rev acc ++ post.
Proof.
  induction l as [|c r IH]; intros s acc ts H.
  - cbn in H. destruct s; try discriminate; injection H as <-; exists []; rewrite app_nil_r; reflexivity.
  - cbn [tok_line] in H.
    destruct s;
    repeat (match type of H with
            | context [match step ?a ?b ?c ?d ?e ?f with _ => _ end] => destruct (step a b c d e f)
            | context [if ?b then _ else _] => destruct b
            end);
    try discriminate;
    apply IH in H; destruct H as (post & ->); cbn [rev]; rewrite <- ?app_assoc; eexists; reflexivity.
Qed.

Lemma plain_next_facts c : plain_next c = true ->
  is_quote c = false /\ (c =? 35) = false /\ (c =? BS) = false /\ (c =? 98) = false /\ (c =? 32) = false.
Proof.
  unfold plain_next. intros H.
  repeat (apply andb_true_iff in H; destruct H as [H ?]).
  repeat match goal with X: negb _ = true |- _ => apply negb_true_iff in X end.
  repeat split; assumption.
Qed.

Lemma tok_default_step c r pv acc : plain_next c = true ->
  tok_line (LDef pv) acc (c :: r) = tok_line (LDef (is_ident_char c)) (TkChar c :: acc) r.
Proof.
  intros H. destruct (plain_next_facts c H) as (Hq & H35 & Hbs & H98 & _).
  cbn [tok_line]. rewrite Hq, H35, Hbs, H98. reflexivity.
Qed.

(* ------------------------------------------------------------------ the use scanner *)
Lemma uses_from_chars : forall b prevs r,
  uses_from prevs (map TkChar b ++ r) = uses_from (rev (map TkChar b) ++ prevs) r.
Proof.
  induction b as [|c b IH]; intros prevs r; [reflexivity|].
  cbn [map app uses_from rev]. rewrite IH. rewrite <- app_assoc. reflexivity.
Qed.

Lemma uses_from_app : forall l1 prevs l2,
  exists U, uses_from prevs (l1 ++ l2) = U ++ uses_from (rev l1 ++ prevs) l2.
Proof.
  induction l1 as [|t l1 IH]; intros prevs l2; [exists []; reflexivity|].
  destruct (IH (t :: prevs) l2) as (U & E).
  cbn [app uses_from rev]. rewrite <- app_assoc. cbn [app].
  destruct t; rewrite E; eexists; first [reflexivity | rewrite app_comm_cons; reflexivity].
Qed.

Lemma map_code_chars b acc :
  map code_of (rev (map TkChar b) ++ acc) = rev b ++ map code_of acc.
Proof.
  rewrite map_app, map_rev, map_map. cbn [code_of]. rewrite map_id. reflexivity.
Qed.

(* THE ROLE THEOREM (text level): on a line made of an admissible before-text, repr(d) and an
   after-text whose first character is plain, whenever the static texts alone decide the role u,
   the tokenizer's output is: everything emitted earlier, the characters of the before-text, ONE
   string token of value d, and the scanner records exactly (u, d) for that token - whatever was
   emitted before the template and whatever follows it *)
Theorem text_use_line p b a d rest prev acc ts u :
  oracle_ok p -> wf_str d -> before_ok b = true -> after_ok a = true ->
  text_use b a = Some u ->
  tok_line (LDef prev) acc (b ++ py_repr p d ++ a ++ rest) = Some ts ->
  exists post, ts = rev acc ++ map TkChar b ++ TkStr d :: post /\
    uses_from (rev (map TkChar b) ++ acc) (TkStr d :: post)
    = (u, VS d) :: uses_from (TkStr d :: rev (map TkChar b) ++ acc) post.
Proof.
  intros Hp Hw Hb Ha Hu H.
  rewrite (line_literal p b d (a ++ rest) prev acc Hp Hw Hb (after_ok_ctx a rest Ha)) in H.
  destruct a as [|c a']; [discriminate|].
  unfold text_use in Hu. destruct (plain_next c) eqn:Hc; [|discriminate].
  cbn [app] in H. rewrite (tok_default_step c (a' ++ rest) false _ Hc) in H.
  apply tok_line_acc in H. destruct H as (post' & ->).
  exists (TkChar c :: post'). split.
  - cbn [rev]. rewrite rev_app_distr, rev_involutive. rewrite <- !app_assoc. reflexivity.
  - cbn [uses_from next_code].
    destruct (plain_next_facts c Hc) as (_ & _ & _ & _ & H32). rewrite H32.
    rewrite map_code_chars. rewrite (luse_pad_of _ _ _ _ Hu). reflexivity.
Qed.

(* seen from the start of the generated text: the uses of the whole token list are those of the
   earlier text, then (u, d), then those of the rest *)
Corollary text_use_whole p b a d rest prev acc ts u :
  oracle_ok p -> wf_str d -> before_ok b = true -> after_ok a = true ->
  text_use b a = Some u ->
  tok_line (LDef prev) acc (b ++ py_repr p d ++ a ++ rest) = Some ts ->
  exists U1 U2, uses_from [] ts = U1 ++ (u, VS d) :: U2.
Proof.
  intros Hp Hw Hb Ha Hu H.
  destruct (text_use_line p b a d rest prev acc ts u Hp Hw Hb Ha Hu H) as (post & -> & E).
  destruct (uses_from_app (rev acc) [] (map TkChar b ++ TkStr d :: post)) as (U & EU).
  rewrite EU. rewrite uses_from_chars. rewrite rev_involutive, app_nil_r. rewrite E.
  eexists; eexists; reflexivity.
Qed.

(* the same for a bytes literal (Literal[b"..."] values): the b prefix belongs to the token *)
Theorem text_use_line_bytes b a d rest prev acc ts u :
  wf_bytes d -> before_ok b = true -> after_ok a = true ->
  text_use b a = Some u ->
  tok_line (LDef prev) acc (b ++ py_repr_bytes d ++ a ++ rest) = Some ts ->
  exists post, ts = rev acc ++ map TkChar b ++ TkBytes d :: post /\
    uses_from (rev (map TkChar b) ++ acc) (TkBytes d :: post)
    = (u, VB d) :: uses_from (TkBytes d :: rev (map TkChar b) ++ acc) post.
Proof.
  intros Hw Hb Ha Hu H.
  rewrite (line_literal_bytes b d (a ++ rest) prev acc Hw Hb (after_ok_ctx a rest Ha)) in H.
  destruct a as [|c a']; [discriminate|].
  unfold text_use in Hu. destruct (plain_next c) eqn:Hc; [|discriminate].
  cbn [app] in H. rewrite (tok_default_step c (a' ++ rest) false _ Hc) in H.
  apply tok_line_acc in H. destruct H as (post' & ->).
  exists (TkChar c :: post'). split.
  - cbn [rev]. rewrite rev_app_distr, rev_involutive. rewrite <- !app_assoc. reflexivity.
  - cbn [uses_from next_code].
    destruct (plain_next_facts c Hc) as (_ & _ & _ & _ & H32). rewrite H32.
    rewrite map_code_chars. rewrite (luse_pad_of _ _ _ _ Hu). reflexivity.
Qed.
