(* C18 model: object identity (sharing) semantics of the generated packers/unpackers.

   Values carry a label [nat] on every node that has an identity worth tracking: list,
   set, frozenset, deque, tuple, every mapping, dataclass instances and opaque user
   objects.  Input labels are "old" (< n0); every container the generated code builds
   draws a fresh label from a counter (>= n0); a by-reference expression keeps the node.

   compile_pack / compile_unpack follow the generator's decisions
   (mashumaro/core/meta/types/pack.py pack_collection: _make_sequence_expression /
   _make_mapping_expression, pack_tuple, pack_dataclass, expr_or_maybe_none; unpack.py
   unpack_collection) and produce a small IR; run_pack / run_unpack interpret the IR on
   labelled values.  The model is a pure function: nothing in it can write to a node. *)
From Coq Require Import List Arith Bool ZArith Lia.
Import ListNotations.

(* ------------------------------------------------------------------ *)
(* origins: what `get_type_origin(annotation)` yields; tested against
   no_copy_collections and against `list` / `dict` *)
Inductive origin :=
| OList | ODict | OSet | OFrozenSet | ODeque | OTuple
| OOrderedDict | ODefaultDict | OCounter
| OSequence | OMutableSequence | OAbstractSet | OMutableSet | OMapping | OMutableMapping.

Definition ocode (o: origin) : nat :=
  match o with
  | OList => 0 | ODict => 1 | OSet => 2 | OFrozenSet => 3 | ODeque => 4 | OTuple => 5
  | OOrderedDict => 6 | ODefaultDict => 7 | OCounter => 8
  | OSequence => 9 | OMutableSequence => 10 | OAbstractSet => 11 | OMutableSet => 12
  | OMapping => 13 | OMutableMapping => 14 end.
Definition origin_eqb (a b: origin) : bool := Nat.eqb (ocode a) (ocode b).
Definition inN (N: list origin) (o: origin) : bool := existsb (origin_eqb o) N.

(* runtime container kinds (class of the object); carried for the correspondence,
   irrelevant for the theorems *)
Inductive kind := KList | KSet | KFrozenSet | KDeque | KTuple
                | KDict | KOrderedDict | KDefaultDict | KCounter | KChainMap.

Inductive leafk := LDate | LDecimal | LBytearray.

(* ------------------------------------------------------------------ *)
(* what a dataclass field falls back to when its key is absent from the decoder's input *)
Inductive dflt :=
| DAtom                      (* an immutable default value *)
| DFresh (k: kind).          (* default_factory=list / dict / set / deque / OrderedDict: a new empty container per call *)

Inductive ty :=
| TAtom                                  (* int float bool str None-type: packer is the identity *)
| TLeaf (k: leafk)                       (* leaf with a conversion (isoformat / str / b64) *)
| TAny
| TPass                                  (* position governed by pass_through *)
| TOpt (t: ty)
| TSeq (o: origin) (t: ty)               (* List/Set/FrozenSet/Deque/Sequence/...[t] *)
| TTupV (t: ty)                          (* Tuple[t, ...] *)
| TTup (ts: list ty)                     (* Tuple[t1..tn], NamedTuple, TypedDict-like records *)
| TMap (o: origin) (kt vt: ty)           (* Dict/OrderedDict/Mapping/DefaultDict/Counter *)
| TDC (c: nat)                           (* dataclass number c of the class table *)
| TWrap (t: ty)                          (* Final[t], Annotated[t, ..], NewType over t, PEP 695 alias of t,
                                            Required/NotRequired/ReadOnly[t]: unwrapped and re-dispatched *)
| TUnion (ts: list ty)                   (* Union / constrained TypeVar *)
| TNone                                  (* NoneType as a union member *)
| TLit                                   (* Literal[...] of int / str values: a generated helper returns the value *)
| TAbsent (d: dflt)                      (* decode only: a defaulted field whose key is absent from this input *)
| TComp (k: kind) (t: ty)                (* a sequence-like object of class k that is always rebuilt item by item:
                                            ChainMap[K, V] = TComp KChainMap (TRMap K V) over its .maps *)
| TRMap (kt vt: ty)                      (* a mapping that is always rebuilt by a comprehension (a map of a ChainMap) *)
| TRec (ts: list ty).                    (* TypedDict with these (present) keys: rebuilt key by key into a new dict *)

Inductive lv :=
| VAtom (z: Z)
| VNone
| VLeaf (z: Z)                           (* date / Decimal object: immutable, not basic *)
| VOpq (l: nat)                          (* opaque mutable user object *)
| VSeq (k: kind) (l: nat) (xs: list lv)
| VMap (k: kind) (l: nat) (kvs: list (lv * lv))
| VObj (c: nat) (l: nat) (fs: list lv).  (* dataclass instance, fields in class order *)

(* a dialect as far as C18 cares: its no_copy_collections, if it sets one *)
Definition dialect := option (list origin).

Record cls := {
  c_sup : bool;                 (* ADD_DIALECT_SUPPORT enabled *)
  c_nc : dialect;               (* Config.dialect, if any *)
  c_fields : list ty;
}.

Record env := {
  e_ct : nat -> cls;            (* class table *)
  e_fmt : dialect;              (* default dialect of the format mixin / codec *)
  e_lp : leafk -> bool;         (* leaf kinds the default dialect passes through on serialize *)
}.

(* get_dialect_or_config_option("no_copy_collections", ()):
   call dialect > Config.dialect > (Config has no such attribute) > default dialect > () *)
Definition first_nc (call cfg dflt: dialect) : list origin :=
  match call with
  | Some n => n
  | None => match cfg with
            | Some n => n
            | None => match dflt with Some n => n | None => [] end end end.

(* the call dialect reaches a class only through the `dialect=` keyword, which exists
   only with ADD_DIALECT_SUPPORT.  [call] = Some d when a dialect object was passed;
   d = None when that dialect does not set no_copy_collections *)
Definition effN (E: env) (call: option dialect) (k: cls) : list origin :=
  first_nc (match call with Some d => if k.(c_sup) then d else None | None => None end)
           k.(c_nc) E.(e_fmt).

(* ------------------------------------------------------------------ *)
(* IR of pack expressions *)
Inductive ir :=
| IId                              (* the bare name: "value" / "key" / spec.expression *)
| IConv                            (* value.isoformat(), encodebytes(value).decode(): raises on other classes *)
| IStr                             (* str(value): never raises *)
| IOpt (e: ir)                     (* e if value is not None else None  (and the builder's None guard) *)
| ICopy                            (* value.copy() *)
| ISeqComp (e: ir)                 (* [e for value in x] *)
| IMapComp (ke ve: ir)             (* {ke: ve for key, value in x.items()} *)
| ITup (es: list ir)               (* [e0(x[0]), e1(x[1]), ...] *)
| ICall (c: nat) (fw: bool)        (* x.__mashumaro_to_dict__(dialect=dialect if fw) *)
| IRec (es: list ir)               (* TypedDict packer: d = {}; d[k_i] = e_i(value[k_i]); return d *)
| ILit                             (* call of the generated literal packer: returns the value, raises otherwise *)
| IUnion (idc: list nat) (es: list ir).
     (* union packer method (pack.py pack_union): `if value.__class__ in idc: return value` for the
        members whose packer is the bare name, then `try: return e` for the other members in
        declaration order; es lists all members' packers (the identity ones are skipped) *)

Definition is_id (e: ir) : bool := match e with IId => true | _ => false end.

(* class tags: what `value.__class__ is <origin of the member>` compares *)
Definition kcode (k: kind) : nat :=
  match k with KList => 10 | KSet => 11 | KFrozenSet => 12 | KDeque => 13 | KTuple => 14
             | KDict => 15 | KOrderedDict => 16 | KDefaultDict => 17 | KCounter => 18 | KChainMap => 19 end.
Definition kind_eqb (a b: kind) : bool := Nat.eqb (kcode a) (kcode b).
(* the concrete class an origin denotes; abstract origins are never the class of a value *)
Definition ocls (o: origin) : list nat :=
  match o with
  | OList => [10] | OSet => [11] | OFrozenSet => [12] | ODeque => [13] | OTuple => [14]
  | ODict => [15] | OOrderedDict => [16] | ODefaultDict => [17] | OCounter => [18]
  | _ => [] end.
(* classes guarded by the identity branch of a union for a member type (atoms, leaves and opaque
   objects are not distinguished further in this model) *)
Definition tid (t: ty) : list nat :=
  match t with
  | TAtom => [0] | TNone => [1] | TLeaf _ => [2] | TPass => [3]
  | TSeq o _ => ocls o | TMap o _ _ => ocls o
  | _ => [] end.

(* pack.py:803-809 *)
Definition seq_expr (N: list origin) (o: origin) (ie: ir) : ir :=
  if is_id ie then
    if inN N o then IId
    else if origin_eqb o OList then ICopy
    else ISeqComp ie
  else ISeqComp ie.

(* pack.py:811-817 *)
Definition map_expr (N: list origin) (o: origin) (ke ve: ir) : ir :=
  if is_id ke && is_id ve then
    if inN N o then IId
    else if origin_eqb o ODict then ICopy
    else IMapComp ke ve
  else IMapComp ke ve.

Section Compile.
  Variable E : env.
  Variable N : list origin.     (* effective no_copy_collections of the holder's builder *)
  Variable hsup : bool.         (* holder has ADD_DIALECT_SUPPORT *)

  Fixpoint cp (t: ty) : ir :=
    match t with
    | TAtom => IId
    | TLeaf k => if E.(e_lp) k then IId else match k with LDecimal => IStr | _ => IConv end
    | TAny => IId
    | TPass => IId
    | TOpt t' => IOpt (cp t')
    | TSeq o t' => seq_expr N o (cp t')
    | TTupV t' => ISeqComp (cp t')
    | TTup ts => ITup (map cp ts)
    | TMap o kt vt => map_expr N o (cp kt) (cp vt)
    | TDC c => ICall c (hsup && (E.(e_ct) c).(c_sup))
    | TWrap t' => cp t'                       (* pack_final / Registry.get (Annotated) / NewType / alias *)
    | TUnion ts =>
        let es := map cp ts in
        if forallb is_id es then IId          (* pack_union: a single "value" packer *)
        else IUnion (flat_map (fun t' => if is_id (cp t') then tid t' else []) ts) es
    | TNone => IId
    | TLit => ILit
    | TAbsent _ => IId
    | TComp _ t' => ISeqComp (cp t')
    | TRMap kt vt => IMapComp (cp kt) (cp vt)
    | TRec ts => IRec (map cp ts)
    end.
End Compile.

(* ------------------------------------------------------------------ *)
(* threading the label counter through a list *)
Section MapSt.
  Context {A B: Type} (f: A -> nat -> B * nat).
  Fixpoint map_st (xs: list A) (n: nat) : list B * nat :=
    match xs with
    | [] => ([], n)
    | x :: r => let (y, n1) := f x n in
                let (ys, n2) := map_st r n1 in (y :: ys, n2)
    end.
End MapSt.

(* zip a list of values with a list of per-position parameters *)
Section ZipSt.
  Context {A B C: Type} (f: A -> B -> nat -> C * nat).
  Fixpoint zip_st (es: list B) (xs: list A) (m: nat) {struct xs} : list C * nat :=
    match es, xs with
    | e' :: es', x :: xs' =>
        let (y, m1) := f x e' m in
        let (ys, m2) := zip_st es' xs' m1 in (y :: ys, m2)
    | _, _ => ([], m)
    end.
End ZipSt.

Section ZipApp.
  Context {A B C: Type} (g: A -> B -> list C).
  Fixpoint zip_app (ts: list B) (xs: list A) {struct xs} : list C :=
    match ts, xs with
    | t' :: ts', x :: xs' => g x t' ++ zip_app ts' xs'
    | _, _ => []
    end.
End ZipApp.

Section ZipAll.
  Context {A B: Type} (p: A -> B -> bool).
  Fixpoint zip_all (ts: list B) (xs: list A) {struct xs} : bool :=
    match ts, xs with
    | [], [] => true
    | t' :: ts', x :: xs' => p x t' && zip_all ts' xs'
    | _, _ => false
    end.
End ZipAll.

Section Pick.
  Context {A B: Type} (m: A -> bool) (f: A -> B) (d: B).
  Fixpoint pick (l: list A) : B :=
    match l with
    | [] => d
    | x :: r => if m x then f x else pick r
    end.
End Pick.

Definition vcls (v: lv) : nat :=
  match v with
  | VAtom _ => 0 | VNone => 1 | VLeaf _ => 2 | VOpq _ => 3
  | VSeq k _ _ => kcode k | VMap k _ _ => kcode k | VObj c _ _ => 100 + c end.
Definition in_idc (idc: list nat) (v: lv) : bool := existsb (Nat.eqb (vcls v)) idc.

(* does the expression evaluate on v without raising (it is tried inside `try: ... except Exception`)?
   Python duck typing as far as the value universe can tell: a comprehension iterates any sequence or the
   keys of a mapping; .copy() exists on list/set/frozenset/deque/dict-likes, not on tuples; .items()
   only on mappings; x[i] on list/tuple/deque; a dataclass packer only on dataclass instances *)
Fixpoint accepts (v: lv) {struct v} : ir -> bool :=
  fix on_ir (e: ir) {struct e} : bool :=
    match e with
    | IId | IStr => true
    | ILit => match v with VAtom _ => true | _ => false end
    | IConv => match v with VLeaf _ => true | _ => false end
    | IOpt e' => match v with VNone => true | _ => on_ir e' end
    | ICopy => match v with
               | VSeq k _ _ => negb (Nat.eqb (kcode k) 14)
               | VMap _ _ _ => true
               | _ => false end
    | ISeqComp e' =>
        match v with
        | VSeq _ _ xs => forallb (fun x => accepts x e') xs
        | VMap _ _ kvs => forallb (fun kv => match kv with (k, _) => accepts k e' end) kvs
        | _ => false end
    | IMapComp ke ve =>
        match v with
        | VMap _ _ kvs => forallb (fun kv => match kv with (k, x) => accepts k ke && accepts x ve end) kvs
        | _ => false end
    | ITup es =>
        match v with
        | VSeq k _ xs =>
            (Nat.eqb (kcode k) 10 || Nat.eqb (kcode k) 13 || Nat.eqb (kcode k) 14) &&
            (length es <=? length xs) && zip_all accepts es xs
        | _ => false end
    | ICall _ _ => match v with VObj _ _ _ => true | _ => false end
    | IRec es =>
        match v with
        | VMap _ _ kvs => (length es <=? length kvs) &&
                          zip_all (fun kv e' => match kv with (_, x) => accepts x e' end) es kvs
        | _ => false end
    | IUnion idc es => in_idc idc v || existsb (fun e' => negb (is_id e') && on_ir e') es
    end.

(* the packed form of a dataclass: a new dict {name: packed field}; key strings are
   immutable atoms (their text is irrelevant here) *)
Definition as_items (ys: list lv) : list (lv * lv) := map (fun y => (VAtom 0, y)) ys.

Section RunPack.
  Variable E : env.

  (* run_pack v call e n: value, call dialect in force, expression, next fresh label *)
  Fixpoint run_pack (v: lv) {struct v} : option dialect -> ir -> nat -> lv * nat :=
    fun call =>
    fix on_ir (e: ir) {struct e} : nat -> lv * nat :=
      fun n =>
      match e with
      | IId => (v, n)
      | IConv => match v with VLeaf z => (VAtom z, n) | _ => (v, n) end
      | IStr => match v with VLeaf z => (VAtom z, n) | _ => (VAtom 0, n) end
      | ILit => (v, n)
      | IRec es =>
          match v with
          | VMap _ _ kvs =>
              let (ys, n') :=
                zip_st (fun kv e' m => match kv with (k, x) =>
                          let (y, m1) := run_pack x call e' m in ((k, y), m1) end) es kvs (S n) in
              (VMap KDict n ys, n')
          | _ => (v, n) end
      | IOpt e' => match v with VNone => (VNone, n) | _ => on_ir e' n end
      | ICopy =>
          match v with
          | VSeq k _ xs => match k with
                           | KFrozenSet => (v, n)             (* frozenset.copy() returns the object itself *)
                           | _ => (VSeq k n xs, S n) end
          | VMap k _ kvs => (VMap k n kvs, S n)
          | _ => (v, n) end
      | ISeqComp e' =>
          match v with
          | VSeq _ _ xs =>
              let (ys, n') := map_st (fun x => run_pack x call e') xs (S n) in
              (VSeq KList n ys, n')
          | VMap _ _ kvs =>        (* iterating a mapping yields its keys (only reached from a union's try chain) *)
              let (ys, n') := map_st (fun kv => match kv with (k, _) => run_pack k call e' end) kvs (S n) in
              (VSeq KList n ys, n')
          | _ => (v, n) end
      | IMapComp ke ve =>
          match v with
          | VMap _ _ kvs =>
              let (ys, n') :=
                map_st (fun kv m => match kv with (k, x) =>
                          let (k', m1) := run_pack k call ke m in
                          let (x', m2) := run_pack x call ve m1 in ((k', x'), m2) end)
                       kvs (S n) in
              (VMap KDict n ys, n')
          | _ => (v, n) end
      | ITup es =>
          match v with
          | VSeq _ _ xs =>
              let (ys, n') := zip_st (fun x e' => run_pack x call e') es xs (S n) in
              (VSeq KList n ys, n')
          | _ => (v, n) end
      | ICall _ fw =>
          match v with
          | VObj c' _ fs =>
              let call' := if fw then call else None in
              let k := E.(e_ct) c' in
              let N' := effN E call' k in
              let (ys, n') :=
                zip_st (fun x t => run_pack x call' (cp E N' k.(c_sup) t)) k.(c_fields) fs (S n) in
              (VMap KDict n (as_items ys), n')
          | _ => (v, n) end
      | IUnion idc es =>
          if in_idc idc v then (v, n)
          else pick (fun e' => negb (is_id e') && accepts v e') (fun e' => on_ir e' n) (v, n) es
      end.
End RunPack.

(* ------------------------------------------------------------------ *)
(* conformance of a (python-side) value to a type; container kinds are not constrained:
   the theorems hold for whatever runtime class sits at a position *)
(* member types for which the union packer is modelled (typing flattens nested unions and Optional;
   Any, wrapped and NewType members are compared by objects that are never the class of a value) *)
Definition union_member_ok (t: ty) : bool :=
  match t with
  | TAtom | TNone | TLeaf _ | TPass | TSeq _ _ | TTupV _ | TTup _ | TMap _ _ _ | TDC _ | TLit => true
  | _ => false end.

(* runtime classes a value at a position of the given origin may have (abstract origins admit the
   usual concrete classes) *)
Definition kind_ok (o: origin) (k: kind) : bool :=
  match o, k with
  | OList, KList | OSet, KSet | OFrozenSet, KFrozenSet | ODeque, KDeque | OTuple, KTuple => true
  | OSequence, KList | OSequence, KTuple | OMutableSequence, KList => true
  | OAbstractSet, KSet | OAbstractSet, KFrozenSet | OMutableSet, KSet => true
  | ODict, KDict | ODict, KOrderedDict | OOrderedDict, KOrderedDict => true
  | ODefaultDict, KDefaultDict | OCounter, KCounter => true
  | OMapping, KDict | OMapping, KOrderedDict | OMutableMapping, KDict => true
  | _, _ => false end.
Definition is_tuple_kind (k: kind) : bool := match k with KTuple => true | _ => false end.

Section Conf.
  Variable E : env.
  Fixpoint conforms (v: lv) {struct v} : ty -> bool :=
    fix on_ty (t: ty) {struct t} : bool :=
      match t with
      | TAtom => match v with VAtom _ => true | _ => false end
      | TLeaf _ => match v with VLeaf _ => true | _ => false end
      | TAny | TPass => true
      | TOpt t' => match v with VNone => true | _ => on_ty t' end
      | TSeq o t' =>
          match v with VSeq k _ xs => kind_ok o k && forallb (fun x => conforms x t') xs | _ => false end
      | TTupV t' =>
          match v with VSeq k _ xs => is_tuple_kind k && forallb (fun x => conforms x t') xs | _ => false end
      | TTup ts =>
          match v with
          | VSeq k _ xs => is_tuple_kind k && zip_all conforms ts xs
          | _ => false end
      | TMap o kt vt =>
          match v with
          | VMap k _ kvs => kind_ok o k &&
                            forallb (fun kv => match kv with (k, x) => conforms k kt && conforms x vt end) kvs
          | _ => false end
      | TDC c =>
          match v with
          | VObj c' _ fs =>
              Nat.eqb c c' && zip_all conforms (E.(e_ct) c').(c_fields) fs
          | _ => false end
      | TWrap t' => on_ty t'
      | TUnion ts => forallb union_member_ok ts && existsb on_ty ts
      | TNone => match v with VNone => true | _ => false end
      | TLit => match v with VAtom _ => true | _ => false end
      | TAbsent _ => false
      | TComp k t' =>
          match v with VSeq k' _ xs => kind_eqb k k' && forallb (fun x => conforms x t') xs | _ => false end
      | TRMap kt vt =>
          match v with
          | VMap _ _ kvs => forallb (fun kv => match kv with (k, x) => conforms k kt && conforms x vt end) kvs
          | _ => false end
      | TRec ts =>
          match v with
          | VMap _ _ kvs => zip_all (fun kv t' => match kv with (k, x) =>
                                       match k with VAtom _ => conforms x t' | _ => false end end) ts kvs
          | _ => false end
      end.
End Conf.

(* ------------------------------------------------------------------ *)
(* observation: the maximal sub-values of a result whose root has an old label *)
Fixpoint maxold (n0: nat) (r: lv) : list lv :=
  match r with
  | VAtom _ | VNone | VLeaf _ => []
  | VOpq l => if l <? n0 then [r] else []
  | VSeq _ l xs => if l <? n0 then [r] else flat_map (maxold n0) xs
  | VMap _ l kvs => if l <? n0 then [r]
                    else flat_map (fun kv => match kv with (k, x) => maxold n0 k ++ maxold n0 x end) kvs
  | VObj _ l fs => if l <? n0 then [r] else flat_map (maxold n0) fs
  end.

(* all labels of a value are old *)
Fixpoint all_old (n0: nat) (v: lv) : bool :=
  match v with
  | VAtom _ | VNone | VLeaf _ => true
  | VOpq l => l <? n0
  | VSeq _ l xs => (l <? n0) && forallb (all_old n0) xs
  | VMap _ l kvs => (l <? n0) && forallb (fun kv => match kv with (k, x) => all_old n0 k && all_old n0 x end) kvs
  | VObj _ l fs => (l <? n0) && forallb (all_old n0) fs
  end.

(* every label of a value, with repetitions, in traversal order *)
Fixpoint labels (v: lv) : list nat :=
  match v with
  | VAtom _ | VNone | VLeaf _ => []
  | VOpq l => [l]
  | VSeq _ l xs => l :: flat_map labels xs
  | VMap _ l kvs => l :: flat_map (fun kv => match kv with (k, x) => labels k ++ labels x end) kvs
  | VObj _ l fs => l :: flat_map labels fs
  end.

(* the node itself if it has an identity *)
Definition root (v: lv) : list lv :=
  match v with VAtom _ | VNone | VLeaf _ => [] | _ => [v] end.

(* ------------------------------------------------------------------ *)
(* the property's side: where may / must the result hold the very input sub-value?
   [cf N t]: "elements of type t need no conversion" *)

(* reading of the property text: a type needs no conversion iff packing it is the
   identity: atoms, Any, pass_through, Optional of such, and collections that are
   themselves passed by reference *)
Section ConvFree.
  Variable E : env.
  Variable N : list origin.
  Fixpoint conv_free (t: ty) : bool :=
    match t with
    | TAtom | TAny | TPass => true
    | TLeaf k => E.(e_lp) k
    | TOpt t' => conv_free t'
    | TSeq o t' => inN N o && conv_free t'
    | TMap o kt vt => inN N o && conv_free kt && conv_free vt
    | TTupV _ | TTup _ | TDC _ => false
    | TWrap t' => conv_free t'
    | TUnion ts => forallb conv_free ts
    | TNone | TLit | TAbsent _ => true
    | TComp _ _ | TRMap _ _ | TRec _ => false
    end.

  (* the generator's test: the element expression is the bare name *)
  Definition ident (t: ty) : bool := is_id (cp E N false t).
End ConvFree.

Section ByRef.
  Variable E : env.
  Variable cf : list origin -> ty -> bool.

  (* byref v call N t: the input sub-values at (a) Any / pass_through positions and
     (b) collection positions whose origin is in N and whose elements are conversion
     free -- in traversal order; inside a dataclass the class's own effective N rules *)
  Fixpoint byref (v: lv) {struct v} : option dialect -> list origin -> bool -> ty -> list lv :=
    fun call N hsup =>
    fix on_ty (t: ty) {struct t} : list lv :=
      match t with
      | TAtom | TLeaf _ => []
      | TAny | TPass => root v
      | TOpt t' => match v with VNone => [] | _ => on_ty t' end
      | TSeq o t' =>
          match v with
          | VSeq _ _ xs => if inN N o && cf N t' then [v]
                           else flat_map (fun x => byref x call N hsup t') xs
          | _ => [] end
      | TTupV t' =>
          match v with
          | VSeq _ _ xs => flat_map (fun x => byref x call N hsup t') xs
          | _ => [] end
      | TTup ts =>
          match v with
          | VSeq _ _ xs => zip_app (fun x t' => byref x call N hsup t') ts xs
          | _ => [] end
      | TMap o kt vt =>
          match v with
          | VMap _ _ kvs =>
              if inN N o && cf N kt && cf N vt then [v]
              else flat_map (fun kv => match kv with (k, x) =>
                                byref k call N hsup kt ++ byref x call N hsup vt end) kvs
          | _ => [] end
      | TDC c =>
          match v with
          | VObj c' _ fs =>
              let call' := if hsup && (E.(e_ct) c).(c_sup) then call else None in
              let k := E.(e_ct) c' in
              let N' := effN E call' k in
              zip_app (fun x t' => byref x call' N' k.(c_sup) t') k.(c_fields) fs
          | _ => [] end
      | TWrap t' => on_ty t'
      | TUnion ts => pick (fun t' => conforms E v t') on_ty [] ts     (* the member the value belongs to *)
      | TNone | TLit | TAbsent _ => []
      | TComp _ t' =>
          match v with VSeq _ _ xs => flat_map (fun x => byref x call N hsup t') xs | _ => [] end
      | TRMap kt vt =>
          match v with
          | VMap _ _ kvs => flat_map (fun kv => match kv with (k, x) =>
                                        byref k call N hsup kt ++ byref x call N hsup vt end) kvs
          | _ => [] end
      | TRec ts =>
          match v with
          | VMap _ _ kvs => zip_app (fun kv t' => match kv with (_, x) => byref x call N hsup t' end) ts kvs
          | _ => [] end
      end.
End ByRef.

(* ------------------------------------------------------------------ *)
(* Domain predicate for unions on the encode side: at every union position the value reaches, the
   dispatch of the generated union method (identity members by exact class first, then the other
   members' packers tried in declaration order) lands on the first member the value conforms to.
   Where it does not, the library packs the value with the wrong member (known finding
   C18/nocopy-union-class-check is such a case); the sharing theorem is stated under udet. *)
Section UGo.
  Context {A: Type} (conf idm acc rec: A -> bool) (allid inid: bool).
  Fixpoint ugo (l: list A) : bool :=
    match l with
    | [] => false
    | t' :: r =>
        if conf t' then (if idm t' then allid || inid else negb inid && acc t') && rec t'
        else negb (negb (idm t') && acc t') && ugo r
    end.
End UGo.

Section UDet.
  Variable E : env.
  Fixpoint udet (v: lv) {struct v} : option dialect -> list origin -> bool -> ty -> bool :=
    fun call N hsup =>
    fix on_ty (t: ty) {struct t} : bool :=
      match t with
      | TAtom | TLeaf _ | TAny | TPass | TNone | TLit | TAbsent _ => true
      | TOpt t' => match v with VNone => true | _ => on_ty t' end
      | TWrap t' => on_ty t'
      | TSeq _ t' | TTupV t' =>
          match v with VSeq _ _ xs => forallb (fun x => udet x call N hsup t') xs | _ => true end
      | TTup ts =>
          match v with VSeq _ _ xs => zip_all (fun x t' => udet x call N hsup t') ts xs | _ => true end
      | TMap _ kt vt =>
          match v with
          | VMap _ _ kvs => forallb (fun kv => match kv with (k, x) =>
                                       udet k call N hsup kt && udet x call N hsup vt end) kvs
          | _ => true end
      | TDC c =>
          match v with
          | VObj c' _ fs =>
              let call' := if hsup && (E.(e_ct) c).(c_sup) then call else None in
              let k := E.(e_ct) c' in
              let N' := effN E call' k in
              zip_all (fun x t' => udet x call' N' k.(c_sup) t') k.(c_fields) fs
          | _ => true end
      | TUnion ts =>
          let allid := forallb is_id (map (cp E N hsup) ts) in
          let inid := in_idc (flat_map (fun t' => if is_id (cp E N hsup t') then tid t' else []) ts) v in
          ugo (fun t' => conforms E v t') (fun t' => is_id (cp E N hsup t'))
              (fun t' => accepts v (cp E N hsup t')) on_ty allid inid ts
      | TComp _ t' =>
          match v with VSeq _ _ xs => forallb (fun x => udet x call N hsup t') xs | _ => true end
      | TRMap kt vt =>
          match v with
          | VMap _ _ kvs => forallb (fun kv => match kv with (k, x) =>
                                       udet k call N hsup kt && udet x call N hsup vt end) kvs
          | _ => true end
      | TRec ts =>
          match v with
          | VMap _ _ kvs => zip_all (fun kv t' => match kv with (_, x) => udet x call N hsup t' end) ts kvs
          | _ => true end
      end.
End UDet.

(* ------------------------------------------------------------------ *)
(* deserialization: every typed container is built anew *)
Inductive uir :=
| UId                              (* Any / pass_through: the bare name *)
| UAtom                            (* int(value), str(value), ...: immutable result *)
| UConv                            (* date.fromisoformat(value), Decimal(value), bytearray(...) *)
| UOpt (e: uir)
| USeq (k: kind) (e: uir)          (* [..], set([..]), frozenset([..]), deque([..]), tuple([..]) *)
| UMap (k: kind) (ke ve: uir)      (* {..}, OrderedDict({..}), defaultdict(f, {..}), Counter({..}) *)
| UTup (es: list uir)              (* tuple([e0(x[0]), ...]) *)
| UCall (c: nat)                   (* C.__mashumaro_from_dict__(value) *)
| UUnion (ms: list (nat * uir))    (* union method: the member whose wire class fits decodes the value *)
| URec (es: list uir)              (* TypedDict unpacker: a new dict, key by key *)
| UDefault (d: dflt).              (* key absent: the constructor supplies the default / calls the factory *)

(* wire classes by which the members of a union are told apart: scalars are matched by
   exact type, a mapping is not iterated as a list (.items()), a list has no .items() *)
Definition wcls (w: lv) : nat :=
  match w with VAtom _ | VLeaf _ => 0 | VNone => 1 | VSeq _ _ _ => 2 | VMap _ _ _ => 3 | VOpq _ => 4 | VObj _ _ _ => 5 end.
Fixpoint tcls (t: ty) : nat :=
  match t with
  | TWrap t' => tcls t'
  | TAtom | TLeaf _ => 0
  | TOpt _ => 1
  | TSeq _ _ | TTupV _ | TTup _ => 2
  | TMap _ _ _ | TDC _ => 3
  | TAny | TPass => 9          (* accepts everything *)
  | TUnion _ | TAbsent _ => 7  (* typing flattens nested unions: never a direct member *)
  | TNone => 1
  | TLit => 0
  | TComp _ _ => 2
  | TRMap _ _ | TRec _ => 3
  end.
Definition cls_fits (c: nat) (w: lv) : bool := Nat.eqb c 9 || Nat.eqb c (wcls w).



Definition seq_kind (o: origin) : kind :=
  match o with
  | OSet | OAbstractSet | OMutableSet => KSet
  | OFrozenSet => KFrozenSet
  | ODeque => KDeque
  | OTuple => KTuple
  | _ => KList end.
Definition map_kind (o: origin) : kind :=
  match o with
  | OOrderedDict => KOrderedDict
  | ODefaultDict => KDefaultDict
  | OCounter => KCounter
  | _ => KDict end.

Fixpoint cu (t: ty) : uir :=
  match t with
  | TAtom => UAtom
  | TLeaf _ => UConv
  | TAny | TPass => UId
  | TOpt t' => UOpt (cu t')
  | TSeq o t' => USeq (seq_kind o) (cu t')
  | TTupV t' => USeq KTuple (cu t')
  | TTup ts => UTup (map cu ts)
  | TMap o kt vt => UMap (map_kind o) (cu kt) (cu vt)
  | TDC c => UCall c
  | TWrap t' => cu t'
  | TUnion ts => UUnion (map (fun t' => (tcls t', cu t')) ts)
  | TNone | TLit => UAtom
  | TAbsent d => UDefault d
  | TComp k t' => USeq k (cu t')
  | TRMap kt vt => UMap KDict (cu kt) (cu vt)
  | TRec ts => URec (map cu ts)
  end.

Section RunUnpack.
  Variable E : env.
  (* the wire form of a dataclass is a mapping whose values are in field order (the
     key lookup itself is not modelled: it does not create or share containers) *)
  Fixpoint run_unpack (w: lv) {struct w} : uir -> nat -> lv * nat :=
    fix on_ir (e: uir) {struct e} : nat -> lv * nat :=
      fun n =>
      match e with
      | UId => (w, n)
      | UAtom => (w, n)
      | UConv => match w with VAtom z => (VLeaf z, n) | _ => (w, n) end
      | UOpt e' => match w with VNone => (VNone, n) | _ => on_ir e' n end
      | USeq k e' =>
          match w with
          | VSeq _ _ xs =>
              let (ys, n') := map_st (fun x => run_unpack x e') xs (S n) in
              (VSeq k n ys, n')
          | _ => (w, n) end
      | UMap k ke ve =>
          match w with
          | VMap _ _ kvs =>
              let (ys, n') :=
                map_st (fun kv m => match kv with (k0, x) =>
                          let (k', m1) := run_unpack k0 ke m in
                          let (x', m2) := run_unpack x ve m1 in ((k', x'), m2) end)
                       kvs (S n) in
              (VMap k n ys, n')
          | _ => (w, n) end
      | UTup es =>
          match w with
          | VSeq _ _ xs =>
              let (ys, n') := zip_st (fun x e' => run_unpack x e') es xs (S n) in
              (VSeq KTuple n ys, n')
          | _ => (w, n) end
      | UCall c =>
          match w with
          | VMap _ _ kvs =>
              let (ys, n') :=
                zip_st (fun kv t => match kv with (_, x) => run_unpack x (cu t) end)
                       (E.(e_ct) c).(c_fields) kvs (S n) in
              (VObj c n ys, n')
          | _ => (w, n) end
      | UUnion ms =>
          pick (fun ce : nat * uir => match ce with (c, _) => cls_fits c w end)
               (fun ce : nat * uir => match ce with (_, e') => on_ir e' n end)
               (VNone, n) ms
      | URec es =>
          match w with
          | VMap _ _ kvs =>
              let (ys, n') :=
                zip_st (fun kv e' m => match kv with (k0, x) =>
                          let (y, m1) := run_unpack x e' m in ((k0, y), m1) end) es kvs (S n) in
              (VMap KDict n ys, n')
          | _ => (w, n) end
      | UDefault d =>
          match d with
          | DAtom => (VAtom 0, n)
          | DFresh k => match k with
                        | KDict | KOrderedDict | KDefaultDict | KCounter => (VMap k n [], S n)
                        | _ => (VSeq k n [], S n) end
          end
      end.

  (* wire conformance: the basic form a decoder of type t accepts *)
  Fixpoint wconforms (w: lv) {struct w} : ty -> bool :=
    fix on_ty (t: ty) {struct t} : bool :=
      match t with
      | TAtom | TLeaf _ => match w with VAtom _ => true | _ => false end
      | TAny | TPass => true
      | TOpt t' => match w with VNone => true | _ => on_ty t' end
      | TSeq _ t' | TTupV t' =>
          match w with VSeq _ _ xs => forallb (fun x => wconforms x t') xs | _ => false end
      | TTup ts =>
          match w with
          | VSeq _ _ xs => zip_all wconforms ts xs
          | _ => false end
      | TMap _ kt vt =>
          match w with
          | VMap _ _ kvs => forallb (fun kv => match kv with (k, x) => wconforms k kt && wconforms x vt end) kvs
          | _ => false end
      | TDC c =>
          match w with
          | VMap _ _ kvs =>
              zip_all (fun kv t' => match kv with (_, x) => wconforms x t' end) (E.(e_ct) c).(c_fields) kvs
          | _ => false end
      | TWrap t' => on_ty t'
      | TUnion ts => pick (fun t' => cls_fits (tcls t') w) on_ty false ts
      | TNone => match w with VNone => true | _ => false end
      | TLit => match w with VAtom _ => true | _ => false end
      | TAbsent _ => true
      | TComp _ t' => match w with VSeq _ _ xs => forallb (fun x => wconforms x t') xs | _ => false end
      | TRMap kt vt =>
          match w with
          | VMap _ _ kvs => forallb (fun kv => match kv with (k, x) => wconforms k kt && wconforms x vt end) kvs
          | _ => false end
      | TRec ts =>
          match w with
          | VMap _ _ kvs => zip_all (fun kv t' => match kv with (k, x) =>
                                       match k with VAtom _ => wconforms x t' | _ => false end end) ts kvs
          | _ => false end
      end.

  (* input sub-values at Any / pass_through positions *)
  Fixpoint anyref (w: lv) {struct w} : ty -> list lv :=
    fix on_ty (t: ty) {struct t} : list lv :=
      match t with
      | TAtom | TLeaf _ => []
      | TAny | TPass => root w
      | TOpt t' => match w with VNone => [] | _ => on_ty t' end
      | TSeq _ t' | TTupV t' =>
          match w with VSeq _ _ xs => flat_map (fun x => anyref x t') xs | _ => [] end
      | TTup ts =>
          match w with
          | VSeq _ _ xs => zip_app anyref ts xs
          | _ => [] end
      | TMap _ kt vt =>
          match w with
          | VMap _ _ kvs => flat_map (fun kv => match kv with (k, x) => anyref k kt ++ anyref x vt end) kvs
          | _ => [] end
      | TDC c =>
          match w with
          | VMap _ _ kvs =>
              zip_app (fun kv t' => match kv with (_, x) => anyref x t' end) (E.(e_ct) c).(c_fields) kvs
          | _ => [] end
      | TWrap t' => on_ty t'
      | TUnion ts => pick (fun t' => cls_fits (tcls t') w) on_ty [] ts
      | TNone | TLit | TAbsent _ => []
      | TComp _ t' => match w with VSeq _ _ xs => flat_map (fun x => anyref x t') xs | _ => [] end
      | TRMap kt vt =>
          match w with
          | VMap _ _ kvs => flat_map (fun kv => match kv with (k, x) => anyref k kt ++ anyref x vt end) kvs
          | _ => [] end
      | TRec ts =>
          match w with
          | VMap _ _ kvs => zip_app (fun kv t' => match kv with (_, x) => anyref x t' end) ts kvs
          | _ => [] end
      end.
End RunUnpack.

(* ------------------------------------------------------------------ *)
(* entry points *)
Definition pack_top (E: env) (call: option dialect) (Ntop: list origin) (t: ty) (v: lv) (n0: nat) : lv * nat :=
  run_pack E v call (cp E Ntop true t) n0.

Definition unpack_top (E: env) (t: ty) (w: lv) (n0: nat) : lv * nat :=
  run_unpack E w (cu t) n0.
