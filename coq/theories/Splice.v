(* C16 - splice sites of the code generator (table K10 is generated from /repo on every
   run by tools/kernels/k10_splices.py) and the condition under which a site is safe. *)
From Coq Require Import List String Ascii NArith Bool Lia.
From Verif Require Import PyStrLit PyLit.
Import ListNotations.
Open Scope N_scope.

(* how a schema-supplied (DATA) value is placed into generated source text *)
Inductive kind :=
| KRepr      (* through repr(): !r conversion, repr(x), map(repr, xs) *)
| KAscii     (* through ascii(): !a conversion, ascii(x) *)
| KGuardedIdent (* spliced as it is, but only when the generator has tested that the value is an
                    identifier, not a keyword, and in NFKC normal form (guard recognised by K10) *)
| KRaw       (* spliced as it is (between static quote characters or not at all) *)
| KUnknown.  (* the scanner could not classify the value or its context: fails closed *)

(* Python types of the values that can reach a repr()/ascii() splice, as far as the generator's
   source guards it (isinstance / type(..) in tests recognised by K10) or the API declares it
   (aliases, keys, discriminator fields and enum member names are str) *)
Inductive vty := TStr | TBytes | TInt | TBool | TNone | TFloat | TTuple | TAny
                | TStrSub | TBytesSub | TIntSub.  (* isinstance guard: instances of SUBCLASSES too (their __repr__ may be overridden) *)

(* repr() of these is a literal of the language (TFloat: finite floats; their repr is digits,
   sign, point and exponent only - not modelled here) *)
Definition literal_kind (t: vty) : bool :=
  match t with TStr | TBytes | TInt | TBool | TNone | TFloat => true | _ => false end.
(* weaker: also admits the sub-class kinds; sound only for values whose type is exactly the builtin *)
Definition literal_kind_sub (t: vty) : bool :=
  match t with TTuple | TAny => false | _ => true end.

Definition vty_eqb (a b: vty) : bool :=
  match a, b with
  | TStr, TStr | TBytes, TBytes | TInt, TInt | TBool, TBool | TNone, TNone
  | TFloat, TFloat | TTuple, TTuple | TAny, TAny | TStrSub, TStrSub | TBytesSub, TBytesSub | TIntSub, TIntSub => true
  | _, _ => false
  end.

(* the type of an atom of the value model *)
Definition atom_ty (v: lit) : option vty :=
  match v with
  | LStr _ => Some TStr | LBytes _ => Some TBytes | LInt _ => Some TInt
  | LBool _ => Some TBool | LNone => Some TNone | _ => None
  end.

Record site := mk_site {
  s_file : string; s_line : nat; s_func : string; s_expr : string; s_origin : string;
  s_kind : kind;
  s_types : list vty; (* value types reaching the splice (empty for raw kinds) *)
  s_before : string;  (* static text of the generated line before the value; newline = line start;
                         code 2 = a CODE placeholder, code 1 = unknown context *)
  s_after : string    (* static text after the value; newline = end of line *)
}.

Definition kind_ok (k: kind) : bool := match k with KRepr | KAscii | KGuardedIdent => true | _ => false end.

(* The literal starts a fresh token: nothing on the line before it opens a string or a
   comment or ends in a backslash, and the character directly before it is not an identifier
   character (string prefix), a quote, or a placeholder/unknown marker. *)
Definition before_char_ok (c: N) : bool :=
  negb (is_quote c) && negb (c =? BS) && negb (c =? 35).
Definition last_char_ok (c: N) : bool := negb (is_ident_char c) && negb (c <? 9).

Definition before_ok (b: list N) : bool :=
  forallb before_char_ok b &&
  match rev b with
  | [] => false
  | c :: _ => last_char_ok c
  end.

(* the text after the literal is known and does not start with a quote (or a marker) *)
Definition after_ok (a: list N) : bool :=
  match a with
  | [] => false
  | c :: _ => negb (c <? 9) && ends_token a   (* not a quote, identifier character, point or ( *)
  end.

(* after a raw identifier the next character must in addition not continue the name *)
Definition after_ident_ok (a: list N) : bool :=
  match a with
  | [] => false
  | c :: _ => negb (is_ident_char c)
  end.

Definition types_ok_gen (lk: vty -> bool) (s: site) : bool :=
  match s_kind s with
  | KRepr | KAscii => negb (match s_types s with [] => true | _ => false end) && forallb lk (s_types s)
  | _ => true
  end.
Definition types_ok := types_ok_gen literal_kind.            (* full: whatever passes the guard *)
Definition types_ok_full := types_ok_gen literal_kind.

Definition site_ok (s: site) : bool :=
  kind_ok (s_kind s) && before_ok (codes (s_before s)) && after_ok (codes (s_after s))
  && match s_kind s with KGuardedIdent => after_ident_ok (codes (s_after s)) | _ => true end
  && types_ok s.

(* full strength: the guards admit no instance of a subclass either *)
Definition site_ok_full (s: site) : bool := site_ok s && types_ok_full s.

(* the text the generator emits for the data string [d] at a site of kind k *)
Definition site_text (k: kind) (p: N -> bool) (d: str) : list N :=
  match k with
  | KAscii => py_ascii d
  | KGuardedIdent => d
  | _ => py_repr p d
  end.

(* identifier characters are inert for the tokenizer state: none of them is a quote, a backslash,
   a newline, a comment sign, a blank or NUL - a raw identifier cannot open or close a literal or
   end the logical line *)
Lemma ident_char_inert c : is_ident_char c = true ->
  is_quote c = false /\ c <> BS /\ c <> 10 /\ c <> 13 /\ c <> 35 /\ c <> 32 /\ c <> 0.
Proof.
  unfold is_ident_char, is_quote, SQ, DQ, BS. intros H.
  repeat match goal with
  | H: _ || _ = true |- _ => apply orb_true_iff in H; destruct H as [H|H]
  | H: _ && _ = true |- _ => apply andb_true_iff in H; destruct H
  end;
  repeat match goal with
  | H: (_ <=? _) = true |- _ => apply N.leb_le in H
  | H: (_ =? _) = true |- _ => apply N.eqb_eq in H
  end;
  (repeat split; [apply orb_false_iff; split; apply N.eqb_neq; lia | lia ..]).
Qed.

Lemma after_ok_ends a rest : after_ok a = true -> ends_token (a ++ rest) = true.
Proof.
  destruct a as [|c a']; [discriminate|]. unfold after_ok. intros H.
  apply andb_true_iff in H. destruct H as [_ H]. exact H.
Qed.

Lemma after_ok_ctx a rest : after_ok a = true -> ctx_ok (a ++ rest) = true.
Proof.
  intros H. pose proof (after_ok_ends a rest H) as E.
  destruct a as [|c a']; [discriminate|]. cbn in *.
  apply andb_true_iff in E. destruct E as [E _].
  apply andb_true_iff in E. destruct E as [E _].
  apply andb_true_iff in E. destruct E as [_ E]. exact E.
Qed.

(* the text emitted for a value of the value model at a repr / ascii site *)
Definition site_value_text (k: kind) (p: N -> bool) (v: lit) : list N :=
  match k with
  | KAscii => render_lit (fun _ => false) v
  | _ => render_lit p v
  end.

(* ------------------------------------------------------------------ round 4: library text inside
   static string literals of the templates ('{fname}', 'Argument for {type_name(self.cls)} ...') *)
Record isite := mk_isite {
  i_file : string; i_line : nat; i_func : string; i_expr : string; i_origin : string;
  i_plain : bool;      (* the origin rules say: identifier / dotted class name / hex / number *)
  i_quote : string;    (* the quote character of the enclosing static literal *)
  i_before : string;   (* static text between the opening quote and the value (2 = another placeholder) *)
  i_after : string     (* static text between the value and the closing quote; 1 = closing quote not found *)
}.

Definition inner_char_ok (c: N) : bool := plain_char c && negb (c =? 1).

Definition isite_ok (s: isite) : bool :=
  i_plain s
  && match codes (i_quote s) with [q] => is_quote q | _ => false end
  && forallb inner_char_ok (codes (i_before s)) && forallb inner_char_ok (codes (i_after s)).
