(* C16 - splice sites of the code generator (table K10 is generated from /repo on every
   run by tools/kernels/k10_splices.py) and the condition under which a site is safe. *)
From Coq Require Import List String Ascii NArith Bool Lia.
From Verif Require Import PyStrLit.
Import ListNotations.
Open Scope N_scope.

(* how a schema-supplied (DATA) value is placed into generated source text *)
Inductive kind :=
| KRepr      (* through repr(): !r conversion, repr(x), map(repr, xs) *)
| KAscii     (* through ascii(): !a conversion, ascii(x) *)
| KGuardedIdent (* spliced as it is, but only when the generator has tested that the value is an
                    identifier, not a keyword, and in NFKC normal form (guard recognised by K10) *)
| KRaw       (* spliced as it is (between static quote characters or not at all) *)
| KUnknown.  (* the scanner could not classify the value or its context: fails closed *)

Record site := mk_site {
  s_file : string; s_line : nat; s_func : string; s_expr : string; s_origin : string;
  s_kind : kind;
  s_before : string;  (* static text of the generated line before the value; newline = line start;
                         code 2 = a CODE placeholder, code 1 = unknown context *)
  s_after : string    (* static text after the value; newline = end of line *)
}.

Definition kind_ok (k: kind) : bool := match k with KRepr | KAscii | KGuardedIdent => true | _ => false end.

(* The literal starts a fresh token: nothing on the line before it opens a string or a
   comment or ends in a backslash, and the character directly before it is not an identifier
   character (string prefix), a quote, or a placeholder/unknown marker. *)
Definition before_char_ok (c: N) : bool :=
  negb (is_quote c) && negb (c =? BS) && negb (c =? 35).
Definition last_char_ok (c: N) : bool := negb (is_ident_char c) && negb (c <? 9).

Definition before_ok (b: list N) : bool :=
  forallb before_char_ok b &&
  match rev b with
  | [] => false
  | c :: _ => last_char_ok c
  end.

(* the text after the literal is known and does not start with a quote (or a marker) *)
Definition after_ok (a: list N) : bool :=
  match a with
  | [] => false
  | c :: _ => negb (is_quote c) && negb (c <? 9)
  end.

(* after a raw identifier the next character must in addition not continue the name *)
Definition after_ident_ok (a: list N) : bool :=
  match a with
  | [] => false
  | c :: _ => negb (is_ident_char c)
  end.

Definition site_ok (s: site) : bool :=
  kind_ok (s_kind s) && before_ok (codes (s_before s)) && after_ok (codes (s_after s))
  && match s_kind s with KGuardedIdent => after_ident_ok (codes (s_after s)) | _ => true end.

(* the text the generator emits for the data string [d] at a site of kind k *)
Definition site_text (k: kind) (p: N -> bool) (d: str) : list N :=
  match k with
  | KAscii => py_ascii d
  | KGuardedIdent => d
  | _ => py_repr p d
  end.

(* identifier characters are inert for the tokenizer state: none of them is a quote, a backslash,
   a newline, a comment sign, a blank or NUL - a raw identifier cannot open or close a literal or
   end the logical line *)
Lemma ident_char_inert c : is_ident_char c = true ->
  is_quote c = false /\ c <> BS /\ c <> 10 /\ c <> 13 /\ c <> 35 /\ c <> 32 /\ c <> 0.
Proof.
  unfold is_ident_char, is_quote, SQ, DQ, BS. intros H.
  repeat match goal with
  | H: _ || _ = true |- _ => apply orb_true_iff in H; destruct H as [H|H]
  | H: _ && _ = true |- _ => apply andb_true_iff in H; destruct H
  end;
  repeat match goal with
  | H: (_ <=? _) = true |- _ => apply N.leb_le in H
  | H: (_ =? _) = true |- _ => apply N.eqb_eq in H
  end;
  (repeat split; [apply orb_false_iff; split; apply N.eqb_neq; lia | lia ..]).
Qed.

Lemma after_ok_ctx a rest : after_ok a = true -> ctx_ok (a ++ rest) = true.
Proof.
  destruct a as [|c a']; [discriminate|]. cbn. intros H.
  apply andb_true_iff in H. destruct H as [H _]. exact H.
Qed.
