(* C16 - splice sites of the code generator (table K10 is generated from /repo on every
   run by tools/kernels/k10_splices.py) and the condition under which a site is safe. *)
From Coq Require Import List String Ascii NArith Bool.
From Verif Require Import PyStrLit.
Import ListNotations.
Open Scope N_scope.

(* how a schema-supplied (DATA) value is placed into generated source text *)
Inductive kind :=
| KRepr      (* through repr(): !r conversion, repr(x), map(repr, xs) *)
| KAscii     (* through ascii(): !a conversion, ascii(x) *)
| KRaw       (* spliced as it is (between static quote characters or not at all) *)
| KUnknown.  (* the scanner could not classify the value or its context: fails closed *)

Record site := mk_site {
  s_file : string; s_line : nat; s_func : string; s_expr : string; s_origin : string;
  s_kind : kind;
  s_before : string;  (* static text of the generated line before the value; newline = line start;
                         code 2 = a CODE placeholder, code 1 = unknown context *)
  s_after : string    (* static text after the value; newline = end of line *)
}.

Definition kind_ok (k: kind) : bool := match k with KRepr | KAscii => true | _ => false end.

(* The literal starts a fresh token: nothing on the line before it opens a string or a
   comment or ends in a backslash, and the character directly before it is not an identifier
   character (string prefix), a quote, or a placeholder/unknown marker. *)
Definition before_char_ok (c: N) : bool :=
  negb (is_quote c) && negb (c =? BS) && negb (c =? 35).
Definition last_char_ok (c: N) : bool := negb (is_ident_char c) && negb (c <? 9).

Definition before_ok (b: list N) : bool :=
  forallb before_char_ok b &&
  match rev b with
  | [] => false
  | c :: _ => last_char_ok c
  end.

(* the text after the literal is known and does not start with a quote (or a marker) *)
Definition after_ok (a: list N) : bool :=
  match a with
  | [] => false
  | c :: _ => negb (is_quote c) && negb (c <? 9)
  end.

Definition site_ok (s: site) : bool :=
  kind_ok (s_kind s) && before_ok (codes (s_before s)) && after_ok (codes (s_after s)).

(* the text the generator emits for the data string [d] at a site of kind k *)
Definition site_text (k: kind) (p: N -> bool) (d: str) : list N :=
  match k with
  | KAscii => py_ascii d
  | _ => py_repr p d
  end.

Lemma after_ok_ctx a rest : after_ok a = true -> ctx_ok (a ++ rest) = true.
Proof.
  destruct a as [|c a']; [discriminate|]. cbn. intros H.
  apply andb_true_iff in H. destruct H as [H _]. exact H.
Qed.
