(* Universe for kernel K118e: the code pack.py emits for a wrapper type in terms of the packer of the inner type. *)
Inductive wshape :=
| WInner      (* the inner type's packer, unchanged: PackerRegistry.get(spec.copy(type=<inner>)) *)
| WOpt        (* expr_or_maybe_none(spec, <inner packer>): guarded by `... if <expr> is not None else None` when
                 spec.could_be_none *)
| WSame       (* spec.expression *)
| WLiteral    (* pack_literal(spec): call of a generated helper *)
| WUnion.     (* pack_union(spec, members): call of a generated method *)
