(* C16 (round 6) - helpers.literal_repr: the text placed into generated code for a Literal value.

     def literal_repr(value):
         for base in (bool, int, str, bytes):
             if isinstance(value, base):
                 return base.__repr__(value)
         return repr(value)

   Kernel K116a reads the tuple of bases (in order), the hit branch and the fallback from /repo on
   every run; this file interprets such a table on Python objects as far as repr() is concerned:
   a builtin payload, whether the object's type is exactly the builtin type, and - for an instance
   of a SUBCLASS - whatever its own __repr__ returns (arbitrary text: the 12c7fd8 defect spliced
   that).  Modelled CPython facts: bool is a subclass of int (isinstance(True, int)), int.__repr__
   of a bool is 1 / 0, bool and NoneType cannot be subclassed, X.__repr__(v) of the builtin base X
   ignores overrides.  Compared on every run with the real function on real objects (subclasses
   with adversarial __repr__), harness/props/c16.py "literal_repr". *)
From Coq Require Import List NArith ZArith Bool.
From Verif Require Import PyStrLit PyLit.
Import ListNotations.
Open Scope N_scope.

Inductive lbase := BBool | BInt | BStr | BBytes | BOther.   (* BOther: any other class named in the tuple *)
Inductive lhit := HBaseRepr    (* base.__repr__(value) *)
                | HOwnRepr.    (* repr(value): the object's own __repr__ *)

Record pyobj := mk_obj {
  o_prim : lit;        (* the builtin payload: LStr / LBytes / LInt / LBool / LNone *)
  o_exact : bool;      (* type(value) is exactly the builtin type *)
  o_repr : list N      (* what a subclass's own __repr__ returns (ignored for exact types) *)
}.

Inductive pkind := KStr | KBytes | KInt | KBool | KNone | KNotAtom.
Definition kind_of (v: lit) : pkind :=
  match v with
  | LStr _ => KStr | LBytes _ => KBytes | LInt _ => KInt | LBool _ => KBool | LNone => KNone
  | _ => KNotAtom
  end.

(* isinstance(value, base) for a value of payload kind k; an unknown base is not interpreted *)
Definition isinst_k (k: pkind) (b: lbase) : bool :=
  match k, b with
  | KBool, BBool | KBool, BInt | KInt, BInt | KStr, BStr | KBytes, BBytes => true
  | _, _ => false
  end.
Definition isinst (v: pyobj) : lbase -> bool := isinst_k (kind_of (o_prim v)).

(* the objects the Literal[...] guard of the generator lets through: atoms; bool and None exact *)
Definition obj_wf (v: pyobj) : bool :=
  match o_prim v with
  | LStr _ | LBytes _ | LInt _ => true
  | LBool _ | LNone => o_exact v
  | _ => false
  end.

(* base.__repr__(value) of the builtin base: None = TypeError (descriptor needs an instance of base) *)
Definition base_repr (p: N -> bool) (b: lbase) (v: pyobj) : option (list N) :=
  match b, o_prim v with
  | BBool, LBool x => Some (render_lit p (LBool x))
  | BInt, LInt z => Some (render_int z)
  | BInt, LBool x => Some (render_int (if x then 1 else 0)%Z)
  | BStr, LStr s => Some (py_repr p s)
  | BBytes, LBytes s => Some (py_repr_bytes s)
  | _, _ => None
  end.

Definition own_repr (p: N -> bool) (v: pyobj) : list N :=
  if o_exact v then render_lit p (o_prim v) else o_repr v.

Definition has_other (bases: list lbase) : bool :=
  existsb (fun b => match b with BOther => true | _ => false end) bases.

(* the function as the table describes it (None: raises, or a base the model does not interpret) *)
Fixpoint lr_loop (p: N -> bool) (bases: list lbase) (hit fallback: lhit) (v: pyobj) : option (list N) :=
  match bases with
  | [] => match fallback with HOwnRepr => Some (own_repr p v) | HBaseRepr => None end
  | b :: r =>
      if isinst v b then
        match hit with HBaseRepr => base_repr p b v | HOwnRepr => Some (own_repr p v) end
      else lr_loop p r hit fallback v
  end.
Definition lr_model (p: N -> bool) (bases: list lbase) (hit fallback: lhit) (v: pyobj) : option (list N) :=
  if has_other bases then None else lr_loop p bases hit fallback v.

(* a table is good when the first base that matches each payload kind is the kind's own builtin type
   (bool BEFORE int), a hit goes through the base's __repr__, and only None-like values fall through *)
Definition first_base (k: pkind) (bases: list lbase) : option lbase := find (isinst_k k) bases.
Definition lbase_is (a: option lbase) (b: lbase) : bool :=
  match a, b with
  | Some BBool, BBool | Some BInt, BInt | Some BStr, BStr | Some BBytes, BBytes => true
  | _, _ => false
  end.
Definition lr_table_ok (bases: list lbase) (hit fallback: lhit) : bool :=
  negb (has_other bases)
  && match hit with HBaseRepr => true | _ => false end
  && match fallback with HOwnRepr => true | _ => false end
  && lbase_is (first_base KBool bases) BBool && lbase_is (first_base KInt bases) BInt
  && lbase_is (first_base KStr bases) BStr && lbase_is (first_base KBytes bases) BBytes.

(* what the tie evaluates: (payload, exact?, own repr text, text the real function returned) *)
Definition lr_case_ok (p: N -> bool) (bases: list lbase) (hit fallback: lhit)
                      (c: (lit * bool * list N) * list N) : bool :=
  match c with
  | ((v, ex, r), expect) =>
      match lr_model p bases hit fallback (mk_obj v ex r) with
      | Some t => leqb t expect
      | None => false
      end
  end.
