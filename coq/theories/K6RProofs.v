(* `required` of a dataclass schema: the decision in on_dataclass (kernel K6R) composed with
   CodeBuilder.is_field_nullable (kernel K20) equals the model's Schema.frequired; the serializer's
   key dropping under omit_none uses the same K20 test (Schema.fnullable). *)
From Coq Require Import List String Ascii ZArith Bool.
From Verif Require Import Regex PyK PyK_nullable K20Proofs JValid Schema.
From VerifGen Require Import K20 K6R.
Import ListNotations.

Theorem schema_requires_spec_thm : forall h o nl : bool,
  schema_requires (KBool h) (KBool o) (KBool nl) = Ok (KBool (negb h && negb (o && nl))).
Proof. intros [|] [|] [|]; reflexivity. Qed.

(* what K20 sees of a model type (the wrappers Annotated / Final are not part of `ty`) *)
Definition core_of_ty (t: ty) : fcore :=
  mkCore (match t with TAny | TNone => true | _ => false end)
         false
         (match t with
          | TUnion [a; b] => is_tnone a || is_tnone b     (* helpers.is_optional: exactly two members, one is None *)
          | _ => false end)
         (match t with TUnion ts => existsb is_tnone ts | _ => false end).   (* a union with a None member *)

Lemma nullable_core t : core_nullable (core_of_ty t) = nullable t.
Proof.
  destruct t as [| | | | | | | | | | | | | | | [|a [|b [|c r]]] | | |]; try reflexivity.
  unfold core_nullable, core_of_ty, nullable. cbn. destruct (is_tnone a), (is_tnone b); reflexivity.
Qed.

(* K20 on the field as written in the class (any stack of Annotated/Final wrappers) = the model's fnullable *)
Theorem fnullable_is_K20_thm : forall (f: field) (ws: list bool),
  is_field_nullable (wrap ws (FCore (core_of_ty (f_ty f)))) (f_dnone f) = fnullable f.
Proof. intros f ws. rewrite K20_wrapped_core_thm, nullable_core. reflexivity. Qed.

(* K6R o K20 = the model's frequired *)
Theorem frequired_is_K6R_thm : forall (omit: bool) (f: field) (ws: list bool),
  schema_requires (KBool (f_has_default f)) (KBool omit)
                  (KBool (is_field_nullable (wrap ws (FCore (core_of_ty (f_ty f)))) (f_dnone f)))
  = Ok (KBool (frequired omit f)).
Proof. intros omit f ws. rewrite fnullable_is_K20_thm, schema_requires_spec_thm. reflexivity. Qed.
