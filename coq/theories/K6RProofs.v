(* `required` of a dataclass schema: the decision in on_dataclass (kernel K6R) composed with
   CodeBuilder.is_field_nullable (kernel K20) equals the model's Schema.frequired; the serializer's
   key dropping under omit_none uses the same K20 test (Schema.fnullable). *)
From Coq Require Import List String Ascii ZArith Bool.
From Verif Require Import Regex PyK PyK_nullable K20Proofs JValid Schema.
From VerifGen Require Import K20 K6R.
Import ListNotations.

Theorem schema_requires_spec_thm : forall h o nl : bool,
  schema_requires (KBool h) (KBool o) (KBool nl) = Ok (KBool (negb h && negb (o && nl))).
Proof. intros [|] [|] [|]; reflexivity. Qed.

(* what K20 sees of a field whose type is written without a bare type variable (the wrappers Annotated / Final are
   not part of `ty`; type variables nested in the written type are already substituted in the model type, and every
   test gives the same answer on the written and on the substituted form) *)
Definition t_any_none (t: ty) : bool := match t with TAny | TNone => true | _ => false end.
Definition t_union_none (t: ty) : bool := match t with TUnion ts => existsb is_tnone ts | _ => false end.
Definition core_of_ty (t: ty) : fcore :=
  mkCore (t_any_none t)
         false
         (match t with
          | TUnion [a; b] => is_tnone a || is_tnone b     (* helpers.is_optional: exactly two members, one is None *)
          | _ => false end)
         (t_union_none t)           (* a union with a None member, as written ... *)
         (t_any_none t)
         (t_union_none t).          (* ... and after substitution *)

(* ... and of a field declared as a bare type variable (`x: T` in a generic dataclass): the written type is the
   variable (none of the tests on `ftype` holds); in the specialisation G[t] the variable stands for t, in the
   unspecialised class it is unbound (is_type_var_any) *)
Definition core_of_tv (bound: option ty) : fcore :=
  match bound with
  | Some t => mkCore false false false false (t_any_none t) (t_union_none t)
  | None => mkCore false true false false false false
  end.

Lemma nullable_core t : core_nullable (core_of_ty t) = nullable t.
Proof.
  destruct t as [| | | | | | | | | | | | | | | [|a [|b [|c r]]] | | |]; try reflexivity.
  unfold core_nullable, core_of_ty, nullable. cbn. destruct (is_tnone a), (is_tnone b); reflexivity.
Qed.

Lemma nullable_core_tv t : core_nullable (core_of_tv (Some t)) = nullable t.
Proof. destruct t; reflexivity. Qed.

(* K20 on the field as written in the class (any stack of Annotated/Final wrappers) = the model's fnullable *)
Theorem fnullable_is_K20_thm : forall (f: field) (ws: list bool),
  is_field_nullable (wrap ws (FCore (core_of_ty (f_ty f)))) (f_dnone f) = fnullable f.
Proof. intros f ws. rewrite K20_wrapped_core_thm, nullable_core. reflexivity. Qed.

(* the same for a field declared as a type variable that this specialisation binds to f_ty f (since /repo 4da7e9e;
   before, the answer was `f_dnone f` whatever the variable was bound to) ... *)
Theorem fnullable_typevar_is_K20_thm : forall (f: field) (ws: list bool),
  is_field_nullable (wrap ws (FCore (core_of_tv (Some (f_ty f))))) (f_dnone f) = fnullable f.
Proof. intros f ws. rewrite K20_wrapped_core_thm, nullable_core_tv. reflexivity. Qed.

(* ... and an unbound one is nullable (it may hold anything; the model type of such a field is TAny) *)
Theorem unbound_typevar_nullable_thm : forall (ws: list bool) d,
  is_field_nullable (wrap ws (FCore (core_of_tv None))) d = true.
Proof. intros ws d. rewrite K20_wrapped_core_thm. reflexivity. Qed.

(* K6R o K20 = the model's frequired *)
Theorem frequired_is_K6R_thm : forall (omit: bool) (f: field) (ws: list bool),
  schema_requires (KBool (f_has_default f)) (KBool omit)
                  (KBool (is_field_nullable (wrap ws (FCore (core_of_ty (f_ty f)))) (f_dnone f)))
  = Ok (KBool (frequired omit f)).
Proof. intros omit f ws. rewrite fnullable_is_K20_thm, schema_requires_spec_thm. reflexivity. Qed.

Theorem frequired_typevar_is_K6R_thm : forall (omit: bool) (f: field) (ws: list bool),
  schema_requires (KBool (f_has_default f)) (KBool omit)
                  (KBool (is_field_nullable (wrap ws (FCore (core_of_tv (Some (f_ty f))))) (f_dnone f)))
  = Ok (KBool (frequired omit f)).
Proof. intros omit f ws. rewrite fnullable_typevar_is_K20_thm, schema_requires_spec_thm. reflexivity. Qed.
