(* C04: proofs about the format-layer model (Format.v).
   The format libraries are section variables with an assumed law (fmt_law); the stdlib
   leaf codecs are section variables with an assumed law (leaf_law).  All theorems are
   closed after the sections (the laws become premises). *)
From Coq Require Import List String Ascii ZArith Bool Lia.
From Verif Require Import Format.
Import ListNotations.
Open Scope string_scope.

(* ------------------------------------------------------------------ *)
(* induction principle for the nested type grammar *)
Section TyInd.
  Variable P : ty -> Prop.
  Hypothesis HInt : P TInt.
  Hypothesis HFloat : P TFloat.
  Hypothesis HBool : P TBool.
  Hypothesis HStr : P TStr.
  Hypothesis HLeaf : forall k, P (TLeaf k).
  Hypothesis HList : forall t, P t -> P (TList t).
  Hypothesis HDict : forall t, P t -> P (TDict t).
  Hypothesis HOpt : forall t, P t -> P (TOpt t).
  Hypothesis HRec : forall c fs, Forall (fun f => P (fst (snd f))) fs -> P (TRec c fs).

  Fixpoint ty_ind' (t: ty) : P t :=
    match t with
    | TInt => HInt | TFloat => HFloat | TBool => HBool | TStr => HStr
    | TLeaf k => HLeaf k
    | TList t' => HList t' (ty_ind' t')
    | TDict t' => HDict t' (ty_ind' t')
    | TOpt t' => HOpt t' (ty_ind' t')
    | TRec c fs =>
        HRec c fs
          ((fix go (l: list (string * (ty * bool))) : Forall (fun f => P (fst (snd f))) l :=
              match l with
              | [] => Forall_nil _
              | f :: r =>
                  Forall_cons f
                    (match f as f0 return P (fst (snd f0)) with (n, (ft, d)) => ty_ind' ft end)
                    (go r)
              end) fs)
    end.
End TyInd.

Section BvInd.
  Variable P : bv -> Prop.
  Hypothesis HNone : P BNone.
  Hypothesis HBool : forall b, P (BBool b).
  Hypothesis HInt : forall z, P (BInt z).
  Hypothesis HFloat : forall f, P (BFloat f).
  Hypothesis HStr : forall s, P (BStr s).
  Hypothesis HNat : forall k p, P (BNat k p).
  Hypothesis HList : forall l, Forall P l -> P (BList l).
  Hypothesis HDict : forall kvs, Forall (fun kv => P (snd kv)) kvs -> P (BDict kvs).

  Fixpoint bv_ind' (b: bv) : P b :=
    match b with
    | BNone => HNone | BBool x => HBool x | BInt z => HInt z | BFloat f => HFloat f
    | BStr s => HStr s | BNat k p => HNat k p
    | BList l =>
        HList l ((fix go (l: list bv) : Forall P l :=
                    match l with [] => Forall_nil _ | x :: r => Forall_cons x (bv_ind' x) (go r) end) l)
    | BDict kvs =>
        HDict kvs ((fix go (l: list (string * bv)) : Forall (fun kv => P (snd kv)) l :=
                      match l with
                      | [] => Forall_nil _
                      | kv :: r => Forall_cons kv
                                     (match kv as kv0 return P (snd kv0) with (k, x) => bv_ind' x end) (go r)
                      end) kvs)
    end.
End BvInd.

(* ------------------------------------------------------------------ *)
(* small facts *)

Lemma bind_ok {A B} (r: res A) (f: A -> res B) b :
  (x <- r ;; f x) = Ok b -> exists a, r = Ok a /\ f a = Ok b.
Proof. destruct r as [a|e]; simpl; intro H; [eauto | discriminate]. Qed.

Lemma lookup_app_none {A} n (pre l: list (string * A)) :
  lookup n pre = None -> lookup n (pre ++ l) = lookup n l.
Proof.
  induction pre as [|[k x] r IH]; simpl; intro H; [reflexivity|].
  destruct (String.eqb k n); [discriminate | auto].
Qed.

Lemma lookup_notin {A} n (l: list (string * A)) : ~ In n (map fst l) -> lookup n l = None.
Proof.
  induction l as [|[k x] r IH]; simpl; intro H; [reflexivity|].
  destruct (String.eqb k n) eqn:E.
  - apply String.eqb_eq in E. exfalso. apply H. left. exact E.
  - apply IH. intro Hin. apply H. right. exact Hin.
Qed.

Lemma lookup_app_snoc_other {A} n m (x: A) pre :
  lookup n pre = None -> m <> n -> lookup n (pre ++ [(m, x)]) = None.
Proof.
  intros H Hne. rewrite lookup_app_none by exact H. simpl.
  destruct (String.eqb m n) eqn:E; [apply String.eqb_eq in E; contradiction | reflexivity].
Qed.

Lemma nodupb_cons x r : nodupb (x :: r) = true -> ~ In x r /\ nodupb r = true.
Proof.
  simpl. intro H. apply andb_true_iff in H. destruct H as [H1 H2]. split; [|exact H2].
  intro Hin. apply negb_true_iff in H1.
  assert (existsb (String.eqb x) r = true) as E.
  { apply existsb_exists. exists x. split; [exact Hin | apply String.eqb_refl]. }
  rewrite E in H1. discriminate.
Qed.

Lemma mapM_rt {A B} (f: A -> res B) (g: B -> res A) (h: B -> B) (l: list A) :
  forall bs,
  (forall x b, In x l -> f x = Ok b -> g (h b) = Ok x) ->
  mapM f l = Ok bs -> mapM g (map h bs) = Ok l.
Proof.
  induction l as [|x r IH]; simpl; intros bs Hf H.
  - inversion H. reflexivity.
  - apply bind_ok in H. destruct H as [y [Hy H]].
    apply bind_ok in H. destruct H as [ys [Hys H]]. inversion H; subst. simpl.
    rewrite (Hf x y (or_introl eq_refl) Hy). simpl.
    rewrite (IH ys); [reflexivity | | exact Hys].
    intros x' b' Hin. apply Hf. right. exact Hin.
Qed.

(* ------------------------------------------------------------------ *)
Section Model.
  Variable render : lkind -> string -> string.
  Variable parse_leaf : lkind -> string -> option string.
  Variable leaf_ok : lkind -> string -> bool.

  (* assumed laws of the stdlib leaf codecs (isoformat/fromisoformat, str/UUID,
     encodebytes/decodebytes ...): validated by sampling, never proved *)
  Hypothesis leaf_law : forall k p, leaf_ok k p = true -> parse_leaf k (render k p) = Some p.
  (* bytes and bytearray share one rendering *)
  Hypothesis render_wire : forall k p, render (wire k) p = render k p.

  Notation pack := (pack render).
  Notation unpack := (unpack parse_leaf).
  Notation norm := (norm render).
  Notation render_natives := (render_natives render).
  Notation leaves_okb := (leaves_okb leaf_ok).

  (* -- None ------------------------------------------------------------------ *)
  Lemma pack_none_inv dl : forall t v, pack dl t v = Ok BNone -> v = VNone.
  Proof.
    induction t as [| | | |k|t IHt|t IHt|t IHt|c fs IHfs] using ty_ind'; intros v H; simpl in H.
    - destruct v; discriminate.
    - destruct v; discriminate.
    - destruct v; discriminate.
    - destruct v; discriminate.
    - destruct v; try discriminate. destruct (lkind_eqb k k0); [|discriminate].
      destruct (d_ser_native dl k); discriminate.
    - destruct v; try discriminate. destruct (mapM (pack dl t) l); discriminate.
    - destruct v; try discriminate. destruct (mapM (on_snd (pack dl t)) kvs); discriminate.
    - destruct v; try reflexivity; apply IHt in H; exact H.
    - destruct v; try discriminate. destruct (String.eqb c c0); [|discriminate].
      destruct (pack_fields (pack dl) (d_omit_none dl) fs fs0); discriminate.
  Qed.

  Lemma pack_vnone dl : forall t b, pack dl t VNone = Ok b -> b = BNone.
  Proof.
    induction t as [| | | |k|t IHt|t IHt|t IHt|c fs IHfs] using ty_ind'; intros b H; simpl in H; try discriminate.
    inversion H. reflexivity.
  Qed.

  Lemma norm_none F b : norm F b = BNone -> b = BNone.
  Proof. destruct b; simpl; try discriminate; try reflexivity. destruct F; discriminate. Qed.

  Lemma unpack_opt_notnone dl t b : b <> BNone -> unpack dl (TOpt t) b = unpack dl t b.
  Proof. intro H. destruct b; try reflexivity. contradiction. Qed.

  (* -- leaves ---------------------------------------------------------------- *)
  Lemma leaf_rt F k p :
    leaf_ok k p = true ->
    unpack (dialect_of F) (TLeaf k)
      (norm F (if d_ser_native (dialect_of F) k then BNat k p else BStr (render k p))) = Ok (VLeaf k p).
  Proof.
    intro Hok.
    destruct F, k; simpl; try rewrite (leaf_law _ _ Hok); reflexivity.
  Qed.

  (* -- record fields ----------------------------------------------------------- *)
  Definition normkv (F: fmt) (kv: string * bv) : string * bv := match kv with (k, x) => (k, norm F x) end.

  Lemma map_fst_normkv F l : map fst (map (normkv F) l) = map fst l.
  Proof. induction l as [|[k x] r IH]; simpl; [reflexivity | rewrite IH; reflexivity]. Qed.

  Lemma pack_fields_keys (P: ty -> pv -> res bv) omit :
    forall fs vs bs, pack_fields P omit fs vs = Ok bs ->
    forall n, In n (map fst bs) -> In n (map fst fs).
  Proof.
    induction fs as [|[n [ft d]] fs' IH]; intros vs bs H m Hin.
    - destruct vs; simpl in H; [inversion H; subst; exact Hin | discriminate].
    - destruct vs as [|[n' x] vs']; simpl in H; [discriminate|].
      destruct (String.eqb n n'); [|discriminate].
      apply bind_ok in H. destruct H as [b [Hb H]].
      apply bind_ok in H. destruct H as [r [Hr H]]. inversion H; subst; clear H.
      simpl. destruct (omit && is_opt ft && is_vnone x).
      + right. eapply IH; eauto.
      + simpl in Hin. destruct Hin as [<-|Hin]; [left; reflexivity | right; eapply IH; eauto].
  Qed.

  Lemma fields_rt F (fs: list (string * (ty * bool))) :
    Forall (fun f => forall v b, leaves_okb v = true -> pack (dialect_of F) (fst (snd f)) v = Ok b ->
                                 unpack (dialect_of F) (fst (snd f)) (norm F b) = Ok v) fs ->
    forall vs bs pre,
    nodupb (map fst fs) = true ->
    (forall n, In n (map fst fs) -> lookup n pre = None) ->
    (d_omit_none (dialect_of F) = true ->
     forallb (fun f => match f with (_, (ft, d)) => negb (is_opt ft) || d end) fs = true) ->
    forallb (fun kv => match kv with (_, x) => leaves_okb x end) vs = true ->
    pack_fields (pack (dialect_of F)) (d_omit_none (dialect_of F)) fs vs = Ok bs ->
    unpack_fields (unpack (dialect_of F)) (pre ++ map (normkv F) bs) fs = Ok vs.
  Proof.
    induction fs as [|[n [ft d]] fs' IH]; intros HF vs bs pre Hnd Hpre Hdef Hlv H.
    - destruct vs; simpl in H; [reflexivity | discriminate].
    - destruct vs as [|[n' x] vs']; simpl in H; [discriminate|].
      destruct (String.eqb n n') eqn:En; [|discriminate].
      apply String.eqb_eq in En. subst n'.
      apply bind_ok in H. destruct H as [b [Hb H]].
      apply bind_ok in H. destruct H as [r [Hr H]]. inversion H; subst bs; clear H.
      inversion HF as [|? ? Hhd Htl]; subst. simpl in Hhd.
      simpl in Hnd. apply nodupb_cons in Hnd. destruct Hnd as [Hnin Hnd].
      simpl in Hlv. apply andb_true_iff in Hlv. destruct Hlv as [Hlx Hlv].
      assert (Hpre_n : lookup n pre = None) by (apply Hpre; left; reflexivity).
      destruct (d_omit_none (dialect_of F) && is_opt ft && is_vnone x) eqn:Eom.
      + (* the key was omitted: lookup misses, the default (None) is taken *)
        apply andb_true_iff in Eom. destruct Eom as [Eom Evn].
        apply andb_true_iff in Eom. destruct Eom as [Eomit Eopt].
        destruct x; try discriminate.
        assert (Hd : d = true).
        { specialize (Hdef Eomit). simpl in Hdef. apply andb_true_iff in Hdef. destruct Hdef as [Hd _].
          rewrite Eopt in Hd. simpl in Hd. exact Hd. }
        subst d. simpl.
        assert (Hmiss : lookup n (pre ++ map (normkv F) r) = None).
        { rewrite lookup_app_none by exact Hpre_n. apply lookup_notin. rewrite map_fst_normkv.
          intro Hin. apply Hnin. eapply pack_fields_keys; eauto. }
        rewrite Hmiss.
        rewrite (IH Htl vs' r pre); simpl; auto.
        * intros m Hm. apply Hpre. right. exact Hm.
        * intro Ho. specialize (Hdef Ho). simpl in Hdef. apply andb_true_iff in Hdef. tauto.
      + simpl. rewrite lookup_app_none by exact Hpre_n. simpl. rewrite String.eqb_refl.
        rewrite (Hhd x b Hlx Hb). simpl.
        replace (pre ++ (n, norm F b) :: map (normkv F) r)%list
          with ((pre ++ [(n, norm F b)]) ++ map (normkv F) r)%list
          by (rewrite <- app_assoc; reflexivity).
        rewrite (IH Htl vs' r (pre ++ [(n, norm F b)])%list); simpl; auto.
        * intros m Hm. apply lookup_app_snoc_other.
          -- apply Hpre. right. exact Hm.
          -- intro Heq. subst m. contradiction.
        * intro Ho. specialize (Hdef Ho). simpl in Hdef. apply andb_true_iff in Hdef. tauto.
  Qed.

  (* -- the round trip on trees ---------------------------------------------------- *)
  Definition defaults_ok (F: fmt) (t: ty) : Prop :=
    d_omit_none (dialect_of F) = true -> defaults_okb t = true.

  Lemma forallb_fields_split (fs: list (string * (ty * bool))) :
    forallb (fun f => match f with (_, (ft, d)) => (negb (is_opt ft) || d) && defaults_okb ft end) fs = true ->
    forallb (fun f => match f with (_, (ft, d)) => negb (is_opt ft) || d end) fs = true /\
    Forall (fun f => defaults_okb (fst (snd f)) = true) fs.
  Proof.
    induction fs as [|[n [ft d]] r IH]; simpl; intro H; [split; [reflexivity | constructor]|].
    apply andb_true_iff in H. destruct H as [H1 H2]. apply andb_true_iff in H1. destruct H1 as [H1 H3].
    destruct (IH H2) as [Ha Hb]. split.
    - rewrite H1, Ha. reflexivity.
    - constructor; [exact H3 | exact Hb].
  Qed.

  Lemma forallb_wf_fields (fs: list (string * (ty * bool))) :
    forallb (fun f => match f with (_, (ft, _)) => wfb ft end) fs = true ->
    Forall (fun f => wfb (fst (snd f)) = true) fs.
  Proof.
    induction fs as [|[n [ft d]] r IH]; simpl; intro H; [constructor|].
    apply andb_true_iff in H. destruct H as [H1 H2]. constructor; [exact H1 | exact (IH H2)].
  Qed.

  Theorem rt_tree F : forall t v b,
    wfb t = true -> defaults_ok F t -> leaves_okb v = true ->
    pack (dialect_of F) t v = Ok b ->
    unpack (dialect_of F) t (norm F b) = Ok v.
  Proof.
    induction t as [| | | |k|t IHt|t IHt|t IHt|c fs IHfs] using ty_ind'; intros v b Hwf Hdef Hlv H; simpl in H.
    - destruct v; try discriminate. inversion H. reflexivity.
    - destruct v; try discriminate. inversion H. reflexivity.
    - destruct v; try discriminate. inversion H. reflexivity.
    - destruct v; try discriminate. inversion H. reflexivity.
    - destruct v; try discriminate. destruct (lkind_eqb k k0) eqn:E; [|discriminate].
      apply lkind_eqb_eq in E. subst k0. inversion H; subst b. apply leaf_rt. exact Hlv.
    - destruct v; try discriminate.
      apply bind_ok in H. destruct H as [bs [Hbs H]]. inversion H; subst b. simpl.
      rewrite (mapM_rt (pack (dialect_of F) t) (unpack (dialect_of F) t) (norm F) l bs); auto.
      intros x bx Hin Hx. apply IHt; auto.
      simpl in Hlv. rewrite forallb_forall in Hlv. apply Hlv. exact Hin.
    - destruct v; try discriminate.
      apply bind_ok in H. destruct H as [bs [Hbs H]]. inversion H; subst b. simpl.
      rewrite (mapM_rt (on_snd (pack (dialect_of F) t)) (on_snd (unpack (dialect_of F) t))
                 (fun kv => match kv with (k, x) => (k, norm F x) end) kvs bs); auto.
      intros [k x] [k' bx] Hin Hx. simpl in Hx.
      apply bind_ok in Hx. destruct Hx as [y [Hy Hx]]. inversion Hx; subst. simpl.
      rewrite (IHt x bx); auto.
      simpl in Hlv. rewrite forallb_forall in Hlv. apply (Hlv (k', x)). exact Hin.
    - destruct v.
      + inversion H. reflexivity.
      + rewrite unpack_opt_notnone; [apply IHt; auto|].
        intro E. apply norm_none in E. subst b. apply pack_none_inv in H. discriminate.
      + rewrite unpack_opt_notnone; [apply IHt; auto|].
        intro E. apply norm_none in E. subst b. apply pack_none_inv in H. discriminate.
      + rewrite unpack_opt_notnone; [apply IHt; auto|].
        intro E. apply norm_none in E. subst b. apply pack_none_inv in H. discriminate.
      + rewrite unpack_opt_notnone; [apply IHt; auto|].
        intro E. apply norm_none in E. subst b. apply pack_none_inv in H. discriminate.
      + rewrite unpack_opt_notnone; [apply IHt; auto|].
        intro E. apply norm_none in E. subst b. apply pack_none_inv in H. discriminate.
      + rewrite unpack_opt_notnone; [apply IHt; auto|].
        intro E. apply norm_none in E. subst b. apply pack_none_inv in H. discriminate.
      + rewrite unpack_opt_notnone; [apply IHt; auto|].
        intro E. apply norm_none in E. subst b. apply pack_none_inv in H. discriminate.
      + rewrite unpack_opt_notnone; [apply IHt; auto|].
        intro E. apply norm_none in E. subst b. apply pack_none_inv in H. discriminate.
    - destruct v; try discriminate.
      destruct (String.eqb c c0) eqn:Ec; [|discriminate]. apply String.eqb_eq in Ec. subst c0.
      apply bind_ok in H. destruct H as [bs [Hbs H]]. inversion H; subst b. simpl.
      simpl in Hwf. apply andb_true_iff in Hwf. destruct Hwf as [Hnd Hwf].
      apply forallb_wf_fields in Hwf.
      assert (Hfs : unpack_fields (unpack (dialect_of F)) ([] ++ map (normkv F) bs) fs = Ok fs0).
      { apply fields_rt; auto.
        - (* per-field induction hypotheses, with their side conditions discharged *)
          clear Hbs Hnd. induction fs as [|[n [ft d]] r IHr]; [constructor|].
          inversion IHfs as [|? ? Hh Ht]; subst. inversion Hwf as [|? ? Hw1 Hw2]; subst.
          constructor.
          + simpl. intros v b Hl Hp. apply Hh; auto.
            intro Ho. specialize (Hdef Ho). simpl in Hdef.
            apply andb_true_iff in Hdef. destruct Hdef as [Hd _].
            apply andb_true_iff in Hd. tauto.
          + apply IHr; auto. intro Ho. specialize (Hdef Ho). simpl in Hdef.
            apply andb_true_iff in Hdef. tauto.
        - intro Ho. specialize (Hdef Ho). simpl in Hdef.
          apply forallb_fields_split in Hdef. tauto. }
      simpl in Hfs.
      replace (map (fun kv => match kv with (k, x) => (k, norm F x) end) bs) with (map (normkv F) bs)
        by reflexivity.
      rewrite Hfs. reflexivity.
  Qed.

  (* -- the document versus the basic form ------------------------------------------ *)
  Lemma pack_bnone_agree dl1 dl2 t v b1 b2 :
    pack dl1 t v = Ok b1 -> pack dl2 t v = Ok b2 -> is_bnone b1 = is_bnone b2.
  Proof.
    intros H1 H2. destruct b1, b2; try reflexivity.
    - apply pack_none_inv in H1. subst v. apply pack_vnone in H2. discriminate.
    - apply pack_none_inv in H1. subst v. apply pack_vnone in H2. discriminate.
    - apply pack_none_inv in H1. subst v. apply pack_vnone in H2. discriminate.
    - apply pack_none_inv in H1. subst v. apply pack_vnone in H2. discriminate.
    - apply pack_none_inv in H1. subst v. apply pack_vnone in H2. discriminate.
    - apply pack_none_inv in H1. subst v. apply pack_vnone in H2. discriminate.
    - apply pack_none_inv in H1. subst v. apply pack_vnone in H2. discriminate.
    - apply pack_none_inv in H2. subst v. apply pack_vnone in H1. discriminate.
    - apply pack_none_inv in H2. subst v. apply pack_vnone in H1. discriminate.
    - apply pack_none_inv in H2. subst v. apply pack_vnone in H1. discriminate.
    - apply pack_none_inv in H2. subst v. apply pack_vnone in H1. discriminate.
    - apply pack_none_inv in H2. subst v. apply pack_vnone in H1. discriminate.
    - apply pack_none_inv in H2. subst v. apply pack_vnone in H1. discriminate.
    - apply pack_none_inv in H2. subst v. apply pack_vnone in H1. discriminate.
  Qed.

  Definition rn (F: fmt) (b: bv) : bv := render_natives (norm F b).
  Definition side (F: fmt) (bb: bv) : bv :=
    if d_omit_none (dialect_of F) then drop_nulls bb else bb.
  Definition nn (F: fmt) (b: bv) : Prop := d_omit_none (dialect_of F) = true -> nonullb b = true.

  Lemma rn_leaf F k p :
    rn F (if d_ser_native (dialect_of F) k then BNat k p else BStr (render k p)) = BStr (render k p).
  Proof.
    unfold rn. destruct F, k; simpl; try reflexivity; try (rewrite <- (render_wire KBytearray p); reflexivity).
  Qed.

  Lemma side_scalar F bb : (forall l, bb <> BList l) -> (forall l, bb <> BDict l) -> side F bb = bb.
  Proof.
    intros H1 H2. unfold side. destruct (d_omit_none (dialect_of F)); [|reflexivity].
    destruct bb; try reflexivity; [exfalso; eapply H1; reflexivity | exfalso; eapply H2; reflexivity].
  Qed.

  Lemma side_list F l : side F (BList l) = BList (map (side F) l).
  Proof.
    unfold side. destruct (d_omit_none (dialect_of F)); simpl; [reflexivity|].
    rewrite map_id. reflexivity.
  Qed.

  (* element-wise lifting for lists *)
  Lemma mapM_doc {A} (f g: A -> res bv) (h k: bv -> bv) (Q: bv -> Prop) (l: list A) :
    forall bs,
    (forall x b, In x l -> Q b -> f x = Ok b -> exists bb, g x = Ok bb /\ h b = k bb) ->
    Forall Q bs ->
    mapM f l = Ok bs -> exists bbs, mapM g l = Ok bbs /\ map h bs = map k bbs.
  Proof.
    induction l as [|x r IH]; simpl; intros bs Hf HQ H.
    - inversion H. exists []. split; reflexivity.
    - apply bind_ok in H. destruct H as [y [Hy H]].
      apply bind_ok in H. destruct H as [ys [Hys H]]. inversion H; subst.
      inversion HQ; subst.
      destruct (Hf x y (or_introl eq_refl) H2 Hy) as [bb [Hg Hh]].
      assert (Hf' : forall x' b', In x' r -> Q b' -> f x' = Ok b' -> exists bb, g x' = Ok bb /\ h b' = k bb).
      { intros x' b' Hin. apply Hf. right. exact Hin. }
      destruct (IH ys Hf' H3 Hys) as [bbs [Hgs Hhs]].
      exists (bb :: bbs). rewrite Hg, Hgs. simpl. rewrite Hh, Hhs. split; reflexivity.
  Qed.

  Lemma nn_list F l : nn F (BList l) -> Forall (nn F) l.
  Proof.
    unfold nn. intro H. apply Forall_forall. intros x Hin Ho. specialize (H Ho). simpl in H.
    rewrite forallb_forall in H. apply H. exact Hin.
  Qed.

  Lemma nn_dict F l : nn F (BDict l) -> Forall (fun kv => nn F (snd kv)) l.
  Proof.
    unfold nn. intro H. apply Forall_forall. intros [k x] Hin Ho. specialize (H Ho). simpl in H.
    rewrite forallb_forall in H. apply (H (k, x)). exact Hin.
  Qed.

  (* mappings: same keys, no entry is dropped (no None values inside a representable TOML tree) *)
  Lemma dict_doc F t (kvs: list (string * pv)) :
    (forall v b, nn F b -> pack (dialect_of F) t v = Ok b ->
                 exists bb, pack basic_dl t v = Ok bb /\ rn F b = side F bb) ->
    forall bs, Forall (fun kv => nn F (snd kv)) bs ->
    mapM (on_snd (pack (dialect_of F) t)) kvs = Ok bs ->
    exists bbs, mapM (on_snd (pack basic_dl t)) kvs = Ok bbs /\
                rn F (BDict bs) = side F (BDict bbs).
  Proof.
    intro IH. induction kvs as [|[k x] r IHr]; simpl; intros bs HQ H.
    - inversion H. exists []. split; [reflexivity|]. unfold rn, side. simpl.
      destruct (d_omit_none (dialect_of F)); reflexivity.
    - apply bind_ok in H. destruct H as [y [Hy H]].
      apply bind_ok in H. destruct H as [ys [Hys H]]. inversion H; subst; clear H.
      apply bind_ok in Hy. destruct Hy as [b [Hb Hy]]. inversion Hy; subst; clear Hy.
      inversion HQ as [|? ? Hq1 Hq2]; subst. simpl in Hq1.
      destruct (IH x b Hq1 Hb) as [bb [Hbb Hrel]].
      destruct (IHr ys Hq2 Hys) as [bbs [Hbbs Hrels]].
      exists ((k, bb) :: bbs). rewrite Hbb. simpl. rewrite Hbbs. simpl. split; [reflexivity|].
      unfold rn, side in *. simpl in *.
      destruct (d_omit_none (dialect_of F)) eqn:Eo.
      + simpl. assert (Enn : is_bnone bb = false).
        { rewrite <- (pack_bnone_agree _ _ _ _ _ _ Hb Hbb).
          unfold nn in Hq1. specialize (Hq1 Eo). destruct b; try reflexivity. discriminate. }
        rewrite Enn. inversion Hrels as [Hr]. rewrite Hrel. reflexivity.
      + inversion Hrels as [Hr]. rewrite Hrel. reflexivity.
  Qed.

  Lemma fields_doc F (fs: list (string * (ty * bool))) :
    Forall (fun f => forall v b, nn F b -> pack (dialect_of F) (fst (snd f)) v = Ok b ->
                                 exists bb, pack basic_dl (fst (snd f)) v = Ok bb /\ rn F b = side F bb) fs ->
    forall vs bs, Forall (fun kv => nn F (snd kv)) bs ->
    pack_fields (pack (dialect_of F)) (d_omit_none (dialect_of F)) fs vs = Ok bs ->
    exists bbs, pack_fields (pack basic_dl) false fs vs = Ok bbs /\
                rn F (BDict bs) = side F (BDict bbs).
  Proof.
    induction fs as [|[n [ft d]] fs' IH]; intros HF vs bs HQ H.
    - destruct vs; simpl in H; [|discriminate]. inversion H. exists []. split; [reflexivity|].
      unfold rn, side. simpl. destruct (d_omit_none (dialect_of F)); reflexivity.
    - destruct vs as [|[n' x] vs']; simpl in H; [discriminate|].
      destruct (String.eqb n n') eqn:En; [|discriminate].
      apply bind_ok in H. destruct H as [b [Hb H]].
      apply bind_ok in H. destruct H as [r [Hr H]]. inversion H; subst bs; clear H.
      inversion HF as [|? ? Hhd Htl]; subst. simpl in Hhd.
      destruct (d_omit_none (dialect_of F) && is_opt ft && is_vnone x) eqn:Eom.
      + (* omitted key: the basic form has it with value None, which ~_F drops *)
        apply andb_true_iff in Eom. destruct Eom as [Eom Evn].
        apply andb_true_iff in Eom. destruct Eom as [Eomit Eopt].
        destruct x; try discriminate. destruct ft; try discriminate.
        destruct (IH Htl vs' r HQ Hr) as [bbs [Hbbs Hrels]].
        exists ((n, BNone) :: bbs). simpl. rewrite En. simpl. rewrite Hbbs. simpl. split; [reflexivity|].
        unfold rn, side in *. rewrite Eomit in *. simpl. simpl in Hrels. exact Hrels.
      + inversion HQ as [|? ? Hq1 Hq2]; subst. simpl in Hq1.
        destruct (Hhd x b Hq1 Hb) as [bb [Hbb Hrel]].
        destruct (IH Htl vs' r Hq2 Hr) as [bbs [Hbbs Hrels]].
        exists ((n, bb) :: bbs). simpl. rewrite En. rewrite Hbb. simpl. rewrite Hbbs. simpl.
        split; [reflexivity|].
        unfold rn, side in *. simpl in *.
        destruct (d_omit_none (dialect_of F)) eqn:Eo.
        * simpl. assert (Enn : is_bnone bb = false).
          { rewrite <- (pack_bnone_agree _ _ _ _ _ _ Hb Hbb).
            unfold nn in Hq1. specialize (Hq1 Eo). destruct b; try reflexivity. discriminate. }
          rewrite Enn. inversion Hrels as [Hr']. rewrite Hrel. reflexivity.
        * inversion Hrels as [Hr']. rewrite Hrel. reflexivity.
  Qed.

  Theorem doc_tree F : forall t v b,
    nn F b -> pack (dialect_of F) t v = Ok b ->
    exists bb, pack basic_dl t v = Ok bb /\ rn F b = side F bb.
  Proof.
    induction t as [| | | |k|t IHt|t IHt|t IHt|c fs IHfs] using ty_ind'; intros v b Hnn H; simpl in H.
    - destruct v; try discriminate. inversion H. eexists. split; [reflexivity|].
      rewrite side_scalar; [reflexivity | discriminate | discriminate].
    - destruct v; try discriminate. inversion H. eexists. split; [reflexivity|].
      rewrite side_scalar; [reflexivity | discriminate | discriminate].
    - destruct v; try discriminate. inversion H. eexists. split; [reflexivity|].
      rewrite side_scalar; [reflexivity | discriminate | discriminate].
    - destruct v; try discriminate. inversion H. eexists. split; [reflexivity|].
      rewrite side_scalar; [reflexivity | discriminate | discriminate].
    - destruct v; try discriminate. destruct (lkind_eqb k k0) eqn:E; [|discriminate].
      inversion H; subst b. simpl. rewrite E. eexists. split; [reflexivity|].
      rewrite rn_leaf. rewrite side_scalar; [reflexivity | discriminate | discriminate].
    - destruct v; try discriminate.
      apply bind_ok in H. destruct H as [bs [Hbs H]]. inversion H; subst b.
      destruct (mapM_doc (pack (dialect_of F) t) (pack basic_dl t) (rn F) (side F) (nn F) l bs) as [bbs [Hb Hm]]; auto.
      { apply nn_list. exact Hnn. }
      exists (BList bbs). simpl. rewrite Hb. simpl. split; [reflexivity|].
      rewrite side_list. rewrite <- Hm. unfold rn. simpl. rewrite map_map. reflexivity.
    - destruct v; try discriminate.
      apply bind_ok in H. destruct H as [bs [Hbs H]]. inversion H; subst b.
      destruct (dict_doc F t kvs IHt bs (nn_dict F bs Hnn) Hbs) as [bbs [Hb Hrel]].
      exists (BDict bbs). simpl. rewrite Hb. simpl. split; [reflexivity | exact Hrel].
    - destruct v; try (apply IHt; assumption).
      inversion H; subst b. exists BNone. split; [reflexivity|].
      unfold rn, side. simpl. destruct (d_omit_none (dialect_of F)); reflexivity.
    - destruct v; try discriminate.
      destruct (String.eqb c c0) eqn:Ec; [|discriminate].
      apply bind_ok in H. destruct H as [bs [Hbs H]]. inversion H; subst b.
      destruct (fields_doc F fs IHfs fs0 bs (nn_dict F bs Hnn) Hbs) as [bbs [Hb Hrel]].
      exists (BDict bbs). simpl. rewrite Ec. simpl. rewrite Hb. simpl. split; [reflexivity | exact Hrel].
  Qed.

  (* for json / yaml / orjson nothing at all is ignored: the parsed document IS the basic form *)
  Lemma norm_id F b : F <> FOrjson -> F <> FMsgpack -> norm F b = b.
  Proof.
    intros H1 H2. induction b as [| | | | |k p|l IHl|kvs IHk] using bv_ind'; simpl; try reflexivity.
    - destruct F; try reflexivity; contradiction.
    - f_equal. induction IHl as [|x r Hx _ IHr]; simpl; [reflexivity|]. rewrite Hx, IHr. reflexivity.
    - f_equal. induction IHk as [|[k x] r Hx _ IHr]; simpl; [reflexivity|]. simpl in Hx. rewrite Hx, IHr. reflexivity.
  Qed.

  Lemma rn_idem_orjson b : render_natives (norm FOrjson b) = norm FOrjson b.
  Proof.
    induction b as [| | | | |k p|l IHl|kvs IHk] using bv_ind'; simpl; try reflexivity.
    - f_equal. induction IHl as [|x r Hx _ IHr]; simpl; [reflexivity|]. rewrite Hx, IHr. reflexivity.
    - f_equal. induction IHk as [|[k x] r Hx _ IHr]; simpl; [reflexivity|]. simpl in Hx. rewrite Hx, IHr. reflexivity.
  Qed.

  Definition exact_fmt (F: fmt) : bool := match F with FJson | FYaml | FOrjson => true | _ => false end.

  Lemma doc_tree_exact F t v b :
    exact_fmt F = true -> pack (dialect_of F) t v = Ok b ->
    exists bb, pack basic_dl t v = Ok bb /\ norm F b = bb.
  Proof.
    intros HF H. destruct F; try discriminate.
    - exists b. split; [exact H | apply norm_id; discriminate].
    - destruct (doc_tree FOrjson t v b) as [bb [Hb Hr]]; auto.
      { unfold nn. simpl. discriminate. }
      exists bb. split; [exact Hb|]. unfold rn, side in Hr. simpl in Hr.
      rewrite rn_idem_orjson in Hr. exact Hr.
    - exists b. split; [exact H | apply norm_id; discriminate].
  Qed.

  (* ------------------------------------------------------------------ *)
  Section Format.
    Variable doc : Type.
    Variable ser : fmt -> bv -> doc.
    Variable parse : fmt -> doc -> option bv.
    Variable leaf_repr : fmt -> lkind -> string -> bool.

    (* the assumed law of the five format libraries (json, orjson, yaml, msgpack, tomli_w/tomllib);
       validated on every generated document, never proved *)
    Hypothesis fmt_law : forall F b, representable leaf_repr F b = true -> parse F (ser F b) = Some (norm F b).

    Definition encode (F: fmt) (t: ty) (v: pv) : res doc :=
      b <- pack (dialect_of F) t v ;; Ok (ser F b).
    Definition decode (F: fmt) (t: ty) (d: doc) : res pv :=
      match parse F d with Some b => unpack (dialect_of F) t b | None => Err EBad end.

    (* F's representable subset *)
    Definition in_subset (F: fmt) (t: ty) (v: pv) : Prop :=
      wfb t = true /\ leaves_okb v = true /\
      exists b, pack (dialect_of F) t v = Ok b /\ representable leaf_repr F b = true.

    Theorem roundtrip F t v d :
      in_subset F t v -> defaults_ok F t -> encode F t v = Ok d -> decode F t d = Ok v.
    Proof.
      intros [Hwf [Hlv [b [Hb Hr]]]] Hdef He. unfold encode in He. rewrite Hb in He. simpl in He.
      inversion He; subst d. unfold decode. rewrite (fmt_law F b Hr). apply rt_tree; auto.
    Qed.

    Lemma repr_nonull b : repr_in leaf_repr FToml b = true -> nonullb b = true.
    Proof.
      revert b. fix IH 1. intros b H. destruct b; simpl in *; try reflexivity; try discriminate.
      - induction l as [|x r IHr]; simpl in *; [reflexivity|].
        apply andb_true_iff in H. destruct H as [H1 H2]. rewrite (IH x H1). simpl. apply IHr. exact H2.
      - induction kvs as [|[k x] r IHr]; simpl in *; [reflexivity|].
        apply andb_true_iff in H. destruct H as [H1 H2]. rewrite (IH x H1). simpl. apply IHr. exact H2.
    Qed.

    Theorem doc_is_basic F t v d :
      in_subset F t v -> encode F t v = Ok d ->
      exists pd bb, parse F d = Some pd /\ pack basic_dl t v = Ok bb /\ approx render F pd bb.
    Proof.
      intros [Hwf [Hlv [b [Hb Hr]]]] He. unfold encode in He. rewrite Hb in He. simpl in He.
      inversion He; subst d.
      destruct (doc_tree F t v b) as [bb [Hbb Hrel]]; auto.
      { unfold nn. intro Ho. destruct F; simpl in Ho; try discriminate.
        unfold representable in Hr. apply andb_true_iff in Hr. destruct Hr as [Hr _].
        apply repr_nonull. exact Hr. }
      exists (norm F b), bb. split; [apply fmt_law; exact Hr|]. split; [exact Hbb|].
      unfold approx. exact Hrel.
    Qed.
    Theorem doc_exact F t v d :
      exact_fmt F = true -> in_subset F t v -> encode F t v = Ok d ->
      exists bb, pack basic_dl t v = Ok bb /\ parse F d = Some bb.
    Proof.
      intros HF [Hwf [Hlv [b [Hb Hr]]]] He. unfold encode in He. rewrite Hb in He. simpl in He.
      inversion He; subst d.
      destruct (doc_tree_exact F t v b HF Hb) as [bb [Hbb Hn]].
      exists bb. split; [exact Hbb|]. rewrite (fmt_law F b Hr). rewrite Hn. reflexivity.
    Qed.
  End Format.
End Model.

(* ------------------------------------------------------------------ *)
(* the round trip WITHOUT the side condition on defaults is false for TOML: a required
   Optional field holding None is omitted by to_toml and from_toml then misses it
   (reproduced on the real code: known finding C04/toml-omitted-none-field-without-none-default) *)

Definition id_render (k: lkind) (p: string) : string := p.
Definition id_parse_leaf (k: lkind) (s: string) : option string := Some s.
Definition all_ok (k: lkind) (p: string) : bool := true.
Definition all_repr (F: fmt) (k: lkind) (p: string) : bool := true.

Definition roundtrip_full : Prop :=
  forall (render: lkind -> string -> string) (parse_leaf: lkind -> string -> option string)
         (leaf_ok: lkind -> string -> bool),
    (forall k p, leaf_ok k p = true -> parse_leaf k (render k p) = Some p) ->
    forall (doc: Type) (ser: fmt -> bv -> doc) (parse: fmt -> doc -> option bv)
           (leaf_repr: fmt -> lkind -> string -> bool),
    (forall F b, representable leaf_repr F b = true -> parse F (ser F b) = Some (norm render F b)) ->
    forall F t v d,
      in_subset render leaf_ok leaf_repr F t v ->
      encode render doc ser F t v = Ok d -> decode parse_leaf doc parse F t d = Ok v.

Definition witness_ty : ty := TRec "A" [("x", (TOpt TInt, false))].
Definition witness_val : pv := VObj "A" [("x", VNone)].

Lemma witness_in_subset : in_subset id_render all_ok all_repr FToml witness_ty witness_val.
Proof.
  unfold in_subset. split; [reflexivity|]. split; [reflexivity|].
  exists (BDict []). split; reflexivity.
Qed.

Lemma witness_decode :
  decode id_parse_leaf bv (fun F d => Some (norm id_render F d)) FToml witness_ty (BDict [])
  = Err (EMissingField "x").
Proof. reflexivity. Qed.

Theorem roundtrip_refuted : ~ roundtrip_full.
Proof.
  intro H.
  specialize (H id_render id_parse_leaf all_ok (fun k p _ => eq_refl) bv (fun F b => b)
                (fun F d => Some (norm id_render F d)) all_repr (fun F b _ => eq_refl)
                FToml witness_ty witness_val (BDict []) witness_in_subset eq_refl).
  rewrite witness_decode in H. discriminate.
Qed.

