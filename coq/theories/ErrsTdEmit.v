(* C05 over kernel K45a (the statements unpack.py unpack_typed_dict emits into the helper of a TypedDict class,
   translated from /repo on every run into coq/gen/K45a.v; vocabulary and semantics: TdEmit.v, C03's), run with
   exception classes and ARBITRARY item unpackers [run] (any class, KeyError included):

     * nothing present is dropped: every key of the class (required or optional) that the input holds is, in a
       returned dict, bound to the value its own unpacker returned -- so that unpacker did not raise;
     * an exception of an item unpacker, whatever its class, leaves the helper when the lines before it succeed:
       a KeyError raised INSIDE the unpacker of an optional key that is present is not taken for "key absent". *)
From Coq Require Import List Bool String.
From Verif Require Import Core TyModel TdEmit.
From VerifGen Require Import K45a.
Import ListNotations.
Local Open Scope list_scope.

Section TdErrs.
  Context {D: Type}.
  Variable run : sfield -> D -> res pv.
  Variable konst : sfield -> option pv.
  Variable miss : exn.
  Variable fld : string -> option sfield.
  Variable es : list (pv * D).

  Let line := run_td_line run konst miss fld es.
  Let lines := run_td_lines run konst miss fld es.

  Lemma lines_each : forall lns r, lines lns = Ok r ->
    forall ln, In ln lns -> match line ln with
                            | Ok (Some kv) => In kv r
                            | Ok None => True
                            | Exn _ => False end.
  Proof.
    unfold lines, line. induction lns as [|l lns IH]; simpl; intros r H ln Hin; [contradiction|].
    destruct (run_td_line run konst miss fld es l) as [o|e] eqn:El; simpl in H; [|discriminate].
    destruct (run_td_lines run konst miss fld es lns) as [tl|e] eqn:Et; simpl in H; [|discriminate].
    inversion H; subst; clear H. destruct Hin as [->|Hin].
    - rewrite El. destruct o; simpl; auto.
    - specialize (IH tl eq_refl ln Hin). destruct (run_td_line run konst miss fld es ln) as [[kv|]|e']; auto.
      destruct o; simpl; auto.
  Qed.

  Lemma lines_first_exn : forall pre ln post e,
    Forall (fun l => exists o, line l = Ok o) pre -> line ln = Exn e -> lines (pre ++ ln :: post) = Exn e.
  Proof.
    unfold lines, line. intros pre ln post e HP He. induction HP as [|l pre [o Ho] HP IH]; simpl.
    - rewrite He. reflexivity.
    - rewrite Ho. simpl. rewrite IH. reflexivity.
  Qed.

  Variable all_keys : list string.
  Variable is_required is_optional : string -> bool.

  Lemma key_line : forall k, In k all_keys -> (is_required k || is_optional k) = true ->
    In (TLReq k) (k45a_unpack_lines all_keys is_required is_optional) \/
    In (TLOpt k) (k45a_unpack_lines all_keys is_required is_optional).
  Proof.
    intros k Hin Hk. unfold k45a_unpack_lines. apply orb_true_iff in Hk. destruct Hk as [Hk|Hk].
    - left. apply in_or_app. left. apply in_map. apply filter_In. auto.
    - right. apply in_or_app. right. apply in_map. apply filter_In. auto.
  Qed.

  (* nothing present is dropped or replaced *)
  Theorem td_no_silent_drop : forall r,
    lines (k45a_unpack_lines all_keys is_required is_optional) = Ok r ->
    forall k f d, In k all_keys -> (is_required k || is_optional k) = true ->
      fld k = Some f -> konst f = None -> look es k = Some d ->
      exists y, run f d = Ok y /\ In (VStr k, y) r.
  Proof.
    intros r H k f d Hin Hk Hf Hc Hl.
    destruct (key_line k Hin Hk) as [Hln|Hln]; pose proof (lines_each _ _ H _ Hln) as E;
      unfold line in E; simpl in E; rewrite Hf in E; try rewrite Hc in E; rewrite Hl in E;
      destruct (run f d) as [y|e]; simpl in E; try contradiction; exists y; auto.
  Qed.

  (* the exception of the unpacker of an OPTIONAL key that is present leaves the helper *)
  Theorem td_optional_exn : forall pre post k f d e,
    k45a_unpack_lines all_keys is_required is_optional = pre ++ TLOpt k :: post ->
    Forall (fun l => exists o, line l = Ok o) pre ->
    fld k = Some f -> look es k = Some d -> run f d = Exn e ->
    lines (k45a_unpack_lines all_keys is_required is_optional) = Exn e.
  Proof.
    intros pre post k f d e Hs HP Hf Hl He. rewrite Hs. apply lines_first_exn; auto.
    unfold line; simpl. rewrite Hf, Hl, He. reflexivity.
  Qed.
End TdErrs.
