(* C09 -- which members of the class the generated from_dict reads at all.

   The skip test of the field loop of `_add_unpack_method_lines` (`if field and not field.init: continue`) is translated
   from /repo on every run (VerifGen.K109c.reads_field; the loop structure is pattern-checked by the kernel plugin).
   Run over the declarations a hierarchy collects (KeyModel.collect: nearest declaration, definition order), the loop
   leaves exactly KeyModel.effective -- the init fields in definition order -- which is what the hand-written
   `filter snd` of the model said; a name that has type hints but no dataclass field is read. *)
From Coq Require Import List String Ascii ZArith Bool.
From Verif Require Import Regex PyK PyK_alias PyK_clsdiscr KeyModel KeyImpl KeyProofs KeyCfg KeyRewrite KeyHook KeyDiscr KeyHookLookup KeyFull.
From VerifGen Require Import K4 K109a K109b K109c.
Import ListNotations.
Open Scope string_scope.
Open Scope list_scope.

(* a dataclasses.Field object, as far as the loop looks at it *)
Definition enc_dcfield (p: fld * bool) : kv := KNs [("__class__", KStr "Field"); ("init", KBool (snd p))].

(* `field = self.dataclass_fields.get(fname)`: None for a name without dataclass field *)
Definition reads (o: option (fld * bool)) : res bool :=
  r <- reads_field (match o with Some p => enc_dcfield p | None => KNone end) ;; Ok (k_truthy r).

(* the loop over the declarations in definition order: what reaches filtered_fields *)
Fixpoint filtered_code (ds: list (fld * bool)) : res (list fld) :=
  match ds with
  | [] => Ok []
  | p :: r => b <- reads (Some p) ;; rest <- filtered_code r ;; Ok (if b then fst p :: rest else rest)
  end.

Lemma reads_some : forall p, reads (Some p) = Ok (snd p).
Proof. intros [f b]. unfold reads, reads_field. destruct b; reflexivity. Qed.

Lemma reads_none : reads None = Ok true.
Proof. reflexivity. Qed.

Theorem filtered_code_spec : forall ds, filtered_code ds = Ok (map fst (filter snd ds)).
Proof.
  induction ds as [|p r IH]; [reflexivity|].
  cbn [filtered_code]. rewrite reads_some, IH. cbn [bind filter]. destruct (snd p); reflexivity.
Qed.

Theorem filtered_code_effective : forall ls, filtered_code (collect ls) = Ok (effective ls).
Proof. intro ls. apply filtered_code_spec. Qed.

(* KeyFull.impl_from_class with the fields chosen by the translated loop test *)
Definition impl_from_class_fields (r: list dlevel) (hooks: list (option (list hookop))) (mixin: bool) (d: dict)
  : res from_dict_kind :=
  let ls := rev (map fst r) in
  own <- get_discriminator (cls_obj_d r) base_config_d (KBool false) ;;
  if k_truthy own then Ok Dispatcher
  else
    h <- get_declared_hook (cls_obj_h (rev hooks) mixin) A_PRE ;;
    let d' := apply_hook (dec_hook (rev hooks) h) d in
    g <- impl_cfg ls ;;
    fs <- filtered_code (collect ls) ;;
    dk <- get_discriminator (cls_obj_d r) base_config_d (KBool true) ;;
    o <- impl_from_dict (mkC fs (g_aliases g) (g_allow g) (g_forbid g) (dec_discr dk)) d' ;;
    Ok (Body o).

Theorem impl_from_class_fields_keymodel : forall r hooks mixin d,
  impl_from_class_fields r hooks mixin d = Ok (ref_from_class r hooks d).
Proof.
  intros r hooks mixin d. rewrite <- impl_from_class_keymodel with (mixin := mixin).
  unfold impl_from_class_fields, impl_from_class.
  destruct (get_discriminator (cls_obj_d r) base_config_d (KBool false)) as [own|e]; [|reflexivity].
  cbn [bind]. destruct (k_truthy own); [reflexivity|].
  destruct (get_declared_hook (cls_obj_h (rev hooks) mixin) A_PRE) as [h|e]; [|reflexivity].
  cbn [bind]. destruct (impl_cfg (rev (map fst r))) as [g|e]; [|reflexivity].
  cbn [bind]. rewrite filtered_code_effective. reflexivity.
Qed.
