(* Tie by translation, encode side: which origins go through the by-reference / copy / comprehension rule
   (kernel K15), which are always rebuilt and which are delegated is read off the if/elif chain of
   mashumaro/core/meta/types/pack.py:pack_collection -- kernel K118b, translated on every run.  The pack compiler
   of the sharing model (Share.cp) coincides with the compiler whose collection cases are assembled from the two
   translated kernels. *)
From Coq Require Import List Bool Arith Lia.
From Verif Require Import Share ShareProofs ShareMore CollDecision ShareK15 UnpackDecision PackDecision ShareK118a.
From VerifGen Require Import K15 K118b.
Import ListNotations.

(* the IR for an emitted template; o = origin of the annotated type, N = effective no_copy_collections *)
Definition ir_of_pdecision (N: list origin) (o: origin) (d: pdecision) (ie ke ve: ir) : option ir :=
  match d with
  | PDSeqRule => Some (ir_of_seq_decision (seq_decision (is_id ie) (inN N o) (origin_eqb o OList)) ie)
  | PDMapRule => Some (ir_of_map_decision (map_decision (is_id ke && is_id ve) (inN N o) (origin_eqb o ODict)) ke ve)
  | PDChainComp => Some (ISeqComp (IMapComp ke ve))
  | PDSeqComp => Some (ISeqComp ie)
  | PDMapComp => Some (IMapComp ke ve)
  | PDSame => Some IId
  | PDCopy => Some ICopy
  | _ => None
  end.

Lemma cp_seq_is_source E N hsup o t :
  is_seq_origin o = true ->
  ir_of_pdecision N o (pack_collection_decision (pack_origin_facts o)) (cp E N hsup t) IId IId
  = Some (cp E N hsup (TSeq o t)).
Proof.
  intro H. simpl cp. rewrite seq_expr_is_source.
  destruct o; try discriminate H; reflexivity.
Qed.

Lemma cp_map_is_source E N hsup o kt vt :
  is_map_origin o = true ->
  ir_of_pdecision N o (pack_collection_decision (pack_origin_facts o)) IId (cp E N hsup kt) (cp E N hsup vt)
  = Some (cp E N hsup (TMap o kt vt)).
Proof.
  intro H. simpl cp. rewrite map_expr_is_source.
  destruct o; try discriminate H; reflexivity.
Qed.

(* ChainMap[K, V] = TComp KChainMap (TRMap K V): rebuilt map by map, whatever no_copy_collections says *)
Lemma cp_chainmap_is_source E N hsup kt vt :
  ir_of_pdecision N ODict (pack_collection_decision pxf_chainmap) IId (cp E N hsup kt) (cp E N hsup vt)
  = Some (cp E N hsup (TComp KChainMap (TRMap kt vt))).
Proof. reflexivity. Qed.

Lemma pack_tuple_is_source :
  pack_collection_decision (pack_origin_facts OTuple) = PDTuple /\
  forall d, In d pack_tuple_results -> d = PDSeqComp \/ d = PDItems \/ d = PDEmpty.
Proof.
  split; [reflexivity |].
  intros d Hd. simpl in Hd.
  repeat (destruct Hd as [Hd | Hd]; [subst d; auto |]). contradiction.
Qed.

(* for EVERY vector of facts about the origin type: outside the rule (K15) the chain hands out its input only for
   str subclasses (immutable), and never a shallow copy *)
Lemma pack_collection_same_only_str : forall f,
  p_outside_rule (pack_collection_decision f) = true ->
  pack_collection_decision f = PDSame /\ uf_sub f UStr = true.
Proof.
  intro f. unfold pack_collection_decision.
  destruct (uf_sub f UStr) eqn:Hs;
  repeat match goal with
         | |- context [if ?b then _ else _] => destruct b
         end; simpl; intro H; try discriminate H; split; reflexivity.
Qed.

Lemma pack_structs_rebuild :
  existsb p_outside_rule (pack_tuple_results ++ pack_named_tuple_results ++ pack_typed_dict_results) = false.
Proof. reflexivity. Qed.

(* ------------------------------------------------------------------ *)
(* the encode compiler with its collection cases assembled from the translated kernels *)
Definition p_from_source (o: option ir) : ir := match o with Some e => e | None => IId end.

Section CompileK.
  Variable E : env.
  Variable N : list origin.
  Variable hsup : bool.

  Fixpoint cpK (t: ty) : ir :=
    match t with
    | TAtom => IId
    | TLeaf k => if E.(e_lp) k then IId else match k with LDecimal => IStr | _ => IConv end
    | TAny => IId
    | TPass => IId
    | TOpt t' => IOpt (cpK t')
    | TSeq o t' => p_from_source (ir_of_pdecision N o (pack_collection_decision (pack_origin_facts o)) (cpK t') IId IId)
    | TTupV t' => ISeqComp (cpK t')
    | TTup ts => ITup (map cpK ts)
    | TMap o kt vt =>
        p_from_source (ir_of_pdecision N o (pack_collection_decision (pack_origin_facts o)) IId (cpK kt) (cpK vt))
    | TDC c => ICall c (hsup && (E.(e_ct) c).(c_sup))
    | TWrap t' => cpK t'
    | TUnion ts =>
        let es := map cpK ts in
        if forallb is_id es then IId
        else IUnion (flat_map (fun t' => if is_id (cpK t') then tid t' else []) ts) es
    | TNone => IId
    | TLit => ILit
    | TAbsent _ => IId
    | TComp _ t' => ISeqComp (cpK t')
    | TRMap kt vt => IMapComp (cpK kt) (cpK vt)
    | TRec ts => IRec (map cpK ts)
    end.

  Lemma flat_map_ext_Forall {A B} (f g: A -> list B) xs :
    Forall (fun x => f x = g x) xs -> flat_map f xs = flat_map g xs.
  Proof. induction 1; simpl; congruence. Qed.

  Lemma cpK_is_cp : forall t, wf_origins t = true -> cpK t = cp E N hsup t.
  Proof.
    induction t as [| lk | | | t' IHt | o t' IHt | t' IHt | ts IHts | o kt IHk vt IHv | c0 | tw IHw | us IHus | | | dd
                    | kk tc IHc | rk IHrk rv IHrv | rs IHrs] using ty_ind';
      intro H; try reflexivity.
    - simpl in *. rewrite IHt; auto.
    - simpl in H. apply andb_prop in H. destruct H as [Ho Ht].
      change (cpK (TSeq o t')) with
        (p_from_source (ir_of_pdecision N o (pack_collection_decision (pack_origin_facts o)) (cpK t') IId IId)).
      rewrite (IHt Ht). now rewrite (cp_seq_is_source E N hsup o t' Ho).
    - simpl in *. rewrite IHt; auto.
    - simpl in *. f_equal. apply map_ext_Forall. now apply Forall_wf_step.
    - simpl in H. apply andb_prop in H. destruct H as [H Hv]. apply andb_prop in H. destruct H as [Ho Hk].
      change (cpK (TMap o kt vt)) with
        (p_from_source (ir_of_pdecision N o (pack_collection_decision (pack_origin_facts o)) IId (cpK kt) (cpK vt))).
      rewrite (IHk Hk), (IHv Hv). now rewrite (cp_map_is_source E N hsup o kt vt Ho).
    - simpl in *. auto.
    - simpl in H.
      assert (Hall : Forall (fun t => cpK t = cp E N hsup t) us) by now apply Forall_wf_step.
      simpl. rewrite (map_ext_Forall _ _ _ Hall).
      rewrite (flat_map_ext_Forall (fun t' => if is_id (cpK t') then tid t' else [])
                                   (fun t' => if is_id (cp E N hsup t') then tid t' else []) us).
      + reflexivity.
      + eapply Forall_impl; [| exact Hall]. simpl. intros a Ha. now rewrite Ha.
    - simpl in *. rewrite IHc; auto.
    - simpl in *. apply andb_prop in H. destruct H as [Hk Hv]. rewrite (IHrk Hk), (IHrv Hv). reflexivity.
    - simpl in *. f_equal. apply map_ext_Forall. now apply Forall_wf_step.
  Qed.
End CompileK.

(* C18_share for the compiler assembled from the source *)
Lemma pack_share_source E n0 call Ntop t v :
  wf_origins t = true ->
  conforms E v t = true -> udet E v call Ntop true t = true -> all_old n0 v = true ->
  let (r, n1) := run_pack E v call (cpK E Ntop true t) n0 in
  maxold n0 r = byref E (ident E) v call Ntop true t /\ n0 <= n1.
Proof.
  intros Hwf Hc Hu Ho. rewrite (cpK_is_cp E Ntop true t Hwf).
  exact (pack_top_share E n0 call Ntop t v Hc Hu Ho).
Qed.

Example k118b_examples :
  pack_collection_decision (pack_origin_facts OList) = PDSeqRule /\
  pack_collection_decision (pack_origin_facts OMutableSet) = PDSeqRule /\
  pack_collection_decision (pack_origin_facts OSequence) = PDSeqRule /\
  pack_collection_decision (pack_origin_facts OCounter) = PDMapRule /\
  pack_collection_decision (pack_origin_facts OMutableMapping) = PDMapRule /\
  pack_collection_decision pxf_chainmap = PDChainComp /\
  pack_collection_decision pxf_bytearray = PDScalar /\
  pack_collection_decision pxf_str = PDSame /\
  cpK env0 [OList] true (TSeq OList (TMap ODict TAtom TAtom)) = ISeqComp ICopy /\
  cpK env0 [OList; ODict] true (TSeq OList (TMap ODict TAtom TAtom)) = IId.
Proof. repeat split; reflexivity. Qed.
