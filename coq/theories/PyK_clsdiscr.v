(* Kernel primitives used by the K109a translation (tools/kernels/k109a_discr.py): a search loop
   (`for x in seq: ... return e ...` followed by the not-found continuation), attribute lookup on a class
   object, and the classes of an MRO as objects.  Class objects are those of PyK_alias.v. *)
From Coq Require Import List String Ascii ZArith Bool.
From Verif Require Import Regex PyK PyK_alias.
Import ListNotations.
Open Scope string_scope.

(* `for x in l: body` where body either returns a value (Some) or falls through (None) *)
Fixpoint first_list (l: list kv) (f: kv -> res (option kv)) : res (option kv) :=
  match l with
  | [] => Ok None
  | x :: r => match f x with
              | Ok (Some v) => Ok (Some v)
              | Ok None => first_list r f
              | Raise e => Raise e
              end
  end.

Definition k_for_first (it: kv) (f: kv -> res (option kv)) : res (option kv) :=
  match it with
  | KList l | KTuple l => first_list l f
  | _ => Raise TypeError
  end.

(* `cls.name` on a class: the MRO is searched, AttributeError if no class of it has the attribute *)
Definition k_cls_attr (c name: kv) : res kv :=
  match mro_lookup (cls_mro c) name with Some v => Ok v | None => Raise AttributeError end.

(* `cls.__mro__`: every class of the MRO as an object.  Only the own `__dict__` of these objects is ever
   read (get_config(cls, look_in_parents=False) = cls.__dict__.get("Config", BaseConfig)); their own MRO is
   given as the class itself only. *)
Definition class_of_entry (e: kv) : kv :=
  match e with
  | KTuple [i; KDict d] => mk_class i d []
  | _ => KNone
  end.

Definition k_mro_classes (c: kv) : kv := KTuple (map class_of_entry (cls_mro c)).

(* ---- K109b: `name in cls.__dict__`, `cls.__dict__[name]`, is_dataclass_dict_mixin(cls) ---- *)
Definition k_contains (d k: kv) : res kv :=
  match d with
  | KDict kvs => Ok (KBool (match d_get kvs k with Some _ => true | None => false end))
  | _ => Raise TypeError
  end.

Definition k_dict_index (d k: kv) : res kv :=
  match d with
  | KDict kvs => match d_get kvs k with Some v => Ok v | None => Raise KeyError end
  | _ => Raise TypeError
  end.

(* helpers.is_dataclass_dict_mixin: type_name(typ) == "mashumaro.mixins.dict.DataClassDictMixin"; class objects carry
   their identity in __id__ *)
Definition MIXIN_ID : kv := KStr "mashumaro.mixins.dict.DataClassDictMixin".

Definition k_is_mixin (c: kv) : bool :=
  match c with
  | KNs attrs => match ns_get attrs "__id__" with Some i => kv_eqb i MIXIN_ID | None => false end
  | _ => false
  end.
