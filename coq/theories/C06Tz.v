(* The `pattern` keyword of the datetime.timezone schema (text and regex translated from
   /repo on this run, VerifGen.K6) accepts tzname(m) for every whole-minute offset m. *)
From Coq Require Import List String Ascii ZArith Bool Lia.
From Verif Require Import Regex TzName JValid Schema.
From VerifGen Require Import K6.
Import ListNotations.
Open Scope Z_scope.

(* JSON Schema `pattern` is an unanchored search; this pattern starts with ^, so a search
   succeeds exactly when a match at position 0 does *)
Definition pm_regex (p x: string) : bool :=
  if String.eqb p UTC_OFFSET_PATTERN then (match re_match UTC_OFFSET_PATTERN_RE x with Some _ => true | None => false end)
  else false.

Lemma pattern_text : UTC_OFFSET_PATTERN = UTC_PATTERN.
Proof. reflexivity. Qed.

Definition tz_rng : list Z := map (fun n => Z.of_nat n - 1439) (seq 0 2879).
Lemma tz_rng_complete m : -1440 < m < 1440 -> In m tz_rng.
Proof.
  intros H. unfold tz_rng. apply in_map_iff. exists (Z.to_nat (m + 1439)). split; [lia|]. apply in_seq. lia.
Qed.
Lemma tz_sweep : forallb (fun m => pm_regex UTC_PATTERN (tzname m)) tz_rng = true.
Proof. vm_compute. reflexivity. Qed.

Theorem pm_regex_tz : forall m, -1440 < m < 1440 -> pm_regex UTC_PATTERN (tzname m) = true.
Proof. intros m H. exact (proj1 (forallb_forall _ _) tz_sweep m (tz_rng_complete m H)). Qed.
