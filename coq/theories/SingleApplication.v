(* "Exactly one level applies": stated on `applied` (Strategies.v), which follows the re-entry of the registry after
   an annotation-driven strategy.  Since /repo ed8922a the re-entry carries no alias (annotated_type=None), so `applied`
   is used with stale = []: at most one customization is applied, whatever the field's alias, provided nothing is
   registered for the strategy's own annotated type (such a registration applies to the intermediate value by design). *)
From Coq Require Import List String Ascii ZArith Bool Arith Lia.
From Verif Require Import Regex PyK PyK_strat Strategies StrategiesProofs.
Import ListNotations.
Open Scope nat_scope.
Open Scope list_scope.

Definition no_key (Sr: sources) (k: kv) : Prop :=
  forall l t, tbl Sr l = Some t -> tlookup t k = None.

Lemma fnv_winner_not_ann f v : fnv_winner f <> WAnn v.
Proof. destruct f; discriminate. Qed.

Lemma tbl_drop Sr l : tbl (drop_field_strat Sr) l = tbl Sr l.
Proof. destruct l; reflexivity. Qed.

Lemma reentry_none Sr ks anyk d s v :
  no_key Sr anyk ->
  resolve Sr ks d = Some (s, WAnn v) ->
  resolve (match s with SFieldStrat => drop_field_strat Sr | _ => Sr end) [anyk; anyk] d = None.
Proof.
  intros Hno Hr. pose proof (resolve_is_lexmin Sr ks d) as Hm. rewrite Hr in Hm. destruct Hm as [Hat Hmin].
  apply resolve_none_iff. intros s'.
  assert (Hopt: f_opt Sr d = None).
  { destruct (f_opt Sr d) as [f|] eqn:E; [|reflexivity]. exfalso.
    assert (Hle: slot_le s SFieldOpt). { apply Hmin. cbn. rewrite E. discriminate. }
    destruct s; cbn in Hle; try contradiction. cbn in Hat. rewrite E in Hat. cbn in Hat.
    inversion Hat as [Hw]. exact (fnv_winner_not_ann _ _ Hw). }
  assert (Hreg: forall Sx i l, (forall m, tbl Sx m = tbl Sr m) -> at_slot Sx [anyk; anyk] d (SReg i l) = None).
  { intros Sx i l Ht.
    assert (Hk: reg_at Sx d anyk l = None).
    { unfold reg_at. destruct (k_is_hashable anyk); [|reflexivity]. rewrite Ht.
      destruct (tbl Sr l) as [t|] eqn:Et; [|reflexivity]. cbn. rewrite (Hno l t Et). reflexivity. }
    cbn [at_slot]. destruct i as [|[|i]]; cbn [nth_error bindo]; [exact Hk|exact Hk|].
    destruct i; reflexivity. }
  destruct s as [| |i l].
  - cbn in Hat. rewrite Hopt in Hat. discriminate.
  - destruct s' as [| |j m].
    + cbn. destruct d; cbn in *; rewrite Hopt; reflexivity.
    + cbn. destruct (k_is_hashable anyk); reflexivity.
    + apply Hreg. apply tbl_drop.
  - destruct s' as [| |j m].
    + cbn. rewrite Hopt. reflexivity.
    + destruct (at_slot Sr ks d SFieldStrat) eqn:Es.
      * exfalso. assert (Hle: slot_le (SReg i l) SFieldStrat). { apply Hmin. rewrite Es. discriminate. }
        exact Hle.
      * cbn in Es. cbn in Hat. destruct (nth_error ks i) as [k|] eqn:En; [|discriminate]. cbn in Hat.
        unfold reg_at in Hat. destruct (k_is_hashable k) eqn:Hk; [|discriminate].
        assert (Hex: existsb k_is_hashable ks = true).
        { apply existsb_exists. exists k. split; [eapply nth_error_In; exact En|exact Hk]. }
        rewrite Hex in Es. cbn. rewrite Es. destruct (k_is_hashable anyk); reflexivity.
    + apply Hreg. reflexivity.
Qed.

Theorem single_application Sr An T O anyk d :
  no_key Sr anyk ->
  exists l b, applied 3 Sr (keys_of An T O) [] anyk d true = Some (l, b) /\ List.length l <= 1.
Proof.
  intros Hno. cbn [applied app].
  destruct (resolve Sr (keys_of An T O) d) as [[s [|m|e|v]]|] eqn:Hr.
  - eexists _, _. split; [reflexivity|cbn; lia].
  - eexists _, _. split; [reflexivity|cbn; lia].
  - eexists _, _. split; [reflexivity|cbn; lia].
  - rewrite (reentry_none Sr _ anyk d s v Hno Hr). eexists _, _. split; [reflexivity|cbn; lia].
  - eexists _, _. split; [reflexivity|cbn; lia].
Qed.

(* the two shapes that failed before ed8922a (Annotated alias + use_annotations strategy) *)
Definition wAnn := KObj 11.  Definition wEx := KObj 12.  Definition wOr := KObj 13.  Definition wAny := KObj 19.
Definition w_rec : sources :=
  {| f_ser := None; f_de := None; f_strat := None; t_call := None; t_cfgd := None;
     t_cfg := [(wAnn, VStrat true false 7 107)]; t_dflt := None |}.
Definition w_double : sources :=
  {| f_ser := None; f_de := None; f_strat := Some (VStrat true false 2 102); t_call := None; t_cfgd := None;
     t_cfg := [(wAnn, VDict (Some (FFn 9)) (Some (FFn 109)))]; t_dflt := None |}.
