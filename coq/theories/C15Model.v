(* C15 - "all entry points agree": executable model of the two compilation paths of
   mashumaro for a small grammar.

   mode Mixin : code installed on the classes (DataClassDictMixin / nested plain dataclasses);
                a dataclass position is serialized by `value.__mashumaro_to_dict__()`,
                i.e. DYNAMIC dispatch on the runtime class of the value (MRO lookup)
                (pack.py pack_dataclass, is_nailed branch).
   mode Codec : BasicEncoder/BasicDecoder/encode/decode; methods live on AttrsHolder objects;
                a dataclass position is serialized by `<Alias>___mashumaro_to_dict__(value)`,
                i.e. the STATIC call of the annotated class's packer on whatever arrives
                (pack.py pack_dataclass, non-nailed branch).
   Everything else (containers, Optional, union skeleton, field loop, alias keys, omit_none) is shared
   by both paths, as in /repo (same registries).  Options (serialize_by_alias, omit_none) are resolved through two
   dialect layers - the call-time dialect and the builder's default dialect - around the class Config
   (get_dialect_or_config_option); the format entry points (C15Format.v) instantiate the layers with the format's
   built-in dialect and Dialect.merge (kernel K2).  Self-contained: stdlib only. *)
From Coq Require Import List String Ascii ZArith Bool Lia.
Import ListNotations.
Open Scope string_scope.

Definition cname := string.

(* ------------------------------------------------------------------ *)
(* values, types, class table                                           *)
Inductive val :=
| VNone
| VInt (z: Z)
| VStr (s: string)
| VDate (s: string)                      (* datetime.date, carried as its ISO text *)
| VList (l: list val)
| VTuple (l: list val)
| VDict (kvs: list (string * val))       (* str-keyed dict, insertion order *)
| VObj (c: cname) (fs: list (string * val)).  (* dataclass instance: runtime class + attributes *)

Inductive ty :=
| TInt | TStr | TDate
| TList (t: ty)
| TDict (t: ty)                          (* Dict[str, t] *)
| TTuple (ts: list ty)
| TOpt (t: ty)
| TUnion (ts: list ty)
| TData (c: cname).

Record fdef := mkF { f_name: string; f_alias: option string; f_ty: ty }.

(* c_fields: ALL dataclass fields (inherited ones first, as dataclasses.fields gives them);
   c_parent: the dataclass base (single inheritance) - only used for the MRO walk;
   c_by_alias: Config.serialize_by_alias (None = not set);
   c_omit_none: Config.omit_none (None = not set);
   c_omit_default: Config.omit_default (None = not set); c_defaults: field name -> default value (literals, bound constants, default_factory() results);
   c_sort_keys: Config.sort_keys (to_dict emits the fields sorted by field NAME);
   c_forbid_extra: Config.forbid_extra_keys (from_dict raises ExtraKeysError for a key that is no alias-or-name);
   c_allow_by_name: Config.allow_deserialization_not_by_alias (an aliased field is also read under its name);
   c_has_method: the class's own __dict__ holds __mashumaro_to_dict__ (mixin classes always;
   plain dataclasses once some nailed builder compiled them as a field type).  When calls carry
   `dialect=` the flag is also set for subclasses of such classes: the inherited dialect-aware
   method compiles/looks up the packer of self.__class__, i.e. of the runtime class. *)
Record cdef := mkC { c_name: cname; c_parent: option cname; c_fields: list fdef;
                     c_by_alias: option bool; c_omit_none: option bool;
                     c_omit_default: option bool; c_defaults: list (string * val);
                     c_sort_keys: bool; c_forbid_extra: bool; c_allow_by_name: bool;
                     c_has_method: bool }.
Definition env := list cdef.

Fixpoint find_cls (E: env) (c: cname) : option cdef :=
  match E with
  | [] => None
  | d :: r => if String.eqb (c_name d) c then Some d else find_cls r c
  end.

(* exceptions, reduced to what distinguishes outcomes:
   XRaw      AttributeError/TypeError/KeyError/IndexError/ValueError raised by a primitive
   XUnionI   "no union member matched", nailed builder: InvalidFieldValue
   XUnionV   "no union member matched", codec builder: ValueError(value)
   XInvalid  InvalidFieldValue(field, holder class) raised by a from_dict field block
   XMissing  MissingField(field, holder class)
   XExtra    ExtraKeysError(holder class) (forbid_extra_keys; the key set is not compared)
   XUnmodelled  the model declines (iteration/indexing of str, repr of containers) *)
Inductive err := XRaw | XUnionI | XUnionV | XInvalid (f: string) (c: cname)
               | XMissing (f: string) (c: cname) | XExtra (c: cname) | XUnmodelled.
Inductive res (A: Type) := Ok (a: A) | Err (e: err).
Arguments Ok {A} a.
Arguments Err {A} e.

Definition fmap {A B} (f: A -> B) (r: res A) : res B :=
  match r with Ok a => Ok (f a) | Err e => Err e end.

Section MapM.
  Context {A B: Type} (f: A -> res B).
  Fixpoint mapM (l: list A) : res (list B) :=
    match l with
    | [] => Ok []
    | x :: r => match f x with
                | Ok y => match mapM r with Ok ys => Ok (y :: ys) | Err e => Err e end
                | Err e => Err e end
    end.
End MapM.

Inductive mode := Mixin | Codec.
Definition union_err (m: mode) : err := match m with Mixin => XUnionI | Codec => XUnionV end.
(* the documented mapping of the error class between the two paths *)
Definition norm_err (e: err) : err := match e with XUnionV => XUnionI | _ => e end.
Definition norm {A} (r: res A) : res A := match r with Ok a => Ok a | Err e => Err (norm_err e) end.

(* options of one dialect layer (None = the dialect does not set it / Sentinel.MISSING) *)
Record opts := mkO { o_by_alias: option bool; o_omit_none: option bool; o_omit_default: option bool }.
Definition no_opts : opts := mkO None None None.

(* effective option (builder.get_dialect_or_config_option): call dialect > Config > default dialect > False.
   [call] is what a call passes as `dialect=` (all classes enable ADD_DIALECT_SUPPORT), [dflt] is the
   builder's default dialect: the `default_dialect=` of a codec, the built-in dialect of a format mixin, or
   their Dialect.merge for a format codec. *)
Definition opt_or (a: option bool) (k: bool) : bool := match a with Some b => b | None => k end.
Definition eff_by_alias (call dflt: opts) (d: cdef) : bool :=
  opt_or (o_by_alias call) (opt_or (c_by_alias d) (opt_or (o_by_alias dflt) false)).
Definition eff_omit_none (call dflt: opts) (d: cdef) : bool :=
  opt_or (o_omit_none call) (opt_or (c_omit_none d) (opt_or (o_omit_none dflt) false)).
Definition eff_omit_default (call dflt: opts) (d: cdef) : bool :=
  opt_or (o_omit_default call) (opt_or (c_omit_default d) (opt_or (o_omit_default dflt) false)).
Definition key_of (call dflt: opts) (d: cdef) (f: fdef) : string :=
  if eff_by_alias call dflt d then match f_alias f with Some a => a | None => f_name f end else f_name f.

(* Config.sort_keys: the field loop of to_dict runs over the fields sorted by name *)
Fixpoint insert_field (f: fdef) (l: list fdef) : list fdef :=
  match l with
  | [] => [f]
  | g :: r => if String.leb (f_name f) (f_name g) then f :: l else g :: insert_field f r
  end.
Definition sort_fields (l: list fdef) : list fdef := fold_right insert_field [] l.
Definition pack_order (d: cdef) : list fdef := if c_sort_keys d then sort_fields (c_fields d) else c_fields d.

Definition is_none (v: val) : bool := match v with VNone => true | _ => false end.
Definition is_opt (t: ty) : bool := match t with TOpt _ => true | _ => false end.

Section ListEq.
  Context {A: Type} (eq: A -> A -> bool).
  Fixpoint list_eqb (l1 l2: list A) : bool :=
    match l1, l2 with
    | [], [] => true
    | x :: r1, y :: r2 => eq x y && list_eqb r1 r2
    | _, _ => false end.
End ListEq.

Fixpoint val_eqb (a b: val) {struct a} : bool :=
  match a, b with
  | VNone, VNone => true
  | VInt x, VInt y => Z.eqb x y
  | VStr x, VStr y => String.eqb x y
  | VDate x, VDate y => String.eqb x y
  | VList x, VList y => list_eqb val_eqb x y
  | VTuple x, VTuple y => list_eqb val_eqb x y
  | VDict x, VDict y =>
      (fix deq (l1 l2: list (string * val)) : bool :=
         match l1, l2 with
         | [], [] => true
         | (k1, v1) :: r1, (k2, v2) :: r2 => String.eqb k1 k2 && val_eqb v1 v2 && deq r1 r2
         | _, _ => false end) x y
  | VObj c x, VObj c' y =>
      String.eqb c c' &&
      (fix oeq (l1 l2: list (string * val)) : bool :=
         match l1, l2 with
         | [], [] => true
         | (k1, v1) :: r1, (k2, v2) :: r2 => String.eqb k1 k2 && val_eqb v1 v2 && oeq r1 r2
         | _, _ => false end) x y
  | _, _ => false
  end.


(* `value != <default>`: the generated code compares the attribute with the default OBJECT (a literal, a bound constant
   such as a date, or the result of default_factory()) through Python ==, structural on the values of the grammar
   (dict defaults are compared key order and all: the generators only use the empty dict) *)
Definition leaf_eqb (a b: val) : bool := val_eqb a b.

Fixpoint assoc {A} (l: list (string * A)) (k: string) : option A :=
  match l with
  | [] => None
  | (k', x) :: r => if String.eqb k' k then Some x else assoc r k
  end.

(* packer expression is the bare name `value` (then collections are `.copy()`-ed and union
   members are guarded by an exact class check instead of a try) *)
Fixpoint copy_ident (t: ty) : bool :=
  match t with
  | TInt | TStr => true
  | TUnion ts => forallb copy_ident ts
  | _ => false
  end.

Definition id_class_match (t: ty) (v: val) : bool :=
  match t, v with
  | TInt, VInt _ => true
  | TStr, VStr _ => true
  | _, _ => false
  end.

(* positional application of element closures to element types: `[p0(value[0]), p1(value[1])]`;
   a missing element is IndexError, extra elements are ignored *)
Fixpoint tuple_cl (cl: list (ty -> res val)) (ts: list ty) : res (list val) :=
  match ts with
  | [] => Ok []
  | t :: tr =>
      match cl with
      | [] => Err XRaw
      | g :: cr => match g t with
                   | Ok y => match tuple_cl cr tr with Ok ys => Ok (y :: ys) | Err e => Err e end
                   | Err e => Err e end
      end
  end.

(* ------------------------------------------------------------------ *)
(* MRO walk                                                             *)
Section Dispatch.
  Variable E: env.
  Fixpoint chain (fuel: nat) (c: cname) : list cname :=
    match fuel with
    | O => []
    | S n => c :: match find_cls E c with
                  | Some d => match c_parent d with Some p => chain n p | None => [] end
                  | None => [] end
    end.
  Definition has_method (c: cname) : bool :=
    match find_cls E c with Some d => c_has_method d | None => false end.
  (* which class's __mashumaro_to_dict__ does `value.__mashumaro_to_dict__()` reach for a value
     of runtime class [rc] at a position annotated [ann]?  The annotated class always owns one
     (pack_dataclass compiles it onto the class before emitting the call). *)
  Definition dispatch (ann rc: cname) : option cname :=
    find (fun c' => String.eqb c' ann || has_method c') (chain (S (List.length E)) rc).
End Dispatch.

(* union packer skeleton (pack_union): members whose packer is the bare `value` were handled by
   the class check; every other member is tried in declaration order *)
Section Tries.
  Context (m: mode) (f: ty -> res val).
  Fixpoint tries (l: list ty) : res val :=
    match l with
    | [] => Err (union_err m)
    | t' :: r => if copy_ident t' then tries r
                 else match f t' with Ok y => Ok y | Err _ => tries r end
    end.
End Tries.

(* iterating a str yields its 1-character strings (ASCII alphabet of the generators) *)
Fixpoint chars (s: string) : list string :=
  match s with EmptyString => [] | String c r => String c EmptyString :: chars r end.

(* ------------------------------------------------------------------ *)
(* to_dict / encode                                                     *)
Section Pack.
  Variable E: env.
  Variable m: mode.
  Variables call dflt: opts.

  (* a packer applied to a str value (reached only when a packer meets a value of another
     shape: look-alike classes).  Structural on the type: iterating/indexing a str gives strs. *)
  Fixpoint pack_s (t: ty) {struct t} : string -> res val :=
    fun s =>
    match t with
    | TInt | TStr => Ok (VStr s)
    | TDate => Err XRaw
    | TList t' => if copy_ident t' then Err XRaw
                  else fmap VList (mapM (pack_s t') (chars s))
    | TDict _ => Err XRaw
    | TTuple ts =>
        match ts with
        | [] => Ok (VList [])
        | _ => fmap VList
                 ((fix go (ts: list ty) (cs: list string) : res (list val) :=
                     match ts with
                     | [] => Ok []
                     | t' :: tr =>
                         match cs with
                         | [] => Err XRaw
                         | c :: cr => match pack_s t' c with
                                      | Ok y => match go tr cr with Ok ys => Ok (y :: ys) | Err e => Err e end
                                      | Err e => Err e end
                         end
                     end) ts (chars s))
        end
    | TOpt t' => pack_s t' s
    | TUnion ts =>
        if forallb copy_ident ts then Ok (VStr s)
        else if existsb (fun t' => id_class_match t' (VStr s)) ts then Ok (VStr s)
        else tries m (fun t' => pack_s t' s) ts
    | TData c =>
        match m with
        | Mixin => Err XRaw
        | Codec => match find_cls E c with
                   | Some d => match c_fields d with [] => Ok (VDict []) | _ => Err XRaw end
                   | None => Err XRaw end
        end
    end.

  (* is the field left out?  (builder.py, incremental form of to_dict)
       nullable = Optional type or default None;
       a nullable field that is None is dropped under omit_none, or under omit_default when its default is None;
       any field equal to its default is dropped under omit_default *)
  Definition drop_field (d: cdef) (f: fdef) (x: val) : bool :=
    let dv := assoc (c_defaults d) (f_name f) in
    let nullable := is_opt (f_ty f) || match dv with Some VNone => true | _ => false end in
    let od := eff_omit_default call dflt d in
    (nullable && is_none x && (eff_omit_none call dflt d || (od && match dv with Some VNone => true | _ => false end)))
    || (od && match dv with Some dflt_v => leaf_eqb x dflt_v | None => false end).

  (* body of the generated __mashumaro_to_dict__ of class [d] over attribute closures (the attribute, its packer).
     A dropped field's packer is not evaluated. *)
  Definition pack_fields_cl (d: cdef) (cl: list (string * (val * (ty -> res val)))) : res val :=
    fmap (fun l => VDict (List.concat l))
      (mapM (fun f => match assoc cl (f_name f) with
                      | None => Err XRaw                       (* AttributeError *)
                      | Some (x, g) =>
                          if drop_field d f x then Ok []
                          else match g (f_ty f) with
                               | Ok y => Ok [(key_of call dflt d f, y)]
                               | Err e => Err e end
                      end) (pack_order d)).

  Definition target (ann rc: cname) : option cdef :=
    match m with
    | Codec => find_cls E ann
    | Mixin => match dispatch E ann rc with Some c' => find_cls E c' | None => None end
    end.

  Fixpoint pack (v: val) {struct v} : ty -> res val :=
    fix on_ty (t: ty) {struct t} : res val :=
      match t with
      | TInt | TStr => Ok v
      | TDate => match v with VDate s => Ok (VStr s) | _ => Err XRaw end
      | TList t' =>
          if copy_ident t' then
            match v with VList _ | VDict _ => Ok v | _ => Err XRaw end
          else
            match v with
            | VList l | VTuple l => fmap VList (mapM (fun x => pack x t') l)
            | VStr s => pack_s t s
            | VDict kvs => fmap VList (mapM (pack_s t') (map fst kvs))     (* iterates the keys *)
            | _ => Err XRaw
            end
      | TDict t' =>
          if copy_ident t' then
            match v with VList _ | VDict _ => Ok v | _ => Err XRaw end
          else
            match v with
            | VDict kvs =>
                fmap VDict (mapM (fun kv => match kv with
                                            | (k, x) => match pack x t' with
                                                        | Ok y => Ok (k, y)
                                                        | Err e => Err e end
                                            end) kvs)
            | _ => Err XRaw
            end
      | TTuple ts =>
          match ts with
          | [] => Ok (VList [])
          | _ =>
              match v with
              | VList l | VTuple l => fmap VList (tuple_cl (map pack l) ts)
              | VStr s => pack_s t s
              | _ => Err XRaw
              end
          end
      | TOpt t' => match v with VNone => Ok VNone | _ => on_ty t' end
      | TUnion ts =>
          if forallb copy_ident ts then Ok v
          else if existsb (fun t' => id_class_match t' v) ts then Ok v
          else tries m on_ty ts
      | TData c =>
          match v with
          | VObj rc fs =>
              match target c rc with
              | Some d => pack_fields_cl d (map (fun kv => match kv with (k, x) => (k, (x, pack x)) end) fs)
              | None => Err XRaw
              end
          | _ =>
              match m with
              | Mixin => Err XRaw                      (* no such method on a non-instance *)
              | Codec => match find_cls E c with
                         | Some d => pack_fields_cl d []   (* getattr fails unless there is no field *)
                         | None => Err XRaw end
              end
          end
      end.

End Pack.

(* one dialect [o]: on the mixin path it arrives with the call, on the codec path as default_dialect *)
Definition run_pack_o (E: env) (m: mode) (o: opts) (t: ty) (v: val) : res val :=
  match m with
  | Mixin => pack E m o no_opts v t
  | Codec => pack E m no_opts o v t
  end.
(* ... that sets serialize_by_alias only *)
Definition run_pack (E: env) (m: mode) (dl: option bool) (t: ty) (v: val) : res val :=
  run_pack_o E m (mkO dl None None) t v.

(* ------------------------------------------------------------------ *)
(* conforming values with exact runtime classes                          *)
Section Exact.
  Variable E: env.

  Fixpoint exact_zip (cl: list (ty -> bool)) (ts: list ty) : bool :=
    match cl, ts with
    | [], [] => true
    | g :: cr, t :: tr => g t && exact_zip cr tr
    | _, _ => false
    end.

  (* attributes are exactly the fields of the class, in order, each exact for its type *)
  Fixpoint exact_fields (cl: list (string * (ty -> bool))) (fs: list fdef) : bool :=
    match cl, fs with
    | [], [] => true
    | (k, g) :: cr, f :: fr => String.eqb k (f_name f) && g (f_ty f) && exact_fields cr fr
    | _, _ => false
    end.

  Fixpoint exact (v: val) {struct v} : ty -> bool :=
    fix on_ty (t: ty) {struct t} : bool :=
      match t with
      | TInt => match v with VInt _ => true | _ => false end
      | TStr => match v with VStr _ => true | _ => false end
      | TDate => match v with VDate _ => true | _ => false end
      | TList t' => match v with VList l => forallb (fun x => exact x t') l | _ => false end
      | TDict t' => match v with
                    | VDict kvs => forallb (fun kv => match kv with (_, x) => exact x t' end) kvs
                    | _ => false end
      | TTuple ts => match v with VTuple l => exact_zip (map exact l) ts | _ => false end
      | TOpt t' => match v with VNone => true | _ => on_ty t' end
      | TUnion ts => existsb on_ty ts
      | TData c =>
          match v with
          | VObj rc fs =>
              String.eqb rc c &&
              match find_cls E c with
              | Some d => exact_fields (map (fun kv => match kv with (k, x) => (k, exact x) end) fs) (c_fields d)
              | None => false end
          | _ => false end
      end.
End Exact.

(* ------------------------------------------------------------------ *)
(* well-formedness of types / class table used by the theorems           *)
Definition field_names (d: cdef) : list string := map f_name (c_fields d).
Definition str_in (s: string) (l: list string) : bool := existsb (String.eqb s) l.

(* class [a] owns a field name that class [b] does not have *)
Definition distinguishes (E: env) (a b: cname) : bool :=
  match find_cls E a, find_cls E b with
  | Some da, Some db => existsb (fun n => negb (str_in n (field_names db))) (field_names da)
  | _, _ => false
  end.

Definition data_members (ts: list ty) : list cname :=
  flat_map (fun t => match t with TData c => [c] | _ => [] end) ts.

(* union members are scalars or dataclasses; every dataclass member has at least one field and is
   told apart from every OTHER dataclass member of the same union by a field name *)
Definition simple_member (t: ty) : bool :=
  match t with TInt | TStr | TDate | TData _ => true | _ => false end.

Definition union_ok (E: env) (ts: list ty) : bool :=
  forallb simple_member ts &&
  forallb (fun a => match find_cls E a with
                    | Some da => negb (match c_fields da with [] => true | _ => false end) && c_has_method da
                    | None => false end &&
                    forallb (fun b => String.eqb a b || distinguishes E a b) (data_members ts))
          (data_members ts).

Fixpoint no_lookalike_ty (E: env) (t: ty) : bool :=
  match t with
  | TInt | TStr | TDate | TData _ => true
  | TList t' | TDict t' | TOpt t' => no_lookalike_ty E t'
  | TTuple ts => forallb (no_lookalike_ty E) ts
  | TUnion ts => union_ok E ts
  end.

(* the root type and every field type of the table *)
Definition no_lookalike_env (E: env) : bool :=
  forallb (fun d => forallb (fun f => no_lookalike_ty E (f_ty f)) (c_fields d)) E.
Definition no_lookalike_union (E: env) (t: ty) : bool := no_lookalike_ty E t && no_lookalike_env E.

(* a dialect option and a Config option never contradict each other (then the different
   priority of call dialect and default dialect is invisible) *)
Definition opt_compat (o c: option bool) : bool :=
  match o, c with Some b, Some b' => Bool.eqb b b' | _, _ => true end.
Definition dialect_compat_o (E: env) (o: opts) : bool :=
  forallb (fun d => opt_compat (o_by_alias o) (c_by_alias d) && opt_compat (o_omit_none o) (c_omit_none d)
                    && opt_compat (o_omit_default o) (c_omit_default d)) E.
Definition dialect_compat (E: env) (dl: option bool) : bool := dialect_compat_o E (mkO dl None None).

(* no class declares two fields of the same name *)
Fixpoint nodupb (l: list string) : bool :=
  match l with [] => true | x :: r => negb (str_in x r) && nodupb r end.
Definition names_ok (E: env) : bool := forallb (fun d => nodupb (field_names d)) E.

(* ------------------------------------------------------------------ *)
(* from_dict / decode                                                   *)
Definition digit_of (c: ascii) : option Z :=
  let n := nat_of_ascii c in
  if (48 <=? n)%nat && (n <=? 57)%nat then Some (Z.of_nat (n - 48)) else None.

Fixpoint digits_val (s: string) (acc: Z) : option Z :=
  match s with
  | EmptyString => Some acc
  | String c r => match digit_of c with Some d => digits_val r (acc * 10 + d)%Z | None => None end
  end.

(* int("...") for optionally signed ASCII decimal text (whitespace/underscore forms not modelled:
   the generators do not produce them) *)
Definition parse_int (s: string) : option Z :=
  match s with
  | EmptyString => None
  | String "-" r => match r with EmptyString => None | _ => option_map Z.opp (digits_val r 0) end
  | String "+" r => match r with EmptyString => None | _ => digits_val r 0 end
  | _ => digits_val s 0
  end.

Fixpoint pos_digits (fuel: nat) (n: N) (acc: string) : string :=
  match fuel with
  | O => acc
  | S f =>
      let d := N.modulo n 10 in
      let acc' := String (ascii_of_N (48 + d)) acc in
      if N.leb n 9 then acc' else pos_digits f (N.div n 10) acc'
  end.
Definition dec_of_Z (z: Z) : string :=
  match z with
  | Z0 => "0"
  | Zpos p => pos_digits (S (N.to_nat (N.log2 (Npos p)))) (Npos p) ""
  | Zneg p => String "-" (pos_digits (S (N.to_nat (N.log2 (Npos p)))) (Npos p) "")
  end.

(* date.fromisoformat on the texts the generators produce: YYYY-MM-DD with month 1..12 and
   day 1..28 is valid, text without that shape is invalid *)
Definition is_digit (c: ascii) : bool := match digit_of c with Some _ => true | None => false end.
Definition two (a b: ascii) : Z :=
  match digit_of a, digit_of b with Some x, Some y => (x * 10 + y)%Z | _, _ => (-1)%Z end.
Definition is_iso (s: string) : bool :=
  match s with
  | String y1 (String y2 (String y3 (String y4 (String "-" (String m1 (String m2 (String "-" (String d1 (String d2 EmptyString))))))))) =>
      is_digit y1 && is_digit y2 && is_digit y3 && is_digit y4 &&
      (1 <=? two m1 m2)%Z && (two m1 m2 <=? 12)%Z && (1 <=? two d1 d2)%Z && (two d1 d2 <=? 28)%Z &&
      negb (is_digit y1 && is_digit y2 && is_digit y3 && is_digit y4 && (two y1 y2 =? 0)%Z && (two y3 y4 =? 0)%Z)
  | _ => false
  end.

Definition coerce_int (v: val) : res val :=
  match v with
  | VInt _ => Ok v
  | VStr s => match parse_int s with Some z => Ok (VInt z) | None => Err XRaw end
  | _ => Err XRaw
  end.
Definition coerce_str (v: val) : res val :=
  match v with
  | VStr _ => Ok v
  | VInt z => Ok (VStr (dec_of_Z z))
  | VNone => Ok (VStr "None")
  | _ => Err XUnmodelled
  end.

(* union unpacker skeleton (UnionUnpackerBuilder._add_body):
   phase 1, declaration order: exact-type return for int/str members, try for the others;
   phase 2: the scalar coercions of the int/str members as fallbacks, declaration order *)
Section Phases.
  Context (m: mode) (v: val) (f: ty -> res val).
  Fixpoint phase2 (l2: list ty) : res val :=
    match l2 with
    | [] => Err (union_err m)
    | TInt :: r => match coerce_int v with Ok y => Ok y | Err XUnmodelled => Err XUnmodelled | Err _ => phase2 r end
    | TStr :: r => match coerce_str v with Ok y => Ok y | Err XUnmodelled => Err XUnmodelled | Err _ => phase2 r end
    | _ :: r => phase2 r
    end.
  Fixpoint phase1 (all l: list ty) : res val :=
    match l with
    | [] => phase2 all
    | TInt :: r => match v with VInt _ => Ok v | _ => phase1 all r end
    | TStr :: r => match v with VStr _ => Ok v | _ => phase1 all r end
    | t' :: r => match f t' with
                 | Ok y => Ok y
                 | Err XUnmodelled => Err XUnmodelled
                 | Err _ => phase1 all r
                 end
    end.
End Phases.

Section Unpack.
  Variable E: env.
  Variable m: mode.

  (* field blocks of the generated __mashumaro_from_dict__ of class [c] over key closures:
     d.get(alias or name) ; MissingField ; any exception of the value unpacker -> InvalidFieldValue *)
  (* the keys a class accepts (forbid_extra_keys) and where a field is read (alias first, then - if allowed - name) *)
  Definition allowed_keys (d: cdef) : list string :=
    (map (fun f => match f_alias f with Some a => a | None => f_name f end) (c_fields d)
     ++ (if c_allow_by_name d then map f_name (c_fields d) else []))%list.
  Definition field_lookup {A} (d: cdef) (cl: list (string * A)) (f: fdef) : option A :=
    match f_alias f with
    | Some a => match assoc cl a with
                | Some g => Some g
                | None => if c_allow_by_name d then assoc cl (f_name f) else None end
    | None => assoc cl (f_name f)
    end.

  Definition unpack_fields_cl (c: cname) (d: cdef) (cl: list (string * (ty -> res val))) : res val :=
    if c_forbid_extra d && existsb (fun k => negb (existsb (String.eqb k) (allowed_keys d))) (map fst cl)
    then Err (XExtra c)
    else
    fmap (VObj c)
      (mapM (fun f =>
               match field_lookup d cl f with
               | None => match assoc (c_defaults d) (f_name f) with
                         | Some dv => Ok (f_name f, dv)           (* the constructor's default *)
                         | None => Err (XMissing (f_name f) c) end
               | Some g => match g (f_ty f) with
                           | Ok y => Ok (f_name f, y)
                           | Err XUnmodelled => Err XUnmodelled
                           | Err _ => Err (XInvalid (f_name f) c)
                           end
               end) (c_fields d)).

  Fixpoint unpack (v: val) {struct v} : ty -> res val :=
    fix on_ty (t: ty) {struct t} : res val :=
      match t with
      | TInt => coerce_int v
      | TStr => coerce_str v
      | TDate => match v with VStr s => if is_iso s then Ok (VDate s) else Err XRaw | _ => Err XRaw end
      | TList t' =>
          match v with
          | VList l | VTuple l => fmap VList (mapM (fun x => unpack x t') l)
          | VStr _ | VDict _ => Err XUnmodelled
          | _ => Err XRaw
          end
      | TDict t' =>
          match v with
          | VDict kvs =>
              fmap VDict (mapM (fun kv => match kv with
                                          | (k, x) => match unpack x t' with
                                                      | Ok y => Ok (k, y)
                                                      | Err e => Err e end
                                          end) kvs)
          | _ => Err XRaw
          end
      | TTuple ts =>
          match ts with
          | [] => Ok (VTuple [])
          | _ =>
              match v with
              | VList l | VTuple l => fmap VTuple (tuple_cl (map unpack l) ts)
              | VStr _ => Err XUnmodelled
              | _ => Err XRaw
              end
          end
      | TOpt t' => match v with VNone => Ok VNone | _ => on_ty t' end
      | TUnion ts => phase1 m v on_ty ts ts
      | TData c =>
          match find_cls E c with
          | None => Err XRaw
          | Some d =>
              (* also for a class without fields (since fix abe4c99 the try/`d.keys` frame is always emitted) *)
              match v with
              | VDict kvs => unpack_fields_cl c d (map (fun kv => match kv with (k, x) => (k, unpack x) end) kvs)
              | _ => Err XRaw                      (* "should be a dict instance" ValueError *)
              end
          end
      end.

  Definition run_unpack (t: ty) (v: val) : res val := unpack v t.
End Unpack.

(* ------------------------------------------------------------------ *)
(* structural equality for the correspondence                           *)
Definition err_eqb (a b: err) : bool :=
  match a, b with
  | XRaw, XRaw | XUnionI, XUnionI | XUnionV, XUnionV | XUnmodelled, XUnmodelled => true
  | XInvalid f c, XInvalid f' c' => String.eqb f f' && String.eqb c c'
  | XMissing f c, XMissing f' c' => String.eqb f f' && String.eqb c c'
  | XExtra c, XExtra c' => String.eqb c c'
  | _, _ => false
  end.

Definition res_eqb (a b: res val) : bool :=
  match a, b with
  | Ok x, Ok y => val_eqb x y
  | Err e, Err e' => err_eqb e e'
  | _, _ => false
  end.
