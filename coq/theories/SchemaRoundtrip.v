(* C20: model of JSONSchema.from_dict(d).to_dict() on documents (mashumaro/jsonschema/models.py:
   the JSONSchema dataclass with its $-aliases, omit_none, serialize_by_alias and the
   const/default sentinels of __pre_serialize__/__post_serialize__), and the proof that every
   document emitted by the model SchemaGen is a fixed point of it.
   [norm] is compared with the real JSONSchema.from_dict(d).to_dict() on every run
   (harness/props/c20_coq.py, correspondence "roundtrip-model-vs-JSONSchema"). *)
From Coq Require Import List String Ascii ZArith Bool Lia.
From Verif Require Import SchemaGen SchemaGenProofs SchemaGenThms.
Import ListNotations.
Open Scope string_scope.

(* kinds of the fields of the JSONSchema dataclass, in declaration order, under their aliases *)
Inductive kwkind :=
| KwStr | KwType | KwFormat | KwAnyList | KwSent | KwBool
| KwSchList | KwSchDict | KwSchOrBool | KwSch | KwNum | KwInt | KwStrList | KwDepReq.

Definition kwtab : list (string * kwkind) :=
  [("$schema", KwStr); ("type", KwType); ("enum", KwAnyList); ("const", KwSent); ("format", KwFormat);
   ("title", KwStr); ("description", KwStr); ("anyOf", KwSchList); ("$ref", KwStr); ("$defs", KwSchDict);
   ("default", KwSent); ("deprecated", KwBool); ("examples", KwAnyList);
   ("properties", KwSchDict); ("patternProperties", KwSchDict); ("additionalProperties", KwSchOrBool);
   ("propertyNames", KwSch); ("prefixItems", KwSchList); ("items", KwSch); ("contains", KwSch);
   ("multipleOf", KwNum); ("maximum", KwNum); ("exclusiveMaximum", KwNum); ("minimum", KwNum); ("exclusiveMinimum", KwNum);
   ("maxLength", KwInt); ("minLength", KwInt); ("pattern", KwStr);
   ("maxItems", KwInt); ("minItems", KwInt); ("uniqueItems", KwBool); ("maxContains", KwInt); ("minContains", KwInt);
   ("maxProperties", KwInt); ("minProperties", KwInt); ("required", KwStrList); ("dependentRequired", KwDepReq)].
Definition kwkeys : list string := map fst kwtab.
Definition kind_of (k: string) : option kwkind := lookup k kwtab.

(* outcome of from_dict(d).to_dict(): a document, an exception of from_dict, or outside the model
   (values whose treatment by the unpackers is not modelled, e.g. a number where a string is declared) *)
Inductive nres := NOk (d: js) | NErr | NOut.
(* one key: kept with a value, dropped (None is omitted / unknown key), error, outside the model *)
Inductive vres := VKeep (v: js) | VDrop | VErr | VOut.
Inductive lres (A: Type) := LOk (l: list A) | LErr | LOut.
Arguments LOk {A} l.
Arguments LErr {A}.
Arguments LOut {A}.

Definition lift (r: nres) : vres := match r with NOk d => VKeep d | NErr => VErr | NOut => VOut end.
(* additionalProperties: Union[JSONSchema, bool, None] -- when the JSONSchema member rejects a (non-empty) object the union
   falls through to bool(value) = True *)
Definition lift_or_true (r: nres) : vres := match r with NOk d => VKeep d | NErr => VKeep (JBool true) | NOut => VOut end.
Definition lcons {A} (x: nres) (f: js -> A) (r: lres A) : lres A :=
  match x, r with
  | NOk d, LOk l => LOk (f d :: l)
  | NErr, _ => LErr
  | NOk _, LErr => LErr
  | _, _ => LOut
  end.
Definition vlist (r: lres js) : vres := match r with LOk l => VKeep (JArr l) | LErr => VErr | LOut => VOut end.
Definition vdict (r: lres (string * js)) : vres := match r with LOk l => VKeep (JObj l) | LErr => VErr | LOut => VOut end.
Definition kcons (k: string) (x: vres) (r: lres (string * js)) : lres (string * js) :=
  match x, r with
  | VKeep v, LOk l => LOk ((k, v) :: l)
  | VDrop, r => r
  | VErr, _ => LErr
  | VKeep _, LErr => LErr
  | _, _ => LOut
  end.

Fixpoint select (ks: list string) (kvs: list (string * js)) : list (string * js) :=
  match ks with
  | [] => []
  | k :: r => match lookup k kvs with Some v => (k, v) :: select r kvs | None => select r kvs end
  end.

(* values that are plain data for from_dict (typed scalars are passed through / copied) *)
Definition scalar_val (kd: kwkind) (v: js) : vres :=
  match v with
  | JNull => match kd with KwSent => VKeep JNull | _ => VDrop end
  | _ =>
    match kd, v with
    | KwSent, _ => VKeep v
    | KwStr, JStr _ => VKeep v
    | KwType, JStr s => if is_type_name s then VKeep v else VErr
    | KwFormat, JStr s => if str_mem s formats then VKeep v else VErr
    | KwAnyList, JArr _ => VKeep v
    | KwBool, JBool _ => VKeep v
    | KwNum, JInt _ => VKeep v
    | KwInt, JInt _ => VKeep v
    | KwStrList, JArr xs => match all_strs xs with Some _ => VKeep v | None => VOut end
    | _, _ => VOut
    end
  end.

Fixpoint norm (d: js) : nres :=
  match d with
  | JObj kvs =>
      match (fix go (l: list (string * js)) : lres (string * js) :=
               match l with
               | [] => LOk []
               | (k, v) :: r =>
                   kcons k
                     (match kind_of k with
                      | None => VDrop
                      | Some KwSch => match v with JObj _ => lift (norm v) | JNull => VDrop | _ => VErr end
                      | Some KwSchOrBool => match v with
                                            | JBool _ => VKeep v | JObj _ => lift_or_true (norm v) | JNull => VDrop | _ => VOut end
                      | Some KwSchList =>
                          match v with
                          | JArr xs => vlist ((fix gl (xs: list js) : lres js :=
                                                 match xs with [] => LOk [] | x :: xr => lcons (norm x) (fun d => d) (gl xr) end) xs)
                          | JNull => VDrop | _ => VOut end
                      | Some KwSchDict =>
                          match v with
                          | JObj m => vdict ((fix gm (m: list (string * js)) : lres (string * js) :=
                                                match m with [] => LOk [] | (k', x) :: mr => lcons (norm x) (fun d => (k', d)) (gm mr) end) m)
                          | JNull => VDrop | _ => VOut end
                      | Some kd => scalar_val kd v
                      end) (go r)
               end) kvs with
      | LOk kept => NOk (JObj (select kwkeys kept))
      | LErr => NErr
      | LOut => NOut
      end
  | _ => NOut
  end.

(* ---- the same function, unfolded one level (for proofs) ---- *)
Fixpoint norm_list (xs: list js) : lres js :=
  match xs with [] => LOk [] | x :: xr => lcons (norm x) (fun d => d) (norm_list xr) end.
Fixpoint norm_dict (m: list (string * js)) : lres (string * js) :=
  match m with [] => LOk [] | (k', x) :: mr => lcons (norm x) (fun d => (k', d)) (norm_dict mr) end.
Definition norm_val (k: string) (v: js) : vres :=
  match kind_of k with
  | None => VDrop
  | Some KwSch => match v with JObj _ => lift (norm v) | JNull => VDrop | _ => VErr end
  | Some KwSchOrBool => match v with JBool _ => VKeep v | JObj _ => lift_or_true (norm v) | JNull => VDrop | _ => VOut end
  | Some KwSchList => match v with JArr xs => vlist (norm_list xs) | JNull => VDrop | _ => VOut end
  | Some KwSchDict => match v with JObj m => vdict (norm_dict m) | JNull => VDrop | _ => VOut end
  | Some kd => scalar_val kd v
  end.
Fixpoint norm_kvs (l: list (string * js)) : lres (string * js) :=
  match l with [] => LOk [] | (k, v) :: r => kcons k (norm_val k v) (norm_kvs r) end.

Lemma norm_unfold kvs :
  norm (JObj kvs) = match norm_kvs kvs with
                    | LOk kept => NOk (JObj (select kwkeys kept)) | LErr => NErr | LOut => NOut end.
Proof.
  assert (HL: forall xs, (fix gl (xs: list js) : lres js :=
                            match xs with [] => LOk [] | x :: xr => lcons (norm x) (fun d => d) (gl xr) end) xs = norm_list xs)
    by (induction xs as [|x xr IH]; simpl; [reflexivity|rewrite IH; reflexivity]).
  assert (HD: forall m, (fix gm (m: list (string * js)) : lres (string * js) :=
                           match m with [] => LOk [] | (k', x) :: mr => lcons (norm x) (fun d => (k', d)) (gm mr) end) m = norm_dict m)
    by (induction m as [|[k' x] mr IH]; simpl; [reflexivity|rewrite IH; reflexivity]).
  cbn [norm].
  match goal with |- match ?g kvs with LOk _ => _ | LErr => _ | LOut => _ end = _ =>
    assert (HK: forall l, g l = norm_kvs l) end.
  { induction l as [|[k v] r IH]; [reflexivity|].
    cbn [norm_kvs]. rewrite <- IH. reflexivity. }
  rewrite HK. reflexivity.
Qed.

(* ---- fixed points ---- *)
Definition fixv (kv: string * js) : Prop := norm_val (fst kv) (snd kv) = VKeep (snd kv).

Lemma norm_kvs_fix kvs : Forall fixv kvs -> norm_kvs kvs = LOk kvs.
Proof.
  induction 1 as [|[k v] r H HF IH]; [reflexivity|].
  cbn [norm_kvs]. unfold fixv in H. simpl in H. rewrite H, IH. reflexivity.
Qed.

Inductive Sub : list string -> list string -> Prop :=
| sub_nil l : Sub [] l
| sub_take x l1 l2 : Sub l1 l2 -> Sub (x :: l1) (x :: l2)
| sub_skip x l1 l2 : Sub l1 l2 -> Sub l1 (x :: l2).

Lemma sub_in l1 l2 : Sub l1 l2 -> forall x, In x l1 -> In x l2.
Proof. induction 1; simpl; intros y Hy; [contradiction| |]; intuition. Qed.

Lemma lookup_notin {A} k (l: list (string * A)) : ~ In k (keys l) -> lookup k l = None.
Proof.
  induction l as [|[k' v] r IH]; simpl; [reflexivity|]. intros H.
  destruct (String.eqb k' k) eqn:E; [apply String.eqb_eq in E; subst; tauto|]. apply IH. tauto.
Qed.

Lemma select_cons_notin ks k v kvs : ~ In k ks -> select ks ((k, v) :: kvs) = select ks kvs.
Proof.
  induction ks as [|a r IH]; simpl; [reflexivity|]. intros H.
  destruct (String.eqb k a) eqn:E; [apply String.eqb_eq in E; subst; tauto|].
  rewrite IH by tauto. reflexivity.
Qed.

Lemma select_nil ks : select ks [] = [].
Proof. induction ks; simpl; auto. Qed.

Lemma select_sub ks : NoDup ks -> forall kvs, Sub (keys kvs) ks -> select ks kvs = kvs.
Proof.
  induction 1 as [|k r Hk Hnd IH]; intros kvs HS.
  - inversion HS as [l Hl| |]. destruct kvs; [reflexivity|discriminate].
  - inversion HS as [l Hl|x l1 l2 HS' Hx|x l1 l2 HS' Hx]; subst.
    + destruct kvs; [apply select_nil|discriminate].
    + destruct kvs as [|[k' v] kvs']; [discriminate|]. simpl in Hx. inversion Hx; subst.
      simpl. rewrite String.eqb_refl. rewrite select_cons_notin by exact Hk. rewrite IH by exact HS'. reflexivity.
    + simpl. rewrite lookup_notin; [apply IH; exact HS'|].
      intros Hin. apply Hk. eapply sub_in; eauto.
Qed.

Lemma kwkeys_nodup : NoDup kwkeys.
Proof. apply str_nodup_true. vm_compute. reflexivity. Qed.

Lemma norm_fix kvs : Forall fixv kvs -> Sub (keys kvs) kwkeys -> norm (JObj kvs) = NOk (JObj kvs).
Proof.
  intros HF HS. rewrite norm_unfold, (norm_kvs_fix _ HF), (select_sub _ kwkeys_nodup _ HS). reflexivity.
Qed.

(* ---- rendered schema objects ---- *)
Definition render_kvs (r: sk) : list (string * js) :=
  (optkv "$schema" JStr r.(k_schema) ++ optkv "type" JStr r.(k_type) ++ optkv "enum" JArr r.(k_enum)
   ++ optkv "const" (fun d => d) r.(k_const) ++ optkv "format" JStr r.(k_format)
   ++ optkv "title" JStr r.(k_title) ++ optkv "description" JStr r.(k_description)
   ++ optkv "anyOf" JArr r.(k_anyOf) ++ optkv "$ref" JStr r.(k_ref) ++ optkv "$defs" JObj r.(k_defs)
   ++ optkv "default" (fun d => d) r.(k_default) ++ optkv "properties" JObj r.(k_props)
   ++ optkv "additionalProperties" (fun d => d) r.(k_addl) ++ optkv "propertyNames" (fun d => d) r.(k_pnames)
   ++ optkv "prefixItems" JArr r.(k_prefix) ++ optkv "items" (fun d => d) r.(k_items)
   ++ optkv "multipleOf" JInt r.(k_multipleOf) ++ optkv "maximum" JInt r.(k_maximum)
   ++ optkv "exclusiveMaximum" JInt r.(k_exMax) ++ optkv "minimum" JInt r.(k_minimum)
   ++ optkv "exclusiveMinimum" JInt r.(k_exMin)
   ++ optkv "maxLength" JInt r.(k_maxLength) ++ optkv "minLength" JInt r.(k_minLength)
   ++ optkv "pattern" JStr r.(k_pattern)
   ++ optkv "maxItems" JInt r.(k_maxItems) ++ optkv "minItems" JInt r.(k_minItems)
   ++ optkv "uniqueItems" JBool r.(k_unique)
   ++ optkv "maxProperties" JInt r.(k_maxProps) ++ optkv "minProperties" JInt r.(k_minProps)
   ++ optkv "required" (fun l => JArr (map JStr l)) r.(k_required) ++ [])%list.

Lemma render_is s : render s = JObj (render_kvs s).
Proof. unfold render, render_kvs. rewrite app_nil_r. reflexivity. Qed.

Lemma keys_app {A} (a b: list (string * A)) : keys (a ++ b) = (keys a ++ keys b)%list.
Proof. apply map_app. Qed.

Lemma sub_opt {A} k (f: A -> js) o r t : Sub (keys r) t -> Sub (keys (optkv k f o ++ r)) (k :: t).
Proof. intros H. destruct o; simpl; [apply sub_take|apply sub_skip]; exact H. Qed.

Lemma render_sub s : Sub (keys (render_kvs s)) kwkeys.
Proof.
  unfold render_kvs, kwkeys, kwtab. cbn [map fst].
  repeat first [apply sub_opt | apply sub_skip]. apply sub_nil.
Qed.

Lemma forall_optkv {A} k (f: A -> js) o : (forall a, o = Some a -> fixv (k, f a)) -> Forall fixv (optkv k f o).
Proof. intros H. destruct o; simpl; [constructor; [apply H; reflexivity|constructor]|constructor]. Qed.

Definition nf (d: js) : Prop := norm d = NOk d.

Lemma nf_obj d : nf d -> exists kvs, d = JObj kvs.
Proof.
  unfold nf. intros H.
  destruct d as [| b | z | s | l | kvs]; [discriminate H|discriminate H|discriminate H|discriminate H|discriminate H|eauto].
Qed.

Lemma norm_list_fix l : Forall nf l -> norm_list l = LOk l.
Proof. induction 1 as [|x r H HF IH]; [reflexivity|]. simpl. rewrite H, IH. reflexivity. Qed.
Lemma norm_dict_fix m : (forall k d, In (k, d) m -> nf d) -> norm_dict m = LOk m.
Proof.
  induction m as [|[k x] r IH]; intros H; [reflexivity|]. simpl.
  rewrite (H k x (or_introl eq_refl)), IH; [reflexivity|]. intros k' d' Hin. eapply H. right; eauto.
Qed.

(* sufficient conditions on a schema object for its rendering to be a fixed point *)
Record sk_nf (s: sk) : Prop := {
  nf_type : forall t, k_type s = Some t -> is_type_name t = true;
  nf_format : forall f, k_format s = Some f -> str_mem f formats = true;
  nf_anyOf : forall l, k_anyOf s = Some l -> Forall nf l;
  nf_defs : forall m, k_defs s = Some m -> forall k d, In (k, d) m -> nf d;
  nf_props : forall m, k_props s = Some m -> forall k d, In (k, d) m -> nf d;
  nf_addl : forall d, k_addl s = Some d -> nf d \/ exists b, d = JBool b;
  nf_pnames : forall d, k_pnames s = Some d -> nf d;
  nf_prefix : forall l, k_prefix s = Some l -> Forall nf l;
  nf_items : forall d, k_items s = Some d -> nf d }.

Lemma fix_sch k d : kind_of k = Some KwSch -> nf d -> fixv (k, d).
Proof.
  intros Hk H. destruct (nf_obj d H) as [kvs ->]. unfold fixv, norm_val. simpl fst; simpl snd. rewrite Hk.
  unfold nf in H. rewrite H. reflexivity.
Qed.

Lemma norm_render s : sk_nf s -> nf (render s).
Proof.
  intros [Ht Hfm Ha Hd Hp Had Hpn Hpf Hi]. unfold nf. rewrite render_is. apply norm_fix; [|apply render_sub].
  unfold render_kvs. repeat (apply Forall_app; split); try apply Forall_nil; apply forall_optkv; intros a Ha'.
  - reflexivity.
  - unfold fixv, norm_val. simpl. rewrite (Ht a Ha'). reflexivity.
  - reflexivity.
  - unfold fixv, norm_val. simpl. destruct a; reflexivity.
  - unfold fixv, norm_val. cbn [fst snd]. change (kind_of "format") with (Some KwFormat). cbn [scalar_val]. rewrite (Hfm a Ha'). reflexivity.
  - reflexivity.
  - reflexivity.
  - unfold fixv, norm_val. simpl. rewrite (norm_list_fix a (Ha a Ha')). reflexivity.
  - reflexivity.
  - unfold fixv, norm_val. simpl. rewrite (norm_dict_fix a (Hd a Ha')). reflexivity.
  - unfold fixv, norm_val. simpl. destruct a; reflexivity.
  - unfold fixv, norm_val. simpl. rewrite (norm_dict_fix a (Hp a Ha')). reflexivity.
  - destruct (Had a Ha') as [H|[b ->]]; [|reflexivity].
    destruct (nf_obj a H) as [kvs ->]. unfold fixv, norm_val. simpl fst; simpl snd.
    change (kind_of "additionalProperties") with (Some KwSchOrBool). unfold nf in H. rewrite H. reflexivity.
  - apply fix_sch; [reflexivity|exact (Hpn a Ha')].
  - unfold fixv, norm_val. simpl. rewrite (norm_list_fix a (Hpf a Ha')). reflexivity.
  - apply fix_sch; [reflexivity|exact (Hi a Ha')].
  - reflexivity.
  - reflexivity.
  - reflexivity.
  - reflexivity.
  - reflexivity.
  - reflexivity.
  - reflexivity.
  - reflexivity.
  - reflexivity.
  - reflexivity.
  - reflexivity.
  - reflexivity.
  - reflexivity.
  - unfold fixv, norm_val. simpl. rewrite all_strs_map. reflexivity.
Qed.

(* ---- the instance of the generic invariant (object level: sk_nf, document level: nf) ---- *)
Definition Gn (ks: list string) (d: js) : Prop := nf d.
Definition Sn (ks: list string) (s: sk) : Prop := sk_nf s.

Ltac sknf := constructor; simpl; intros; try discriminate.

Lemma N_ty ks n : is_type_name n = true -> Sn ks (ty_sk n).
Proof. intros H. sknf. inversion H0; subst; exact H. Qed.
Lemma N_any ks : Sn ks sk0.
Proof. sknf. Qed.
Lemma N_arr ks o u : (forall d, o = Some d -> Gn ks d) -> Sn ks (arr_sk o u).
Proof. intros H. sknf; [inversion H0; reflexivity|apply H; exact H0]. Qed.
Lemma N_dict ks o p : (forall d, o = Some d -> Gn ks d) -> (forall d, p = Some d -> Gn ks d) -> Sn ks (dict_sk o p).
Proof.
  intros H Hp. sknf.
  - inversion H0; reflexivity.
  - left. apply H. exact H0.
  - apply Hp. exact H0.
Qed.
Lemma N_tuple ks l : Forall (Gn ks) l -> Sn ks (tuple_sk l).
Proof.
  intros H. destruct l as [|x r]; sknf; try (inversion H0; reflexivity).
  inversion H0; subst. exact H.
Qed.
Lemma N_union ks l : l <> [] -> Forall (Gn ks) l -> Sn ks (union_sk l).
Proof. intros _ H. sknf. inversion H0; subst. exact H. Qed.
Lemma N_ref ks r : Sn ks (ref_sk r).
Proof. sknf. Qed.
Lemma N_obj ks c props req :
  (forall k d, In (k, d) props -> Gn ks d) -> NoDup req -> Sn ks (obj_sk c props req).
Proof.
  intros H _. unfold obj_sk. sknf.
  - inversion H0; reflexivity.
  - destruct props; [discriminate|]. inversion H0; subst. eapply H; eauto.
  - inversion H0; subst. right. eauto.
Qed.
Lemma N_ntobj ks props req :
  (forall k d, In (k, d) props -> Gn ks d) -> NoDup req -> Sn ks (ntobj_sk props req).
Proof.
  intros H _. unfold ntobj_sk. sknf.
  - inversion H0; reflexivity.
  - destruct props; [discriminate|]. inversion H0; subst. eapply H; eauto.
  - inversion H0; subst. right. eauto.
Qed.
Lemma N_leaf ks tp fmt pat :
  is_type_name tp = true -> match fmt with Some f => str_mem f formats | None => true end = true -> Sn ks (leaf_sk tp fmt pat).
Proof. intros H1 H2. sknf; [inversion H; subst; exact H1|subst fmt; exact H2]. Qed.
Lemma N_enum ks lit vals : Sn ks (enum_sk lit vals).
Proof. destruct lit; [destruct vals as [|v [|w l]]|]; sknf. Qed.
Lemma N_descr ks s d : Sn ks s -> Sn ks (set_description s d).
Proof. intros [A A' B C D E F G H]. destruct d as [[|c d']|]; constructor; simpl; assumption. Qed.
Lemma N_ann1 c k s : sk_nf s -> sk_nf (apply_ann c k s).
Proof. intros [A A' B C D E F G H]. destruct c as [kw z|p|b]; try destruct kw; destruct k; constructor; simpl; assumption. Qed.
Lemma N_ann ks cs k s : forallb ann_ok cs = true -> Sn ks s -> Sn ks (apply_anns cs k s).
Proof. intros _. unfold Sn. revert s. induction cs as [|c r IH]; intros s H; [exact H|]. simpl. apply IH. apply N_ann1. exact H. Qed.
Lemma N_default ks s d : Sn ks s -> Sn ks (set_default s d).
Proof. intros [A A' B C D E F G H]. destruct d; constructor; simpl; assumption. Qed.
Lemma N_schema ks s u : Sn ks s -> Sn ks (set_schema s u).
Proof. intros [A A' B C D E F G H]. constructor; simpl; assumption. Qed.
Lemma N_defs ks s st : Sn ks s -> (forall c d, In (c, d) st -> Gn ks d) -> Sn ks (set_defs s st).
Proof.
  intros [A A' B C D E F G H] Hst. constructor; simpl; try assumption.
  intros m Hm k d Hin. inversion Hm; subst. eapply Hst; eauto.
Qed.

Definition defs_nf (st: defs) : Prop := forall c d, In (c, d) st -> nf d.

(* every document emitted by a sequence of builds, and every collected definition, is a fixed point
   of JSONSchema.from_dict(.).to_dict() *)
Theorem roundtrip_seq E cfg fuel ts st ds st' :
  tab_nodup E ->
  build_seq E cfg fuel ts st = SOk (ds, st') -> defs_nf st ->
  defs_nf st' /\ Forall nf ds.
Proof.
  intros Hn Hb Hc.
  destruct (build_seq_inv E cfg Gn (fun _ _ _ _ H => H) Sn (fun ks s H => norm_render s H) (fun _ _ _ _ H => H)
                          N_ty N_any N_arr N_dict N_tuple N_union (fun ks c _ => N_ref ks _) N_obj N_leaf N_enum N_descr N_ann N_ntobj
                          N_default N_defs N_schema Hn fuel ts st ds st' Hb Hc) as (A & B & _).
  split; assumption.
Qed.

Theorem roundtrip_build E cfg fuel wd uri t st d st' :
  tab_nodup E ->
  build E cfg fuel wd uri t st = SOk (d, st') -> defs_nf st ->
  defs_nf st' /\ nf d.
Proof.
  intros Hn Hb Hc.
  destruct (build_inv E cfg Gn (fun _ _ _ _ H => H) Sn (fun ks s H => norm_render s H) (fun _ _ _ _ H => H)
                      N_ty N_any N_arr N_dict N_tuple N_union (fun ks c _ => N_ref ks _) N_obj N_leaf N_enum N_descr N_ann N_ntobj
                      N_default N_defs N_schema Hn fuel wd uri t st d st' Hb Hc) as (A & B & _).
  split; assumption.
Qed.

(* the sentinels: falsy / null const and default survive, absent ones stay absent; None-valued ordinary keywords
   and unknown keywords are dropped; keys come out in the declaration order of the JSONSchema dataclass *)
Example norm_sentinels :
  norm (JObj [("const", JInt 0); ("default", JNull)]) = NOk (JObj [("const", JInt 0); ("default", JNull)]) /\
  norm (JObj [("default", JStr ""); ("const", JBool false)]) = NOk (JObj [("const", JBool false); ("default", JStr "")]) /\
  norm (JObj [("title", JNull); ("x-unknown", JInt 1); ("type", JStr "string")]) = NOk (JObj [("type", JStr "string")]) /\
  norm (JObj [("type", JStr "strin")]) = NErr /\
  norm (JObj [("required", JArr [JStr "b"; JStr "a"]); ("$ref", JStr "#/$defs/A")]) =
    NOk (JObj [("$ref", JStr "#/$defs/A"); ("required", JArr [JStr "b"; JStr "a"])]).
Proof. repeat split; reflexivity. Qed.
