(* Helpers for harness-generated case files: hex-encoded strings and mismatch lists. *)
From Coq Require Import List String Ascii Arith Bool NArith.
Import ListNotations.
Open Scope string_scope.

Definition hexval (c: ascii) : nat :=
  let n := nat_of_ascii c in
  (if (48 <=? n) && (n <=? 57) then n - 48
   else if (97 <=? n) && (n <=? 102) then n - 87
   else if (65 <=? n) && (n <=? 70) then n - 55 else 0)%nat.

Fixpoint hx (s: string) : string :=
  match s with
  | String a (String b r) => String (ascii_of_nat (16 * hexval a + hexval b)%nat) (hx r)
  | _ => EmptyString
  end.

(* indices of the cases on which [ok] is false *)
Fixpoint bad_from {A} (ok: A -> bool) (l: list A) (i: nat) : list nat :=
  match l with
  | [] => []
  | x :: r => if ok x then bad_from ok r (S i) else i :: bad_from ok r (S i)
  end.
Definition bad_idx {A} (ok: A -> bool) (l: list A) : list nat := bad_from ok l 0.
