(* C09 -- proofs.
   Part 1: the three kernels translated from /repo (VerifGen.K4) compute what their
           specifications say (K4_precedence, K4_key_plan, K4_allowed_keys).
   Part 2: the model of the generated code (KeyImpl.impl_from_dict, which *calls* the kernels)
           equals a kernel-free description `code_from_dict`, for every class and input.
   Part 3: `code_from_dict` = the reference `keymodel` of the property text, for every class and input.
   Part 4: the statements of the property about `keymodel`.
   Part 5: the empty-string alias (repaired in /repo 7108448) behaves like any other alias. *)
From Coq Require Import List String Ascii ZArith Bool Lia Btauto.
From Verif Require Import Regex PyK PyK_alias KeyModel KeyImpl.
From VerifGen Require Import K4.
Import ListNotations.
Open Scope string_scope.
Open Scope list_scope.

(* ------------------------------------------------------------------ *)
(* basic facts *)

Lemma key_eqb_eq : forall a b, key_eqb a b = true <-> a = b.
Proof.
  intros [x| |x] [y| |y]; cbn; split; intro H; try discriminate; try reflexivity.
  - apply String.eqb_eq in H. now subst.
  - inversion H. apply String.eqb_refl.
  - apply Z.eqb_eq in H. now subst.
  - inversion H. apply Z.eqb_refl.
Qed.

Lemma key_eqb_refl : forall a, key_eqb a a = true.
Proof. intro a. now apply key_eqb_eq. Qed.

Lemma key_eqb_sym : forall a b, key_eqb a b = key_eqb b a.
Proof.
  intros a b. destruct (key_eqb a b) eqn:E.
  - apply key_eqb_eq in E. subst. symmetry. apply key_eqb_refl.
  - destruct (key_eqb b a) eqn:E2; [|reflexivity].
    apply key_eqb_eq in E2. subst. now rewrite key_eqb_refl in E.
Qed.

Lemma kmem_In : forall k l, kmem k l = true <-> In k l.
Proof.
  intros k l. unfold kmem. rewrite existsb_exists. split.
  - intros [x [Hin He]]. apply key_eqb_eq in He. now subst.
  - intro H. exists k. split; [assumption | apply key_eqb_refl].
Qed.

Lemma kmem_app : forall k a b, kmem k (a ++ b) = kmem k a || kmem k b.
Proof. intros. unfold kmem. apply existsb_app. Qed.

Lemma kv_eqb_key : forall a b, kv_eqb (kv_of_key a) (kv_of_key b) = key_eqb a b.
Proof. intros [x| |x] [y| |y]; reflexivity. Qed.

Lemma key_of_kv_of_key : forall k, key_of_kv (kv_of_key k) = Some k.
Proof. now intros [x| |x]. Qed.

Lemma existsb_map {A B} (p: B -> bool) (g: A -> B) l : existsb p (map g l) = existsb (fun x => p (g x)) l.
Proof. induction l as [|x r IH]; cbn; [reflexivity | now rewrite IH]. Qed.

Lemma existsb_ext' {A} (p q: A -> bool) l : (forall x, p x = q x) -> existsb p l = existsb q l.
Proof. intro H. induction l as [|x r IH]; cbn; [reflexivity | now rewrite H, IH]. Qed.

Lemma set_mem_keys : forall l k, k_set_mem (KList (map kv_of_key l)) (kv_of_key k) = kmem k l.
Proof.
  intros l k. cbn. unfold kmem. rewrite existsb_map.
  apply existsb_ext'. intro a. apply kv_eqb_key.
Qed.

(* ------------------------------------------------------------------ *)
(* Part 1a: alias source precedence *)

Lemma for_list_alias : forall (F: kv -> kv -> res kv),
  (forall a acc, F (enc_ann a) acc = Ok (match a with AAlias s => KStr s | AOther => acc end)) ->
  forall l acc, for_list (map enc_ann l) F (enc_ostr acc) = Ok (enc_ostr (orelse (last_alias l) acc)).
Proof.
  intros F HF l. induction l as [|a r IH]; intro acc; cbn [map for_list last_alias].
  - reflexivity.
  - rewrite HF. destruct a as [s|].
    + change (KStr s) with (enc_ostr (Some s)). rewrite IH.
      destruct (last_alias r); reflexivity.
    + rewrite IH. destruct (last_alias r); reflexivity.
Qed.

Lemma for_list_alias0 : forall (F: kv -> kv -> res kv),
  (forall a acc, F (enc_ann a) acc = Ok (match a with AAlias s => KStr s | AOther => acc end)) ->
  forall l, for_list (map enc_ann l) F KNone = Ok (enc_ostr (last_alias l)).
Proof.
  intros F HF l. change KNone with (enc_ostr None). rewrite (for_list_alias F HF).
  destruct (last_alias l); reflexivity.
Qed.

Lemma dict_get_aliases : forall al n,
  k_dict_get (enc_aliases al) (KStr n) = Ok (enc_ostr (assoc al n)).
Proof.
  intros al n. unfold enc_aliases, k_dict_get. f_equal.
  induction al as [|[k v] r IH]; cbn [map d_get assoc fst snd].
  - reflexivity.
  - change (kv_eqb (KStr k) (KStr n)) with (String.eqb k n).
    destruct (String.eqb k n); [reflexivity | exact IH].
Qed.

(* result = metadata alias if not None, else the last Annotated Alias if any,
   else Config.aliases[fname], else None *)
Lemma get_field_alias_spec :
  forall (fname: string) (md anns: kv) (m: option string) (isann: bool) (l: list ann) (al: list (string * string)),
    k_dict_get md (KStr "alias") = Ok (enc_ostr m) ->
    (isann = true -> anns = KTuple (map enc_ann l)) ->
    get_field_alias (KStr fname) md (KBool isann) anns (enc_aliases al)
    = Ok (enc_ostr (orelse m (orelse (if isann then last_alias l else None) (assoc al fname)))).
Proof.
  intros fname md anns m isann l al Hm Hann.
  unfold get_field_alias. rewrite Hm. cbn [bind].
  remember (k_dict_get (enc_aliases al) (KStr fname)) as G eqn:HG.
  rewrite dict_get_aliases in HG.
  destruct m as [s|]; cbn [enc_ostr orelse].
  - reflexivity.
  - destruct isann; cbn.
    + rewrite (Hann eq_refl). cbn [k_for].
      erewrite for_list_alias0.
      2:{ intros [s|] acc; reflexivity. }
      cbn [bind]. destruct (last_alias l) as [s|]; cbn; subst G; reflexivity.
    + subst G. reflexivity.
Qed.

Lemma enc_meta_get : forall f, k_dict_get (enc_meta f) (KStr "alias") = Ok (enc_ostr (f_meta f)).
Proof. intro f. unfold enc_meta. destruct (f_meta f); reflexivity. Qed.

Lemma impl_alias_spec : forall c f, impl_alias c f = Ok (enc_ostr (alias_of c f)).
Proof.
  intros c f. unfold impl_alias, alias_of, ann_alias.
  destruct (f_ann f) as [l|].
  - apply (get_field_alias_spec _ _ _ _ true l); [apply enc_meta_get | reflexivity].
  - apply (get_field_alias_spec _ _ _ _ false []); [apply enc_meta_get | discriminate].
Qed.

(* ------------------------------------------------------------------ *)
(* Part 1b: the keys read by the emitted d.get lines *)

(* `fname if alias is None else alias` *)
Definition primary_name (a: option string) (n: string) : string :=
  match a with Some s => s | None => n end.

Definition plan_spec (allow: bool) (a: option string) (n: string) : list key :=
  match a with
  | Some s => if allow then [KeyS s; KeyS n] else [KeyS s]
  | None => [KeyS n]
  end.

Lemma key_plan_spec : forall allow a n,
  key_plan (KBool allow) (enc_ostr a) (KStr n) = Ok (KTuple (map kv_of_key (plan_spec allow a n))).
Proof.
  intros allow a n. unfold key_plan, plan_spec.
  destruct allow, a as [s|]; reflexivity.
Qed.

(* ------------------------------------------------------------------ *)
(* Part 1c: the allowed keys of forbid_extra_keys *)

Lemma map_res_spec : forall (F: kv -> res kv) {A} (g: A -> kv) (h: A -> kv) (l: list A),
  (forall x, F (g x) = Ok (h x)) -> map_res F (map g l) = Ok (map h l).
Proof.
  intros F A g h l H. induction l as [|x r IH]; cbn [map map_res]; [reflexivity|].
  now rewrite H, IH.
Qed.

Definition discr_truthy (o: option (option string)) : list key :=
  match o with
  | Some (Some s) => if String.eqb s "" then [] else [KeyS s]
  | _ => []
  end.

Definition allowed_spec (discr: option (option string)) (allow: bool) (ff: list (string * option string)) : list key :=
  map (fun p => KeyS (primary_name (snd p) (fst p))) ff
  ++ discr_truthy discr
  ++ (if allow then map (fun p => KeyS (fst p)) ff else []).

Definition enc_ff (ff: list (string * option string)) : kv :=
  KList (map (fun p => KTuple [KStr (fst p); enc_ostr (snd p); KObj 1]) ff).

Lemma allowed_keys_spec : forall discr allow ff,
  allowed_keys (enc_discr discr) (KBool allow) (enc_ff ff)
  = Ok (KList (map kv_of_key (allowed_spec discr allow ff))).
Proof.
  intros discr allow ff. unfold allowed_keys, enc_ff, k_setcomp.
  erewrite (map_res_spec _ _ (fun p => kv_of_key (KeyS (primary_name (snd p) (fst p))))).
  2:{ intros [n [s|]]; reflexivity. }
  cbn [bind].
  assert (Hn: forall l: list (string * option string),
             map_res (fun v_f => t9 <- k_index v_f 0;; Ok t9)
                     (map (fun p => KTuple [KStr (fst p); enc_ostr (snd p); KObj 1]) l)
             = Ok (map (fun p => kv_of_key (KeyS (fst p))) l)).
  { intro l. apply map_res_spec. intros [n a]. reflexivity. }
  unfold allowed_spec. rewrite !map_app, !map_map.
  destruct discr as [[s|]|]; cbn [enc_discr k_truthy bind k_getattr2 ns_get enc_ostr String.eqb Ascii.eqb discr_truthy].
  - cbn. destruct (String.eqb s ""); cbn [negb bind k_set_add k_truthy];
      destruct allow; cbn [k_truthy bind]; try rewrite Hn; cbn [bind k_set_union map app];
        rewrite ?app_nil_r, <- ?app_assoc, ?map_map; reflexivity.
  - cbn. destruct allow; cbn [k_truthy bind]; try rewrite Hn; cbn [bind k_set_union map app];
      rewrite ?app_nil_r, ?map_map; reflexivity.
  - cbn. destruct allow; cbn [k_truthy bind]; try rewrite Hn; cbn [bind k_set_union map app];
      rewrite ?app_nil_r, ?map_map; reflexivity.
Qed.

(* ------------------------------------------------------------------ *)
(* Part 2: kernel-free description of the generated code *)

Definition code_plan (c: cls) (f: fld) : list key := plan_spec (c_allow c) (alias_of c f) (f_name f).

Definition code_accepted (c: cls) : list key :=
  allowed_spec (c_discr c) (c_allow c) (map (fun f => (f_name f, alias_of c f)) (c_fields c)).

Fixpoint code_fields (c: cls) (d: dict) (fs: list fld) : outcome :=
  match fs with
  | [] => OInst []
  | f :: r =>
      match first_present d (code_plan c f) with
      | None => if f_dflt f then
                  match code_fields c d r with
                  | OInst vs => OInst ((f_name f, None) :: vs)
                  | o => o end
                else OMissing (f_name f)
      | Some kv => match code_fields c d r with
                   | OInst vs => OInst ((f_name f, Some kv) :: vs)
                   | o => o end
      end
  end.

Definition code_from_dict (c: cls) (d: dict) : outcome :=
  if c_forbid c then
    match filter (fun k => negb (kmem k (code_accepted c))) (keys d) with
    | (_ :: _) as ks => OExtra ks
    | [] => code_fields c d (c_fields c)
    end
  else code_fields c d (c_fields c).

Lemma impl_filtered_spec : forall c fs,
  impl_filtered c fs = Ok (map (fun f => (f, enc_ostr (alias_of c f))) fs).
Proof.
  intros c fs. induction fs as [|f r IH]; cbn [impl_filtered map]; [reflexivity|].
  rewrite impl_alias_spec. cbn [bind]. rewrite IH. reflexivity.
Qed.

Lemma impl_reads_spec : forall d ks, impl_reads d (map kv_of_key ks) = Ok (first_present d ks).
Proof.
  intros d ks. induction ks as [|k r IH]; cbn [map impl_reads first_present]; [reflexivity|].
  rewrite key_of_kv_of_key. destruct (dget d k); [reflexivity | exact IH].
Qed.

Lemma impl_field_read_spec : forall c d f,
  impl_field_read c d (f, enc_ostr (alias_of c f)) = Ok (first_present d (code_plan c f)).
Proof.
  intros c d f. unfold impl_field_read. cbn [fst snd].
  rewrite key_plan_spec. cbn [bind]. apply impl_reads_spec.
Qed.

Lemma impl_fields_spec : forall c d fs,
  impl_fields c d (map (fun f => (f, enc_ostr (alias_of c f))) fs) = Ok (code_fields c d fs).
Proof.
  intros c d fs. induction fs as [|f r IH]; cbn [map impl_fields code_fields]; [reflexivity|].
  rewrite impl_field_read_spec. cbn [bind fst].
  destruct (first_present d (code_plan c f)) as [kv|].
  - rewrite IH. cbn [bind]. destruct (code_fields c d r); reflexivity.
  - destruct (f_dflt f); [rewrite IH; cbn [bind]; destruct (code_fields c d r)|]; reflexivity.
Qed.

Lemma enc_filtered_ff : forall c fs,
  enc_filtered (map (fun f => (f, enc_ostr (alias_of c f))) fs)
  = enc_ff (map (fun f => (f_name f, alias_of c f)) fs).
Proof. intros. unfold enc_filtered, enc_ff. now rewrite !map_map. Qed.

Lemma impl_forbidden_spec : forall l d,
  impl_forbidden (KList (map kv_of_key l)) d = filter (fun k => negb (kmem k l)) (keys d).
Proof.
  intros l d. unfold impl_forbidden. apply filter_ext. intro k. now rewrite set_mem_keys.
Qed.

(* the model that calls the translated kernels = the kernel-free description, always *)
Theorem impl_eq_code : forall c d, impl_from_dict c d = Ok (code_from_dict c d).
Proof.
  intros c d. unfold impl_from_dict, code_from_dict.
  rewrite impl_filtered_spec. cbn [bind].
  destruct (c_forbid c).
  - rewrite enc_filtered_ff, allowed_keys_spec. cbn [bind].
    rewrite impl_forbidden_spec. fold (code_accepted c).
    destruct (filter (fun k => negb (kmem k (code_accepted c))) (keys d)); [|reflexivity].
    apply impl_fields_spec.
  - apply impl_fields_spec.
Qed.

(* ------------------------------------------------------------------ *)
(* Part 3: the code is the reference keymodel *)

Lemma code_plan_candidates : forall c f, code_plan c f = candidates c f.
Proof.
  intros c f. unfold code_plan, candidates, plan_spec.
  destruct (alias_of c f) as [s|]; [|reflexivity]. destruct (c_allow c); reflexivity.
Qed.

Lemma code_fields_read_fields : forall c d fs, code_fields c d fs = read_fields c d fs.
Proof.
  intros c d fs. induction fs as [|f r IH]; cbn [code_fields read_fields]; [reflexivity|].
  unfold field_read. rewrite code_plan_candidates, IH. reflexivity.
Qed.

Lemma accepted_members : forall c k fs,
  kmem k (map (fun p => KeyS (primary_name (snd p) (fst p))) (map (fun f => (f_name f, alias_of c f)) fs))
  || (if c_allow c then kmem k (map (fun p => KeyS (fst p)) (map (fun f => (f_name f, alias_of c f)) fs)) else false)
  = kmem k (flat_map (candidates c) fs).
Proof.
  intros c k fs. induction fs as [|f r IH]; cbn [map flat_map].
  - destruct (c_allow c); reflexivity.
  - rewrite kmem_app, <- IH. cbn [fst snd].
    unfold candidates, primary_name.
    destruct (alias_of c f) as [s|]; destruct (c_allow c); unfold kmem; cbn [existsb]; btauto.
Qed.

Lemma code_accepted_members : forall c k, kmem k (code_accepted c) = kmem k (accepted c).
Proof.
  intros c k. unfold code_accepted, allowed_spec, accepted.
  rewrite !kmem_app, <- (accepted_members c k).
  change (discr_truthy (c_discr c)) with (discr_keys c).
  destruct (c_allow c); cbn [kmem existsb]; rewrite ?orb_false_r.
  - rewrite <- !orb_assoc. f_equal. apply orb_comm.
  - reflexivity.
Qed.

Theorem code_eq_keymodel : forall c d, code_from_dict c d = keymodel c d.
Proof.
  intros c d. unfold code_from_dict, keymodel, extra_keys.
  assert (Hfilt: filter (fun k => negb (kmem k (code_accepted c))) (keys d)
                 = filter (fun k => negb (kmem k (accepted c))) (keys d)).
  { apply filter_ext. intro k. now rewrite code_accepted_members. }
  rewrite Hfilt, code_fields_read_fields.
  destruct (c_forbid c); destruct (filter (fun k => negb (kmem k (accepted c))) (keys d)); reflexivity.
Qed.

Theorem impl_eq_keymodel : forall c d, impl_from_dict c d = Ok (keymodel c d).
Proof. intros c d. rewrite impl_eq_code. f_equal. apply code_eq_keymodel. Qed.

(* every key the emitted lookup of a field can read is in the allowed set of forbid_extra_keys *)
Theorem code_reads_allowed : forall c f k,
  In f (c_fields c) -> In k (code_plan c f) -> kmem k (code_accepted c) = true.
Proof.
  intros c f k Hf Hk.
  rewrite code_accepted_members. rewrite code_plan_candidates in Hk.
  apply kmem_In. unfold accepted. apply in_or_app. left. apply in_flat_map. eauto.
Qed.

(* ------------------------------------------------------------------ *)
(* Part 4: what the reference says (property text) *)

Definition is_none {A} (o: option A) : bool := match o with None => true | Some _ => false end.
Definition is_nil {A} (l: list A) : bool := match l with [] => true | _ => false end.

Definition read_at (d: dict) (k: key) : option (key * Z) :=
  match dget d k with Some v => Some (k, v) | None => None end.

(* each field is read from exactly one key: the alias if it has one, else the name;
   with allow_deserialization_not_by_alias the name is the fallback *)
Theorem field_read_spec : forall c d f,
  field_read c d f =
  match alias_of c f with
  | Some a => match read_at d (KeyS a) with
              | Some r => Some r
              | None => if c_allow c then read_at d (KeyS (f_name f)) else None
              end
  | None => read_at d (KeyS (f_name f))
  end.
Proof.
  intros c d f. unfold field_read, candidates, read_at.
  destruct (alias_of c f) as [a|]; cbn [first_present].
  - destruct (dget d (KeyS a)); [reflexivity|].
    destruct (c_allow c); cbn [first_present]; [|reflexivity].
    destruct (dget d (KeyS (f_name f))); reflexivity.
  - destruct (dget d (KeyS (f_name f))); reflexivity.
Qed.

Lemma read_fields_spec : forall c d fs,
  read_fields c d fs =
  match find (fun f => is_none (field_read c d f) && negb (f_dflt f)) fs with
  | Some f => OMissing (f_name f)
  | None => OInst (map (fun f => (f_name f, field_read c d f)) fs)
  end.
Proof.
  intros c d fs. induction fs as [|f r IH]; cbn [read_fields find map]; [reflexivity|].
  rewrite IH. destruct (field_read c d f) as [kv|]; cbn [is_none andb].
  - destruct (find _ r); reflexivity.
  - destruct (f_dflt f); cbn [negb]; [|reflexivity].
    destruct (find _ r); reflexivity.
Qed.

(* closed form of the whole outcome *)
Theorem keymodel_spec : forall c d,
  keymodel c d =
  if c_forbid c && negb (is_nil (extra_keys c d)) then OExtra (extra_keys c d)
  else match find (fun f => is_none (field_read c d f) && negb (f_dflt f)) (c_fields c) with
       | Some f => OMissing (f_name f)
       | None => OInst (map (fun f => (f_name f, field_read c d f)) (c_fields c))
       end.
Proof.
  intros c d. unfold keymodel. rewrite <- read_fields_spec.
  destruct (extra_keys c d); destruct (c_forbid c); reflexivity.
Qed.

Theorem alias_wins : forall c d f a v,
  alias_of c f = Some a -> dget d (KeyS a) = Some v -> field_read c d f = Some (KeyS a, v).
Proof.
  intros c d f a v Ha Hv. rewrite field_read_spec, Ha. unfold read_at. now rewrite Hv.
Qed.

Theorem name_fallback : forall c d f a,
  alias_of c f = Some a -> dget d (KeyS a) = None ->
  field_read c d f = if c_allow c then read_at d (KeyS (f_name f)) else None.
Proof.
  intros c d f a Ha Hv. rewrite field_read_spec, Ha. unfold read_at at 1. now rewrite Hv.
Qed.

Theorem accepted_covers_reads : forall c d f k v,
  In f (c_fields c) -> field_read c d f = Some (k, v) -> In k (accepted c).
Proof.
  intros c d f k v Hf Hr. unfold accepted. apply in_or_app. left. apply in_flat_map.
  exists f. split; [assumption|].
  unfold field_read in Hr. induction (candidates c f) as [|k' r IH]; cbn [first_present] in Hr; [discriminate|].
  destruct (dget d k'); [inversion Hr; now left | right; now apply IH].
Qed.

Theorem extra_keys_spec : forall c d k,
  In k (extra_keys c d) <-> In k (keys d) /\ ~ In k (accepted c).
Proof.
  intros c d k. unfold extra_keys. rewrite filter_In. split; intros [H1 H2]; split; try assumption.
  - intro Hin. apply kmem_In in Hin. now rewrite Hin in H2.
  - destruct (kmem k (accepted c)) eqn:E; [|reflexivity]. apply kmem_In in E. contradiction.
Qed.

Theorem extra_exact : forall c d, c_forbid c = true ->
  (extra_keys c d <> [] -> keymodel c d = OExtra (extra_keys c d)) /\
  (forall ks, keymodel c d = OExtra ks -> ks = extra_keys c d /\ ks <> []).
Proof.
  intros c d Hf. rewrite keymodel_spec, Hf. cbn [andb]. split.
  - intro Hne. destruct (extra_keys c d); [contradiction | reflexivity].
  - intros ks H. destruct (extra_keys c d) eqn:E; cbn [is_nil negb] in H.
    + destruct (find _ _); discriminate.
    + inversion H. split; [reflexivity | discriminate].
Qed.

(* without forbid_extra_keys a key outside the accepted set does not matter, wherever it sits *)
Lemma dget_insert : forall d1 d2 k v k', key_eqb k k' = false ->
  dget (d1 ++ (k, v) :: d2) k' = dget (d1 ++ d2) k'.
Proof.
  intros d1 d2 k v k' H. induction d1 as [|[k0 v0] r IH]; cbn [app dget].
  - now rewrite H.
  - destruct (key_eqb k0 k'); [reflexivity | exact IH].
Qed.

Lemma first_present_insert : forall d1 d2 k v ks, ~ In k ks ->
  first_present (d1 ++ (k, v) :: d2) ks = first_present (d1 ++ d2) ks.
Proof.
  intros d1 d2 k v ks. induction ks as [|k' r IH]; intro H; cbn [first_present]; [reflexivity|].
  assert (Hk: key_eqb k k' = false).
  { destruct (key_eqb k k') eqn:E; [|reflexivity]. apply key_eqb_eq in E. subst. exfalso. apply H. now left. }
  rewrite (dget_insert _ _ _ _ _ Hk). rewrite IH; [reflexivity|]. intro Hin. apply H. now right.
Qed.

Lemma read_fields_insert : forall c d1 d2 k v fs,
  (forall f, In f fs -> ~ In k (candidates c f)) ->
  read_fields c (d1 ++ (k, v) :: d2) fs = read_fields c (d1 ++ d2) fs.
Proof.
  intros c d1 d2 k v fs. induction fs as [|f r IH]; intro H; cbn [read_fields]; [reflexivity|].
  unfold field_read. rewrite first_present_insert by (apply H; now left).
  rewrite IH by (intros f' Hf'; apply H; now right). reflexivity.
Qed.

Theorem ignored : forall c d1 d2 k v, c_forbid c = false -> ~ In k (accepted c) ->
  keymodel c (d1 ++ (k, v) :: d2) = keymodel c (d1 ++ d2).
Proof.
  intros c d1 d2 k v Hf Hk. unfold keymodel. rewrite Hf.
  assert (H: read_fields c (d1 ++ (k, v) :: d2) (c_fields c) = read_fields c (d1 ++ d2) (c_fields c)).
  { apply read_fields_insert. intros f Hin Hc. apply Hk. unfold accepted. apply in_or_app. left.
    apply in_flat_map. eauto. }
  destruct (extra_keys c (d1 ++ (k, v) :: d2)); destruct (extra_keys c (d1 ++ d2)); exact H.
Qed.

(* with forbid_extra_keys, adding a non-accepted key always yields ExtraKeysError that names it *)
Theorem forbidden_reported : forall c d1 d2 k v, c_forbid c = true -> ~ In k (accepted c) ->
  exists ks, keymodel c (d1 ++ (k, v) :: d2) = OExtra ks /\ In k ks.
Proof.
  intros c d1 d2 k v Hf Hk.
  assert (Hin: In k (extra_keys c (d1 ++ (k, v) :: d2))).
  { apply extra_keys_spec. split; [|assumption]. unfold keys. rewrite map_app. apply in_or_app. right. now left. }
  exists (extra_keys c (d1 ++ (k, v) :: d2)). split; [|assumption].
  apply extra_exact; [assumption|]. intro E. now rewrite E in Hin.
Qed.

(* ------------------------------------------------------------------ *)
(* Part 5: the empty string is an alias like any other (repaired in /repo 7108448; before, `alias or fname`
   made the lookup fall back to the field name) *)

Definition w_empty : cls := mkC [mkF "x" (Some "") None false] [] false false None.
Definition w_empty_d : dict := [(KeyS "", 1%Z); (KeyS "x", 2%Z)].

Lemma empty_alias_is_an_alias :
  impl_from_dict w_empty w_empty_d = Ok (OInst [("x", Some (KeyS "", 1%Z))])
  /\ keymodel w_empty w_empty_d = OInst [("x", Some (KeyS "", 1%Z))]
  /\ impl_from_dict (mkC [mkF "x" (Some "") None false] [] true true None) [(KeyS "", 1%Z)]
     = Ok (OInst [("x", Some (KeyS "", 1%Z))]).
Proof. repeat split; vm_compute; reflexivity. Qed.

(* ------------------------------------------------------------------ *)
(* Part 6: class hierarchies -- the nearest declaration / the nearest Config is the one that counts *)

Definition dname (p: fld * bool) : string := f_name (fst p).

Lemma lookup_upsert_same : forall p fs, lookup_decl (dname p) (upsert p fs) = Some p.
Proof.
  intros p fs. unfold lookup_decl, dname. induction fs as [|q r IH]; cbn [upsert find].
  - now rewrite String.eqb_refl.
  - destruct (String.eqb (f_name (fst q)) (f_name (fst p))) eqn:E; cbn [find].
    + now rewrite String.eqb_refl.
    + rewrite E. exact IH.
Qed.

Lemma lookup_upsert_other : forall n p fs, String.eqb (dname p) n = false ->
  lookup_decl n (upsert p fs) = lookup_decl n fs.
Proof.
  intros n p fs H. unfold lookup_decl, dname in *. induction fs as [|q r IH]; cbn [upsert find].
  - now rewrite H.
  - destruct (String.eqb (f_name (fst q)) (f_name (fst p))) eqn:E; cbn [find].
    + apply String.eqb_eq in E. rewrite E, H. reflexivity.
    + destruct (String.eqb (f_name (fst q)) n); [reflexivity | exact IH].
Qed.

Lemma find_app {A} (p: A -> bool) l1 l2 :
  find p (l1 ++ l2) = match find p l1 with Some x => Some x | None => find p l2 end.
Proof. induction l1 as [|x r IH]; cbn [app find]; [reflexivity|]. destruct (p x); [reflexivity | exact IH]. Qed.

Lemma lookup_fold_upsert : forall n ds acc,
  lookup_decl n (fold_left (fun a p => upsert p a) ds acc)
  = match lookup_decl n (rev ds) with Some p => Some p | None => lookup_decl n acc end.
Proof.
  intros n ds. induction ds as [|p r IH]; intro acc; cbn [fold_left rev].
  - reflexivity.
  - rewrite IH. unfold lookup_decl at 2 3. rewrite find_app. fold (lookup_decl n (rev r)).
    destruct (lookup_decl n (rev r)); [reflexivity|]. cbn [find].
    destruct (String.eqb (f_name (fst p)) n) eqn:E.
    + apply String.eqb_eq in E. subst n. apply lookup_upsert_same.
    + now apply lookup_upsert_other.
Qed.

Lemma collect_app : forall ls l,
  collect (ls ++ [l]) = fold_left (fun a p => upsert p a) (l_decls l) (collect ls).
Proof. intros. unfold collect. now rewrite fold_left_app. Qed.

(* the declaration a class sees for a name: the one of its own body if there is one (the last one
   written), otherwise whatever its parent sees *)
Theorem nearest_declaration : forall n ls l,
  lookup_decl n (collect (ls ++ [l]))
  = match lookup_decl n (rev (l_decls l)) with Some p => Some p | None => lookup_decl n (collect ls) end.
Proof. intros. rewrite collect_app. apply lookup_fold_upsert. Qed.

Theorem nearest_config : forall ls l, nearest_cfg (ls ++ [l]) = step_cfg (nearest_cfg ls) l.
Proof. intros. unfold nearest_cfg. now rewrite fold_left_app. Qed.

(* a re-declaration keeps the position of the first declaration; every name occurs once *)
Lemma upsert_names : forall p fs,
  map dname (upsert p fs)
  = if existsb (fun q => String.eqb (dname q) (dname p)) fs then map dname fs else map dname fs ++ [dname p].
Proof.
  intros p fs. induction fs as [|q r IH]; cbn [upsert map existsb app]; [reflexivity|].
  change (String.eqb (f_name (fst q)) (f_name (fst p))) with (String.eqb (dname q) (dname p)).
  destruct (String.eqb (dname q) (dname p)) eqn:E; cbn [map orb].
  - apply String.eqb_eq in E. now rewrite E.
  - rewrite IH. destruct (existsb _ r); reflexivity.
Qed.

Lemma nodup_snoc {A} (l: list A) x : NoDup l -> ~ In x l -> NoDup (l ++ [x]).
Proof.
  induction l as [|y r IH]; cbn [app]; intros Hn Hx.
  - constructor; [intros [] | constructor].
  - inversion Hn as [|? ? Hy Hr]; subst. constructor.
    + intro Hin. apply in_app_or in Hin as [Hin|[Hin|[]]]; [contradiction|]. subst. apply Hx. now left.
    + apply IH; [assumption|]. intro Hin. apply Hx. now right.
Qed.

Lemma upsert_nodup : forall p fs, NoDup (map dname fs) -> NoDup (map dname (upsert p fs)).
Proof.
  intros p fs H. rewrite upsert_names.
  destruct (existsb (fun q => String.eqb (dname q) (dname p)) fs) eqn:E; [assumption|].
  apply nodup_snoc; [assumption|].
  intro Hin. apply in_map_iff in Hin as [q [Hq Hin]].
  assert (existsb (fun q => String.eqb (dname q) (dname p)) fs = true).
  { apply existsb_exists. exists q. split; [assumption|]. rewrite Hq. apply String.eqb_refl. }
  congruence.
Qed.

Theorem collect_nodup : forall ls, NoDup (map dname (collect ls)).
Proof.
  intro ls. unfold collect.
  assert (H: forall ls acc, NoDup (map dname acc) ->
             NoDup (map dname (fold_left (fun acc l => fold_left (fun a p => upsert p a) (l_decls l) acc) ls acc))).
  { clear ls. induction ls as [|l r IH]; intros acc Ha; cbn [fold_left]; [assumption|].
    apply IH. generalize dependent acc. induction (l_decls l) as [|p ds IHd]; intros acc Ha; cbn [fold_left];
      [assumption|]. apply IHd. now apply upsert_nodup. }
  apply H. constructor.
Qed.

(* the main theorem for a class given by its hierarchy (the Config by Python's attribute lookup; that the
   generated code works with exactly this Config is KeyCfg.impl_cfg_nearest) *)
Theorem impl_eq_keymodel_hier : forall ls discr d,
  impl_from_dict (class_of ls discr) d = Ok (keymodel (class_of ls discr) d).
Proof. intros. apply impl_eq_keymodel. Qed.
