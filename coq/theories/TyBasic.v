(* C02, first sentence: with the default dialect the serialized result contains only
   str, int, float, bool, None, list and dict (with scalar keys), whenever the schema has
   no Any leaf -- so the standard json encoder accepts it. *)
From Coq Require Import List String Ascii ZArith Bool Lia.
From Verif Require Import Core TupleIdx TyModel TyTuple TyProofs TyConform.
Import ListNotations.
Open Scope string_scope.
Open Scope Z_scope.
Open Scope list_scope.

Definition scalar_basic (v: pv) : bool :=
  match v with VNone | VBool _ | VInt _ | VFloat _ | VStr _ => true | _ => false end.

Fixpoint basic (v: pv) {struct v} : bool :=
  match v with
  | VNone | VBool _ | VInt _ | VFloat _ | VStr _ => true
  | VList l => forallb basic l
  | VDict kvs => forallb (fun p => match p with (k, x) => scalar_basic k && basic x end) kvs
  | _ => false end.

(* no Any leaf; mapping keys of a type whose basic form is a scalar *)
Definition key_scalar (t: sty) : bool :=
  match t with SIntT | SFloatT | SBoolT | SStrT | SNoneT | SLeaf _ | SEnum _ | SBytes _ => true | _ => false end.

Fixpoint jsonable (t: sty) : bool :=
  match t with
  | SAny => false
  | SList t' | SSet _ t' | STupleVar t' | SOpt t' | SSeq t' | SBox _ t' => jsonable t'
  | STupleFix ts => forallb jsonable ts
  | STupleU pre mid post => forallb jsonable pre && jsonable mid && forallb jsonable post
  | SDict kt vt | SMap kt vt => key_scalar kt && jsonable vt
  | _ => true end.

Lemma nt_items_forallb {X} (q: pv -> bool) (qc: sfield -> X -> bool) (run: sfield -> X -> res pv) kn ms fds (l: list X) r :
  nt_all qc fds l = true ->
  (forall f x y, In f fds -> In x l -> qc f x = true -> run f x = Ok y -> q y = true) ->
  nt_items run kn ms fds l = Ok r -> forallb q r = true.
Proof.
  revert fds r. induction l as [|x l IH]; intros fds r HA Hr H.
  - destruct fds as [|f rest]; [inversion H; reflexivity | discriminate HA].
  - destruct fds as [|f rest]; [inversion H; reflexivity|]. cbn [nt_items] in H.
    cbn [nt_all] in HA. apply andb_prop in HA. destruct HA as [Hq HA].
    destruct (run f x) as [y|] eqn:Ey; [|discriminate H].
    destruct (nt_items run kn ms rest l) as [ys|] eqn:Eys; [|discriminate H]. inversion H; subst.
    cbn [forallb]. rewrite (Hr f x y (or_introl eq_refl) (or_introl eq_refl) Hq Ey).
    apply (IH rest ys HA); [| exact Eys]. intros f0 x0 y0 Hf0 Hx0. apply Hr; right; assumption.
Qed.

Section Basic.
  Variable o : bool.
  Variable E : senv.
  Variable P : prims.
  Hypothesis env_jsonable : forallb (fun c => forallb (fun f => jsonable f.(sf_ty)) c.(sc_fields)) E = true.
  (* the documented renderings are text or numbers; enum values are scalars *)
  Hypothesis render_scalar : forall k w, scalar_basic (P.(p_render) k w) = true.
  Hypothesis enum_scalar : forall e m val, P.(p_enum_value) e m = Some val -> scalar_basic val = true.

  Lemma scalar_is_basic v : scalar_basic v = true -> basic v = true.
  Proof. destruct v; try discriminate; reflexivity. Qed.

  Lemma sfind_jsonable kd c k : sfind E kd c = Some k -> forallb (fun f => jsonable f.(sf_ty)) k.(sc_fields) = true.
  Proof.
    intros H. rewrite forallb_forall in env_jsonable. apply (env_jsonable k). apply (sfind_In E kd c k H).
  Qed.

  Lemma enc_key_scalar k kt w : key_scalar kt = true -> conf_g o E k kt = true -> ref_enc E P k kt = Ok w -> scalar_basic w = true.
  Proof.
    intros Hk HC HE. rewrite conf_unfold in HC. rewrite ref_enc_unfold in HE.
    destruct kt; try discriminate Hk; destruct k; try discriminate HC; try (inversion HE; reflexivity).
    - inversion HE. apply render_scalar.
    - destruct (p_enum_value P e0 m) as [val|] eqn:Ev; [|discriminate HE]. inversion HE; subst. apply (enum_scalar _ _ _ Ev).
  Qed.

  Definition basic_ok (v: pv) : Prop :=
    forall t w, conf_g o E v t = true -> jsonable t = true -> ref_enc E P v t = Ok w -> basic w = true.

  Lemma basic_tupleu l pre mid post w0 : Forall basic_ok l ->
    conf_g o E (VTuple l) (STupleU pre mid post) = true -> jsonable (STupleU pre mid post) = true ->
    ref_enc E P (VTuple l) (STupleU pre mid post) = Ok w0 -> basic w0 = true.
  Proof.
    intros IHl HC HJ HE. destruct (conf_tupleu_parts _ _ _ _ _ _ HC) as [Hlen [Hpre [Hmid Hpost]]].
    cbn [jsonable] in HJ. apply andb_prop in HJ. destruct HJ as [HJ Jpost]. apply andb_prop in HJ. destruct HJ as [Jpre Jmid].
    rewrite ref_enc_unfold in HE.
    replace (List.length l <? List.length pre + List.length post)%nat with false in HE by (symmetry; apply Nat.ltb_ge; exact Hlen).
    cbv zeta in HE. unfold tu_split in HE. rewrite !map_length in HE. rewrite !skipn_map, !firstn_map in HE.
    match type of HE with (bind (bind ?X _) _ = _) => destruct X as [a|] eqn:Ea end; [|discriminate HE]. cbn [bind] in HE.
    match type of HE with (bind (bind ?X _) _ = _) => destruct X as [m|] eqn:Em end; [|discriminate HE]. cbn [bind] in HE.
    match type of HE with (bind (bind ?X _) _ = _) => destruct X as [b|] eqn:Eb end; [|discriminate HE]. cbn [bind] in HE.
    inversion HE. cbn [basic]. rewrite !forallb_app.
    assert (Hstep: forall M (d: sty) (x: pv) (y: pv), (forall x0, In x0 M -> In x0 l) ->
              stepR (fun x0 => ref_enc E P x0) (fun (t': sty) (dx: sty -> res pv) => dx t') (fun t' x0 => conf_g o E x0 t') M d x y ->
              jsonable d = true -> basic y = true).
    { intros M d x y HM [Hq [Hx Hy]] Hj. apply (Forall_In _ _ IHl x (HM x Hx) d y Hq Hj Hy). }
    rewrite forallb_forall in Jpre, Jpost.
    apply andb_true_intro. split; [|apply andb_true_intro; split].
    - pose proof (zip3_in _ _ _ _ (pos_walk_zip _ _ _ _ _ _ Hpre Ea)) as Hz.
      refine (zip3_forallb _ basic _ _ _ _ Hz). intros d x y [Hd Hs].
      exact (Hstep _ d x y (fun x0 H0 => in_firstn _ _ _ H0) Hs (Jpre d Hd)).
    - destruct mid; try discriminate Hmid.
      + cbn [jsonable] in Jmid. pose proof (mid_var_zip (fun x0 => ref_enc E P x0) (fun (t': sty) (dx: sty -> res pv) => dx t') (fun t' x0 => conf_g o E x0 t') _ mid _ Hmid Em) as Hf.
        refine (Forall2_forallb _ basic _ _ _ Hf). intros x y Hs.
        exact (Hstep _ mid x y (fun x0 H0 => in_skipn _ _ _ (in_firstn _ _ _ H0)) Hs Jmid).
      + cbn [jsonable] in Jmid. rewrite forallb_forall in Jmid.
        unfold mid_fix in Em. cbn [omapM] in Em.
        destruct ts as [|t1 ts].
        * cbn in Em. inversion Em. reflexivity.
        * cbn [omapM] in Em.
          pose proof (zip3_in _ _ _ _ (fix_walk_zip _ _ _ _ _ _ _ Hmid Em)) as Hz.
          refine (zip3_forallb _ basic _ _ _ _ Hz). intros d x y [Hd Hs].
          exact (Hstep _ d x y (fun x0 H0 => in_skipn _ _ _ (in_firstn _ _ _ H0)) Hs (Jmid d Hd)).
    - pose proof (zip3_in _ _ _ _ (pos_walk_zip _ _ _ _ _ _ Hpost Eb)) as Hz.
      refine (zip3_forallb _ basic _ _ _ _ Hz). intros d x y [Hd Hs].
      exact (Hstep _ d x y (fun x0 H0 => in_skipn _ _ _ H0) Hs (Jpost d Hd)).
  Qed.

  Lemma lit_find_scalar ls v w : lit_find ls v = Ok w -> scalar_basic w = true.
  Proof.
    unfold lit_find. destruct (find (exact_eq v) ls) as [l|] eqn:Ef; intros H; [|discriminate H]. inversion H; subst w.
    apply find_some in Ef. destruct Ef as [_ He]. destruct v, l; try discriminate He; reflexivity.
  Qed.

  Theorem ref_enc_basic : forall v, basic_ok v.
  Proof.
    induction v as [ | b | z | f | s | m b | l IHl | l IHl | fr l IHl | kvs IHk | c fs IHf | e m | k w | c l IHl | tg ]
      using pv_rect'; unfold basic_ok.
    all: intros t; induction t as [ | | | | | | m' | k' | e' | t' IHt | fr' t' IHt | t' IHt | ts | pre mid IHmid post | kt IHkt vt IHvt | t' IHt | c' | c' | c' | t' IHt | kt IHkt vt IHvt | bx t' IHt | ls ];
      intros w0 HC HJ HE; try (solve [apply (basic_tupleu _ _ _ _ _ IHl HC HJ HE)]);
      rewrite conf_unfold in HC; try discriminate HC; try discriminate HJ;
      rewrite ref_enc_unfold in HE; try (inversion HE; reflexivity).
    (* Optional *)
    all: try solve [ cbn [is_none orb] in HC, HE; cbn [jsonable] in HJ; apply (IHt w0 HC HJ HE) ].
    (* homogeneous containers *)
    all: try solve [ try (apply andb_prop in HC; destruct HC as [_ HC]); cbn [jsonable] in HJ;
                     destruct (mapM _ _) as [r|] eqn:Em; [|discriminate HE]; inversion HE; cbn [basic];
                     refine (forallb_mapM_res _ _ _ _ _ Em); intros x y Hx Hy;
                     rewrite forallb_forall in HC; apply (Forall_In _ _ IHl x Hx t' y (HC x Hx) HJ Hy) ].
    (* literals *)
    all: try solve [ apply scalar_is_basic; apply (lit_find_scalar _ _ _ HE) ].
    (* dict / Mapping *)
    all: try solve [
      apply andb_prop in HC; destruct HC as [_ HC]; cbn [jsonable] in HJ; apply andb_prop in HJ; destruct HJ as [Jk Jv];
      match type of HE with (bind ?X _ = _) => destruct X as [r|] eqn:Em end; [|discriminate HE]; inversion HE; cbn [basic];
      apply (forallb_dict_of_pairs _ r (fun _ _ _ _ => or_intror I) scalar_basic basic (fun k v => eq_refl));
      refine (forallb_mapM_res _ _ _ _ _ Em); intros [k x] [k' x'] Hp Hy;
      destruct (Forall_In _ _ IHk (k, x) Hp) as [_ Qx]; cbn [snd] in Qx;
      rewrite forallb_forall in HC; specialize (HC (k, x) Hp); cbn in HC; apply andb_prop in HC; destruct HC as [Ck Cx];
      destruct (ref_enc E P k kt) as [k1|] eqn:Ek; [|discriminate Hy]; cbn [bind] in Hy;
      destruct (ref_enc E P x vt) as [x1|] eqn:Ex; [|discriminate Hy]; inversion Hy; subst;
      rewrite (enc_key_scalar k kt k' Jk Ck Ek); rewrite (Qx vt x' Cx Jv Ex); reflexivity ].
    (* boxed collections *)
    all: try solve [
      destruct fs as [|[n inner] [|]]; try discriminate HC;
      apply andb_prop in HC; destruct HC as [_ HC]; cbn [jsonable] in HJ;
      destruct (chain_empty (is_chain bx) inner); [inversion HE; reflexivity|];
      inversion IHf as [|? ? Qi _]; subst; cbn [snd] in Qi; apply (Qi t' w0 HC HJ HE) ].
    - (* fixed tuple *)
      cbn [jsonable] in HJ.
      match type of HE with (bind ?X _ = _) => destruct X as [r|] eqn:Em end; [|discriminate HE]. inversion HE. cbn [basic].
      clear HE H0. revert ts r HC HJ Em. induction l as [|x l IHl']; intros ts r HC HJ Em.
      + destruct ts; [|discriminate HC]. inversion Em. reflexivity.
      + destruct ts as [|t1 ts]; [discriminate HC|].
        apply andb_prop in HC. destruct HC as [Cx Cl]. cbn [forallb] in HJ. apply andb_prop in HJ. destruct HJ as [Jx Jl].
        inversion IHl as [|? ? Qx Ql]; subst.
        destruct (ref_enc E P x t1) as [y|] eqn:Ey; [|discriminate Em]. cbn [bind] in Em.
        match type of Em with (bind ?X _ = _) => destruct X as [ys|] eqn:Eys end; [|discriminate Em].
        inversion Em; subst. cbn [forallb]. rewrite (Qx t1 y Cx Jx Ey). apply (IHl' Ql ts ys Cl Jl Eys).
    - (* TypedDict *)
      destruct (sfind E _ c') as [k0|] eqn:Ef; [|discriminate HE].
      pose proof (sfind_jsonable _ c' k0 Ef) as HJf.
      apply andb_prop in HC. destruct HC as [HC _]. apply andb_prop in HC. destruct HC as [_ HCf].
      cbv zeta in HE, HCf.
      match type of HE with (bind ?X _ = _) => destruct X as [R|] eqn:Em end; [|discriminate HE]. inversion HE. cbn [basic].
      apply forallb_forall. intros [key y] Hp.
      destruct (td_go_vals _ _ _ _ _ _ Em (key, y) Hp) as [f [Hf [Hk Hv]]]. cbn [fst snd] in Hk, Hv. subst key. cbn [scalar_basic andb].
      apply In_td_order in Hf.
      unfold td_field in Hv. rewrite (look_map (ref_enc E P) kvs) in Hv.
      rewrite forallb_forall in HCf. specialize (HCf f Hf). rewrite (look_map (conf_g o E) kvs) in HCf.
      rewrite forallb_forall in HJf. specialize (HJf f Hf).
      destruct (look kvs (sf_name f)) as [x|] eqn:El; cbn [option_map] in *.
      2: { destruct (sf_opt f); discriminate Hv. }
      destruct (look_In _ _ _ El) as [key [Hin _]].
      pose proof (Forall_In _ _ IHk (key, x) Hin) as [_ Qx]. cbn [snd] in Qx.
      assert (Hy: ref_enc E P x (sf_ty f) = Ok y).
      { destruct (sf_opt f); cbv beta iota in Hv; injection Hv as Hv'; exact Hv'. }
      apply (Qx (sf_ty f) y HCf HJf Hy).
    - (* dataclass *)
      apply andb_prop in HC. destruct HC as [_ HC].
      destruct (sfind E _ c') as [k0|] eqn:Ef; [|discriminate HE].
      pose proof (sfind_jsonable _ c' k0 Ef) as HJf.
      match type of HE with (bind ?X _ = _) => destruct X as [r|] eqn:Em end; [|discriminate HE]. inversion HE. cbn [basic].
      clear HE H0 Ef. revert r HC HJf Em. generalize (sc_fields k0) as fds. intros fds. revert fds.
      induction fs as [|[n x] fs IHfs]; intros fds r HC HJf Em.
      + destruct fds; [inversion Em; reflexivity | discriminate HC].
      + destruct fds as [|f fds]; [discriminate HC|].
        apply andb_prop in HC. destruct HC as [HC Cr]. apply andb_prop in HC. destruct HC as [Hn Cx].
        cbn [forallb] in HJf. apply andb_prop in HJf. destruct HJf as [Jx Jr].
        inversion IHf as [|? ? Qx Qr]; subst. cbn [snd] in Qx.
        rewrite Hn in Em.
        match type of Em with (bind ?X _ = _) => destruct X as [y|] eqn:Ey end; [|discriminate Em]. cbn [bind] in Em.
        match type of Em with (bind ?X _ = _) => destruct X as [tl|] eqn:Etl end; [|discriminate Em]. cbn [bind] in Em.
        inversion Em; subst. cbn [forallb scalar_basic andb].
        rewrite (IHfs Qr fds tl Cr Jr Etl). rewrite andb_true_r.
        destruct (sfield_nullable f && is_none x) eqn:Hnull.
        * inversion Ey. reflexivity.
        * cbn [orb] in Cx. apply (Qx (sf_ty f) y Cx Jx Ey).
    - (* enum *)
      destruct (p_enum_value P e m) as [val|] eqn:Ev; [|discriminate HE]. inversion HE; subst.
      apply scalar_is_basic. apply (enum_scalar _ _ _ Ev).
    - (* leaf *)
      inversion HE. apply scalar_is_basic. apply render_scalar.
    - (* NamedTuple *)
      apply andb_prop in HC. destruct HC as [_ HC].
      destruct (sfind E _ c') as [k0|] eqn:Ef; [|discriminate HE].
      pose proof (sfind_jsonable _ c' k0 Ef) as HJf.
      match type of HE with (bind ?X _ = _) => destruct X as [r|] eqn:Em end; [|discriminate HE]. inversion HE. cbn [basic].
      refine (nt_items_forallb basic (fun f x => conf_g o E x (sf_ty f)) _ _ _ _ _ _ HC _ Em).
      intros f x y Hf Hx Hq Hy. rewrite forallb_forall in HJf.
      apply (Forall_In _ _ IHl x Hx (sf_ty f) y Hq (HJf f Hf) Hy).
  Qed.
End Basic.
