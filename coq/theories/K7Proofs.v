(* Theorems about kernel K7 = the arg_indexes loop of pack_tuple / unpack_tuple as
   translated from /repo on this run (VerifGen.K7).  Everything below the four step facts
   S1-S4 depends on the translated code only through them. *)
From Coq Require Import List ZArith Bool Lia ZifyBool.
From Verif Require Import TupleIdx.
From VerifGen Require Import K7.
Import ListNotations.
Open Scope Z_scope.

(* ---- the four facts about one loop iteration ---- *)
Definition slice_hi (n i: Z) : option Z :=
  if n =? 1 then None else if i <? n - 1 then Some (i + 1 - n) else None.

Lemma S1 n acc i : step n {| idxs := acc; uidx := None |} i false = Some {| idxs := acc ++ [AI i]; uidx := None |}.
Proof. reflexivity. Qed.
Lemma S2 n acc u i : step n {| idxs := acc; uidx := Some u |} i false = Some {| idxs := acc ++ [AI (i - n)]; uidx := Some u |}.
Proof. reflexivity. Qed.
Lemma S3 n acc i : step n {| idxs := acc; uidx := None |} i true = Some {| idxs := acc ++ [ASl i (slice_hi n i)]; uidx := Some i |}.
Proof. unfold step, slice_hi. cbn. destruct (n =? 1); [reflexivity|]. destruct (i <? n - 1); reflexivity. Qed.
Lemma S4 n acc u i : step n {| idxs := acc; uidx := Some u |} i true = None.
Proof. reflexivity. Qed.

(* ---- ranges ---- *)
Lemma zrange_nil a b : b <= a -> zrange a b = [].
Proof. intros H. unfold zrange. replace (Z.to_nat (b - a)) with 0%nat by lia. reflexivity. Qed.

Lemma zrange_cons a b : a < b -> zrange a b = a :: zrange (a + 1) b.
Proof.
  intros H. unfold zrange. replace (Z.to_nat (b - a)) with (S (Z.to_nat (b - (a + 1)))) by lia.
  cbn [seq map]. f_equal; [lia|]. rewrite <- seq_shift, map_map. apply map_ext. intros k. lia.
Qed.

Lemma zrange_app a b c : a <= b -> b <= c -> zrange a b ++ zrange b c = zrange a c.
Proof.
  intros H1 H2. remember (Z.to_nat (b - a)) as k eqn:Ek. revert a Ek H1.
  induction k as [|k IH]; intros a Ek H1.
  - assert (a = b) by lia. subst. rewrite zrange_nil by lia. reflexivity.
  - rewrite (zrange_cons a b) by lia. rewrite (zrange_cons a c) by lia. cbn [app]. f_equal. apply IH; lia.
Qed.

(* ---- running the loop over runs of non-unpacked arguments ---- *)
Lemma run_false_before n k : forall i acc, 
  run_from (step n) (repeat false k) i {| idxs := acc; uidx := None |} =
  Some {| idxs := acc ++ map AI (zrange i (i + Z.of_nat k)); uidx := None |}.
Proof.
  induction k as [|k IH]; intros i acc.
  - cbn. rewrite zrange_nil by lia. cbn. rewrite app_nil_r. reflexivity.
  - cbn [repeat run_from]. rewrite S1. rewrite IH.
    rewrite (zrange_cons i (i + Z.of_nat (S k))) by lia.
    replace (i + Z.of_nat (S k)) with (i + 1 + Z.of_nat k) by lia.
    cbn [map]. rewrite <- app_assoc. reflexivity.
Qed.

Lemma run_false_after n u k : forall i acc,
  run_from (step n) (repeat false k) i {| idxs := acc; uidx := Some u |} =
  Some {| idxs := acc ++ map (fun j => AI (j - n)) (zrange i (i + Z.of_nat k)); uidx := Some u |}.
Proof.
  induction k as [|k IH]; intros i acc.
  - cbn. rewrite zrange_nil by lia. cbn. rewrite app_nil_r. reflexivity.
  - cbn [repeat run_from]. rewrite S2. rewrite IH.
    rewrite (zrange_cons i (i + Z.of_nat (S k))) by lia.
    replace (i + Z.of_nat (S k)) with (i + 1 + Z.of_nat k) by lia.
    cbn [map]. rewrite <- app_assoc. reflexivity.
Qed.

Lemma run_app step0 l1 l2 : forall i s,
  run_from step0 (l1 ++ l2) i s =
  match run_from step0 l1 i s with Some s' => run_from step0 l2 (i + Z.of_nat (length l1)) s' | None => None end.
Proof.
  induction l1 as [|f l1 IH]; intros i s.
  - cbn. f_equal. lia.
  - cbn [app run_from length]. destruct (step0 s i f); [|reflexivity]. rewrite IH. 
    destruct (run_from step0 l1 (i + 1) s0); [|reflexivity]. f_equal. lia.
Qed.

(* a second unpacked argument anywhere after the first is rejected *)
Lemma run_after_with_true n u l : forall i acc, In true l ->
  run_from (step n) l i {| idxs := acc; uidx := Some u |} = None.
Proof.
  induction l as [|f l IH]; intros i acc H; [destruct H|].
  cbn [run_from]. destruct f.
  - rewrite S4. reflexivity.
  - rewrite S2. apply IH. destruct H as [H|H]; [discriminate | exact H].
Qed.

(* every list of flags is all-false or has a first true *)
Lemma flags_split (l: list bool) :
  l = repeat false (length l) \/ exists u rest, l = repeat false u ++ true :: rest.
Proof.
  induction l as [|f l IH].
  - left. reflexivity.
  - destruct f.
    + right. exists 0%nat, l. reflexivity.
    + destruct IH as [IH|[u [rest IH]]].
      * left. cbn. f_equal. exact IH.
      * right. exists (S u), rest. cbn. f_equal. exact IH.
Qed.

Lemma all_false_or_true (l: list bool) : l = repeat false (length l) \/ In true l.
Proof.
  induction l as [|f l IH]; [left; reflexivity|].
  destruct f; [right; left; reflexivity|].
  destruct IH as [IH|IH]; [left; cbn; f_equal; exact IH | right; right; exact IH].
Qed.

(* ---- closed form of the result ---- *)
Definition expected (u m: nat) : list aidx :=
  let n := Z.of_nat (u + 1 + m) in
  map AI (zrange 0 (Z.of_nat u)) ++ [ASl (Z.of_nat u) (slice_hi n (Z.of_nat u))] ++
  map (fun j => AI (j - n)) (zrange (Z.of_nat u + 1) n).

Theorem arg_indexes_no_unpack k : arg_indexes (repeat false k) = Some (map AI (zrange 0 (Z.of_nat k))).
Proof.
  unfold arg_indexes, run_loop, st0. rewrite repeat_length. rewrite run_false_before. reflexivity.
Qed.

Theorem arg_indexes_one_unpack u m :
  arg_indexes (repeat false u ++ true :: repeat false m) = Some (expected u m).
Proof.
  unfold arg_indexes, run_loop, st0.
  assert (Hn: length (repeat false u ++ true :: repeat false m) = (u + 1 + m)%nat).
  { rewrite app_length. cbn [length]. rewrite !repeat_length. lia. }
  rewrite Hn. set (n := Z.of_nat (u + 1 + m)).
  rewrite run_app. rewrite run_false_before. rewrite repeat_length.
  cbn [run_from]. rewrite S3. rewrite run_false_after. cbn [option_map idxs].
  unfold expected. fold n. cbn [app]. rewrite <- !app_assoc. cbn [app].
  replace (0 + Z.of_nat u) with (Z.of_nat u) by lia.
  replace (Z.of_nat u + 1 + Z.of_nat m) with n by (unfold n; lia). reflexivity.
Qed.

Theorem arg_indexes_two_unpacks u rest : In true rest ->
  arg_indexes (repeat false u ++ true :: rest) = None.
Proof.
  intros H. unfold arg_indexes, run_loop, st0.
  rewrite run_app. rewrite run_false_before. cbn [run_from]. rewrite S3.
  rewrite (run_after_with_true _ _ rest _ _ H). reflexivity.
Qed.

(* ---- what the descriptors select from a tuple of length L ---- *)
Lemma select_all_app L a b x y : select_all L a = Some x -> select_all L b = Some y -> select_all L (a ++ b) = Some (x ++ y).
Proof.
  revert x. induction a as [|d a IH]; intros x Ha Hb.
  - cbn in Ha. inversion Ha. exact Hb.
  - cbn [app select_all] in *. destruct (select L d) as [xd|]; [|discriminate].
    destruct (select_all L a) as [xa|]; [|discriminate]. inversion Ha; subst.
    rewrite (IH xa eq_refl Hb). rewrite app_assoc. reflexivity.
Qed.

Lemma select_front L a b : 0 <= a -> a <= b -> b <= L ->
  select_all L (map AI (zrange a b)) = Some (zrange a b).
Proof.
  intros H0 H1 H2. remember (Z.to_nat (b - a)) as k eqn:Ek. revert a Ek H0 H1.
  induction k as [|k IH]; intros a Ek H0 H1.
  - rewrite zrange_nil by lia. reflexivity.
  - rewrite zrange_cons by lia. cbn [map select_all select].
    replace (a <? 0) with false by lia. replace ((0 <=? a) && (a <? L)) with true by lia.
    rewrite IH by lia. reflexivity.
Qed.

Lemma select_back L n a b : 0 <= a -> a <= b -> b <= n -> n - a <= L ->
  select_all L (map (fun j => AI (j - n)) (zrange a b)) = Some (zrange (L + a - n) (L + b - n)).
Proof.
  intros H0 H1 H2 H3. remember (Z.to_nat (b - a)) as k eqn:Ek. revert a Ek H0 H1 H3.
  induction k as [|k IH]; intros a Ek H0 H1 H3.
  - rewrite !zrange_nil by lia. reflexivity.
  - rewrite (zrange_cons a b) by lia. cbn [map select_all select].
    replace (a - n <? 0) with true by lia.
    replace ((0 <=? L + (a - n)) && (L + (a - n) <? L)) with true by lia.
    rewrite IH by lia. rewrite (zrange_cons (L + a - n)) by lia.
    replace (L + (a - n)) with (L + a - n) by lia. replace (L + (a + 1) - n) with (L + a - n + 1) by lia. reflexivity.
Qed.

(* the descriptors computed by the code partition the positions 0 .. L-1, in order:
   no item is skipped or read twice *)
Theorem K7_partition_fixed k : 
  select_all (Z.of_nat k) (map AI (zrange 0 (Z.of_nat k))) = Some (zrange 0 (Z.of_nat k)).
Proof. apply select_front; lia. Qed.

Theorem K7_partition_unpack u m L : Z.of_nat (u + m) <= L ->
  select_all L (expected u m) = Some (zrange 0 L).
Proof.
  intros HL. unfold expected. set (n := Z.of_nat (u + 1 + m)).
  assert (Hfront: select_all L (map AI (zrange 0 (Z.of_nat u))) = Some (zrange 0 (Z.of_nat u))) by (apply select_front; lia).
  assert (Hback: select_all L (map (fun j => AI (j - n)) (zrange (Z.of_nat u + 1) n)) = Some (zrange (L - Z.of_nat m) L)).
  { rewrite select_back by (unfold n; lia). f_equal. f_equal; unfold n; lia. }
  assert (Hmid: select_all L [ASl (Z.of_nat u) (slice_hi n (Z.of_nat u))] = Some (zrange (Z.of_nat u) (L - Z.of_nat m))).
  { cbn [select_all select]. rewrite app_nil_r. f_equal.
    assert (Hc: clamp L (Z.of_nat u) = Z.of_nat u) by (unfold clamp; replace (Z.of_nat u <? 0) with false by lia;
      replace (Z.of_nat u <? 0) with false by lia; replace (L <? Z.of_nat u) with false by lia; reflexivity).
    rewrite Hc. unfold slice_hi.
    destruct (n =? 1) eqn:E1.
    - assert (m = 0%nat) by (unfold n in E1; lia). subst m. f_equal. lia.
    - destruct (Z.of_nat u <? n - 1) eqn:E2.
      + f_equal. unfold clamp. unfold n in *.
        replace (Z.of_nat u + 1 - Z.of_nat (u + 1 + m) <? 0) with true by lia.
        replace (L + (Z.of_nat u + 1 - Z.of_nat (u + 1 + m)) <? 0) with false by lia.
        replace (L <? L + (Z.of_nat u + 1 - Z.of_nat (u + 1 + m))) with false by lia. lia.
      + assert (m = 0%nat) by (unfold n in E2; lia). subst m. f_equal. lia. }
  rewrite (select_all_app L _ _ _ _ Hfront (select_all_app L _ _ _ _ Hmid Hback)).
  f_equal. rewrite zrange_app by lia. apply zrange_app; lia.
Qed.

(* the too-short input of known finding C03/unpacked-tuple-short-input: with fewer items than
   the fixed head + tail an item is read twice (negative indices wrap around) *)
Example K7_short_input_reads_twice :
  arg_indexes [false; true; false] = Some (expected 1 1) /\ select_all 1 (expected 1 1) = Some [0; 0].
Proof. split; reflexivity. Qed.

(* every argument list falls in exactly one of the three cases *)
Theorem K7_classification (flags: list bool) :
  (exists k, flags = repeat false k /\ arg_indexes flags = Some (map AI (zrange 0 (Z.of_nat k))) /\
             select_all (Z.of_nat k) (map AI (zrange 0 (Z.of_nat k))) = Some (zrange 0 (Z.of_nat k)))
  \/ (exists u m, flags = repeat false u ++ true :: repeat false m /\ arg_indexes flags = Some (expected u m) /\
                  forall L, Z.of_nat (u + m) <= L -> select_all L (expected u m) = Some (zrange 0 L))
  \/ (exists u rest, flags = repeat false u ++ true :: rest /\ In true rest /\ arg_indexes flags = None).
Proof.
  destruct (flags_split flags) as [H|[u [rest H]]].
  - left. exists (length flags). split; [exact H|]. split; [rewrite H at 1; apply arg_indexes_no_unpack | apply K7_partition_fixed].
  - destruct (all_false_or_true rest) as [Hr|Hr].
    + right. left. exists u, (length rest). split; [rewrite <- Hr; exact H|]. split.
      * rewrite H. rewrite Hr. rewrite repeat_length. apply arg_indexes_one_unpack.
      * intros L HL. apply K7_partition_unpack. exact HL.
    + right. right. exists u, rest. split; [exact H|]. split; [exact Hr|]. rewrite H. apply arg_indexes_two_unpacks. exact Hr.
Qed.
