(* Soundness of the schema model: every admissible serialization validates against the
   generated schema, for both dialects and both all_refs modes, on the domain ty_ok/env_ok. *)
From Coq Require Import List String Ascii ZArith Bool Lia.
From Verif Require Import JValid PyK_tuple K6Proofs TzName Schema.
From VerifGen Require Import K6.
Import ListNotations.
Open Scope string_scope.
Close Scope Z_scope.

(* ---------------- list lemmas ---------------- *)
Lemma all2_length {A B} (f: A -> B -> bool) l1 : forall l2, all2 f l1 l2 = true -> List.length l1 = List.length l2.
Proof.
  induction l1 as [|x r IH]; intros [|y s] H; cbn in H; try discriminate; auto.
  apply andb_true_iff in H. destruct H as [_ H]. cbn. f_equal. auto.
Qed.

Lemma all2_forallb {A B} (f: A -> B -> bool) (g: B -> bool) l1 :
  forall l2, (forall x y, In x l1 -> f x y = true -> g y = true) -> all2 f l1 l2 = true -> forallb g l2 = true.
Proof.
  induction l1 as [|x r IH]; intros [|y s] Hfg H; cbn in H; try discriminate; auto.
  apply andb_true_iff in H. destruct H as [H1 H2]. cbn. rewrite (Hfg x y); [|left; reflexivity|assumption].
  apply IH; [|assumption]. intros; eapply Hfg; [right|]; eassumption.
Qed.

Lemma omap_In {A B} (f: A -> option B) l : forall l' x, omap f l = Some l' -> In x l -> exists y, f x = Some y /\ In y l'.
Proof.
  induction l as [|a r IH]; intros l' x H Hin; [contradiction|].
  cbn in H. destruct (f a) as [b|] eqn:Ea; [|discriminate]. destruct (omap f r) as [bs|] eqn:Er; [|discriminate].
  inversion H; subst. destruct Hin as [->|Hin].
  - exists b. split; [assumption|left; reflexivity].
  - destruct (IH bs x eq_refl Hin) as (y & Hy & Hy'). exists y. split; [assumption|right; assumption].
Qed.

Lemma forallb_In {A} (f: A -> bool) l x : forallb f l = true -> In x l -> f x = true.
Proof. intros H Hin. rewrite forallb_forall in H. auto. Qed.

Lemma filter_all {A} (f: A -> bool) l : forallb f l = true -> filter f l = l.
Proof.
  induction l as [|x r IH]; cbn; [reflexivity|]. intros H. apply andb_true_iff in H. destruct H as [H1 H2].
  rewrite H1. f_equal. auto.
Qed.

Lemma assoc_has_key {A} (l: list (string * A)) k v : assoc l k = Some v -> has_key l k = true.
Proof. unfold has_key. intros ->. reflexivity. Qed.

Lemma forallb_and {A} (f g: A -> bool) l : forallb (fun x => f x && g x) l = true -> forallb f l = true /\ forallb g l = true.
Proof.
  intros H. split; apply forallb_forall; intros x Hx; rewrite forallb_forall in H; specialize (H x Hx);
    apply andb_true_iff in H; tauto.
Qed.

(* a key type whose basic form is a str only has str encodings *)
Lemma str_wired_jstr E : forall m n cur base t v j, str_wired m E t = true -> enc_ok n E cur base t v j = true -> exists s, j = JStr s.
Proof.
  induction m as [|m IHm]; intros n cur base t v j Hw He; [discriminate|].
  destruct n as [|n]; [discriminate|].
  destruct t; cbn [str_wired] in Hw; try discriminate; cbn [enc_ok] in He.
  - destruct v, j; try discriminate. eauto.
  - destruct v, j; try discriminate. eauto.
  - destruct v, j; try discriminate. eauto.
  - destruct (find_enum (enums E) e) as [d|]; [|discriminate].
    apply andb_true_iff in Hw. destruct Hw as [Hf Hall]. destruct v; try discriminate.
    + destruct (nth_error (e_values d) i) as [x|] eqn:Ex; [|discriminate].
      apply json_eqb_true in He. subst j. apply nth_error_In in Ex.
      pose proof (proj1 (forallb_forall _ _) Hall x Ex) as Hx. destruct x; try discriminate. eauto.
    + apply andb_true_iff in He. destruct He as [He _]. rewrite He in Hf. discriminate.
  - destruct v; try discriminate. apply andb_true_iff in He. destruct He as [Hin Hj].
    apply existsb_exists in Hin. destruct Hin as (x & Hx & Hjx).
    apply json_eqb_true in Hj. apply json_eqb_true in Hjx. subst.
    pose proof (proj1 (forallb_forall _ _) Hw _ Hx) as Hs. destruct j; try discriminate. eauto.
  - apply existsb_exists in He. destruct He as (t' & Hin & He).
    eapply IHm; [|exact He]. eapply forallb_In; eassumption.
Qed.

Lemma no_unpack_find args : no_unpack args = true -> find_unpack args = None.
Proof.
  induction args as [|[b t] r IH]; cbn; [reflexivity|]. intros H. apply andb_true_iff in H. destruct H as [Hb Hr].
  destruct b; [discriminate|]. rewrite IH; auto.
Qed.

Lemma omap_length {A B} (f: A -> option B) l : forall l', omap f l = Some l' -> List.length l' = List.length l.
Proof.
  induction l as [|a r IH]; intros l' H; cbn in H; [inversion H; reflexivity|].
  destruct (f a); [|discriminate]. destruct (omap f r) eqn:Er; [|discriminate]. inversion H; subst. cbn. f_equal. auto.
Qed.

Lemma tuple_plain (F: ty -> option schema) args : no_unpack args = true -> forall targs,
  omap (fun a: bool * ty => match F (snd a) with
                            | Some s => Some (if fst a then @Unpack schema (uschema_of s) else @Plain schema s)
                            | None => None end) args = Some targs ->
  exists ss, targs = map (@Plain schema) ss /\ omap (fun a: bool * ty => F (snd a)) args = Some ss.
Proof.
  induction args as [|[b t] r IH]; intros Hnu targs H; cbn in H.
  - inversion H. exists []. split; reflexivity.
  - cbn in Hnu. apply andb_true_iff in Hnu. destruct Hnu as [Hb Hr]. destruct b; [discriminate|].
    cbn [fst snd] in *. destruct (F t) as [s|] eqn:Es; [|discriminate].
    match type of H with context [omap ?G r] => destruct (omap G r) as [ts|] eqn:Er; [|discriminate] end.
    inversion H; subst. destruct (IH Hr ts eq_refl) as (ss & -> & Hss).
    exists (s :: ss). split; [reflexivity|]. cbn. rewrite Es, Hss. reflexivity.
Qed.

Lemma spec_plain {A} (ss: list A) :
  tuple_spec (map (@Plain A) ss) = mkT (l_or_none ss) None (z_or_none (zlen ss)) (z_or_none (zlen ss)).
Proof.
  unfold tuple_spec.
  assert (Hu: unpacks (map (@Plain A) ss) = []) by (induction ss; cbn; auto).
  assert (Hl: lead (map (@Plain A) ss) = ss).
  { clear Hu. induction ss as [|x r IH]; cbn; [reflexivity|f_equal; exact IH]. }
  rewrite (last_unpack_none _ 1%Z (None, 0%Z) Hu), Hl. unfold zlen. rewrite map_length. reflexivity.
Qed.

Lemma has_key_in {A} (l: list (string * A)) k : In k (map fst l) -> has_key l k = true.
Proof.
  unfold has_key. induction l as [|[k' v] r IH]; cbn; [contradiction|].
  intros [->|Hin]; [rewrite String.eqb_refl; reflexivity|].
  destruct (String.eqb k' k); [reflexivity|]. apply IH. assumption.
Qed.

Lemma get_props_obj title ps req : get_props (obj_kws title ps req) = ps.
Proof. unfold obj_kws. destruct title, ps, req; reflexivity. Qed.

Lemma find_cls_In l id d : find_cls l id = Some d -> In d l.
Proof.
  induction l as [|c r IH]; cbn; [discriminate|]. destruct (String.eqb (c_id c) id).
  - intros H. inversion H. left. reflexivity.
  - intros H. right. auto.
Qed.

Lemma nodup_notin x l k : negb (existsb (String.eqb x) l) = true -> In k l -> String.eqb x k = false.
Proof.
  intros H Hin. destruct (String.eqb x k) eqn:Ex; [|reflexivity].
  apply negb_true_iff in H. assert (existsb (String.eqb x) l = true) by (apply existsb_exists; eauto). congruence.
Qed.

Lemma ins_str_In k x l : In k (ins_str x l) -> k = x \/ In k l.
Proof.
  induction l as [|y r IH]; cbn; [intros [->|[]]; auto|].
  destruct (String.leb x y); cbn; [intros [->|H]; auto|]. intros [->|H]; auto. destruct (IH H); auto.
Qed.

Lemma sort_str_In k l : In k (sort_str l) -> In k l.
Proof.
  unfold sort_str. induction l as [|x r IH]; cbn; [auto|]. intros H. destruct (ins_str_In _ _ _ H) as [->|H']; auto.
Qed.

Lemma has_key_cons {A} (k0: string) (v: A) l k : has_key ((k0, v) :: l) k = String.eqb k0 k || has_key l k.
Proof. unfold has_key. cbn. destruct (String.eqb k0 k); reflexivity. Qed.

(* what obj_match says about members and fields *)
Lemma obj_match_facts chk omit : forall fields fs ms, obj_match chk omit fields fs ms = true ->
  (forall key x, In (key, x) ms -> exists f fv, In f fields /\ key = f_key f /\ chk f fv x = true) /\
  (forall f, In f fields ->
     (exists fv, omit f fv = true /\ chk f fv JNull = true) \/ has_key ms (f_key f) = true).
Proof.
  induction fields as [|f rf IH]; intros fs ms H.
  - destruct fs; [|discriminate]. cbn in H. destruct ms; [|discriminate]. split; [intros ? ? []|intros ? []].
  - destruct fs as [|[nm fv] rfs]; [discriminate|]. cbn [obj_match] in H.
    apply andb_true_iff in H. destruct H as [_ H].
    destruct (omit f fv) eqn:Ed.
    + apply andb_true_iff in H. destruct H as [Hc H]. destruct (IH _ _ H) as [M F]. split.
      * intros key x Hin. destruct (M key x Hin) as (f' & fv' & Hf & Hk & Hx). exists f', fv'. split; [right|]; auto.
      * intros f' [<-|Hin]; [|auto]. left. eauto.
    + destruct ms as [|[key x] rms]; [discriminate|].
      apply andb_true_iff in H. destruct H as [H Hr]. apply andb_true_iff in H. destruct H as [Hk Hc].
      apply String.eqb_eq in Hk. destruct (IH _ _ Hr) as [M F]. split.
      * intros key' x' [Heq|Hin].
        -- inversion Heq; subst. exists f, fv. split; [left; reflexivity|]. auto.
        -- destruct (M key' x' Hin) as (f' & fv' & Hf & Hk' & Hx). exists f', fv'. split; [right|]; auto.
      * intros f' [<-|Hin].
        -- right. rewrite has_key_cons, Hk, String.eqb_refl. reflexivity.
        -- destruct (F f' Hin) as [Hd|Hh]; [left; assumption|]. right. rewrite has_key_cons, Hh. apply orb_true_r.
Qed.

(* properties built by omap over the fields: the schema stored under a field's key is that field's *)
Lemma ps_assoc (kf: field -> string) (F: field -> option schema) : forall fields ps,
  omap (fun f => match F f with Some s => Some (kf f, s) | None => None end) fields = Some ps ->
  no_dup_str (map kf fields) = true ->
  forall f, In f fields -> exists s, F f = Some s /\ assoc ps (kf f) = Some s.
Proof.
  induction fields as [|f0 r IH]; intros ps Ho Hnd f Hin; [contradiction|].
  cbn in Ho. destruct (F f0) as [s0|] eqn:Es; [|discriminate].
  match type of Ho with context [omap ?G r] => destruct (omap G r) as [ps'|] eqn:Er; [|discriminate] end.
  inversion Ho; subst; clear Ho. cbn in Hnd. apply andb_true_iff in Hnd. destruct Hnd as [Hn0 Hnd].
  destruct Hin as [<-|Hin].
  - exists s0. split; [assumption|]. cbn. rewrite String.eqb_refl. reflexivity.
  - destruct (IH ps' eq_refl Hnd f Hin) as (s & Hs & Ha). exists s. split; [assumption|].
    cbn. rewrite (nodup_notin _ _ _ Hn0 (in_map kf _ _ Hin)). assumption.
Qed.

(* named tuple as dict: members correspond to the fields one to one *)
Lemma nt_members (G: field -> value -> json -> bool) : forall fields l ms,
  all2 (fun f (p: value * (string * json)) => match p with (fv, (key, x)) => String.eqb (f_name f) key && G f fv x end)
       fields (combine l ms) = true ->
  List.length l = List.length ms ->
  (forall key x, In (key, x) ms -> exists f fv, In f fields /\ key = f_name f /\ G f fv x = true) /\
  (forall f, In f fields -> has_key ms (f_name f) = true).
Proof.
  induction fields as [|f r IH]; intros l ms H Hl.
  - destruct l, ms; try discriminate. split; [intros ? ? []|intros ? []].
  - destruct l as [|fv l]; [cbn in H; discriminate|]. destruct ms as [|[key x] ms]; [cbn in H; discriminate|].
    cbn in H. apply andb_true_iff in H. destruct H as [H Hr]. apply andb_true_iff in H. destruct H as [Hk Hg].
    apply String.eqb_eq in Hk. cbn in Hl. destruct (IH l ms Hr ltac:(lia)) as [M F]. split.
    + intros key' x' [Heq|Hin].
      * inversion Heq; subst. exists f, fv. split; [left; reflexivity|]. auto.
      * destruct (M key' x' Hin) as (f' & fv' & Hf & Hk' & Hx). exists f', fv'. split; [right|]; auto.
    + intros f' [<-|Hin].
      * rewrite has_key_cons, Hk, String.eqb_refl. reflexivity.
      * rewrite has_key_cons, (F f' Hin). apply orb_true_r.
Qed.

(* ---------------- lists: prefixItems over concatenations, splitting at an Unpack ---------------- *)
Lemma forallb2_nil_r {A B} (f: A -> B -> bool) l : forallb2 f l [] = true.
Proof. destruct l; reflexivity. Qed.

Lemma forallb2_app {A B} (f: A -> B -> bool) : forall l1 l2 x1 x2, List.length l1 = List.length x1 ->
  forallb2 f (l1 ++ l2)%list (x1 ++ x2)%list = forallb2 f l1 x1 && forallb2 f l2 x2.
Proof.
  induction l1 as [|a r IH]; intros l2 x1 x2 H; destruct x1 as [|x r']; try discriminate; [reflexivity|].
  cbn. cbn in H. rewrite IH by lia. rewrite andb_assoc. reflexivity.
Qed.

Lemma forallb2_short {A B} (f: A -> B -> bool) p x y : List.length p = List.length x ->
  forallb2 f p (x ++ y)%list = forallb2 f p x.
Proof.
  intros H. rewrite <- (app_nil_r p) at 1. rewrite forallb2_app by assumption. cbn. apply andb_true_r.
Qed.

Lemma skipn_add {A} : forall b (l: list A) a, skipn a (skipn b l) = skipn (b + a) l.
Proof.
  induction b as [|b IH]; intros l a; [reflexivity|].
  destruct l as [|x r]; [cbn; destruct a; reflexivity|]. cbn. apply IH.
Qed.

Lemma split3 {A} (l: list A) u nm : u + nm <= List.length l ->
  l = (firstn u l ++ firstn nm (skipn u l) ++ skipn (u + nm) l)%list.
Proof.
  intros H. rewrite <- (firstn_skipn u l) at 1. f_equal.
  rewrite <- (firstn_skipn nm (skipn u l)) at 1. f_equal. apply skipn_add.
Qed.

Lemma find_unpack_split : forall args u, find_unpack args = Some u ->
  exists it, nth_error args u = Some (true, it) /\ no_unpack (firstn u args) = true /\
             args = (firstn u args ++ (true, it) :: skipn (Sn u) args)%list.
Proof.
  induction args as [|[b t] r IH]; intros u H; [discriminate|]. cbn in H. destruct b.
  - inversion H; subst. exists t. repeat split; reflexivity.
  - destruct (find_unpack r) as [i|] eqn:Er; [|discriminate]. inversion H; subst.
    destruct (IH i eq_refl) as (it & Hn & Hnu & Heq). exists it. cbn [nth_error firstn skipn no_unpack forallb fst negb andb].
    repeat split; [assumption| exact Hnu |]. cbn [app]. f_equal. exact Heq.
Qed.

Lemma omap_app {A B} (f: A -> option B) : forall l1 l2 r, omap f (l1 ++ l2)%list = Some r ->
  exists r1 r2, omap f l1 = Some r1 /\ omap f l2 = Some r2 /\ r = (r1 ++ r2)%list.
Proof.
  induction l1 as [|a l1 IH]; intros l2 r H.
  - exists [], r. repeat split; assumption.
  - cbn in H. destruct (f a) as [b|] eqn:Ea; [|discriminate]. destruct (omap f (l1 ++ l2)) as [r'|] eqn:Er; [|discriminate].
    inversion H; subst. destruct (IH l2 r' Er) as (r1 & r2 & H1 & H2 & ->).
    exists (b :: r1), r2. cbn. rewrite Ea, H1. repeat split; auto.
Qed.

(* ---------------- K6 closed form for one Unpack among plain arguments ---------------- *)
Lemma last_unpack_plain_app {A} (sb: list A) : forall i r acc,
  last_unpack i (map (@Plain A) sb ++ r)%list acc = last_unpack (i + zlen sb)%Z r acc.
Proof.
  induction sb as [|s sb IH]; intros i r acc.
  - cbn. unfold zlen. cbn. rewrite Z.add_0_r. reflexivity.
  - cbn [map app last_unpack]. rewrite IH. f_equal. unfold zlen. cbn [List.length]. lia.
Qed.

Lemma unpacks_plain {A} (sa: list A) : unpacks (map (@Plain A) sa) = [].
Proof. induction sa; cbn; auto. Qed.
Lemma lead_plain_app {A} (sb: list A) u r : lead (map (@Plain A) sb ++ Unpack u :: r)%list = sb.
Proof. induction sb as [|x sb IH]; cbn; [reflexivity|f_equal; exact IH]. Qed.
Lemma nplain_plain {A} (sa: list A) : nplain (map (@Plain A) sa) = zlen sa.
Proof. induction sa as [|x r IH]; [reflexivity|]. cbn [map nplain]. rewrite IH. unfold zlen. cbn [List.length]. lia. Qed.
Lemma nplain_app {A} (l1 l2: list (targ A)) : nplain (l1 ++ l2)%list = (nplain l1 + nplain l2)%Z.
Proof. induction l1 as [|[s|u] r IH]; cbn [app nplain]; lia. Qed.

Lemma spec_one_unpack {A} (sb sa: list A) (u0: uschema A) :
  tuple_spec (map (@Plain A) sb ++ Unpack u0 :: map (@Plain A) sa)%list =
  mkT (l_or_none (sb ++ uprefix u0)%list)
      (if (zlen sa =? 0)%Z then u_items u0 else None)
      (z_or_none (zlen sb + zlen sa + umin u0))
      (z_or_none (match u_max u0 with Some mx => zlen sb + zlen sa + mx | None => 0 end))%Z.
Proof.
  unfold tuple_spec. rewrite last_unpack_plain_app. cbn [last_unpack].
  rewrite (last_unpack_none _ _ _ (unpacks_plain sa)). rewrite lead_plain_app.
  rewrite nplain_app, nplain_plain. cbn [nplain]. rewrite nplain_plain.
  assert (Hz: ((1 + zlen sb =? zlen (map (@Plain A) sb ++ Unpack u0 :: map (@Plain A) sa)%list) = (zlen sa =? 0))%Z).
  { unfold zlen. rewrite app_length. cbn [List.length]. rewrite !map_length.
    destruct (Z.eqb_spec (Z.of_nat (List.length sa)) 0); [apply Z.eqb_eq; lia | apply Z.eqb_neq; lia]. }
  rewrite Hz. reflexivity.
Qed.

Lemma forallb2_le {A B} (f: A -> B -> bool) : forall p x y, List.length p <= List.length x ->
  forallb2 f p (x ++ y)%list = forallb2 f p x.
Proof.
  induction p as [|a p IH]; intros x y H; [reflexivity|].
  destruct x as [|b x]; [cbn in H; lia|]. cbn. rewrite IH by (cbn in H; lia). reflexivity.
Qed.

Lemma tuple_kws_all (f: kw -> bool) (r: tschema schema) :
  f (KType TyArray) = true ->
  (forall l, t_prefix r = Some l -> f (KPrefix l) = true) ->
  (forall s, t_items r = Some s -> f (KItems s) = true) ->
  (forall z, t_min r = Some z -> f (KMin z) = true) ->
  (forall z, t_max r = Some z -> f (KMax z) = true) ->
  forallb f (tuple_kws r) = true.
Proof.
  destruct r as [[p|] [i|] [mn|] [mx|]]; unfold tuple_kws; cbn; intros H0 H1 H2 H3 H4;
    rewrite ?H0, ?(H1 _ eq_refl), ?(H2 _ eq_refl), ?(H3 _ eq_refl), ?(H4 _ eq_refl); reflexivity.
Qed.

Lemma tuple_kws_prefix_len (r: tschema schema) :
  get_prefix_len (tuple_kws r) = match t_prefix r with Some l => List.length l | None => 0 end.
Proof. destruct r as [[p|] [i|] [mn|] [mx|]]; reflexivity. Qed.

Lemma l_or_none_some {A} (l p: list A) : l_or_none l = Some p -> p = l /\ l <> [].
Proof. destruct l; cbn; intros H; inversion H; split; [reflexivity|discriminate]. Qed.

Lemma uschema_tuple_kws (r: tschema schema) :
  uschema_of (S (tuple_kws r)) = mkU (t_prefix r) (t_items r) (t_min r) (t_max r).
Proof. destruct r as [[p|] [i|] [mn|] [mx|]]; reflexivity. Qed.

Lemma tuple_kws_prefix_len' (r: tschema schema) :
  get_prefix_len (tuple_kws r) = List.length (ol_or_nil (t_prefix r)).
Proof. destruct r as [[[|x p]|] [i|] [mn|] [mx|]]; reflexivity. Qed.

Lemma skipn_app_exact {A} (l1 l2: list A) n : skipn (List.length l1 + n) (l1 ++ l2)%list = skipn n l2.
Proof. induction l1 as [|x r IH]; [reflexivity|]. cbn. exact IH. Qed.

Section Sound.
  Variable pm : string -> string -> bool.
  (* the regular-expression oracle accepts the rendering of every whole-minute offset
     (discharged for the Regex.v matcher in C06_tz_pattern below) *)
  Hypothesis pm_tz : forall m, (-1440 < m < 1440)%Z -> pm UTC_PATTERN (tzname m) = true.
  Variable E : env.
  Variable dl : dialect.
  Variable ar : bool.
  Variable defs : list (string * schema).
  Hypothesis Eok : env_ok E = true.
  (* in all_refs mode every class of the table has its object schema in the definitions *)
  Hypothesis Hdefs : ar = true -> forall d, In d (classes E) ->
    exists m s, class_schema E dl ar m d = Some s /\ assoc defs (c_name d) = Some s.

  Definition sound_at (n: nat) : Prop :=
    forall cur base t v j, enc_ok n E cur base t v j = true ->
    forall m m' s, ty_ok m' E cur base t = true -> schema_f E dl ar cur m t = Some s ->
    forall k, 2 * n + 1 <= k -> jvalid pm defs k s j = true.

  Ltac inv H := inversion H; subst; clear H.

  Lemma prefix_ok {A} (g: A -> ty) n (IH: sound_at n) cur base m m' k (Hk: 2 * n + 1 <= k) : forall args l js ss,
    all2 (fun (a: A) (p: value * json) => enc_ok n E cur base (g a) (fst p) (snd p)) args (combine l js) = true ->
    omap (fun a: A => schema_f E dl ar cur m (g a)) args = Some ss ->
    forallb (fun a: A => ty_ok m' E cur base (g a)) args = true ->
    forallb2 (fun s' x => jvalid pm defs k s' x) ss js = true.
  Proof.
    induction args as [|a r IHr]; intros l js ss Ha Ho Hok.
    - cbn in Ho. inv Ho. reflexivity.
    - cbn in Ho. destruct (schema_f E dl ar cur m (g a)) as [s0|] eqn:Es; [|discriminate].
      match type of Ho with context [omap ?G r] => destruct (omap G r) as [ss'|] eqn:Er; [|discriminate] end.
      inv Ho. destruct l as [|v l]; [cbn in Ha; discriminate|]. destruct js as [|x js]; [cbn in Ha; discriminate|].
      cbn in Ha. apply andb_true_iff in Ha. destruct Ha as [Ha1 Ha2].
      cbn in Hok. apply andb_true_iff in Hok. destruct Hok as [Hok1 Hok2].
      cbn [forallb2]. rewrite (IH _ _ _ _ _ Ha1 m m' s0 Hok1 Es k Hk). cbn. eapply IHr; eauto.
  Qed.

  (* schema of a plain fixed tuple (no Unpack) *)
  Lemma plain_tuple_schema cur m (ia: list (bool * ty)) s : no_unpack ia = true ->
    schema_f E dl ar cur (Sn m) (TTuple ia) = Some s ->
    exists ss, omap (fun a: bool * ty => schema_f E dl ar cur m (snd a)) ia = Some ss /\
      s = S (match ss with
             | [] => [KType TyArray; KMax 0%Z]
             | _ => [KType TyArray; KPrefix ss; KMin (zlen ss); KMax (zlen ss)] end).
  Proof.
    intros Hnu Hs. cbn [schema_f] in Hs. destruct ia as [|a0 r].
    - inv Hs. exists []. split; reflexivity.
    - cbn beta iota in Hs.
      match type of Hs with context [omap ?G (a0 :: r)] => destruct (omap G (a0 :: r)) as [targs|] eqn:Eo; [|discriminate] end.
      inv Hs. destruct (tuple_plain _ _ Hnu _ Eo) as (ss & -> & Ess). exists ss. split; [assumption|].
      rewrite on_tuple_k_spec, spec_plain. pose proof (omap_length _ _ _ Ess) as Hlen.
      destruct ss as [|s0 ss']; [cbn in Hlen; discriminate|].
      assert (Hz: z_or_none (zlen (s0 :: ss')) = Some (zlen (s0 :: ss'))).
      { unfold z_or_none. destruct (Z.eqb_spec (zlen (s0 :: ss')) 0) as [Hz|Hz]; [|reflexivity].
        unfold zlen in Hz. cbn [List.length] in Hz. lia. }
      unfold tuple_kws. cbn [t_prefix t_items t_min t_max l_or_none]. rewrite Hz. reflexivity.
  Qed.

  (* ---------- fixed / variadic tuple types, any nesting of Unpack: the facts a schema in tuple form states
     about an array, established for the serialization of a conforming value ---------- *)
  Definition tfacts (k: nat) (R: tschema schema) (js: list json) : Prop :=
    let P := ol_or_nil (t_prefix R) in
    List.length P <= List.length js /\
    forallb2 (fun s' x => jvalid pm defs k s' x) P js = true /\
    (forall si, t_items R = Some si -> forallb (jvalid pm defs k si) (skipn (List.length P) js) = true) /\
    (oz_or (t_min R) 0 <= Z.of_nat (List.length js))%Z /\
    (forall mx, t_max R = Some mx -> (Z.of_nat (List.length js) <= mx)%Z) /\
    (0 <= oz_or (t_min R) 0)%Z.

  Lemma tfacts_jvalid k R js : tfacts k R js -> jvalid pm defs (Sn k) (S (tuple_kws R)) (JArr js) = true.
  Proof.
    intros (F1 & F2 & F3 & F4 & F5 & F6). rewrite jvalid_S. cbn [kws_of]. apply tuple_kws_all.
    - reflexivity.
    - intros p Hp. rewrite Hp in F2. cbn [kw_ok]. destruct p; [reflexivity|exact F2].
    - intros si Hsi. cbn [kw_ok]. rewrite tuple_kws_prefix_len'. exact (F3 si Hsi).
    - intros z Hz. rewrite Hz in F4. cbn [kw_ok]. apply Z.leb_le. unfold oz_or in F4.
      destruct (Z.eqb_spec z 0); lia.
    - intros z Hz. cbn [kw_ok]. apply Z.leb_le. exact (F5 z Hz).
  Qed.

  Lemma tuple_tfacts : forall n, (forall n', n' < n -> sound_at n') ->
    forall cur base m m' k it lm jm s_in, 2 * n <= k + 1 ->
    unpack_inner_ok it = true ->
    enc_ok n E cur base it (VList lm) (JArr jm) = true ->
    ty_ok m' E cur base it = true ->
    schema_f E dl ar cur m it = Some s_in ->
    exists R, s_in = S (tuple_kws R) /\ tfacts k R jm.
  Proof.
    induction n as [n IHn] using lt_wf_ind. intros IHs cur base m m' k it lm jm s_in Hk Hin He Hok Hs.
    destruct n as [|n0]; [discriminate|]. destruct m as [|m0]; [discriminate|]. destruct m' as [|m1]; [discriminate|].
    assert (IH0: sound_at n0) by (apply IHs; lia).
    assert (Hk0: 2 * n0 + 1 <= k) by lia.
    destruct it; try discriminate.
    - (* Tuple[T, ...] *)
      destruct keep; [|discriminate]. cbn [enc_ok] in He. cbn [schema_f] in Hs. cbn [ty_ok] in Hok.
      destruct (schema_f E dl ar cur m0 it) as [st|] eqn:Est; [|discriminate]. inv Hs.
      apply andb_true_iff in Hok. destruct Hok as [_ Hok].
      assert (Hall: forallb (jvalid pm defs k st) jm = true).
      { eapply all2_forallb; [|exact He]. intros x y _ Hxy. eapply (IH0 _ _ _ _ _ Hxy m0 m1 st); eauto. }
      exists (mkT None (if is_empty_schema st then None else Some st) None None). split.
      + unfold opt_kw. destruct (is_empty_schema st); reflexivity.
      + unfold tfacts. cbn. refine (conj _ (conj _ (conj _ (conj _ (conj _ _))))); try lia; try reflexivity.
        * intros si Hsi. destruct (is_empty_schema st); [discriminate|]. inv Hsi. exact Hall.
        * intros mx Hmx. discriminate.
    - (* fixed tuple *)
      cbn [ty_ok] in Hok. apply andb_true_iff in Hok. destruct Hok as [Hoks Hshape].
      destruct (no_unpack args) eqn:Hnu; [clear Hshape|].
      + (* no Unpack *)
        destruct (plain_tuple_schema cur m0 args s_in Hnu Hs) as (ss & Ess & ->).
        cbn [enc_ok] in He. rewrite (no_unpack_find _ Hnu) in He.
        apply andb_true_iff in He. destruct He as [He Hl2]. apply andb_true_iff in He. destruct He as [He Hl1].
        apply Nat.eqb_eq in Hl1. apply Nat.eqb_eq in Hl2.
        pose proof (prefix_ok (@snd bool ty) n0 IH0 cur base m0 m1 k Hk0 _ _ _ _ He Ess Hoks) as Hp.
        pose proof (omap_length _ _ _ Ess) as Hlen.
        assert (Hjl: List.length jm = List.length ss) by lia.
        destruct ss as [|s0 ss'].
        * exists (mkT None None None (Some 0%Z)). split; [reflexivity|]. destruct jm; [|cbn in Hjl; discriminate].
          unfold tfacts. cbn. refine (conj _ (conj _ (conj _ (conj _ (conj _ _))))); try lia; try reflexivity.
          intros mx Hmx. inv Hmx. lia.
        * exists (mkT (Some (s0 :: ss')) None (Some (zlen (s0 :: ss'))) (Some (zlen (s0 :: ss')))). split; [reflexivity|].
          assert (Hnz: (zlen (s0 :: ss') =? 0)%Z = false) by (apply Z.eqb_neq; unfold zlen; cbn [List.length]; lia).
          unfold tfacts. cbn [t_prefix t_items t_min t_max ol_or_nil oz_or]. rewrite Hnz. unfold zlen in *.
          refine (conj _ (conj _ (conj _ (conj _ (conj _ _))))); try lia; try assumption.
          -- intros si Hsi. discriminate.
          -- intros mx Hmx. injection Hmx as Hmx. rewrite <- Hmx, Hjl. apply Z.le_refl.
      + (* one Unpack segment *)
        cbn [orb] in Hshape. destruct (find_unpack args) as [u|] eqn:Efu; [|discriminate].
        apply andb_true_iff in Hshape. destruct Hshape as [Hna Hin'].
        destruct (find_unpack_split _ _ Efu) as (it' & Hnth & Hnb & Hargs).
        cbn [enc_ok] in He. rewrite Efu in He. rewrite Hnth in Hin', He.
        apply andb_true_iff in He. destruct He as [He Hrest].
        apply andb_true_iff in He. destruct He as [He Hle]. apply andb_true_iff in He. destruct He as [_ Hll].
        apply andb_true_iff in Hrest. destruct Hrest as [Hrest Hafter]. apply andb_true_iff in Hrest. destruct Hrest as [Hbefore Hinner].
        apply Nat.eqb_eq in Hll. apply Nat.leb_le in Hle.
        set (na := List.length (skipn (Sn u) args)) in *. set (nm := List.length lm - u - na) in *.
        assert (Hu: u < List.length args) by (apply nth_error_Some; congruence).
        set (before := firstn u args) in *. set (after := skipn (Sn u) args) in *.
        set (jb := firstn u jm) in *. set (jm' := firstn nm (skipn u jm)) in *. set (ja := skipn (u + nm) jm) in *.
        assert (Hjs: jm = (jb ++ jm' ++ ja)%list) by (apply split3; lia).
        assert (Llb: List.length (firstn u lm) = List.length jb) by (unfold jb; rewrite !firstn_length_le by lia; reflexivity).
        assert (Lbb: List.length jb = List.length before) by (unfold jb, before; rewrite !firstn_length_le by lia; reflexivity).
        assert (Laa: List.length ja = List.length after) by (unfold ja; rewrite skipn_length; fold na; lia).
        (* schema side *)
        rewrite Hargs in Hs, Hoks. fold before after in Hs, Hoks.
        cbn [schema_f] in Hs.
        destruct (before ++ (true, it') :: after)%list as [|a0 r0] eqn:Eargs; [destruct before; discriminate|].
        rewrite <- Eargs in *. clear a0 r0 Eargs.
        match type of Hs with context [omap ?G ?L] => destruct (omap G L) as [targs|] eqn:Eo; [|discriminate] end.
        injection Hs as Hs. subst s_in.
        destruct (omap_app _ _ _ _ Eo) as (tb & r2 & Eb & E2 & Etargs). subst targs.
        cbn [omap fst snd] in E2.
        destruct (schema_f E dl ar cur m0 it') as [s_in'|] eqn:Ein; [|discriminate].
        match type of E2 with context [omap ?G after] => destruct (omap G after) as [ta|] eqn:Ea; [|discriminate] end.
        injection E2 as E2. subst r2.
        destruct (tuple_plain _ _ Hnb _ Eb) as (sb & Etb & Esb). subst tb.
        destruct (tuple_plain _ _ Hna _ Ea) as (sa & Eta & Esa). subst ta.
        rewrite forallb_app in Hoks. apply andb_true_iff in Hoks. destruct Hoks as [Hokb Hoks].
        cbn [forallb snd] in Hoks. apply andb_true_iff in Hoks. destruct Hoks as [Hoki Hoka].
        pose proof (prefix_ok (@snd bool ty) n0 IH0 cur base m0 m1 k Hk0 _ _ _ _ Hbefore Esb Hokb) as Hpb.
        (* the unpacked segment, recursively *)
        destruct (IHn n0 ltac:(lia) ltac:(intros; apply IHs; lia) cur base m0 m1 k it' _ _ s_in' ltac:(lia) Hin' Hinner Hoki Ein)
          as (R1 & Esin & (G1 & G2 & G3 & G4 & G5 & G6)). subst s_in'.
        rewrite uschema_tuple_kws in *.
        set (u0 := mkU (t_prefix R1) (t_items R1) (t_min R1) (t_max R1)) in *.
        pose proof (omap_length _ _ _ Esb) as Lsb. pose proof (omap_length _ _ _ Esa) as Lsa.
        assert (Lb: List.length sb = List.length jb) by lia.
        assert (La: List.length sa = List.length ja) by lia.
        rewrite on_tuple_k_spec, spec_one_unpack.
        eexists. split; [reflexivity|].
        rewrite Hjs.
        assert (Hlen: Z.of_nat (List.length (jb ++ jm' ++ ja)%list) = (zlen sb + zlen sa + Z.of_nat (List.length jm'))%Z)
          by (rewrite !app_length; unfold zlen; lia).
        unfold tfacts. cbn [t_prefix t_items t_min t_max]. rewrite ol_or_nil_l_or_none, oz_or_z_or_none.
        change (uprefix u0) with (ol_or_nil (t_prefix R1)). change (umin u0) with (oz_or (t_min R1) 0%Z).
        change (u_items u0) with (t_items R1). change (u_max u0) with (t_max R1).
        set (P1 := ol_or_nil (t_prefix R1)) in *.
        refine (conj _ (conj _ (conj _ (conj _ (conj _ _))))).
        * rewrite !app_length. lia.
        * rewrite forallb2_app by assumption. rewrite Hpb. cbn [andb]. rewrite forallb2_le by assumption. exact G2.
        * intros si Hsi. destruct (zlen sa =? 0)%Z eqn:Ez; [|discriminate].
          assert (sa = []) by (apply Z.eqb_eq in Ez; unfold zlen in Ez; destruct sa; [reflexivity|cbn in Ez; lia]).
          subst sa. assert (Hja: ja = []) by (destruct ja; [reflexivity|cbn in La; discriminate]).
          rewrite Hja, !app_nil_r, app_length, Lb.
          rewrite skipn_app_exact. exact (G3 si Hsi).
        * rewrite Hlen. lia.
        * intros mx Hmx. destruct (t_max R1) as [mx1|] eqn:Emx; [|cbn in Hmx; discriminate].
          apply z_or_none_some in Hmx. rewrite Hlen. specialize (G5 mx1 eq_refl). lia.
        * unfold zlen. lia.
  Qed.

  Lemma assoc_omap_find (F: ty -> option schema) key : forall fields ps f,
    omap (fun f => match F (f_ty f) with Some s => Some (f_name f, s) | None => None end) fields = Some ps ->
    find (fun f => String.eqb (f_name f) key) fields = Some f ->
    In f fields /\ exists s, F (f_ty f) = Some s /\ assoc ps key = Some s.
  Proof.
    induction fields as [|f0 r IHr]; intros ps f Ho Hf; [discriminate|].
    cbn in Ho. destruct (F (f_ty f0)) as [s0|] eqn:Es; [|discriminate].
    match type of Ho with context [omap ?G r] => destruct (omap G r) as [ps'|] eqn:Er; [|discriminate] end.
    inv Ho. cbn in Hf. cbn [assoc]. destruct (String.eqb (f_name f0) key).
    - inv Hf. split; [left; reflexivity|]. eauto.
    - destruct (IHr ps' f eq_refl Hf) as (Hin & s & Hs & Ha). split; [right; assumption|]. eauto.
  Qed.

  (* a dataclass object schema accepts the members emitted for an instance *)
  Lemma data_sound n (IH: sound_at n) mf m' k (Hk: 2 * n + 1 <= k) d fs ms ps :
    obj_match (fun f fv x =>
                 match f_ser f with
                 | Some rt => if fnullable f && is_none_val fv then json_eqb x JNull
                              else enc_ok n E (nt_mode (c_ntd d) (f_ntover f)) (c_ntd d) rt fv x
                 | None => enc_ok n E (nt_mode (c_ntd d) (f_ntover f)) (c_ntd d) (f_ty f) fv x end)
              (fun f fv => c_omit d && fnullable f && is_none_val fv) (c_fields d) fs ms = true ->
    omap (fun f => match schema_f E dl ar (nt_mode (c_ntd d) (f_ntover f)) mf (f_sty f) with
                   | Some s => Some (f_key f, s) | None => None end) (c_fields d) = Some ps ->
    forallb (fun f => f_init f && ty_ok m' E (nt_mode (c_ntd d) (f_ntover f)) (c_ntd d) (f_sty f)
                      && match f_ser f with Some _ => negb (fnullable f) | None => true end) (c_fields d) = true ->
    no_dup_str (map f_key (c_fields d)) = true ->
    jvalid pm defs (Sn k) (S (obj_kws (Some (c_name d)) ps (map f_key (filter (frequired (c_omit d)) (c_fields d)))))
           (JObj ms) = true.
  Proof.
    intros Hm Ho Hok Hnd.
    destruct (obj_match_facts _ _ _ _ _ Hm) as [M F].
    pose proof (ps_assoc f_key (fun f => schema_f E dl ar (nt_mode (c_ntd d) (f_ntover f)) mf (f_sty f)) _ _ Ho Hnd) as PA.
    rewrite jvalid_S. cbn [kws_of].
    set (KW := obj_kws (Some (c_name d)) ps (map f_key (filter (frequired (c_omit d)) (c_fields d)))).
    assert (HKW: get_props KW = ps) by apply get_props_obj.
    unfold KW at 2. unfold obj_kws.
    rewrite !forallb_app, !andb_true_iff. refine (conj _ (conj _ (conj _ (conj _ _)))).
    - reflexivity.
    - reflexivity.
    - destruct ps eqn:Eps; [reflexivity|]. rewrite <- Eps in *. cbn [forallb kw_ok]. rewrite andb_true_r.
      apply forallb_forall. intros [key x] Hin. destruct (M key x Hin) as (f & fv & Hf & -> & Hc).
      destruct (PA f Hf) as (s' & Hs' & ->).
      pose proof (forallb_In _ _ _ Hok Hf) as H0. apply andb_true_iff in H0. destruct H0 as [H0 Hser].
      apply andb_true_iff in H0. destruct H0 as [_ H0].
      (* the member conforms to the type the schema describes (the overriding function's return type, if any) *)
      assert (Hc': enc_ok n E (nt_mode (c_ntd d) (f_ntover f)) (c_ntd d) (f_sty f) fv x = true).
      { unfold f_sty. destruct (f_ser f) as [rt|]; [|exact Hc].
        apply negb_true_iff in Hser. rewrite Hser in Hc. exact Hc. }
      eapply (IH _ _ _ _ _ Hc' mf m' s'); eauto.
    - assert (Hr: forallb (has_key ms) (map f_key (filter (frequired (c_omit d)) (c_fields d))) = true).
      { apply forallb_forall. intros key Hin. apply in_map_iff in Hin. destruct Hin as (f & <- & Hf).
        apply filter_In in Hf. destruct Hf as [Hf Hd].
        destruct (F f Hf) as [(fv & Hdrop & Hc)|Hh]; [|exact Hh]. exfalso.
        (* a dropped field is omit && nullable, so it is not in `required` *)
        apply andb_true_iff in Hdrop. destruct Hdrop as [Hdrop _].
        unfold frequired in Hd. apply andb_true_iff in Hd. destruct Hd as [_ Hd].
        rewrite Hdrop in Hd. discriminate. }
      destruct (map f_key (filter (frequired (c_omit d)) (c_fields d))); [reflexivity|].
      cbn [forallb kw_ok]. rewrite andb_true_r. exact Hr.
    - cbn [forallb kw_ok orb]. rewrite andb_true_r, HKW.
      apply forallb_forall. intros [key x] Hin. cbn [fst]. destruct (M key x Hin) as (f & fv & Hf & -> & _).
      destruct (PA f Hf) as (s' & _ & Ha). eapply assoc_has_key; eassumption.
  Qed.

  Lemma sound_step n : (forall n', n' <= n -> sound_at n') -> sound_at (Sn n).
  Proof.
    intros IHs cur base t v j He m m' s Hok Hs k Hk.
    pose proof (IHs n (le_n n)) as IH.
    destruct m as [|m]; [discriminate|]. destruct m' as [|m']; [discriminate|].
    destruct k as [|k]; [lia|].
    assert (Hk1: 2 * n + 1 <= k) by lia.
    rewrite jvalid_S.
    destruct t; cbn [enc_ok] in He; cbn [schema_f] in Hs; cbn [ty_ok] in Hok.
    - (* TAny *) inv Hs. reflexivity.
    - (* TNone *) inv Hs. destruct v, j; try discriminate. reflexivity.
    - (* TBool *) inv Hs. destruct v, j; try discriminate. reflexivity.
    - (* TInt *) inv Hs. destruct v, j; try discriminate. reflexivity.
    - (* TFloat *) inv Hs. destruct v, j; try discriminate; reflexivity.
    - (* TStr *) inv Hs. destruct v, j; try discriminate. reflexivity.
    - (* TLeaf *) inv Hs. destruct v, j; try discriminate. reflexivity.
    - (* TTimedelta *) inv Hs. destruct v; try discriminate.
      apply andb_true_iff in He. destruct He as [Hn Hj].
      destruct seconds; try discriminate; destruct j; try discriminate; reflexivity.
    - (* TTimezone *) inv Hs. destruct v; try discriminate. destruct j; try discriminate.
      apply andb_true_iff in He. destruct He as [He Hs']. apply andb_true_iff in He. destruct He as [H1 H2].
      apply String.eqb_eq in Hs'. subst s. cbn [kws_of forallb kw_ok has_type].
      rewrite pm_tz; [reflexivity|]. apply Z.ltb_lt in H1. apply Z.ltb_lt in H2. lia.
    - (* TEnum *) destruct (find_enum (enums E) e) as [d|]; [|discriminate]. inv Hs.
      cbn [kws_of forallb kw_ok]. rewrite andb_true_r.
      destruct v; try discriminate.
      + destruct (nth_error (e_values d) i) as [x|] eqn:Ex; [|discriminate].
        apply existsb_exists. exists x. split; [eapply nth_error_In; eassumption|].
        (* json_eqb x j -> json_eqb j x : go through reflexivity on equal terms *)
        revert He. apply json_eqb_sym_true.
      + apply andb_true_iff in He. destruct He as [Hf _]. rewrite Hf in Hok. discriminate.
    - (* TLit *) destruct v; try discriminate. apply andb_true_iff in He. destruct He as [Hin Hj].
      apply existsb_exists in Hin. destruct Hin as (x & Hx & Hjx).
      pose proof (json_eqb_true _ _ Hj) as <-. pose proof (json_eqb_true _ _ Hjx) as <-.
      destruct vs as [|v0 [|v1 r]]; inv Hs; cbn [kws_of forallb kw_ok]; rewrite andb_true_r.
      + destruct Hx.
      + destruct Hx as [->|[]]. apply json_eqb_refl.
      + apply existsb_exists. exists j0. split; [assumption|apply json_eqb_refl].
    - (* TList *) destruct (schema_f E dl ar cur m t) as [s0|] eqn:Es0; [|discriminate]. inv Hs.
      destruct v; try discriminate. destruct j; try discriminate.
      apply andb_true_iff in Hok. destruct Hok as [Hkb Hok].
      assert (Hc: (if keep then cur else base) = cur).
      { destruct keep; [reflexivity|]. cbn in Hkb. apply Bool.eqb_prop in Hkb. congruence. }
      rewrite Hc in He.
      assert (Hall: forallb (jvalid pm defs k s0) l0 = true).
      { eapply all2_forallb; [|exact He]. intros x y _ Hxy. eapply IH; eauto. }
      unfold opt_kw. destruct (is_empty_schema s0); cbn [app kws_of forallb kw_ok has_type get_prefix_len skipn];
        rewrite ?Hall; reflexivity.
    - (* TSet *) destruct (schema_f E dl ar cur m t) as [s0|] eqn:Es0; [|discriminate]. inv Hs.
      destruct v; try discriminate. destruct j; try discriminate.
      apply andb_true_iff in Hok. destruct Hok as [Hkb Hok]. apply Bool.eqb_prop in Hkb. subst base.
      apply andb_true_iff in He. destruct He as [He Hnd].
      assert (Hall: forallb (jvalid pm defs k s0) l0 = true).
      { eapply all2_forallb; [|exact He]. intros x y _ Hxy. eapply IH; eauto. }
      unfold opt_kw. destruct (is_empty_schema s0); cbn [app kws_of forallb kw_ok has_type get_prefix_len skipn negb orb];
        rewrite ?Hall, ?Hnd; reflexivity.
    - (* TTuple: fixed tuples, with Unpack segments at any nesting depth *)
      destruct v; try discriminate. destruct j; try discriminate.
      change (enc_ok (Sn n) E cur base (TTuple args) (VList l) (JArr l0) = true) in He.
      change (schema_f E dl ar cur (Sn m) (TTuple args) = Some s) in Hs.
      change (ty_ok (Sn m') E cur base (TTuple args) = true) in Hok.
      destruct (tuple_tfacts (Sn n) ltac:(intros; apply IHs; lia) cur base (Sn m) (Sn m') k (TTuple args) l l0 s
                  ltac:(lia) eq_refl He Hok Hs) as (R & -> & HF).
      rewrite <- jvalid_S. apply tfacts_jvalid. exact HF.
    - (* TDict *)
      destruct (schema_f E dl ar cur m t1) as [ks|] eqn:Ek; [|discriminate].
      destruct (schema_f E dl ar cur m t2) as [vs|] eqn:Ev; [|discriminate]. inv Hs.
      destruct v; try discriminate. destruct j; try discriminate.
      apply andb_true_iff in Hok. destruct Hok as [Hok Hokv]. apply andb_true_iff in Hok. destruct Hok as [Hok Hokk].
      apply andb_true_iff in Hok. destruct Hok as [Hkb Hw]. apply Bool.eqb_prop in Hkb. subst base.
      assert (Hall: forallb (fun kv : string * json => jvalid pm defs k ks (JStr (fst kv)) && jvalid pm defs k vs (snd kv)) kvs0 = true).
      { eapply all2_forallb; [|exact He]. intros [kv' vv] [key x] _ Hxy. cbn [fst snd].
        apply andb_true_iff in Hxy. destruct Hxy as [Hkey Hval].
        rewrite (IH _ _ _ _ _ Hval m m' vs Hokv Ev k Hk1), andb_true_r.
        assert (Hk': enc_ok n E cur cur t1 kv' (JStr key) = true).
        { apply orb_true_iff in Hkey. destruct Hkey as [Hkey|Hkey]; [assumption|].
          apply existsb_exists in Hkey. destruct Hkey as (kj & _ & Hkj).
          apply andb_true_iff in Hkj. destruct Hkj as [Hkj Hks].
          destruct (str_wired_jstr E _ _ _ _ _ _ _ Hw Hkj) as (s0 & ->). cbn [key_str] in Hks.
          apply String.eqb_eq in Hks. subst. assumption. }
        eapply IH; eauto. }
      apply forallb_and in Hall. destruct Hall as [Hkeys Hvals].
      assert (Hv': forallb (fun kv : string * json => let (key, x) := kv in has_key (@nil (string * schema)) key || jvalid pm defs k vs x) kvs0 = true).
      { apply forallb_forall. intros [key x] Hin. cbn. exact (proj1 (forallb_forall _ _) Hvals _ Hin). }
      unfold opt_kw. destruct (is_empty_schema vs); destruct (is_empty_schema ks);
        cbn [app kws_of forallb kw_ok has_type get_props]; rewrite ?Hv', ?Hkeys; reflexivity.
    - (* TUnion *)
      destruct (omap (schema_f E dl ar cur m) ts) as [l|] eqn:Eo; [|discriminate]. inv Hs.
      cbn [kws_of forallb kw_ok]. rewrite andb_true_r.
      apply existsb_exists in He. destruct He as (t' & Hin & He').
      destruct (omap_In _ _ _ _ Eo Hin) as (s' & Hs' & Hin').
      apply existsb_exists. exists s'. split; [assumption|].
      eapply (IH _ _ _ _ _ He' m m' s'); [eapply forallb_In; eassumption|assumption|assumption].
    - (* TData *)
      destruct (find_cls (classes E) c) as [d|] eqn:Ed; [|discriminate].
      destruct v; try discriminate. destruct j; try discriminate.
      pose proof (find_cls_In _ _ _ Ed) as Hin.
      assert (Hnd: no_dup_str (map f_key (c_fields d)) = true).
      { unfold env_ok in Eok. apply andb_true_iff in Eok. destruct Eok as [_ Hf]. exact (forallb_In _ _ _ Hf Hin). }
      assert (Hinit: filter f_init (c_fields d) = c_fields d).
      { apply filter_all. apply forallb_forall. intros f Hf. pose proof (forallb_In _ _ _ Hok Hf) as H0.
        apply andb_true_iff in H0. destruct H0 as [H0 _]. apply andb_true_iff in H0. tauto. }
      destruct ar eqn:Ear.
      + inv Hs. cbn [kws_of forallb kw_ok]. rewrite andb_true_r.
        destruct (Hdefs eq_refl d Hin) as (md & s' & Hcs & Has). rewrite Has.
        unfold class_schema in Hcs. rewrite Hinit in Hcs.
        match type of Hcs with context [omap ?G (c_fields d)] => destruct (omap G (c_fields d)) as [ps|] eqn:Eo; [|discriminate] end.
        inv Hcs. destruct k as [|k']; [lia|].
        eapply (data_sound n IH md m' k' ltac:(lia)); eauto. rewrite Ear. exact Eo.
      + rewrite Hinit in Hs.
        match type of Hs with context [omap ?G (c_fields d)] => destruct (omap G (c_fields d)) as [ps|] eqn:Eo; [|discriminate] end.
        inv Hs. rewrite <- jvalid_S.
        eapply (data_sound n IH m m' k); eauto. rewrite Ear. exact Eo.
    - (* TTyped *)
      destruct (find_cls (typeds E) c) as [d|] eqn:Ed; [|discriminate].
      destruct v; try discriminate. destruct j; try discriminate.
      apply andb_true_iff in He. destruct He as [He Hreq]. apply andb_true_iff in He. destruct He as [He _].
      apply andb_true_iff in He. destruct He as [He _].
      apply andb_true_iff in Hok. destruct Hok as [Hok _].
      match type of Hs with context [omap ?G (c_fields d)] => destruct (omap G (c_fields d)) as [ps|] eqn:Eo; [|discriminate] end.
      inv Hs. cbn [kws_of].
      set (KW := obj_kws None ps (sort_str (map f_name (filter (fun f => negb (f_has_default f)) (c_fields d))))).
      assert (HKW: get_props KW = ps) by apply get_props_obj.
      assert (Hmem: forall key x, In (key, x) kvs ->
                exists s', assoc ps key = Some s' /\ jvalid pm defs k s' x = true).
      { intros key x Hin. pose proof (forallb_In _ _ _ He Hin) as H0. cbn beta iota in H0.
        destruct (assoc fs key) as [fv|]; [|discriminate].
        destruct (find (fun f => String.eqb (f_name f) key) (c_fields d)) as [f|] eqn:Ef; [|discriminate].
        destruct (assoc_omap_find (schema_f E dl ar cur m) key _ _ _ Eo Ef) as (Hfin & s' & Hs' & Ha).
        exists s'. split; [assumption|]. eapply (IH _ _ _ _ _ H0 m m' s'); eauto.
        exact (forallb_In _ _ _ Hok Hfin). }
      unfold KW at 2. unfold obj_kws.
      rewrite !forallb_app, !andb_true_iff. refine (conj _ (conj _ (conj _ (conj _ _)))).
      + reflexivity.
      + reflexivity.
      + destruct ps eqn:Eps; [reflexivity|]. rewrite <- Eps in *. cbn [forallb kw_ok]. rewrite andb_true_r.
        apply forallb_forall. intros [key x] Hin. destruct (Hmem key x Hin) as (s' & -> & Hv). exact Hv.
      + assert (Hr: forallb (has_key kvs) (sort_str (map f_name (filter (fun f => negb (f_has_default f)) (c_fields d)))) = true).
        { apply forallb_forall. intros key Hin. apply sort_str_In in Hin.
          apply in_map_iff in Hin. destruct Hin as (f & <- & Hf). apply filter_In in Hf. destruct Hf as [Hf Hd].
          pose proof (forallb_In _ _ _ Hreq Hf) as H0. cbn beta in H0.
          apply negb_true_iff in Hd. rewrite Hd in H0. exact H0. }
        destruct (sort_str (map f_name (filter (fun f => negb (f_has_default f)) (c_fields d)))); [reflexivity|].
        cbn [forallb kw_ok]. rewrite andb_true_r. exact Hr.
      + cbn [forallb kw_ok orb]. rewrite andb_true_r, HKW.
        apply forallb_forall. intros [key x] Hin. cbn [fst]. destruct (Hmem key x Hin) as (s' & Ha & _).
        eapply assoc_has_key; eassumption.
    - (* TNamed *)
      destruct (find_cls (nts E) c) as [d|] eqn:Ed; [|discriminate].
      destruct v; try discriminate.
      apply andb_true_iff in Hok. destruct Hok as [Hok Hnd].
      destruct cur.
      + (* as dict *)
        destruct j; try discriminate.
        apply andb_true_iff in He. destruct He as [He Hl2]. apply andb_true_iff in He. destruct He as [He Hl1].
        apply Nat.eqb_eq in Hl1.
        match type of Hs with context [omap ?G (c_fields d)] => destruct (omap G (c_fields d)) as [ps|] eqn:Eo; [|discriminate] end.
        inv Hs.
        destruct (nt_members (fun f fv x => enc_ok n E true base (f_ty f) fv x) _ _ _ He Hl1) as [M F].
        pose proof (ps_assoc f_name (fun f => schema_f E dl ar true m (f_ty f)) _ _ Eo Hnd) as PA.
        cbn [kws_of].
        set (KW := (KType TyObject :: (match ps with [] => [] | _ => [KProps ps] end
                   ++ [KRequired (map f_name (c_fields d)); KAddl false]))%list).
        assert (HKW: get_props KW = ps) by (unfold KW; destruct ps; reflexivity).
        unfold KW at 2. cbn [forallb].
        rewrite forallb_app, !andb_true_iff. refine (conj _ (conj _ _)).
        * reflexivity.
        * destruct ps eqn:Eps; [reflexivity|]. rewrite <- Eps in *. cbn [forallb kw_ok]. rewrite andb_true_r.
          apply forallb_forall. intros [key x] Hin. destruct (M key x Hin) as (f & fv & Hf & -> & Hc).
          destruct (PA f Hf) as (s' & Hs' & ->).
          eapply (IH _ _ _ _ _ Hc m m' s'); eauto. exact (forallb_In _ _ _ Hok Hf).
        * cbn [forallb kw_ok orb]. rewrite HKW, !andb_true_r. apply andb_true_iff. split.
          -- apply forallb_forall. intros key Hin. apply in_map_iff in Hin. destruct Hin as (f & <- & Hf). exact (F f Hf).
          -- apply forallb_forall. intros [key x] Hin. cbn [fst]. destruct (M key x Hin) as (f & fv & Hf & -> & _).
             destruct (PA f Hf) as (s' & _ & Ha). eapply assoc_has_key; eassumption.
      + (* as list *)
        destruct j; try discriminate.
        apply andb_true_iff in He. destruct He as [He Hl2]. apply andb_true_iff in He. destruct He as [He Hl1].
        apply Nat.eqb_eq in Hl1. apply Nat.eqb_eq in Hl2.
        destruct (omap (fun f => schema_f E dl ar false m (f_ty f)) (c_fields d)) as [ss|] eqn:Eo; [|discriminate].
        pose proof (prefix_ok f_ty n IH false base m m' k Hk1 _ _ _ _ He Eo Hok) as Hp.
        pose proof (omap_length _ _ _ Eo) as Hlen.
        destruct ss as [|s0 ss']; inv Hs.
        * reflexivity.
        * cbn [kws_of forallb kw_ok has_type]. rewrite Hp.
          assert (Hll: Z.of_nat (List.length l0) = zlen (s0 :: ss')) by (unfold zlen; rewrite Hlen, <- Hl2, Hl1; reflexivity).
          rewrite Hll, Z.leb_refl. reflexivity.
  Qed.

  Lemma sound_upto : forall n n', n' <= n -> sound_at n'.
  Proof.
    induction n as [|n IHn]; intros n' Hle.
    - assert (n' = 0) by lia. subst. intros cur base t v j He. discriminate.
    - destruct (Nat.eq_dec n' (Sn n)) as [->|Hne]; [apply sound_step; exact IHn | apply IHn; lia].
  Qed.

  Theorem sound_all : forall n, sound_at n.
  Proof. intros n. exact (sound_upto n n (le_n n)). Qed.
End Sound.

