(* C11: proofs about union positions at any depth (UnionDeep.v). *)
From Coq Require Import List String Ascii ZArith Bool Lia.
From Verif Require Import UnionModel UnionProofs UnionDeep.
Import ListNotations.

Section CtyInd.
  Variable P : cty -> Prop.
  Hypothesis HS : forall k, P (YS k).
  Hypothesis HLeaf : forall f, P (YLeaf f).
  Hypothesis HU : forall l, Forall (fun p => P (snd p)) l -> P (YU l).
  Hypothesis HOpt : forall t, P t -> P (YOpt t).
  Hypothesis HList : forall t, P t -> P (YList t).
  Hypothesis HTupV : forall t, P t -> P (YTupV t).
  Hypothesis HTupF : forall l, Forall P l -> P (YTupF l).
  Hypothesis HDict : forall t, P t -> P (YDict t).
  Fixpoint cty_ind' (t: cty) : P t :=
    match t with
    | YS k => HS k
    | YLeaf f => HLeaf f
    | YU l => HU l ((fix go (l: list (nat * cty)) : Forall (fun p => P (snd p)) l :=
                       match l with
                       | [] => Forall_nil _
                       | p :: r => Forall_cons p (match p as p0 return P (snd p0) with (e, t') => cty_ind' t' end) (go r)
                       end) l)
    | YOpt t' => HOpt t' (cty_ind' t')
    | YList t' => HList t' (cty_ind' t')
    | YTupV t' => HTupV t' (cty_ind' t')
    | YTupF l => HTupF l ((fix go (l: list cty) : Forall P l :=
                             match l with [] => Forall_nil _ | x :: r => Forall_cons x (cty_ind' x) (go r) end) l)
    | YDict t' => HDict t' (cty_ind' t')
    end.
End CtyInd.

Lemma mapO_ext : forall {A B} (f g: A -> option B) l, Forall (fun x => f x = g x) l -> mapO f l = mapO g l.
Proof. intros A B f g l H; induction H as [|x r Hx _ IH]; simpl; [reflexivity | rewrite Hx, IH; reflexivity]. Qed.

Section DeepFacts.
  Variable co : skind -> uv -> option uv.

  Definition seq_All (P: uv -> Prop) (d: uv) : Prop := forall l, iter_of d = Some l -> Forall P l.
  Fixpoint tup_All (Ps: list (uv -> Prop)) (d: uv) (i: nat) : Prop :=
    match Ps with
    | [] => True
    | P :: r => (forall x, index_of d i = Some x -> P x) /\ tup_All r d (S i) end.
  Definition dict_All (P: uv -> Prop) (d: uv) : Prop :=
    forall kvs, items_of d = Some kvs -> Forall (fun kv => P (snd kv)) kvs.

  (* hereditary coherence: in every union visited while decoding d, members emitted from one
     expression behave alike on the value they receive *)
  Fixpoint ycoh (t: cty) : uv -> Prop :=
    match t with
    | YU l => fun d => coherent (map (ymember co (union_dec co) (coerce co)) l) d /\
                       fold_right (fun p Q => match p with (_, t') => ycoh t' d end /\ Q) True l
    | YOpt t' => fun d => is_none d = false -> ycoh t' d
    | YList t' | YTupV t' => seq_All (ycoh t')
    | YTupF l => fun d => tup_All (map ycoh l) d 0
    | YDict t' => dict_All (ycoh t')
    | _ => fun _ => True
    end.

  Definition PD (t: cty) : Prop := forall d, ycoh t d -> ysafe co t d = true -> ydec co t d = yref co t d.

  Lemma ydec_YU : forall l, ydec co (YU l) = union_dec co (map (ymember co (union_dec co) (coerce co)) l).
  Proof. reflexivity. Qed.
  Lemma yref_YU : forall l, yref co (YU l) = ref_union co (map (ymember co (ref_union co) (ref_coerce co)) l).
  Proof. reflexivity. Qed.

  Lemma members_agree : forall l d, Forall (fun p => PD (snd p)) l ->
    fold_right (fun p Q => match p with (_, t') => ycoh t' d end /\ Q) True l ->
    forallb (fun p => match p with (_, t') => match t' with YS _ => true | _ => ysafe co t' d end end) l = true ->
    Forall2 (magree co d) (map (ymember co (union_dec co) (coerce co)) l) (map (ymember co (ref_union co) (ref_coerce co)) l).
  Proof.
    intros l d H; induction H as [|[e t'] r Hp _ IH]; intros Hc Hs; simpl; [constructor|].
    simpl in Hc, Hs. destruct Hc as [Hc1 Hc2]. apply andb_true_iff in Hs; destruct Hs as [Hs1 Hs2].
    constructor; [|apply IH; assumption].
    simpl in Hp. unfold magree.
    destruct t'; simpl; repeat split; try reflexivity; apply (Hp d Hc1 Hs1).
  Qed.

  Lemma seq_run_ext : forall w f g d, (forall l, iter_of d = Some l -> Forall (fun x => f x = g x) l) ->
    seq_run w f d = seq_run w g d.
  Proof.
    intros w f g d H. unfold seq_run. destruct (iter_of d) as [l|]; [|reflexivity].
    rewrite (mapO_ext f g l (H l eq_refl)). reflexivity.
  Qed.

  Lemma seq_case : forall w t, PD t -> forall d, seq_All (ycoh t) d -> seq_all (ysafe co t) d = true ->
    seq_run w (ydec co t) d = seq_run w (yref co t) d.
  Proof.
    intros w t IH d Hc Hs. apply seq_run_ext. intros l Hl.
    unfold seq_all in Hs. rewrite Hl in Hs. specialize (Hc l Hl).
    rewrite forallb_forall in Hs. rewrite Forall_forall in *. intros x Hx. apply IH; auto.
  Qed.

  Lemma tup_case : forall l, Forall PD l -> forall d i,
    tup_All (map ycoh l) d i -> tup_all (map (ysafe co) l) d i = true ->
    tup_items (map (ydec co) l) d i = tup_items (map (yref co) l) d i.
  Proof.
    intros l H; induction H as [|t r Ht _ IH]; intros d i Hc Hs; simpl in *; [reflexivity|].
    destruct Hc as [Hc1 Hc2]. destruct (index_of d i) as [x|]; [|reflexivity].
    apply andb_true_iff in Hs; destruct Hs as [Hs1 Hs2].
    rewrite (Ht x (Hc1 x eq_refl) Hs1), (IH d (S i) Hc2 Hs2). reflexivity.
  Qed.

  Theorem deep_partial : forall t, PD t.
  Proof.
    induction t as [k|f|l IH|t IH|t IH|t IH|l IH|t IH] using cty_ind'; intros d Hc Hs.
    - destruct k; try reflexivity. simpl in Hs. unfold ydec, yref; simpl. rewrite Hs. reflexivity.
    - reflexivity.
    - rewrite ydec_YU, yref_YU. simpl in Hc, Hs. destruct Hc as [Hc Hcl].
      apply andb_true_iff in Hs; destruct Hs as [Hs Hsl]. apply andb_true_iff in Hs; destruct Hs as [Hn Hsh].
      rewrite (union_decode_partial co _ d Hc Hn Hsh). apply ref_union_ext. apply members_agree; assumption.
    - unfold ydec, yref; simpl. unfold opt_dec. simpl in Hc, Hs.
      destruct (is_none d) eqn:E; [reflexivity|]. simpl in Hs. apply (IH d (Hc eq_refl) Hs).
    - apply (seq_case UList t IH d Hc Hs).
    - apply (seq_case UTuple t IH d Hc Hs).
    - unfold ydec, yref; simpl. unfold tup_run. simpl in Hc, Hs.
      change (map (ygen co (union_dec co) (coerce co)) l) with (map (ydec co) l).
      change (map (ygen co (ref_union co) (ref_coerce co)) l) with (map (yref co) l).
      rewrite (tup_case l IH d 0 Hc Hs). reflexivity.
    - unfold ydec, yref; simpl. unfold dict_run. simpl in Hc, Hs. unfold dict_All in Hc. unfold dict_all in Hs.
      destruct (items_of d) as [kvs|]; [|reflexivity].
      specialize (Hc kvs eq_refl). rewrite forallb_forall in Hs. rewrite Forall_forall in Hc.
      f_equal. apply mapO_ext. apply Forall_forall. intros [k x] Hi.
      change (ygen co (union_dec co) (coerce co) t x) with (ydec co t x).
      change (ygen co (ref_union co) (ref_coerce co) t x) with (yref co t x).
      rewrite (IH x (Hc _ Hi) (Hs _ Hi)). reflexivity.
  Qed.

  (* when the expression ids of every union are pairwise distinct, coherence is automatic *)
  Lemma nodup_coherent : forall ms d, NoDup (map member_key ms) -> coherent ms d.
  Proof.
    intros ms d H e f g Hf Hg.
    assert (MN e f = MN e g) as E; [|inversion E; reflexivity].
    revert H Hf Hg. induction ms as [|m r IH]; intros H Hf Hg; [destruct Hf|].
    simpl in H. inversion H as [|? ? Hni Hnd]; subst.
    destruct Hf as [Hf|Hf], Hg as [Hg|Hg].
    - congruence.
    - exfalso; apply Hni. subst m. apply (in_map member_key) in Hg. exact Hg.
    - exfalso; apply Hni. subst m. apply (in_map member_key) in Hf. exact Hf.
    - apply IH; assumption.
  Qed.
End DeepFacts.
