(* C19 model: hook/event traces of the generated to_dict / from_dict code.

   Values are trees of dataclass instances; the interpreters [pack] (serialization) and
   [unpack] (deserialization) follow the generator of /repo decision by decision
   (builder.py _add_pack_method_lines / _add_unpack_method_lines, pack.py pack_dataclass /
   pack_union, unpack.py unpack_dataclass / UnionUnpackerBuilder) and produce the list of
   hook events.  [trav] / [trav_de] are the reference: the pre/post-order traversal of the
   instance tree, written from the property text alone.

   Everything here is executable; the harness runs [pack]/[unpack] by vm_compute on the
   same (schema, value) pairs as the real library on every run (correspondence). *)
From Coq Require Import List Arith Bool.
Import ListNotations.

(* ---------------------------------------------------------------- schema *)
Inductive ty :=
| TInt                       (* scalar: packer is the identity, unpacker int(value) *)
| TDc (c: nat)               (* dataclass number c of the class table *)
| TList (t: ty)              (* List / Tuple[T,...] / Dict[str,T] values: a comprehension over the items, in order *)
| TOpt (t: ty)               (* Optional[T]:  <packer> if value is not None else None *)
| TUnion (cs: list nat)      (* Union of dataclasses *)
| TDisc (p: nat) (withfield supertypes: bool)
| TDiscU (cs: list nat) (withfield subtypes supertypes: bool).
    (* Annotated[Union[A, B, ...], Discriminator(field?, include_subtypes?, include_supertypes?)]: packed by the
       union packer, unpacked by the variant dispatcher over the members' subclasses and/or the members *)
    (* Annotated[P, Discriminator(field="kind" | None, include_subtypes=True, include_supertypes=...)]:
       packed like P; unpacked by the variant dispatcher of the holder *)

Record field := { f_name : nat; f_ty : ty; f_default : bool }.

(* Hook flags are the *declared* hooks in the sense of builder.get_declared_hook (found in the
   MRO on a class other than DataClassDictMixin); c_ctx = ADD_SERIALIZATION_CONTEXT enabled. *)
(* c_parent: the dataclass this one derives from (fields and hooks of the parent are already flattened
   into c_fields / the hook flags).  c_tag: the class body binds the discriminator attribute itself
   (variant.__dict__["kind"]).  c_disc: the class's own Config has a discriminator with include_subtypes;
   Some true = with field (dispatch on the tag), Some false = without field (try every subclass). *)
(* the other keyword-adding code generation options of a class: (TO_DICT_ADD_OMIT_NONE_FLAG,
   TO_DICT_ADD_BY_ALIAS_FLAG, ADD_DIALECT_SUPPORT).  They never reach a hook; they decide which keywords a call
   passes, which calls raise TypeError and which union members share one call expression. *)
Definition xf := (bool * bool * bool)%type.
Definition xf_none : xf := (false, false, false).
Definition xf_and (a b: xf) : xf :=
  match a, b with (a1, a2, a3), (b1, b2, b3) => (a1 && b1, a2 && b2, a3 && b3) end.
Definition impb (a b: bool) : bool := negb a || b.
Definition xf_le (a b: xf) : bool :=
  match a, b with (a1, a2, a3), (b1, b2, b3) => impb a1 b1 && impb a2 b2 && impb a3 b3 end.
Definition xf_eqb (a b: xf) : bool :=
  match a, b with (a1, a2, a3), (b1, b2, b3) => Bool.eqb a1 b1 && Bool.eqb a2 b2 && Bool.eqb a3 b3 end.

Record cinfo := { c_fields : list field;
                  c_pre : bool; c_post : bool; c_prede : bool; c_postde : bool;
                  c_ctx : bool;
                  c_parent : option nat; c_tag : option nat; c_disc : option bool;
                  c_xf : xf;
                  c_tagger : bool }.
(* c_tagger: the class-level discriminator has a variant_tagger_fn (here: the class's name), so every variant is
   registered under its own name whether or not its body binds the discriminator attribute *)
Definition env := list cinfo.
Definition mk_cinfo fl pre post prede postde ctx : cinfo :=
  Build_cinfo fl pre post prede postde ctx None None None xf_none false.
Definition mk_cinfo_h fl pre post prede postde ctx par tag disc : cinfo :=
  Build_cinfo fl pre post prede postde ctx par tag disc xf_none false.
Definition empty_class : cinfo := mk_cinfo [] false false false false false.
Definition cls (E: env) (c: nat) : cinfo := nth c E empty_class.

(* iter_all_subclasses(p): cls.__subclasses__() in definition order, depth first, pre-order *)
Definition opt_nat_eqb (a: option nat) (b: nat) : bool := match a with Some x => x =? b | None => false end.
Definition children (E: env) (p: nat) : list nat :=
  filter (fun c => opt_nat_eqb (c_parent (cls E c)) p) (seq 0 (length E)).
Fixpoint subclasses_f (E: env) (fuel: nat) (p: nat) : list nat :=
  match fuel with
  | 0 => []
  | S f => flat_map (fun c => c :: subclasses_f E f c) (children E p)
  end.
Definition subclasses (E: env) (p: nat) : list nat := subclasses_f E (length E) p.
Definition is_sub (E: env) (cr c: nat) : bool := existsb (Nat.eqb cr) (subclasses E c).
(* registry[tag]: every variant registers variant.__dict__[field]; later variants overwrite earlier ones *)
Definition lookup_tag (E: env) (tagger: bool) (vs: list nat) (t: nat) : option nat :=
  fold_left (fun acc v => if (if tagger then v =? t else opt_nat_eqb (c_tag (cls E v)) t) then Some v else acc) vs None.

(* ---------------------------------------------------------------- values *)
(* VInst c i j fs: an instance of class c with identity i whose __pre_serialize__ (if the
   class declares one) returns the object with identity j (j = i: returns self).  fs: the
   attributes by name, in class order for a well-typed value. *)
Inductive val :=
| VInt
| VNone
| VInst (c i j: nat) (fs: list (nat * val))
| VList (l: list val).

(* what a hook sees as its context argument *)
Inductive ctxtok := CAbsent      (* called without the keyword *)
                  | CNone        (* context=None *)
                  | CTok.        (* the object passed by the caller of to_dict *)

Inductive ev :=
| Pre (c i: nat) (k: ctxtok)     (* __pre_serialize__ ran on instance i, dispatched to class c *)
| Post (c i: nat) (k: ctxtok)    (* __post_serialize__ ran on instance i *)
| PreDe (c: nat)                 (* c.__pre_deserialize__(d) *)
| PostDe (c i: nat).             (* c.__post_deserialize__(instance i) *)

Definition ctxtok_eqb (a b: ctxtok) : bool :=
  match a, b with CAbsent, CAbsent | CNone, CNone | CTok, CTok => true | _, _ => false end.
Definition ev_eqb (a b: ev) : bool :=
  match a, b with
  | Pre c i k, Pre c' i' k' | Post c i k, Post c' i' k' => (c =? c') && (i =? i') && ctxtok_eqb k k'
  | PreDe c, PreDe c' => c =? c'
  | PostDe c i, PostDe c' i' => (c =? c') && (i =? i')
  | _, _ => false end.
Fixpoint evs_eqb (a b: list ev) : bool :=
  match a, b with
  | [], [] => true
  | x :: a', y :: b' => ev_eqb x y && evs_eqb a' b'
  | _, _ => false end.

(* ---------------------------------------------------------------- trace monad: (succeeded?, events) *)
Definition M := (bool * list ev)%type.
Definition ok_ (tr: list ev) : M := (true, tr).
Definition fail_ : M := (false, []).
Definition seq2 (a b: M) : M :=
  match a with
  | (true, ta) => match b with (r, tb) => (r, ta ++ tb) end
  | (false, ta) => (false, ta)
  end.
Fixpoint seqM (l: list M) : M :=
  match l with [] => ok_ [] | a :: r => seq2 a (seqM r) end.
(* try: return <expr> / except Exception: pass, one after the other; events of a failed
   attempt stay in the trace (the hooks did run). *)
Fixpoint try_each (l: list M) : M :=
  match l with
  | [] => fail_
  | a :: r => match a with
              | (true, ta) => (true, ta)
              | (false, ta) => match try_each r with (ok, tb) => (ok, ta ++ tb) end
              end
  end.

Fixpoint assoc {A} (k: nat) (l: list (nat * A)) : option A :=
  match l with [] => None | (k', x) :: r => if k =? k' then Some x else assoc k r end.

Fixpoint dedup_bool (l: list bool) (seen_t seen_f: bool) : list bool :=
  match l with
  | [] => []
  | true :: r => if seen_t then dedup_bool r seen_t seen_f else true :: dedup_bool r true seen_f
  | false :: r => if seen_f then dedup_bool r seen_t seen_f else false :: dedup_bool r seen_t true
  end.
(* distinct call expressions of a mixin union: (context keyword passed?, other keywords passed) *)
Definition pf := (bool * xf)%type.
Definition pf_eqb (a b: pf) : bool := Bool.eqb (fst a) (fst b) && xf_eqb (snd a) (snd b).
Fixpoint dedup_pf (l: list pf) (seen: list pf) : list pf :=
  match l with
  | [] => []
  | x :: r => if existsb (pf_eqb x) seen then dedup_pf r seen else x :: dedup_pf r (x :: seen)
  end.
Fixpoint dedup_nat (l: list nat) (seen: list nat) : list nat :=
  match l with
  | [] => []
  | x :: r => if existsb (Nat.eqb x) seen then dedup_nat r seen else x :: dedup_nat r (x :: seen)
  end.

(* ---------------------------------------------------------------- serialization *)
Inductive mode := Mixin    (* nailed builder: value.__mashumaro_to_dict__(flags), dynamic dispatch *)
                | Codec.   (* codec builder: <Alias>___mashumaro_to_dict__(value), static, no flags *)

Section Pack.
  Variable E : env.
  Variable stubs : bool.   (* classes derive from DataClassDictMixin (which has stub hooks returning None) *)

  (* a sub-value, already closed over the recursive call:
     type -> calling class opted in -> calling class's other options -> its token -> M *)
  Definition sub := ty -> bool -> xf -> ctxtok -> M.

  (* Body of the to_dict generated for class cg, running on an instance (i, pre hook returns j)
     whose runtime class is cr.  kk: what the hooks receive; pc/ck: what is forwarded. *)
  (* to_dict of G ends in `return self.__post_serialize__(<dict>)`.  When the class has no Optional field
     <dict> is a literal whose items are evaluated *after* the attribute lookup self.__post_serialize__; a
     plain (non-mixin) instance R without the hook fails there, before any field is packed.  With an
     Optional field the incremental `kwargs[...] = ...` statements run first. *)
  Definition is_opt (t: ty) : bool := match t with TOpt _ => true | _ => false end.
  Definition early_fail (G R: cinfo) : bool :=
    c_post G && negb (c_post R) && negb stubs && negb (existsb (fun f => is_opt (f_ty f)) (c_fields G)).

  Definition body (cg cr i j: nat) (subs: list (nat * sub)) (kk ck: ctxtok) : M :=
    let G := cls E cg in
    let R := cls E cr in
    let pre_part : M := if c_pre G then (if c_pre R then ok_ [Pre cr i kk] else fail_) else ok_ [] in
    let fields_part : M :=
      seqM (map (fun f => match assoc (f_name f) subs with
                          | Some s => s (f_ty f) (c_ctx G) (c_xf G) ck
                          | None => fail_ end) (c_fields G)) in
    (* the instance's class does not declare the hook the generated code calls: a plain class has no such
       attribute (AttributeError); DataClassDictMixin's stub takes no context keyword (TypeError) and
       otherwise returns None silently *)
    let post_part : M := if c_post G then (if c_post R then ok_ [Post cr (if c_pre G then j else i) kk]
                                           else (stubs && negb (c_ctx G), [])) else ok_ [] in
    if early_fail G R then seq2 pre_part fail_ else seq2 pre_part (seq2 fields_part post_part).

  (* value.__mashumaro_to_dict__([omit_none=..][, by_alias=..][, dialect=..][, context=context]) *)
  Definition call_mixin (pass: bool) (px: xf) (k: ctxtok) (cr i j: nat) (subs: list (nat * sub)) : M :=
    if (pass && negb (c_ctx (cls E cr))) || negb (xf_le px (c_xf (cls E cr)))
    then fail_          (* TypeError: unexpected keyword *)
    else let kin := if pass then k else CNone in
         body cr cr i j subs (if c_ctx (cls E cr) then kin else CAbsent) kin.

  (* <Alias of cs>___mashumaro_to_dict__(value) *)
  Definition call_codec (cs cr i j: nat) (subs: list (nat * sub)) : M :=
    body cs cr i j subs (if c_ctx (cls E cs) then CNone else CAbsent) CNone.

  Fixpoint pack (m: mode) (v: val) {struct v} : sub :=
    let inst : option (nat * nat * nat * list (nat * sub)) :=
      match v with
      | VInst cr i j fs => Some (cr, i, j, map (fun kx => match kx with (k, x) => (k, pack m x) end) fs)
      | _ => None end in
    let call_dc (cs: nat) (pc: bool) (px: xf) (k: ctxtok) : M :=
      match inst with
      | Some (cr, i, j, subs) =>
          match m with
          | Mixin => call_mixin (pc && c_ctx (cls E cs)) (xf_and px (c_xf (cls E cs))) k cr i j subs
          | Codec => call_codec cs cr i j subs
          end
      | None => fail_ end in
    fix on_ty (t: ty) : bool -> xf -> ctxtok -> M :=
      fun pc px k =>
      match t with
      | TInt => ok_ []
      | TDc c => call_dc c pc px k
      | TDisc p _ _ => call_dc p pc px k       (* the annotation plays no role for packing *)
      | TList t' => match v with
                    | VList l => seqM (map (fun x => pack m x t' pc px k) l)
                    | _ => fail_ end
      | TOpt t' => match v with VNone => ok_ [] | _ => on_ty t' pc px k end
      | TUnion cs | TDiscU cs _ _ _ =>
          match inst with
          | Some (cr, i, j, subs) =>
              match m with
              | Mixin => try_each (map (fun a => call_mixin (fst a) (snd a) k cr i j subs)
                                       (dedup_pf (map (fun c => (pc && c_ctx (cls E c), xf_and px (c_xf (cls E c)))) cs) []))
              | Codec => try_each (map (fun c => call_codec c cr i j subs) (dedup_nat cs []))
              end
          | None => fail_ end
      end.
End Pack.

(* ---------------------------------------------------------------- reference (serialization) *)
(* Pre/post-order traversal of the instance tree.  pc/k: the enclosing instance opted in / the
   token it holds.  An opted-in class receives the token iff its parent opted in too. *)
Section Trav.
  Variable E : env.
  Fixpoint trav (pc: bool) (k: ctxtok) (v: val) {struct v} : list ev :=
    match v with
    | VInst c i j fs =>
        let C := cls E c in
        let kin := if pc && c_ctx C then k else CNone in
        let kk := if c_ctx C then kin else CAbsent in
        (if c_pre C then [Pre c i kk] else [])
        ++ flat_map (fun kx => match kx with (_, x) => trav (c_ctx C) kin x end) fs
        ++ (if c_post C then [Post c j kk] else [])
    | VList l => flat_map (trav pc k) l
    | _ => []
    end.
End Trav.

(* ---------------------------------------------------------------- well-typed values (exact classes) *)
Section Wt.
  Variable E : env.
  Fixpoint names_match (fs: list nat) (fl: list field) : bool :=
    match fs, fl with
    | [], [] => true
    | k :: r, f :: r' => (k =? f_name f) && names_match r r'
    | _, _ => false end.
  Fixpoint nodupb (l: list nat) : bool :=
    match l with [] => true | x :: r => negb (existsb (Nat.eqb x) r) && nodupb r end.

  Definition subw := ty -> bool.
  Fixpoint all_fields (subs: list (nat * subw)) (fl: list field) : bool :=
    match subs, fl with
    | [], [] => true
    | (k, s) :: r, f :: r' => (k =? f_name f) && s (f_ty f) && all_fields r r'
    | _, _ => false end.

  (* v is a value of type t: every instance has exactly the declared class (for a union: one
     of the members), its attributes are the class's fields in order, and when the class has
     no pre hook the "returned" identity is the instance itself. *)
  (* allow = true: an instance of a subclass may stand where the parent is declared, provided both have the same
     keyword-adding options (the keyword list of the call is computed from the declared class) *)
  Variable allow : bool.
  Definition class_ok (cr c: nat) : bool :=
    (cr =? c) || (allow && is_sub E cr c && xf_eqb (c_xf (cls E cr)) (c_xf (cls E c))
                  && Bool.eqb (c_ctx (cls E cr)) (c_ctx (cls E c))).
  Fixpoint wt (v: val) {struct v} : ty -> bool :=
    let inst_ok (c: nat) : bool :=
      match v with
      | VInst cr i j fs =>
          class_ok cr c && nodupb (map fst fs) && (c_pre (cls E cr) || (i =? j))
          && all_fields (map (fun kx => match kx with (k, x) => (k, wt x) end) fs) (c_fields (cls E cr))
      | _ => false end in
    fix on_ty (t: ty) : bool :=
      match t with
      | TInt => match v with VInt => true | _ => false end
      | TDc c => inst_ok c
      | TDisc p _ _ => inst_ok p
      | TList t' => match v with VList l => forallb (fun x => wt x t') l | _ => false end
      | TOpt t' => match v with VNone => true | _ => on_ty t' end
      | TUnion cs | TDiscU cs _ _ _ =>
                     match v with
                     | VInst cr _ _ _ => existsb (Nat.eqb cr) cs && inst_ok cr
                     | _ => false end
      end.
End Wt.

(* unions *)
(* no speculative construct: no Union, no discriminator without a field *)
Fixpoint union_free (t: ty) : bool :=
  match t with
  | TInt | TDc _ => true
  | TList t' | TOpt t' => union_free t'
  | TUnion _ | TDiscU _ _ _ _ => false
  | TDisc _ wf _ => wf end.
Definition disc_det (C: cinfo) : bool := match c_disc C with Some false => false | _ => true end.
Definition env_union_free (E: env) : bool :=
  forallb (fun C => forallb (fun f => union_free (f_ty f)) (c_fields C) && disc_det C) E.

(* mixin path: all members of every union agree on the context option *)
Fixpoint all_same (l: list bool) : bool :=
  match l with
  | [] => true
  | x :: r => forallb (Bool.eqb x) r && all_same r end.
Section Uni.
  Variable E : env.
  Fixpoint union_uniform (t: ty) : bool :=
    match t with
    | TInt | TDc _ | TDisc _ _ _ => true
    | TList t' | TOpt t' => union_uniform t'
    | TUnion cs | TDiscU cs _ _ _ => all_same (map (fun c => c_ctx (cls E c)) cs) end.
  Definition env_union_uniform : bool :=
    forallb (fun C => forallb (fun f => union_uniform (f_ty f)) (c_fields C)) E.
End Uni.

(* events without the context component *)
Definition erase (e: ev) : ev :=
  match e with Pre c i _ => Pre c i CAbsent | Post c i _ => Post c i CAbsent | e => e end.

(* ---------------------------------------------------------------- deserialization *)
Inductive wire :=
| WInt
| WNone
| WDict (tag: option nat) (kvs: list (nat * wire))
    (* a dataclass in basic form: keys are field names; tag = the value under the discriminator key, if present *)
| WList (l: list wire).            (* list / tuple / Dict[str,T] items in order *)

(* state = next fresh instance identity; result = (decoded value or failure, events, next id) *)
Definition D := nat -> (option val * list ev * nat)%type.
Definition dsub := ty -> D.

Definition dret (v: val) : D := fun n => (Some v, [], n).
Definition dfail : D := fun n => (None, [], n).

Fixpoint dseq (l: list D) : nat -> (option (list val) * list ev * nat) :=
  fun n =>
  match l with
  | [] => (Some [], [], n)
  | a :: r => match a n with
              | (Some v, ta, n1) => match dseq r n1 with
                                    | (Some vs, tb, n2) => (Some (v :: vs), ta ++ tb, n2)
                                    | (None, tb, n2) => (None, ta ++ tb, n2) end
              | (None, ta, n1) => (None, ta, n1)
              end
  end.

Fixpoint dtry (l: list D) : D :=
  fun n =>
  match l with
  | [] => (None, [], n)
  | a :: r => match a n with
              | (Some v, ta, n1) => (Some v, ta, n1)
              | (None, ta, n1) => match dtry r n1 with (o, tb, n2) => (o, ta ++ tb, n2) end
              end
  end.

Section Unpack.
  Variable E : env.

  (* the field blocks of from_dict in order: d.get(name, MISSING); MISSING -> default or
     MissingField; else the field's unpacker. Returns the constructor arguments by name. *)
  Fixpoint dfields (fl: list field) (subs: list (nat * dsub)) : nat -> (option (list (nat * val)) * list ev * nat) :=
    fun n =>
    match fl with
    | [] => (Some [], [], n)
    | f :: r =>
        match assoc (f_name f) subs with
        | None => if f_default f
                  then match dfields r subs n with
                       | (Some vs, tb, n2) => (Some ((f_name f, VNone) :: vs), tb, n2)
                       | (None, tb, n2) => (None, tb, n2) end
                  else (None, [], n)
        | Some s => match s (f_ty f) n with
                    | (Some v, ta, n1) =>
                        match dfields r subs n1 with
                        | (Some vs, tb, n2) => (Some ((f_name f, v) :: vs), ta ++ tb, n2)
                        | (None, tb, n2) => (None, ta ++ tb, n2) end
                    | (None, ta, n1) => (None, ta, n1)
                    end
        end
    end.

  (* C.from_dict(d) for a dict d *)
  Definition dbody (c: nat) (subs: list (nat * dsub)) : D :=
    fun n =>
    let C := cls E c in
    let pre := if c_prede C then [PreDe c] else [] in
    match dfields (c_fields C) subs n with
    | (Some vs, tr, n1) => (Some (VInst c n1 n1 vs), pre ++ tr ++ (if c_postde C then [PostDe c n1] else []), S n1)
    | (None, tr, n1) => (None, pre ++ tr, n1)
    end.

  (* the variant dispatcher (unpack.py DiscriminatedUnionUnpackerBuilder) over the variants vs, each given as
     "variant.from_dict(value)".  With a field: value[field] (missing key: MissingDiscriminatorError; not a mapping:
     TypeError), then the registered class; without: try every variant in order, `except Exception: pass`. *)
  Definition dispatch (tag: option (option nat)) (withfield tagger: bool) (vs: list nat) (from_dict: nat -> D) : D :=
    if withfield then
      match tag with
      | Some (Some t) => match lookup_tag E tagger vs t with
                         | Some v => from_dict v
                         | None => dfail end       (* SuitableVariantNotFoundError *)
      | _ => dfail
      end
    else dtry (map from_dict vs).

  Definition disc_variants (p: nat) (supertypes: bool) : list nat :=
    subclasses E p ++ (if supertypes then [p] else []).
  Definition discu_variants (cs: list nat) (subtypes supertypes: bool) : list nat :=
    (if subtypes then flat_map (subclasses E) cs else []) ++ (if supertypes then cs else []).

  Fixpoint unpack (w: wire) {struct w} : dsub :=
    let tag : option (option nat) := match w with WDict t _ => Some t | _ => None end in
    (* the ordinary from_dict body of class c (hooks of c, fields, constructor) *)
    let plain (c: nat) : D :=
      match w with
      | WDict _ kvs => dbody c (map (fun kx => match kx with (k, x) => (k, unpack x) end) kvs)
      | _ => fun n => (None, if c_prede (cls E c) then [PreDe c] else [], n)   (* hook, then d.get fails *)
      end in
    (* c.from_dict(value): a class whose own Config has a discriminator is only a dispatcher - its own hooks are
       not emitted, the chosen variant's from_dict runs the variant's (possibly inherited) hooks *)
    (* ... and the variant it selects may itself be such a dispatcher (nested class-level discriminators): its
       from_dict dispatches again over its own subclasses.  Structural in the nesting depth, bounded by |E|. *)
    let call_dc (c: nat) : D :=
      (fix fd (fuel: nat) (c: nat) {struct fuel} : D :=
         match fuel with
         | 0 => plain c
         | S f => match c_disc (cls E c) with
                  | Some wf => dispatch tag wf (c_tagger (cls E c)) (subclasses E c) (fd f)
                  | None => plain c
                  end
         end) (S (length E)) c in
    fix on_ty (t: ty) : D :=
      match t with
      | TInt => match w with WInt => dret VInt | _ => dfail end
      | TDc c => call_dc c
      | TDisc p wf sup => dispatch tag wf false (disc_variants p sup) call_dc
      | TList t' => match w with
                    | WList l => fun n => match dseq (map (fun x => unpack x t') l) n with
                                          | (Some vs, tr, n1) => (Some (VList vs), tr, n1)
                                          | (None, tr, n1) => (None, tr, n1) end
                    | _ => dfail end
      | TOpt t' => match w with WNone => dret VNone | _ => on_ty t' end
      | TUnion cs => dtry (map call_dc (dedup_nat cs []))
      | TDiscU cs wf sb sp => dispatch tag wf false (discu_variants cs sb sp) call_dc
      end.
End Unpack.

(* reference (deserialization): pre/post-order traversal of the *result* *)
Section TravDe.
  Variable E : env.
  Fixpoint trav_de (v: val) {struct v} : list ev :=
    match v with
    | VInst c i _ fs =>
        let C := cls E c in
        (if c_prede C then [PreDe c] else [])
        ++ flat_map (fun kx => match kx with (_, x) => trav_de x end) fs
        ++ (if c_postde C then [PostDe c i] else [])
    | VList l => flat_map trav_de l
    | _ => []
    end.

  (* instances of the result, in post order (= construction order) *)
  Fixpoint insts (v: val) {struct v} : list (nat * nat) :=
    match v with
    | VInst c i _ fs => flat_map (fun kx => match kx with (_, x) => insts x end) fs ++ [(c, i)]
    | VList l => flat_map insts l
    | _ => []
    end.
End TravDe.

(* the PostDe events that concern instances of the result *)
Definition post_events_of (E: env) (r: val) (tr: list ev) : list ev :=
  filter (fun e => match e with
                   | PostDe c i => existsb (fun ci => (fst ci =? c) && (snd ci =? i)) (insts r)
                   | _ => false end) tr.
Definition expected_post (E: env) (r: val) : list ev :=
  flat_map (fun ci => if c_postde (cls E (fst ci)) then [PostDe (fst ci) (snd ci)] else []) (insts r).

(* ---------------------------------------------------------------- decidable equality on values (for the correspondence) *)
Fixpoint val_eqb (a b: val) {struct a} : bool :=
  match a, b with
  | VInt, VInt | VNone, VNone => true
  | VInst c i j fs, VInst c' i' j' fs' =>
      (c =? c') && (i =? i') && (j =? j')
      && (fix go (l: list (nat * val)) (l': list (nat * val)) {struct l} : bool :=
            match l, l' with
            | [], [] => true
            | kx :: r, kx' :: r' =>
                match kx, kx' with (k, x), (k', x') => (k =? k') && val_eqb x x' && go r r' end
            | _, _ => false end) fs fs'
  | VList l, VList l' =>
      (fix go (l: list val) (l': list val) {struct l} : bool :=
         match l, l' with
         | [], [] => true
         | x :: r, x' :: r' => val_eqb x x' && go r r'
         | _, _ => false end) l l'
  | _, _ => false
  end.
Definition oval_eqb (a b: option val) : bool :=
  match a, b with Some x, Some y => val_eqb x y | None, None => true | _, _ => false end.

(* what the harness evaluates per case *)
(* ok = None: the call raised inside a format library's encoder after the generated code returned
   (the model has no outputs), only the trace is compared *)
Definition ser_case := (mode * bool * env * val * ty * bool * xf * ctxtok * option bool * list ev)%type.
Definition ser_ok (c: ser_case) : bool :=
  match c with (m, st, E, v, t, pc, px, k, ok, tr) =>
    match pack E st m v t pc px k with
    | (ok', tr') => match ok with Some b => Bool.eqb b ok' | None => true end && evs_eqb tr tr' end end.
Definition de_case := (env * wire * ty * option val * list ev)%type.
Definition de_ok (c: de_case) : bool :=
  match c with (E, w, t, r, tr) =>
    match unpack E w t 0 with (r', tr', _) => oval_eqb r r' && evs_eqb tr tr' end end.
