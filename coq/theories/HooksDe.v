(* C19, deserialization with unions: __post_deserialize__ runs exactly once, and in construction
   order, for every instance that ends up in the result - whatever the speculative union
   attempts that were discarded did. *)
From Coq Require Import List Arith Bool Lia.
From Verif Require Import Hooks HooksProofs.
Import ListNotations.

Definition sel (L: list (nat * nat)) (e: ev) : bool :=
  match e with
  | PostDe c i => existsb (fun ci => (fst ci =? c) && (snd ci =? i)) L
  | _ => false end.

Lemma post_events_of_sel E r tr : post_events_of E r tr = filter (sel (insts r)) tr.
Proof. reflexivity. Qed.

Definition ids_in (L: list (nat * nat)) (a b: nat) : Prop := forall c i, In (c, i) L -> a <= i < b.
Definition evs_in (tr: list ev) (a b: nat) : Prop := forall c i, In (PostDe c i) tr -> a <= i < b.

Section De.
  Variable E : env.
  Definition exp_of (L: list (nat * nat)) : list ev :=
    flat_map (fun ci => if c_postde (cls E (fst ci)) then [PostDe (fst ci) (snd ci)] else []) L.

  Lemma expected_post_exp r : expected_post E r = exp_of (insts r).
  Proof. reflexivity. Qed.

  Lemma exp_of_app L1 L2 : exp_of (L1 ++ L2) = exp_of L1 ++ exp_of L2.
  Proof. unfold exp_of. apply flat_map_app. Qed.

  Lemma sel_app L1 L2 e : sel (L1 ++ L2) e = sel L1 e || sel L2 e.
  Proof. destruct e; simpl; try reflexivity. apply existsb_app. Qed.

  Lemma sel_out L a b c i : ids_in L a b -> (i < a \/ b <= i) -> sel L (PostDe c i) = false.
  Proof.
    intros HL Hi. simpl. destruct (existsb _ L) eqn:Ex; [|reflexivity].
    apply existsb_exists in Ex as [[c' i'] [Hin Heq]]. simpl in Heq.
    apply andb_true_iff in Heq as [_ Hi']. apply Nat.eqb_eq in Hi'. subst i'.
    specialize (HL c' i Hin). lia.
  Qed.

  Lemma sel_false_on tr L a b a' b' :
    evs_in tr a b -> ids_in L a' b' -> (b <= a' \/ b' <= a) ->
    forall e, In e tr -> sel L e = false.
  Proof.
    intros Ht HL Hd e He. destruct e as [| | |c i]; try reflexivity.
    specialize (Ht c i He). eapply sel_out; [exact HL|]. lia.
  Qed.

  Lemma filter_false {A} (f: A -> bool) l : (forall x, In x l -> f x = false) -> filter f l = [].
  Proof.
    induction l as [|x r IH]; intros H; [reflexivity|]. simpl.
    rewrite (H x (or_introl eq_refl)). apply IH. intros y Hy. apply H. right. assumption.
  Qed.

  Lemma filter_sel_app La Lb ta tb :
    (forall e, In e ta -> sel Lb e = false) -> (forall e, In e tb -> sel La e = false) ->
    filter (sel (La ++ Lb)) (ta ++ tb) = filter (sel La) ta ++ filter (sel Lb) tb.
  Proof.
    intros Ha Hb. rewrite filter_app. f_equal.
    - apply filter_ext_in. intros e He. rewrite sel_app. rewrite (Ha e He). apply orb_false_r.
    - apply filter_ext_in. intros e He. rewrite sel_app. rewrite (Hb e He). reflexivity.
  Qed.

  Lemma evs_in_app ta tb a b c : a <= b -> b <= c -> evs_in ta a b -> evs_in tb b c -> evs_in (ta ++ tb) a c.
  Proof.
    intros H1 H2 Ha Hb k i Hin. apply in_app_or in Hin as [Hin|Hin].
    - specialize (Ha k i Hin). lia.
    - specialize (Hb k i Hin). lia.
  Qed.
  Lemma ids_in_app La Lb a b c : a <= b -> b <= c -> ids_in La a b -> ids_in Lb b c -> ids_in (La ++ Lb) a c.
  Proof.
    intros H1 H2 Ha Hb k i Hin. apply in_app_or in Hin as [Hin|Hin].
    - specialize (Ha k i Hin). lia.
    - specialize (Hb k i Hin). lia.
  Qed.
  Lemma evs_in_nil a b : evs_in [] a b.
  Proof. intros c i []. Qed.
  Lemma ids_in_nil a b : ids_in [] a b.
  Proof. intros c i []. Qed.

  (* invariant of one decoding step started with next identity n *)
  Definition okres (L: list (nat * nat)) (tr: list ev) (n n': nat) : Prop :=
    ids_in L n n' /\ filter (sel L) tr = exp_of L.
  Definition inv (n: nat) (res: option val * list ev * nat) : Prop :=
    match res with
    | (o, tr, n') => n <= n' /\ evs_in tr n n' /\
                     match o with Some r => okres (insts r) tr n n' | None => True end
    end.

  Lemma okres_seq La Lb ta tb n n1 n2 :
    n <= n1 -> n1 <= n2 -> evs_in ta n n1 -> evs_in tb n1 n2 ->
    okres La ta n n1 -> okres Lb tb n1 n2 -> okres (La ++ Lb) (ta ++ tb) n n2.
  Proof.
    intros H1 H2 Ea Eb [Ia Fa] [Ib Fb]. split.
    - eapply ids_in_app; eauto.
    - rewrite filter_sel_app.
      + rewrite Fa, Fb, exp_of_app. reflexivity.
      + eapply sel_false_on; [exact Ea|exact Ib|]. left. lia.
      + eapply sel_false_on; [exact Eb|exact Ia|]. right. lia.
  Qed.

  Lemma okres_nil n n' : okres [] [] n n'.
  Proof. split; [apply ids_in_nil|reflexivity]. Qed.

  Definition dgood2 (w: wire) : Prop := forall t n, inv n (unpack E w t n).

  Definition linsts (vs: list val) : list (nat * nat) := flat_map insts vs.
  Definition finsts (vs: list (nat * val)) : list (nat * nat) :=
    flat_map (fun kx => match kx with (_, x) => insts x end) vs.

  Lemma dseq_inv (l: list D) :
    Forall (fun d => forall n, inv n (d n)) l ->
    forall n, match dseq l n with
              | (o, tr, n') => n <= n' /\ evs_in tr n n' /\
                               match o with Some vs => okres (linsts vs) tr n n' | None => True end
              end.
  Proof.
    induction l as [|a r IH]; intros Hall n.
    - simpl. split; [|split]; auto using evs_in_nil, okres_nil.
    - inversion Hall as [|? ? Ha Hr]; subst. simpl.
      specialize (Ha n). destruct (a n) as [[[v|] ta] n1]; simpl in Ha; destruct Ha as [H1 [Ea Oa]].
      + specialize (IH Hr n1). destruct (dseq r n1) as [[[vs|] tb] n2]; destruct IH as [H2 [Eb Ob]].
        * split; [lia|split; [eapply evs_in_app; eauto|]].
          simpl. apply (okres_seq (insts v) (linsts vs) ta tb n n1 n2); auto.
        * split; [lia|split; [eapply evs_in_app; eauto|exact I]].
      + split; [|split]; auto.
  Qed.

  Lemma dfields_inv (subs: list (nat * dsub)) :
    (forall k s, assoc k subs = Some s -> forall t n, inv n (s t n)) ->
    forall fl n, match dfields fl subs n with
                 | (o, tr, n') => n <= n' /\ evs_in tr n n' /\
                                  match o with Some vs => okres (finsts vs) tr n n' | None => True end
                 end.
  Proof.
    intros Hs. induction fl as [|f r IH]; intros n.
    - simpl. split; [|split]; auto using evs_in_nil, okres_nil.
    - simpl. destruct (assoc (f_name f) subs) as [s|] eqn:Ea.
      + pose proof (Hs _ _ Ea (f_ty f) n) as Ha.
        destruct (s (f_ty f) n) as [[[v|] ta] n1]; simpl in Ha; destruct Ha as [H1 [Eva Oa]].
        * specialize (IH n1). destruct (dfields r subs n1) as [[[vs|] tb] n2]; destruct IH as [H2 [Eb Ob]].
          -- split; [lia|split; [eapply evs_in_app; eauto|]].
             simpl; apply (okres_seq (insts v) (finsts vs) ta tb n n1 n2); auto.
          -- split; [lia|split; [eapply evs_in_app; eauto|exact I]].
        * split; [|split]; auto.
      + destruct (f_default f).
        * specialize (IH n). destruct (dfields r subs n) as [[[vs|] tb] n2]; destruct IH as [H2 [Eb Ob]].
          -- split; [|split]; auto.
          -- split; [|split]; auto.
        * split; [|split]; auto using evs_in_nil.
  Qed.

  Lemma evs_in_weak tr a b a' b' : a' <= a -> b <= b' -> evs_in tr a b -> evs_in tr a' b'.
  Proof. intros H1 H2 H c i Hin. specialize (H c i Hin). lia. Qed.

  Lemma dbody_inv c (subs: list (nat * dsub)) :
    (forall k s, assoc k subs = Some s -> forall t n, inv n (s t n)) ->
    forall n, inv n (dbody E c subs n).
  Proof.
    intros Hs n. unfold dbody.
    pose proof (dfields_inv subs Hs (c_fields (cls E c)) n) as Hf.
    destruct (dfields (c_fields (cls E c)) subs n) as [[[vs|] tf] n1]; destruct Hf as [H1 [Ef Of]].
    - simpl. split; [lia|]. split.
      + (* events *)
        intros k i Hin. apply in_app_or in Hin as [Hin|Hin].
        { destruct (c_prede (cls E c)); simpl in Hin; [destruct Hin as [Hin|[]]; discriminate|contradiction]. }
        apply in_app_or in Hin as [Hin|Hin].
        { specialize (Ef k i Hin). lia. }
        destruct (c_postde (cls E c)); simpl in Hin; [|contradiction].
        destruct Hin as [Hin|[]]. inversion Hin; subst. lia.
      + (* result *)
        change (flat_map (fun kx : nat * val => let (_, x) := kx in insts x) vs) with (finsts vs).
        assert (filter (sel (finsts vs ++ [(c, n1)])) (if c_prede (cls E c) then [PreDe c] else []) = []) as Hpre.
        { destruct (c_prede (cls E c)); reflexivity. }
        assert (okres (finsts vs ++ [(c, n1)]) (tf ++ (if c_postde (cls E c) then [PostDe c n1] else [])) n (S n1)) as Hok.
        { apply (okres_seq (finsts vs) [(c, n1)] tf _ n n1 (S n1)); auto.
          - intros k i Hin. destruct (c_postde (cls E c)); simpl in Hin; [|contradiction].
            destruct Hin as [Hin|[]]. inversion Hin; subst. lia.
          - split.
            + intros k i [Hin|[]]. inversion Hin; subst. lia.
            + unfold exp_of. simpl. destruct (c_postde (cls E c)); simpl; [|reflexivity].
              rewrite !Nat.eqb_refl. reflexivity. }
        destruct Hok as [Iok Fok]. split; [exact Iok|]. rewrite filter_app, Hpre. exact Fok.
    - simpl. split; [lia|]. split; [|exact I].
      intros k i Hin. apply in_app_or in Hin as [Hin|Hin].
      + destruct (c_prede (cls E c)); simpl in Hin; [destruct Hin as [Hin|[]]; discriminate|contradiction].
      + apply (Ef k i Hin).
  Qed.

  Lemma dtry_inv (l: list D) :
    Forall (fun d => forall n, inv n (d n)) l -> forall n, inv n (dtry l n).
  Proof.
    induction l as [|a r IH]; intros Hall n.
    - simpl. split; [|split]; auto using evs_in_nil.
    - inversion Hall as [|? ? Ha Hr]; subst. simpl.
      specialize (Ha n). destruct (a n) as [[[v|] ta] n1]; simpl in Ha; destruct Ha as [H1 [Ea Oa]].
      + simpl. split; [|split]; auto.
      + specialize (IH Hr n1). destruct (dtry r n1) as [[o tb] n2]. simpl in IH. destruct IH as [H2 [Eb Ob]].
        simpl. split; [lia|]. split; [eapply evs_in_app; eauto|].
        destruct o as [rv|]; [|exact I]. destruct Ob as [Ib Fb]. split.
        * intros k i Hin. specialize (Ib k i Hin). lia.
        * rewrite filter_app. rewrite (filter_false (sel (insts rv)) ta).
          -- exact Fb.
          -- eapply sel_false_on; [exact Ea|exact Ib|]. left. lia.
  Qed.

  Lemma plain_inv w :
    match w with WDict _ kvs => Forall (fun kx => dgood2 (snd kx)) kvs | _ => True end ->
    forall c n, inv n (plain_de E w c n).
  Proof.
    intros IH c n. destruct w as [| |tg kvs|l].
    1,2,4: (simpl; split; [|split]; auto;
            intros k i Hin; destruct (c_prede (cls E c)); simpl in Hin; [destruct Hin as [Hin|[]]; discriminate|contradiction]).
    simpl. apply dbody_inv.
    intros k s Ha. apply assoc_map_some in Ha as [x [Hin Hsx]]. subst s.
    rewrite Forall_forall in IH. apply (IH (k, x) Hin).
  Qed.

  Lemma dfail_inv n : inv n (dfail n).
  Proof. simpl. split; [|split]; auto using evs_in_nil. Qed.

  Lemma dispatch_inv tg wf tgr vs (fd: nat -> D) :
    (forall v n, inv n (fd v n)) -> forall n, inv n (dispatch E tg wf tgr vs fd n).
  Proof.
    intros Hfd n. unfold dispatch. destruct wf.
    - destruct tg as [[t|]|]; try apply dfail_inv.
      destruct (lookup_tag E tgr vs t); [apply Hfd|apply dfail_inv].
    - apply dtry_inv. apply Forall_forall. intros d Hd.
      apply in_map_iff in Hd as [v [Hd _]]. subst d. intros n0. apply Hfd.
  Qed.

  Lemma call_dc_inv w :
    match w with WDict _ kvs => Forall (fun kx => dgood2 (snd kx)) kvs | _ => True end ->
    forall c n, inv n (call_dc_de E w c n).
  Proof.
    intros IH c. unfold call_dc_de. generalize (S (length E)) as fuel. intros fuel. revert c.
    induction fuel as [|f IHf]; intros c n; simpl.
    - apply plain_inv. exact IH.
    - destruct (c_disc (cls E c)).
      + apply dispatch_inv. intros v n0. apply IHf.
      + apply plain_inv. exact IH.
  Qed.

  Lemma on_ty_inv w :
    match w with WDict _ kvs => Forall (fun kx => dgood2 (snd kx)) kvs | _ => True end ->
    match w with WList l => Forall dgood2 l | _ => True end ->
    dgood2 w.
  Proof.
    intros IHd IHl. unfold dgood2. induction t; intros n.
    - rewrite unpack_TInt. destruct w; simpl; (split; [|split]); auto using evs_in_nil, okres_nil.
    - rewrite unpack_TDc. apply call_dc_inv. exact IHd.
    - rewrite unpack_TList. destruct w as [| |tg kvs|l]; try apply dfail_inv.
      pose proof (dseq_inv (map (fun x => unpack E x t) l)) as Hd.
      assert (Forall (fun d : D => forall n : nat, inv n (d n)) (map (fun x => unpack E x t) l)) as Hall.
      { apply Forall_forall. intros d Hin. apply in_map_iff in Hin as [x [Hx Hin]]. subst d.
        rewrite Forall_forall in IHl. intros n0. apply (IHl x Hin). }
      specialize (Hd Hall n).
      destruct (dseq (map (fun x => unpack E x t) l) n) as [[[vs|] tr] n1]; destruct Hd as [H1 [Ev Ok]];
        simpl; (split; [|split]); auto.
    - rewrite unpack_TOpt. destruct w; try apply IHt.
      simpl. split; [|split]; auto using evs_in_nil, okres_nil.
    - rewrite unpack_TUnion. apply dtry_inv. apply Forall_forall. intros d Hd.
      apply in_map_iff in Hd as [c [Hd _]]. subst d. intros n0. apply call_dc_inv. exact IHd.
    - rewrite unpack_TDisc. apply dispatch_inv. intros v n0. apply call_dc_inv. exact IHd.
    - rewrite unpack_TDiscU. apply dispatch_inv. intros v n0. apply call_dc_inv. exact IHd.
  Qed.

  Theorem unpack_inv : forall w, dgood2 w.
  Proof.
    induction w as [| |tg kvs IHk | l IHl] using wire_ind'; apply on_ty_inv; auto.
  Qed.
End De.

Theorem de_post_once :
  forall E w t n r tr n', unpack E w t n = (Some r, tr, n') -> post_events_of E r tr = expected_post E r.
Proof.
  intros E w t n r tr n' H. pose proof (unpack_inv E w t n) as Hi. rewrite H in Hi.
  destruct Hi as [_ [_ [_ Hf]]]. exact Hf.
Qed.
