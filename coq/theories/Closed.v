(* C17: closedness of generated programs.

   A small AST for the Python subset that mashumaro's generators emit.  Values are
   abstracted away completely: an expression is the tree of the *names it loads*
   (plus the scopes comprehensions open), a statement keeps only control flow and the
   names it binds / unbinds.  The semantics is nondeterministic: every branch may be
   taken, every loop may run any number of times, *every* expression may raise, every
   handler may or may not match, sub-expressions may be skipped (short circuit).  Name
   lookup is exact (CPython's rules):

     - inside a function a name that is bound anywhere in the body (or is a parameter)
       is local: loading it while unbound is an UnboundLocalError, it never falls
       through to the globals                      (strict frame)
     - comprehension targets live in their own strict frame, the first iterable is
       evaluated outside of it
     - module level code uses LOAD_NAME: locals dict, then globals, then builtins
       (non-strict frame)
     - `except E as x` unbinds x when the handler is left (however it is left)

   [chk] is a definite-assignment + free-name analysis, [C17_closed_sound] shows that a
   program accepted by it never raises NameError / UnboundLocalError on any path of the
   nondeterministic semantics, for any input.  Names are numbers (interned by the
   translator; only equality of names matters). *)
From Coq Require Import List Bool Arith NArith Lia.
Import ListNotations.

Definition name := N.

Definition mem (x : name) (l : list name) : bool := existsb (N.eqb x) l.

Lemma mem_In x l : mem x l = true <-> In x l.
Proof.
  unfold mem. rewrite existsb_exists. split.
  - intros (y & Hy & E). apply N.eqb_eq in E. subst. exact Hy.
  - intros H. exists x. split; [exact H | apply N.eqb_refl].
Qed.

Lemma mem_false x l : mem x l = false <-> ~ In x l.
Proof.
  split; intros H.
  - intro HI. apply mem_In in HI. congruence.
  - destruct (mem x l) eqn:E; [apply mem_In in E; tauto | reflexivity].
Qed.

Definition minus (l k : list name) : list name := filter (fun x => negb (mem x k)) l.
Definition inter (a b : list name) : list name := filter (fun x => mem x b) a.
Definition rm (x : name) (l : list name) : list name := filter (fun y => negb (N.eqb y x)) l.

Lemma In_minus x l k : In x (minus l k) <-> In x l /\ ~ In x k.
Proof.
  unfold minus. rewrite filter_In. rewrite negb_true_iff, mem_false. tauto.
Qed.

Lemma In_inter x a b : In x (inter a b) <-> In x a /\ In x b.
Proof. unfold inter. rewrite filter_In, mem_In. tauto. Qed.

Lemma In_rm y x l : In y (rm x l) <-> In y l /\ y <> x.
Proof.
  unfold rm. rewrite filter_In, negb_true_iff, N.eqb_neq. tauto.
Qed.

(* ------------------------------------------------------------------ syntax *)

Inductive expr :=
| ELoad (x : name)                 (* Name in Load context *)
| EAttr (x : name) (p : list name) (* x.a.b.c : attribute chain rooted at a name *)
| ENil                             (* constants *)
| ECons (e1 e2 : expr)             (* any operator / call / attribute / subscript / display:
                                      sub-expressions, each possibly skipped *)
| EComp (first : expr) (c : comp)  (* comprehension: first iterable outside, the rest in a new scope *)
with comp :=
| CEnd
| CBind (xs : list name) (c : comp)   (* `for xs in ...` binds the targets *)
| CEval (e : expr) (c : comp).        (* further iterables, conditions, the element *)

Inductive stmt :=
| SPass | SBreak | SContinue
| SExpr (e : expr)
| SAssign (xs : list name) (e : expr)     (* e: value and the sub-expressions of non-name targets *)
| SReturn (e : expr)
| SRaise (e : expr)                       (* exception and cause *)
| SSeq (s1 s2 : stmt)
| SIf (e : expr) (s1 s2 : stmt)
| SFor (xs : list name) (e : expr) (body orelse : stmt)
| STry (body : stmt) (hs : handlers) (orelse final : stmt)
with handlers :=
| HNil
| HCons (ty : expr) (asn : option name) (body : stmt) (rest : handlers).

Record fundef := mkFun { fname : name; fpre : expr; fparams : list name; fbody : stmt }.
Inductive item := IDef (f : fundef) | IStmt (s : stmt).
Definition program := list item.

(* ------------------------------------------------------------------ scopes *)

Record frame := mkF { strict : bool; decl : list name; bound : list name }.
Definition env := list frame.

Fixpoint lookup_ok (ns : list name) (en : env) (x : name) : bool :=
  match en with
  | [] => mem x ns
  | f :: r => if mem x (bound f) then true
              else if strict f && mem x (decl f) then false
              else lookup_ok ns r x
  end.

Definition bind_top (xs : list name) (en : env) : env :=
  match en with
  | f :: r => mkF (strict f) (decl f) (xs ++ bound f) :: r
  | [] => []
  end.

Fixpoint ctargets (c : comp) : list name :=
  match c with
  | CEnd => []
  | CBind xs c' => xs ++ ctargets c'
  | CEval _ c' => ctargets c'
  end.

(* ------------------------------------------------------------------ the namespace as objects *)

(* The globals of a generated function map names to objects; modules, classes and the attribute
   holders the library creates have *static* attribute tables (as captured when the entry point
   becomes callable): evaluating `mod.sub.Cls` on them either reaches an object or is an
   AttributeError of the library's own making.  Everything else (instances, functions, input
   values) is opaque: attribute access on it is the business of the input, not of the namespace. *)
Inductive okind := KModule | KClass | KHolder | KOpaque.
Record obj := mkObj { okind_of : okind; oattrs : list (name * N) }.
Record world := mkW { wglob : list (name * N); wheap : list (N * obj) }.

Fixpoint assoc {A} (k : N) (l : list (N * A)) : option A :=
  match l with
  | [] => None
  | (k', v) :: r => if N.eqb k k' then Some v else assoc k r
  end.

Definition static_kind (k : okind) : bool := match k with KOpaque => false | _ => true end.

(* Some (Some o): the chain reaches object o;  Some None: the chain leaves the static part
   (nothing to judge);  None: an attribute is missing on a module / class / holder *)
Fixpoint walk (h : list (N * obj)) (o : N) (p : list name) : option (option N) :=
  match p with
  | [] => Some (Some o)
  | a :: r =>
      match assoc o h with
      | None => Some None
      | Some ob =>
          if static_kind (okind_of ob) then
            match assoc a (oattrs ob) with
            | Some o' => walk h o' r
            | None => None
            end
          else Some None
      end
  end.

Definition resolve (W : world) (x : name) (p : list name) : option (option N) :=
  match assoc x (wglob W) with
  | None => Some None                 (* a global whose object was not captured: opaque *)
  | Some o => walk (wheap W) o p
  end.

Definition chain_ok (W : world) (x : name) (p : list name) : bool :=
  match resolve W x p with Some _ => true | None => false end.

(* does a load of x fall through every frame to the globals? *)
Definition falls_global (en : env) (x : name) : bool :=
  forallb (fun f => negb (mem x (bound f)) && negb (strict f && mem x (decl f))) en.

(* the object a chain denotes when its root is a global *)
Definition denote (W : world) (en : env) (x : name) (p : list name) : option N :=
  if falls_global en x then match resolve W x p with Some (Some o) => Some o | _ => None end else None.

(* ------------------------------------------------------------------ expressions: semantics *)

Inductive res := ROk | RExc | RName.

Inductive eval (ns : list name) (W : world) : env -> expr -> res -> Prop :=
| EvLoadOk en x : lookup_ok ns en x = true -> eval ns W en (ELoad x) ROk
| EvLoadBad en x : lookup_ok ns en x = false -> eval ns W en (ELoad x) RName
| EvAttrUnres en x p : lookup_ok ns en x = false -> eval ns W en (EAttr x p) RName
| EvAttrLocal en x p : lookup_ok ns en x = true -> falls_global en x = false -> eval ns W en (EAttr x p) ROk
| EvAttrGlob en x p : lookup_ok ns en x = true -> falls_global en x = true -> chain_ok W x p = true ->
    eval ns W en (EAttr x p) ROk
| EvAttrBad en x p : lookup_ok ns en x = true -> falls_global en x = true -> chain_ok W x p = false ->
    eval ns W en (EAttr x p) RName          (* AttributeError on a module / class / holder *)
| EvNil en : eval ns W en ENil ROk
| EvRaise en e : eval ns W en e RExc
| EvConsL en e1 e2 r : eval ns W en e1 r -> eval ns W en (ECons e1 e2) r
| EvConsR en e1 e2 r : eval ns W en e2 r -> eval ns W en (ECons e1 e2) r
| EvConsB en e1 e2 r : eval ns W en e1 ROk -> eval ns W en e2 r -> eval ns W en (ECons e1 e2) r
| EvCompF en e c r : eval ns W en e r -> eval ns W en (EComp e c) r
| EvComp en e c r : eval ns W en e ROk ->
    evalc ns W (mkF true (ctargets c) [] :: en) c r -> eval ns W en (EComp e c) r
with evalc (ns : list name) (W : world) : env -> comp -> res -> Prop :=
| EcStop en c : evalc ns W en c ROk
| EcRaise en c : evalc ns W en c RExc
| EcBind en xs c r : evalc ns W (bind_top xs en) c r -> evalc ns W en (CBind xs c) r
| EcEvalF en e c r : eval ns W en e r -> evalc ns W en (CEval e c) r
| EcEval en e c r : eval ns W en e ROk -> evalc ns W en c r -> evalc ns W en (CEval e c) r.

Scheme eval_ind2 := Minimality for eval Sort Prop
  with evalc_ind2 := Minimality for evalc Sort Prop.
Combined Scheme eval_evalc_ind from eval_ind2, evalc_ind2.

(* ------------------------------------------------------------------ expressions: analysis *)

Fixpoint chk_expr (ns : list name) (W : world) (en : env) (e : expr) : bool :=
  match e with
  | ELoad x => lookup_ok ns en x
  | EAttr x p => lookup_ok ns en x && (negb (falls_global en x) || chain_ok W x p)
  | ENil => true
  | ECons a b => chk_expr ns W en a && chk_expr ns W en b
  | EComp a c => chk_expr ns W en a && chk_comp ns W (mkF true (ctargets c) [] :: en) c
  end
with chk_comp (ns : list name) (W : world) (en : env) (c : comp) : bool :=
  match c with
  | CEnd => true
  | CBind xs c' => chk_comp ns W (bind_top xs en) c'
  | CEval e c' => chk_expr ns W en e && chk_comp ns W en c'
  end.

Definition frame_le (fd fb : frame) : Prop :=
  strict fd = strict fb /\ decl fd = decl fb /\ incl (bound fd) (bound fb).
Definition env_le (ed eb : env) : Prop := Forall2 frame_le ed eb.

Lemma lookup_mono ns ed eb x :
  env_le ed eb -> lookup_ok ns ed x = true -> lookup_ok ns eb x = true.
Proof.
  induction 1 as [| fd fb ed eb (Hs & Hd & Hb) _ IH]; simpl; [auto|].
  intros H.
  destruct (mem x (bound fd)) eqn:E1.
  - apply mem_In in E1. apply Hb in E1. apply mem_In in E1. rewrite E1. reflexivity.
  - destruct (mem x (bound fb)); [reflexivity|].
    rewrite <- Hs, <- Hd.
    destruct (strict fd && mem x (decl fd)); [discriminate | auto].
Qed.

Lemma env_le_bind xs ed eb : env_le ed eb -> env_le (bind_top xs ed) (bind_top xs eb).
Proof.
  intros H. destruct H as [| fd fb ed eb (Hs & Hd & Hb) Hr]; simpl; [constructor|].
  constructor; [| exact Hr].
  repeat split; simpl; auto.
  apply incl_app; [apply incl_appl, incl_refl | apply incl_appr, Hb].
Qed.

Lemma env_le_push f ed eb : env_le ed eb -> env_le (f :: ed) (f :: eb).
Proof. intros H. constructor; [repeat split; apply incl_refl | exact H]. Qed.

Lemma falls_global_anti ed eb x :
  env_le ed eb -> falls_global eb x = true -> falls_global ed x = true.
Proof.
  unfold falls_global. induction 1 as [| fd fb ed eb (Hs & Hd & Hb) _ IH]; simpl; [auto|].
  intros H. apply andb_true_iff in H as [H1 H2]. apply andb_true_iff in H1 as [Hb1 Hs1].
  rewrite (IH H2), andb_true_r. rewrite Hs, Hd, Hs1, andb_true_r.
  apply negb_true_iff. apply negb_true_iff in Hb1.
  apply mem_false. intro HI. apply Hb in HI. apply mem_In in HI. congruence.
Qed.

Lemma chk_expr_sound_both ns W :
  (forall eb e r, eval ns W eb e r ->
     forall ed, env_le ed eb -> chk_expr ns W ed e = true -> r <> RName) /\
  (forall eb c r, evalc ns W eb c r ->
     forall ed, env_le ed eb -> chk_comp ns W ed c = true -> r <> RName).
Proof.
  apply eval_evalc_ind.
  - (* EvLoadOk *) intros; discriminate.
  - (* EvLoadBad *) intros en x H ed Hle C. simpl in C.
    rewrite (lookup_mono _ _ _ _ Hle C) in H. discriminate.
  - (* EvAttrUnres *) intros en x p H ed Hle C. simpl in C. apply andb_true_iff in C as [C _].
    rewrite (lookup_mono _ _ _ _ Hle C) in H. discriminate.
  - (* EvAttrLocal *) intros; discriminate.
  - (* EvAttrGlob *) intros; discriminate.
  - (* EvAttrBad *) intros en x p _ Hf Hc ed Hle C. simpl in C. apply andb_true_iff in C as [_ C].
    rewrite (falls_global_anti _ _ _ Hle Hf) in C. simpl in C. congruence.
  - (* EvNil *) intros; discriminate.
  - (* EvRaise *) intros; discriminate.
  - (* EvConsL *) intros en e1 e2 r _ IH ed Hle C. simpl in C. apply andb_true_iff in C as [A B]. eauto.
  - (* EvConsR *) intros en e1 e2 r _ IH ed Hle C. simpl in C. apply andb_true_iff in C as [A B]. eauto.
  - (* EvConsB *) intros en e1 e2 r _ _ _ IH ed Hle C. simpl in C. apply andb_true_iff in C as [A B]. eauto.
  - (* EvCompF *) intros en e c r _ IH ed Hle C. simpl in C. apply andb_true_iff in C as [A B]. eauto.
  - (* EvComp *) intros en e c r _ _ _ IH ed Hle C. simpl in C. apply andb_true_iff in C as [A B].
    eapply IH; [| exact B]. apply env_le_push. assumption.
  - (* EcStop *) intros; discriminate.
  - (* EcRaise *) intros; discriminate.
  - (* EcBind *) intros en xs c r _ IH ed Hle C. simpl in C. eapply IH; [| exact C]. apply env_le_bind. assumption.
  - (* EcEvalF *) intros en e c r _ IH ed Hle C. simpl in C. apply andb_true_iff in C as [A B]. eauto.
  - (* EcEval *) intros en e c r _ _ _ IH ed Hle C. simpl in C. apply andb_true_iff in C as [A B]. eauto.
Qed.

Lemma chk_expr_sound ns W ed eb e r :
  chk_expr ns W ed e = true -> env_le ed eb -> eval ns W eb e r -> r <> RName.
Proof. intros. eapply (proj1 (chk_expr_sound_both ns W)); eauto. Qed.

(* ------------------------------------------------------------------ statements: semantics *)

Inductive out :=
| ONorm (B : list name) | ORet (B : list name) | OBrk (B : list name)
| OCont (B : list name) | OExc (B : list name) | OName.

Definition state (o : out) : option (list name) :=
  match o with
  | ONorm B | ORet B | OBrk B | OCont B | OExc B => Some B
  | OName => None
  end.

Definition map_state (f : list name -> list name) (o : out) : out :=
  match o with
  | ONorm B => ONorm (f B) | ORet B => ORet (f B) | OBrk B => OBrk (f B)
  | OCont B => OCont (f B) | OExc B => OExc (f B) | OName => OName
  end.

Definition lift (r : res) (B : list name) (ok : out) : out :=
  match r with ROk => ok | RExc => OExc B | RName => OName end.

Definition optbind (asn : option name) (B : list name) : list name :=
  match asn with Some x => x :: B | None => B end.
Definition unbind (asn : option name) (B : list name) : list name :=
  match asn with Some x => rm x B | None => B end.

Definition passes (o : out) : Prop :=   (* outcomes of a try body that skip handlers and else *)
  match o with ORet _ | OBrk _ | OCont _ => True | _ => False end.
Definition abrupt (o : out) : Prop :=   (* outcomes that leave a loop *)
  match o with ORet _ | OExc _ | OName => True | _ => False end.

Section Exec.
  Variable st : bool.              (* strict frame (function) or LOAD_NAME frame (module level) *)
  Variable dc : list name.         (* the function's local names *)
  Variable ns : list name.         (* globals + builtins (+ pre-existing locals dict at module level) *)
  Variable W : world.              (* the objects those names are bound to, with their attribute tables *)

  Definition fenv (B : list name) : env := [mkF st dc B].

  Inductive exec : stmt -> list name -> out -> Prop :=
  | XPass B : exec SPass B (ONorm B)
  | XBreak B : exec SBreak B (OBrk B)
  | XCont B : exec SContinue B (OCont B)
  | XExpr B e r : eval ns W (fenv B) e r -> exec (SExpr e) B (lift r B (ONorm B))
  | XAssign B xs e r : eval ns W (fenv B) e r -> exec (SAssign xs e) B (lift r B (ONorm (xs ++ B)))
  | XAssignExc B xs e S : eval ns W (fenv B) e ROk -> incl S xs -> exec (SAssign xs e) B (OExc (S ++ B))
  | XReturn B e r : eval ns W (fenv B) e r -> exec (SReturn e) B (lift r B (ORet B))
  | XRaise B e r : eval ns W (fenv B) e r -> exec (SRaise e) B (lift r B (OExc B))
  | XSeq B s1 s2 B1 o : exec s1 B (ONorm B1) -> exec s2 B1 o -> exec (SSeq s1 s2) B o
  | XSeqStop B s1 s2 o : exec s1 B o -> (forall B1, o <> ONorm B1) -> exec (SSeq s1 s2) B o
  | XIfBad B e s1 s2 r : eval ns W (fenv B) e r -> r <> ROk -> exec (SIf e s1 s2) B (lift r B (ONorm B))
  | XIf1 B e s1 s2 o : eval ns W (fenv B) e ROk -> exec s1 B o -> exec (SIf e s1 s2) B o
  | XIf2 B e s1 s2 o : eval ns W (fenv B) e ROk -> exec s2 B o -> exec (SIf e s1 s2) B o
  | XForBad B xs e b el r : eval ns W (fenv B) e r -> r <> ROk -> exec (SFor xs e b el) B (lift r B (ONorm B))
  | XFor B xs e b el o : eval ns W (fenv B) e ROk -> loop xs b el B o -> exec (SFor xs e b el) B o
  | XTryExc B b hs el fi B1 o2 o : exec b B (OExc B1) -> exec_h hs B1 o2 -> fin fi o2 o -> exec (STry b hs el fi) B o
  | XTryNorm B b hs el fi B1 o2 o : exec b B (ONorm B1) -> exec el B1 o2 -> fin fi o2 o -> exec (STry b hs el fi) B o
  | XTryPass B b hs el fi o1 o : exec b B o1 -> passes o1 -> fin fi o1 o -> exec (STry b hs el fi) B o
  | XTryName B b hs el fi : exec b B OName -> exec (STry b hs el fi) B OName
  with loop : list name -> stmt -> stmt -> list name -> out -> Prop :=
  | LEnd xs b el B o : exec el B o -> loop xs b el B o                         (* iterator exhausted *)
  | LExc xs b el B S : incl S xs -> loop xs b el B (OExc (S ++ B))             (* next() / unpacking raises *)
  | LIterN xs b el B B1 o : exec b (xs ++ B) (ONorm B1) -> loop xs b el B1 o -> loop xs b el B o
  | LIterC xs b el B B1 o : exec b (xs ++ B) (OCont B1) -> loop xs b el B1 o -> loop xs b el B o
  | LBrk xs b el B B1 : exec b (xs ++ B) (OBrk B1) -> loop xs b el B (ONorm B1)
  | LAbrupt xs b el B o : exec b (xs ++ B) o -> abrupt o -> loop xs b el B o
  with exec_h : handlers -> list name -> out -> Prop :=
  | HNone B : exec_h HNil B (OExc B)                                           (* no handler matches *)
  | HTyBad ty asn b rest B r : eval ns W (fenv B) ty r -> r <> ROk -> exec_h (HCons ty asn b rest) B (lift r B (ONorm B))
  | HSkip ty asn b rest B o : eval ns W (fenv B) ty ROk -> exec_h rest B o -> exec_h (HCons ty asn b rest) B o
  | HMatch ty asn b rest B o : eval ns W (fenv B) ty ROk -> exec b (optbind asn B) o ->
      exec_h (HCons ty asn b rest) B (map_state (unbind asn) o)
  with fin : stmt -> out -> out -> Prop :=
  | FinName fi : fin fi OName OName
  | FinNorm fi o2 B2 Bf : state o2 = Some B2 -> exec fi B2 (ONorm Bf) -> fin fi o2 (map_state (fun _ => Bf) o2)
  | FinOther fi o2 B2 o : state o2 = Some B2 -> exec fi B2 o -> (forall Bf, o <> ONorm Bf) -> fin fi o2 o.

  Scheme exec_i := Minimality for exec Sort Prop
    with loop_i := Minimality for loop Sort Prop
    with exec_h_i := Minimality for exec_h Sort Prop
    with fin_i := Minimality for fin Sort Prop.
  Combined Scheme exec_all_ind from exec_i, loop_i, exec_h_i, fin_i.
End Exec.

(* names that a statement may unbind: the `as` names of its handlers *)
Fixpoint kill (s : stmt) : list name :=
  match s with
  | SSeq a b => kill a ++ kill b
  | SIf _ a b => kill a ++ kill b
  | SFor _ _ b el => kill b ++ kill el
  | STry b hs el fi => kill b ++ kill_h hs ++ kill el ++ kill fi
  | _ => []
  end
with kill_h (h : handlers) : list name :=
  match h with
  | HNil => []
  | HCons _ asn b r => (match asn with Some x => [x] | None => [] end) ++ kill b ++ kill_h r
  end.

(* names a statement binds somewhere: they are the function's locals *)
Fixpoint binds (s : stmt) : list name :=
  match s with
  | SAssign xs _ => xs
  | SSeq a b => binds a ++ binds b
  | SIf _ a b => binds a ++ binds b
  | SFor xs _ b el => xs ++ binds b ++ binds el
  | STry b hs el fi => binds b ++ binds_h hs ++ binds el ++ binds fi
  | _ => []
  end
with binds_h (h : handlers) : list name :=
  match h with
  | HNil => []
  | HCons _ asn b r => (match asn with Some x => [x] | None => [] end) ++ binds b ++ binds_h r
  end.

(* ------------------------------------------------------------------ statements: analysis *)

Definition meetO (a b : option (list name)) : option (list name) :=
  match a, b with
  | None, x => x
  | x, None => x
  | Some a', Some b' => Some (inter a' b')
  end.

Section Chk.
  Variable st : bool.
  Variable dc : list name.
  Variable ns : list name.
  Variable W : world.

  Definition ce (D : list name) (e : expr) : bool := chk_expr ns W [mkF st dc D] e.

  (* None: rejected.  Some None: accepted, cannot complete normally.
     Some (Some D'): accepted, D' is bound after normal completion. *)
  Fixpoint chk (s : stmt) (D : list name) : option (option (list name)) :=
    match s with
    | SPass => Some (Some D)
    | SBreak | SContinue => Some None
    | SExpr e => if ce D e then Some (Some D) else None
    | SAssign xs e => if ce D e then Some (Some (xs ++ D)) else None
    | SReturn e => if ce D e then Some None else None
    | SRaise e => if ce D e then Some None else None
    | SSeq a b =>
        match chk a D with
        | None => None
        | Some None => Some None
        | Some (Some D1) => chk b D1
        end
    | SIf e a b =>
        if ce D e then
          match chk a D, chk b D with
          | Some ra, Some rb => Some (meetO ra rb)
          | _, _ => None
          end
        else None
    | SFor xs e b el =>
        if ce D e then
          let I := minus D (kill b) in
          match chk b (xs ++ I), chk el I with
          | Some _, Some rel => Some (Some (match rel with None => I | Some r' => inter I r' end))
          | _, _ => None
          end
        else None
    | STry b hs el fi =>
        match chk b D with
        | None => None
        | Some rb =>
            let Dh := minus D (kill b) in
            match chk_h hs Dh with
            | None => None
            | Some rh =>
                match (match rb with Some D1 => chk el D1 | None => Some None end) with
                | None => None
                | Some ro =>
                    let Df := minus (minus (minus D (kill b)) (kill_h hs)) (kill el) in
                    match chk fi Df with
                    | None => None
                    | Some None => Some None
                    | Some (Some _) =>
                        Some (match meetO rh ro with
                              | None => None
                              | Some P => Some (minus P (kill fi))
                              end)
                    end
                end
            end
        end
    end
  with chk_h (h : handlers) (Dh : list name) : option (option (list name)) :=
    match h with
    | HNil => Some None
    | HCons ty asn b rest =>
        if ce Dh ty then
          match chk b (optbind asn Dh), chk_h rest Dh with
          | Some rb, Some rr =>
              Some (meetO (match rb with Some P => Some (unbind asn P) | None => None end) rr)
          | _, _ => None
          end
        else None
    end.
End Chk.
