(* Order theory of the C10 reference resolution: the first hit of an enumeration that is
   strictly sorted by rank and complete is the minimum of the enabled elements, and the
   minimum is unique.  General in the registration tables, the key list and its length. *)
From Coq Require Import List String Ascii ZArith Bool Arith Lia Sorted.
From Verif Require Import Regex PyK PyK_strat Strategies.
Import ListNotations.
Open Scope nat_scope.

Section FirstHit.
  Context {A B: Type} (rank: A -> nat) (f: A -> option B).

  Definition rank_lt (a b: A) := rank a < rank b.

  Lemma first_hit_none l : first_hit f l = None -> forall a, In a l -> f a = None.
  Proof.
    induction l as [|x r IH]; intros H a Ha; [contradiction|].
    cbn in H. destruct (f x) eqn:E; [discriminate|].
    destruct Ha as [->|Ha]; auto.
  Qed.

  Lemma first_hit_some l a b :
    StronglySorted rank_lt l -> first_hit f l = Some (a, b) ->
    f a = Some b /\ In a l /\ forall a', In a' l -> f a' <> None -> rank a <= rank a'.
  Proof.
    induction l as [|x r IH]; intros Hs H; [discriminate|].
    inversion Hs as [|? ? Hs' Hall]; subst.
    cbn in H. destruct (f x) eqn:E.
    - inversion H; subst. split; [assumption|]. split; [left; reflexivity|].
      intros a' [->|Ha'] _; [lia|].
      rewrite Forall_forall in Hall. specialize (Hall _ Ha'). unfold rank_lt in Hall. lia.
    - destruct (IH Hs' H) as (Hf & Hin & Hmin). split; [assumption|]. split; [right; assumption|].
      intros a' [->|Ha'] Hne; [congruence|]. auto.
  Qed.

  Lemma first_hit_complete l a b :
    f a = Some b -> In a l -> exists a' b', first_hit f l = Some (a', b').
  Proof.
    induction l as [|x r IH]; intros Hf Hin; [contradiction|].
    cbn. destruct (f x) eqn:E; [eauto|].
    destruct Hin as [->|Hin]; [congruence|]. auto.
  Qed.
End FirstHit.

(* ---- the slot order ---- *)
Lemma slot_le_rank a b : slot_le a b <-> slot_rank a <= slot_rank b.
Proof.
  destruct a as [| |i l], b as [| |j m]; cbn; try lia.
  destruct l, m; cbn; lia.
Qed.

Lemma slot_rank_inj a b : slot_rank a = slot_rank b -> a = b.
Proof.
  destruct a as [| |i l], b as [| |j m]; cbn; try lia; try reflexivity.
  destruct l, m; cbn; intros H; try lia; assert (i = j) by lia; subst; reflexivity.
Qed.

Lemma slot_le_refl a : slot_le a a.
Proof. apply slot_le_rank. lia. Qed.
Lemma slot_le_trans a b c : slot_le a b -> slot_le b c -> slot_le a c.
Proof. rewrite !slot_le_rank. lia. Qed.
Lemma slot_le_antisym a b : slot_le a b -> slot_le b a -> a = b.
Proof. rewrite !slot_le_rank. intros. apply slot_rank_inj. lia. Qed.
Lemma slot_le_total a b : slot_le a b \/ slot_le b a.
Proof. rewrite !slot_le_rank. lia. Qed.

(* ---- the enumeration is sorted and complete ---- *)
Definition key_block (i: nat) : list slot := map (SReg i) levels.

Lemma key_blocks_sorted n i0 :
  StronglySorted (rank_lt slot_rank) (flat_map key_block (seq i0 n)) /\
  Forall (fun s => 2 + 4 * i0 <= slot_rank s) (flat_map key_block (seq i0 n)).
Proof.
  revert i0. induction n as [|n IH]; intros i0; cbn [seq flat_map].
  - split; constructor.
  - destruct (IH (S i0)) as [Hs Hf].
    assert (Hf': Forall (fun s => 4 * i0 + 6 <= slot_rank s) (flat_map key_block (seq (S i0) n))).
    { eapply Forall_impl; [|exact Hf]. cbn beta. intros s. lia. }
    unfold key_block at 1 3. cbn [map levels app].
    assert (Hall: forall c, c <= 4 * i0 + 5 ->
              Forall (fun s => c < slot_rank s) (flat_map key_block (seq (S i0) n))).
    { intros c Hc. eapply Forall_impl; [|exact Hf']. cbn beta. intros s. lia. }
    split.
    + apply SSorted_cons; [apply SSorted_cons; [apply SSorted_cons; [apply SSorted_cons; [exact Hs|]|]|]|];
        unfold rank_lt; cbn [slot_rank level_rank];
        repeat (apply Forall_cons; [cbn [slot_rank level_rank]; lia|]);
        apply Hall; lia.
    + repeat (apply Forall_cons; [cbn [slot_rank level_rank]; lia|]).
      eapply Forall_impl; [|exact Hf']. cbn beta. intros s. lia.
Qed.

Lemma enumeration_sorted n : StronglySorted (rank_lt slot_rank) (enumeration n).
Proof.
  unfold enumeration. destruct (key_blocks_sorted n 0) as [Hs Hf].
  change (fun i : nat => map (SReg i) levels) with key_block.
  constructor; [constructor; [exact Hs|]|].
  - eapply Forall_impl; [|exact Hf]. unfold rank_lt. cbn. intros s. lia.
  - constructor; [unfold rank_lt; cbn; lia|].
    eapply Forall_impl; [|exact Hf]. unfold rank_lt. cbn. intros s. lia.
Qed.

Lemma in_enumeration n s :
  In s (enumeration n) <-> match s with SReg i _ => i < n | _ => True end.
Proof.
  unfold enumeration. split.
  - intros [<-|[<-|H]]; [exact I|exact I|].
    apply in_flat_map in H. destruct H as (i & Hi & Hs). apply in_seq in Hi.
    apply in_map_iff in Hs. destruct Hs as (l & <- & _). lia.
  - destruct s as [| |i l]; intros H; [left; reflexivity|right; left; reflexivity|].
    right; right. apply in_flat_map. exists i. split; [apply in_seq; lia|].
    apply in_map. destruct l; cbn; tauto.
Qed.

Lemma at_slot_out_of_range S ks d i l : List.length ks <= i -> at_slot S ks d (SReg i l) = None.
Proof.
  intros H. cbn. apply nth_error_None in H. rewrite H. reflexivity.
Qed.

Lemma enabled_in_enumeration S ks d s :
  at_slot S ks d s <> None -> In s (enumeration (List.length ks)).
Proof.
  intros H. apply in_enumeration. destruct s as [| |i l]; try exact I.
  destruct (Nat.lt_ge_cases i (List.length ks)) as [Hlt|Hge]; [assumption|].
  exfalso. apply H. apply at_slot_out_of_range. assumption.
Qed.

(* ---- the reference resolution is the minimum, and the minimum is unique ---- *)
Theorem resolve_is_lexmin S ks d : is_lexmin S ks d (resolve S ks d).
Proof.
  unfold resolve, is_lexmin.
  destruct (first_hit (at_slot S ks d) (enumeration (List.length ks))) as [[s w]|] eqn:E.
  - destruct (first_hit_some slot_rank _ _ _ _ (enumeration_sorted _) E) as (Hf & _ & Hmin).
    split; [assumption|]. intros s' Hs'. apply slot_le_rank. apply Hmin; [|assumption].
    apply (enabled_in_enumeration S ks d). assumption.
  - intros s. destruct (at_slot S ks d s) eqn:Es; [|reflexivity].
    exfalso. assert (Hin: In s (enumeration (List.length ks))).
    { apply (enabled_in_enumeration S ks d). congruence. }
    rewrite (first_hit_none _ _ E s Hin) in Es. discriminate.
Qed.

Theorem lexmin_unique S ks d r : is_lexmin S ks d r -> r = resolve S ks d.
Proof.
  intros H. pose proof (resolve_is_lexmin S ks d) as H0.
  destruct r as [[s w]|], (resolve S ks d) as [[s0 w0]|]; cbn in H, H0.
  - destruct H as [Ha Hm], H0 as [Ha0 Hm0].
    assert (s = s0).
    { apply slot_le_antisym; [apply Hm|apply Hm0]; congruence. }
    subst. congruence.
  - destruct H as [Ha _]. rewrite H0 in Ha. discriminate.
  - destruct H0 as [Ha0 _]. rewrite H in Ha0. discriminate.
  - reflexivity.
Qed.

(* nothing enabled <-> built-in *)
Lemma resolve_none_iff S ks d : resolve S ks d = None <-> forall s, at_slot S ks d s = None.
Proof.
  split.
  - intros H. pose proof (resolve_is_lexmin S ks d) as H0. rewrite H in H0. exact H0.
  - intros H. symmetry. apply lexmin_unique. exact H.
Qed.

(* ---- exchanging directions ---- *)
Lemma effect_swap d v : effect (flip d) (swap_sval v) = option_map swap_winner (effect d v).
Proof.
  destruct v as [|s e|a g s e], d; cbn; try reflexivity;
    try (destruct s as [f|]; [destruct f|]; reflexivity);
    try (destruct e as [f|]; [destruct f|]; reflexivity);
    destruct (a || g); reflexivity.
Qed.

Lemma tlookup_swap t k : tlookup (swap_table t) k = option_map swap_sval (tlookup t k).
Proof.
  induction t as [|[k' v] r IH]; [reflexivity|]. cbn. destruct (kv_eqb k' k); [reflexivity|exact IH].
Qed.

Lemma tbl_swap S l : tbl (swap_sources S) l = option_map swap_table (tbl S l).
Proof. destruct l; reflexivity. Qed.

Lemma at_slot_swap S ks d s :
  at_slot (swap_sources S) ks (flip d) s = option_map swap_winner (at_slot S ks d s).
Proof.
  destruct s as [| |i l]; cbn.
  - destruct d; cbn; [destruct (f_ser S) as [f|]|destruct (f_de S) as [f|]]; try destruct f; reflexivity.
  - destruct (existsb k_is_hashable ks); [|reflexivity].
    destruct (f_strat S) as [v|]; cbn; [apply effect_swap|reflexivity].
  - destruct (nth_error ks i) as [k|]; cbn; [|reflexivity].
    unfold reg_at. destruct (k_is_hashable k); [|reflexivity].
    rewrite tbl_swap. destruct (tbl S l) as [t|]; cbn; [|reflexivity].
    rewrite tlookup_swap. destruct (tlookup t k) as [v|]; cbn; [apply effect_swap|reflexivity].
Qed.

Lemma first_hit_ext {A B C} (f: A -> option B) (g: A -> option C) (h: B -> C) l :
  (forall a, g a = option_map h (f a)) ->
  first_hit g l = match first_hit f l with Some (a, b) => Some (a, h b) | None => None end.
Proof.
  intros H. induction l as [|x r IH]; [reflexivity|]. cbn. rewrite H.
  destruct (f x); cbn; [reflexivity|exact IH].
Qed.

Theorem resolve_swap S ks d :
  resolve (swap_sources S) ks (flip d) = swap_result (resolve S ks d).
Proof.
  unfold resolve, swap_result.
  rewrite (first_hit_ext (at_slot S ks d) _ swap_winner); [reflexivity|].
  intros s. apply at_slot_swap.
Qed.
