(* C14: the key of a generic specialisation.  hash_type_args(type_args) = md5(",".join(map(type_name, type_args)))
   (this exact form is checked on the source by the K11 plugin on every run, fail closed), and the method
   names built from it are the translated kernel K11.  Here: joining comma-free names with "," is injective
   on non-empty lists, hence (modulo md5 collisions, a hypothesis) two specialisations share a generated method
   name only if their ORDERED lists of fully rendered argument names are equal. *)
From Coq Require Import List String Ascii Bool Lia.
From Verif Require Import Regex PyK PyK_names K11Proofs.
From VerifGen Require Import K11.
Import ListNotations.
Open Scope string_scope.

Definition comma : ascii := ","%char.
Fixpoint comma_free (s: string) : bool :=
  match s with EmptyString => true | String c r => negb (Ascii.eqb c comma) && comma_free r end.

(* Python's ",".join(l) *)
Fixpoint join (l: list string) : string :=
  match l with
  | [] => ""
  | a :: r => match r with [] => a | _ => a ++ String comma (join r) end
  end.

Lemma sep_split a : forall b x y, comma_free a = true -> comma_free b = true ->
  a ++ String comma x = b ++ String comma y -> a = b /\ x = y.
Proof.
  induction a as [|c a IH]; intros b x y Ha Hb H.
  - destruct b as [|c' b]; cbn in H.
    + inversion H. auto.
    + inversion H; subst. cbn in Hb. try rewrite Ascii.eqb_refl in Hb. discriminate.
  - destruct b as [|c' b]; cbn in H.
    + inversion H; subst. cbn in Ha. try rewrite Ascii.eqb_refl in Ha. discriminate.
    + inversion H; subst. cbn in Ha, Hb. apply andb_prop in Ha as [_ Ha]. apply andb_prop in Hb as [_ Hb].
      destruct (IH b x y Ha Hb H2) as [-> ->]. auto.
Qed.

Lemma no_sep a : forall b y, comma_free a = true -> a <> b ++ String comma y.
Proof.
  induction a as [|c a IH]; intros b y Ha H.
  - destruct b; discriminate.
  - destruct b as [|c' b]; cbn in H; inversion H; subst.
    + cbn in Ha. try rewrite Ascii.eqb_refl in Ha. discriminate.
    + cbn in Ha. apply andb_prop in Ha as [_ Ha]. eapply IH; eauto.
Qed.

Lemma join_inj : forall l1 l2,
  forallb comma_free l1 = true -> forallb comma_free l2 = true -> l1 <> [] -> l2 <> [] ->
  join l1 = join l2 -> l1 = l2.
Proof.
  induction l1 as [|a r1 IH]; intros l2 H1 H2 N1 N2 J; [contradiction|].
  destruct l2 as [|b r2]; [contradiction|].
  cbn in H1, H2. apply andb_prop in H1 as [Ha H1]. apply andb_prop in H2 as [Hb H2].
  cbn [join] in J. destruct r1 as [|a' r1], r2 as [|b' r2].
  - now subst.
  - exfalso. eapply (no_sep a); eauto.
  - exfalso. symmetry in J. eapply (no_sep b); eauto.
  - destruct (sep_split _ _ _ _ Ha Hb J) as [-> J']. f_equal.
    apply IH; auto; discriminate.
Qed.

(* permutations and same-short-name arguments are different keys *)
Example join_order : join ["int"; "str"] <> join ["str"; "int"].
Proof. cbn. discriminate. Qed.
Example join_modules : join ["orders.Status"] <> join ["payments.Status"].
Proof. cbn. discriminate. Qed.

Section Key.
  Variable md5 : string -> string.
  Hypothesis md5_hex : forall s, hexstr (md5 s) = true.
  Hypothesis md5_collision_free : forall a b, md5 a = md5 b -> a = b.

  Theorem spec_key_inj : forall d f names1 names2 ta1 ta2 n,
    In f all_formats -> ta1 <> [] -> ta2 <> [] ->
    forallb comma_free names1 = true -> forallb comma_free names2 = true -> names1 <> [] -> names2 <> [] ->
    mname d (md5 (join names1)) ta1 f KNone = Ok n ->
    mname d (md5 (join names2)) ta2 f KNone = Ok n ->
    names1 = names2.
  Proof.
    intros d f names1 names2 ta1 ta2 n Hf T1 T2 C1 C2 N1 N2 M1 M2.
    destruct (method_names_injective d d _ _ ta1 ta2 f f KNone KNone n Hf Hf (md5_hex _) (md5_hex _) M1 M2)
      as (_ & _ & _ & H).
    destruct (H (or_intror eq_refl)) as [_ Hh].
    apply join_inj; auto.
  Qed.
End Key.
