(* C04: theorems about K104b = the return-statement decisions of the pack-method generator as read from /repo on
   this run, and their connection with the format model (the document is ser_F applied to the packed tree, with
   the encoder keyword that reaches the library). *)
From Coq Require Import ZArith Bool List String.
From Verif Require Import Fmt FmtDialectSource FmtEntries EncKwargs.
From VerifGen Require Import K104a K104b.
Import ListNotations.

(* without a call-time dialect the resolved value always reaches the encoder *)
Theorem kwargs_plain_path : forall he hk config call,
  kw_used ret_plain he hk config call = kw_expected he hk config call.
Proof. intros [|] [|] config call; reflexivity. Qed.

(* both paths apply the encoder exactly when one is baked in *)
Theorem encoder_applied_both_paths : forall he hk,
  encoder_applied (ret_plain he hk) = he /\ encoder_applied (ret_dialect he hk) = he.
Proof. intros [|] [|]; split; reflexivity. Qed.

(* the same statement for to_<fmt>(dialect=X) *)
Definition kwargs_dialect_path_full : Prop := forall he hk config call,
  kw_used ret_dialect he hk config call = kw_expected he hk config call.

(* ... holds too (since /repo fix of _add_pack_method_with_dialect_lines; it was refuted before:
   known finding C04/orjson-options-ignored-with-call-dialect, now in the fixed list) *)
Theorem kwargs_dialect_path : kwargs_dialect_path_full.
Proof. intros [|] [|] config call; reflexivity. Qed.

(* which formats have encoder keywords: read from the mixins' builder params (K104a) *)
Definition has_kwargs (F: fmt) : bool :=
  match assoc_fmt F source_mixins with Some m => negb (match m_enc_kwargs m with [] => true | _ => false end) | None => false end.
Definition has_encoder (F: fmt) : bool :=
  match assoc_fmt F source_mixins with Some m => match m_kind m with MGenerated => true | MPlain => false end | None => false end.

Lemma only_orjson_has_kwargs : forall F, has_kwargs F = match F with FOrjson => true | _ => false end.
Proof. intros []; vm_compute; reflexivity. Qed.

(* the document of the generated method: the library function with the keyword that reaches it.
   ser_kw F None = ser F (the keyword is not passed: library default). *)
Section Doc.
  Variable doc : Type.
  Variable ser_kw : fmt -> option Z -> bv -> doc.

  Definition method_doc (dialect_given: bool) (F: fmt) (config: Z) (call: option Z) (b: bv) : doc :=
    ser_kw F (kw_used (if dialect_given then ret_dialect else ret_plain) (has_encoder F) (has_kwargs F) config call) b.

  (* formats without encoder keywords: the keyword never matters, on either path *)
  Theorem method_doc_no_kwargs dialect_given F config call b :
    F <> FOrjson -> method_doc dialect_given F config call b = ser_kw F None b.
  Proof.
    intro HF. unfold method_doc. rewrite only_orjson_has_kwargs.
    destruct F; try (exfalso; apply HF; reflexivity); destruct dialect_given; reflexivity.
  Qed.

  (* to_jsonb(orjson_options=o) / Config.orjson_options, with or without a call-time dialect *)
  Theorem method_doc_orjson dialect_given config call b :
    method_doc dialect_given FOrjson config call b = ser_kw FOrjson (Some (param_value config call)) b.
  Proof. unfold method_doc. destruct dialect_given; [rewrite kwargs_dialect_path | rewrite kwargs_plain_path]; reflexivity. Qed.
End Doc.
