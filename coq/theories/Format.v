(* C04: small model of the format layer of mashumaro.

   encode_F = ser_F o pack_{dialect F}      decode_F = unpack_{dialect F} o parse_F

   pack / unpack are the basic (un)packers specialised by a format dialect
   (mixins/msgpack.py MessagePackDialect, mixins/orjson.py OrjsonDialect,
   mixins/toml.py TOMLDialect; json and yaml use the plain dialect).  The format
   libraries themselves (ser_F / parse_F) are NOT modelled: they are section
   variables with an assumed law (FormatProofs.v).

   Everything in this file is total, computable Gallina and is run by the harness
   (vm_compute) against the real implementation. *)
From Coq Require Import List String Ascii ZArith Bool Lia.
Import ListNotations.
Open Scope string_scope.
Open Scope Z_scope.

Inductive fmt := FJson | FOrjson | FYaml | FMsgpack | FToml.

(* leaf kinds whose basic form is a rendered text *)
Inductive lkind := KBytes | KBytearray | KDatetime | KDate | KTime | KUuid | KText.

Definition lkind_eqb (a b: lkind) : bool :=
  match a, b with
  | KBytes, KBytes | KBytearray, KBytearray | KDatetime, KDatetime | KDate, KDate
  | KTime, KTime | KUuid, KUuid | KText, KText => true
  | _, _ => false end.

Lemma lkind_eqb_eq a b : lkind_eqb a b = true <-> a = b.
Proof. destruct a, b; simpl; split; intro H; try reflexivity; try discriminate. Qed.

Lemma lkind_eqb_refl a : lkind_eqb a a = true.
Proof. destruct a; reflexivity. Qed.

(* floats are only copied and compared: a finite float is its IEEE bit pattern *)
Inductive fl := FFin (bits: Z) | FInf (neg: bool) | FNan.

Definition fl_eqb (a b: fl) : bool :=
  match a, b with
  | FFin x, FFin y => x =? y
  | FInf x, FInf y => Bool.eqb x y
  | FNan, FNan => true
  | _, _ => false end.

(* Python values of the small grammar *)
Inductive pv :=
| VNone
| VBool (b: bool)
| VInt (z: Z)
| VFloat (f: fl)
| VStr (s: string)
| VLeaf (k: lkind) (p: string)          (* bytes / datetime-like / other text-rendered leaf; p = identity of the value *)
| VList (l: list pv)
| VDict (kvs: list (string * pv))       (* str keys *)
| VObj (c: string) (fs: list (string * pv)).   (* dataclass instance, fields in class order *)

(* trees handed to / returned by a format library ("basic form" when no BNat occurs) *)
Inductive bv :=
| BNone
| BBool (b: bool)
| BInt (z: Z)
| BFloat (f: fl)
| BStr (s: string)
| BNat (k: lkind) (p: string)           (* native object left unconverted by the dialect *)
| BList (l: list bv)
| BDict (kvs: list (string * bv)).

(* types: a record carries its field declarations (name, type, "default is None") *)
Inductive ty :=
| TInt | TFloat | TBool | TStr
| TLeaf (k: lkind)
| TList (t: ty)
| TDict (t: ty)
| TOpt (t: ty)
| TRec (c: string) (fs: list (string * (ty * bool))).

Inductive err := EMissingField (n: string) | EBad.
Inductive res (A: Type) := Ok (a: A) | Err (e: err).
Arguments Ok {A} a.
Arguments Err {A} e.

Definition bind {A B} (r: res A) (f: A -> res B) : res B :=
  match r with Ok a => f a | Err e => Err e end.
Notation "x <- r ;; k" := (bind r (fun x => k)) (at level 61, r at next level, right associativity).

Section MapM.
  Context {A B: Type} (f: A -> res B).
  Fixpoint mapM (l: list A) : res (list B) :=
    match l with
    | [] => Ok []
    | x :: r => y <- f x ;; ys <- mapM r ;; Ok (y :: ys)
    end.
End MapM.

Definition on_snd {A B} (f: A -> res B) (kv: string * A) : res (string * B) :=
  match kv with (k, x) => y <- f x ;; Ok (k, y) end.

Fixpoint lookup {A} (n: string) (l: list (string * A)) : option A :=
  match l with
  | [] => None
  | (k, x) :: r => if String.eqb k n then Some x else lookup n r end.

(* ------------------------------------------------------------------ *)
(* format dialects (what mashumaro declares per format)                *)

Record dialect := {
  d_ser_native : lkind -> bool;   (* serialization strategy pass_through: leaf handed over as is *)
  d_de_native : lkind -> bool;    (* the decoder expects the native object, not the text *)
  d_omit_none : bool;             (* omit_none = True *)
}.

Definition no_kind (_: lkind) : bool := false.
Definition basic_dl : dialect := {| d_ser_native := no_kind; d_de_native := no_kind; d_omit_none := false |}.

Definition is_bytes_kind (k: lkind) : bool := match k with KBytes | KBytearray => true | _ => false end.
Definition is_dt_kind (k: lkind) : bool := match k with KDatetime | KDate | KTime => true | _ => false end.
Definition is_orjson_kind (k: lkind) : bool := match k with KDatetime | KDate | KTime | KUuid => true | _ => false end.

(* mixins/orjson.py:  no_copy_collections, {datetime,date,time,UUID: {"serialize": pass_through}}
   mixins/msgpack.py: {bytes: pass_through, bytearray: {"deserialize": bytearray, "serialize": pass_through}}
   mixins/toml.py:    omit_none = True, {datetime,date,time: pass_through} *)
Definition dialect_of (F: fmt) : dialect :=
  match F with
  | FJson | FYaml => basic_dl
  | FOrjson => {| d_ser_native := is_orjson_kind; d_de_native := no_kind; d_omit_none := false |}
  | FMsgpack => {| d_ser_native := is_bytes_kind; d_de_native := is_bytes_kind; d_omit_none := false |}
  | FToml => {| d_ser_native := is_dt_kind; d_de_native := is_dt_kind; d_omit_none := true |}
  end.

(* what the library returns for a native leaf it was given: msgpack has one binary type *)
Definition wire (k: lkind) : lkind := match k with KBytearray => KBytes | _ => k end.

Definition is_opt (t: ty) : bool := match t with TOpt _ => true | _ => false end.
Definition is_vnone (v: pv) : bool := match v with VNone => true | _ => false end.

(* field-wise helpers (section-style so that the nested recursion of pack / unpack is accepted
   and so that lemmas can be stated about them) *)
Section Fields.
  Context (P: ty -> pv -> res bv) (omit: bool).
  Fixpoint pack_fields (fs: list (string * (ty * bool))) (vs: list (string * pv)) {struct fs}
    : res (list (string * bv)) :=
    match fs, vs with
    | [], [] => Ok []
    | (n, (ft, _)) :: fs', (n', x) :: vs' =>
        if String.eqb n n' then
          b <- P ft x ;;
          r <- pack_fields fs' vs' ;;
          (* builder.py: `if value is not None: kwargs[..] = ...` and, under omit_none,
             no else branch for nullable fields *)
          Ok (if omit && is_opt ft && is_vnone x then r else (n, b) :: r)
        else Err EBad
    | _, _ => Err EBad end.

  Context (U: ty -> bv -> res pv) (kvs: list (string * bv)).
  Fixpoint unpack_fields (fs: list (string * (ty * bool))) {struct fs} : res (list (string * pv)) :=
    match fs with
    | [] => Ok []
    | (n, (ft, dflt_none)) :: fs' =>
        match lookup n kvs with
        | Some x => v <- U ft x ;; r <- unpack_fields fs' ;; Ok ((n, v) :: r)
        | None => if dflt_none then r <- unpack_fields fs' ;; Ok ((n, VNone) :: r)
                  else Err (EMissingField n)
        end
    end.
End Fields.

Definition is_bnone (b: bv) : bool := match b with BNone => true | _ => false end.

Section DropGo.
  Context (D: bv -> bv).
  Fixpoint drop_go (l: list (string * bv)) : list (string * bv) :=
    match l with
    | [] => []
    | (k, x) :: r => if is_bnone x then drop_go r else (k, D x) :: drop_go r
    end.
End DropGo.

Section Leaves.
  (* stdlib leaf codecs: isoformat / str / encodebytes and their parsers (abstract) *)
  Variable render : lkind -> string -> string.
  Variable parse_leaf : lkind -> string -> option string.

  (* -- pack: to_dict specialised by the dialect ------------------------------------ *)
  Fixpoint pack (dl: dialect) (t: ty) (v: pv) {struct t} : res bv :=
    match t with
    | TInt => match v with VInt z => Ok (BInt z) | _ => Err EBad end
    | TFloat => match v with VFloat f => Ok (BFloat f) | _ => Err EBad end
    | TBool => match v with VBool b => Ok (BBool b) | _ => Err EBad end
    | TStr => match v with VStr s => Ok (BStr s) | _ => Err EBad end
    | TLeaf k =>
        match v with
        | VLeaf k' p => if lkind_eqb k k'
                        then Ok (if dl.(d_ser_native) k then BNat k p else BStr (render k p))
                        else Err EBad
        | _ => Err EBad end
    | TList t' => match v with VList l => bs <- mapM (pack dl t') l ;; Ok (BList bs) | _ => Err EBad end
    | TDict t' => match v with VDict kvs => bs <- mapM (on_snd (pack dl t')) kvs ;; Ok (BDict bs) | _ => Err EBad end
    | TOpt t' => match v with VNone => Ok BNone | _ => pack dl t' v end
    | TRec c fs =>
        match v with
        | VObj c' vs =>
            if String.eqb c c' then
              bs <- pack_fields (pack dl) dl.(d_omit_none) fs vs ;;
              Ok (BDict bs)
            else Err EBad
        | _ => Err EBad end
    end.

  (* -- unpack: from_dict specialised by the dialect, on documents produced by an encoder
        (scalar coercions of foreign input are C03's subject, not modelled here) -------- *)
  Fixpoint unpack (dl: dialect) (t: ty) (b: bv) {struct t} : res pv :=
    match t with
    | TInt => match b with BInt z => Ok (VInt z) | _ => Err EBad end
    | TFloat => match b with BFloat f => Ok (VFloat f) | _ => Err EBad end
    | TBool => match b with BBool x => Ok (VBool x) | _ => Err EBad end
    | TStr => match b with BStr s => Ok (VStr s) | _ => Err EBad end
    | TLeaf k =>
        if dl.(d_de_native) k then
          match b with
          | BNat k' p => if lkind_eqb k' (wire k) then Ok (VLeaf k p) else Err EBad
          | _ => Err EBad end
        else
          match b with
          | BStr s => match parse_leaf k s with Some p => Ok (VLeaf k p) | None => Err EBad end
          | _ => Err EBad end
    | TList t' => match b with BList l => vs <- mapM (unpack dl t') l ;; Ok (VList vs) | _ => Err EBad end
    | TDict t' => match b with BDict kvs => vs <- mapM (on_snd (unpack dl t')) kvs ;; Ok (VDict vs) | _ => Err EBad end
    | TOpt t' => match b with BNone => Ok VNone | _ => unpack dl t' b end
    | TRec c fs =>
        match b with
        | BDict kvs =>
            vs <- unpack_fields (unpack dl) kvs fs ;;
            Ok (VObj c vs)
        | _ => Err EBad end
    end.

  (* -- what the format library does to native leaves (part of the assumed law) --------- *)
  Fixpoint norm (F: fmt) (b: bv) {struct b} : bv :=
    match b with
    | BNat k p => match F with
                  | FOrjson => BStr (render k p)      (* orjson writes datetime/UUID natives as text *)
                  | FMsgpack => BNat (wire k) p       (* bin type: bytearray comes back as bytes *)
                  | _ => BNat k p end
    | BList l => BList (map (norm F) l)
    | BDict kvs => BDict (map (fun kv => match kv with (k, x) => (k, norm F x) end) kvs)
    | _ => b
    end.

  (* -- the relation ~_F between a parsed document and the basic form ------------------- *)
  Fixpoint render_natives (b: bv) : bv :=
    match b with
    | BNat k p => BStr (render k p)
    | BList l => BList (map render_natives l)
    | BDict kvs => BDict (map (fun kv => match kv with (k, x) => (k, render_natives x) end) kvs)
    | _ => b
    end.

  Fixpoint drop_nulls (b: bv) : bv :=
    match b with
    | BList l => BList (map drop_nulls l)
    | BDict kvs => BDict (drop_go drop_nulls kvs)
    | _ => b
    end.

  (* parsed ~_F basic:  the document with its native leaves rendered to text equals the basic
     form, from which (TOML only) the None-valued keys have been dropped *)
  Definition approx (F: fmt) (parsed basic: bv) : Prop :=
    render_natives parsed = (if (dialect_of F).(d_omit_none) then drop_nulls basic else basic).
End Leaves.

(* ------------------------------------------------------------------ *)
(* computable side conditions *)

Fixpoint nodupb (l: list string) : bool :=
  match l with
  | [] => true
  | x :: r => negb (existsb (String.eqb x) r) && nodupb r
  end.

(* record field names are distinct (hereditarily) *)
Fixpoint wfb (t: ty) : bool :=
  match t with
  | TList t' | TDict t' | TOpt t' => wfb t'
  | TRec _ fs => nodupb (map fst fs) && forallb (fun f => match f with (_, (ft, _)) => wfb ft end) fs
  | _ => true
  end.

(* every Optional field of every record defaults to None *)
Fixpoint defaults_okb (t: ty) : bool :=
  match t with
  | TList t' | TDict t' | TOpt t' => defaults_okb t'
  | TRec _ fs => forallb (fun f => match f with (_, (ft, d)) => (negb (is_opt ft) || d) && defaults_okb ft end) fs
  | _ => true
  end.

Fixpoint nonullb (b: bv) : bool :=
  match b with
  | BNone => false
  | BList l => forallb nonullb l
  | BDict kvs => forallb (fun kv => match kv with (_, x) => nonullb x end) kvs
  | _ => true
  end.

Section LeavesOk.
  Variable leaf_ok : lkind -> string -> bool.
  Fixpoint leaves_okb (v: pv) : bool :=
    match v with
    | VLeaf k p => leaf_ok k p
    | VList l => forallb leaves_okb l
    | VDict kvs => forallb (fun kv => match kv with (_, x) => leaves_okb x end) kvs
    | VObj _ fs => forallb (fun kv => match kv with (_, x) => leaves_okb x end) fs
    | _ => true
    end.
End LeavesOk.

(* which native leaf kinds the format library itself accepts *)
Definition fmt_native (F: fmt) (k: lkind) : bool :=
  match F with
  | FJson | FYaml => false
  | FOrjson => is_orjson_kind k
  | FMsgpack => is_bytes_kind k
  | FToml => is_dt_kind k
  end.

Definition i64 (z: Z) : bool := (- 2 ^ 63 <=? z) && (z <=? 2 ^ 63 - 1).

Section Representable.
  (* which native leaf values the format can carry (naive times only for orjson / toml,
     whole-minute offsets ...): abstract, decided by the harness per value *)
  Variable leaf_repr : fmt -> lkind -> string -> bool.

  Fixpoint repr_in (F: fmt) (b: bv) {struct b} : bool :=
    match b with
    | BNone => match F with FToml => false | _ => true end
    | BBool _ | BStr _ => true
    | BInt z => match F with FOrjson | FMsgpack => i64 z | _ => true end
    | BFloat f => match F, f with FOrjson, FFin _ => true | FOrjson, _ => false | _, _ => true end
    | BNat k p => fmt_native F k && leaf_repr F k p
    | BList l => forallb (repr_in F) l
    | BDict kvs => forallb (fun kv => match kv with (_, x) => repr_in F x end) kvs
    end.

  Definition is_table (b: bv) : bool := match b with BDict _ => true | _ => false end.

  (* F's representable subset, on the tree handed to the library *)
  Definition representable (F: fmt) (b: bv) : bool :=
    repr_in F b && match F with FToml => is_table b | _ => true end.
End Representable.

(* ------------------------------------------------------------------ *)
(* order-insensitive comparison used by the correspondence (Python dict equality ignores
   key order; yaml sorts keys, toml writes tables after scalars) *)

Fixpoint bv_sim (a b: bv) {struct a} : bool :=
  match a, b with
  | BNone, BNone => true
  | BBool x, BBool y => Bool.eqb x y
  | BInt x, BInt y => x =? y
  | BFloat x, BFloat y => fl_eqb x y
  | BStr x, BStr y => String.eqb x y
  | BNat k p, BNat k' p' => lkind_eqb k k' && String.eqb p p'
  | BList x, BList y =>
      (fix go (l1 l2: list bv) : bool :=
         match l1, l2 with
         | [], [] => true
         | u :: r1, w :: r2 => bv_sim u w && go r1 r2
         | _, _ => false end) x y
  | BDict x, BDict y =>
      Nat.eqb (List.length x) (List.length y) &&
      (fix go (l: list (string * bv)) : bool :=
         match l with
         | [] => true
         | (k, u) :: r => match lookup k y with Some w => bv_sim u w | None => false end && go r
         end) x
  | _, _ => false
  end.

Fixpoint pv_sim (a b: pv) {struct a} : bool :=
  match a, b with
  | VNone, VNone => true
  | VBool x, VBool y => Bool.eqb x y
  | VInt x, VInt y => x =? y
  | VFloat x, VFloat y => fl_eqb x y
  | VStr x, VStr y => String.eqb x y
  | VLeaf k p, VLeaf k' p' => lkind_eqb k k' && String.eqb p p'
  | VList x, VList y =>
      (fix go (l1 l2: list pv) : bool :=
         match l1, l2 with
         | [], [] => true
         | u :: r1, w :: r2 => pv_sim u w && go r1 r2
         | _, _ => false end) x y
  | VDict x, VDict y =>
      Nat.eqb (List.length x) (List.length y) &&
      (fix go (l: list (string * pv)) : bool :=
         match l with
         | [] => true
         | (k, u) :: r => match lookup k y with Some w => pv_sim u w | None => false end && go r
         end) x
  | VObj c x, VObj c' y =>
      String.eqb c c' &&
      (fix go (l1 l2: list (string * pv)) : bool :=
         match l1, l2 with
         | [], [] => true
         | (k, u) :: r1, (k', w) :: r2 => String.eqb k k' && pv_sim u w && go r1 r2
         | _, _ => false end) x y
  | _, _ => false
  end.

(* finite leaf tables for the case files: (kind, payload, text) *)
Definition ltab := list (lkind * string * string).

Fixpoint tab_render (tb: ltab) (k: lkind) (p: string) : string :=
  match tb with
  | [] => "?"
  | (k', p', s) :: r => if lkind_eqb (wire k') (wire k) && String.eqb p' p then s else tab_render r k p
  end.

Fixpoint tab_parse (tb: ltab) (k: lkind) (s: string) : option string :=
  match tb with
  | [] => None
  | (k', p, s') :: r => if lkind_eqb (wire k') (wire k) && String.eqb s' s then Some p else tab_parse r k s
  end.
