(* C13: calls on values that contain nested dataclass instances (nested class, subclass instance,
   Self / by-name recursion, lists of them).  The generated method of class c calls, for every nested
   instance of class k, k's default method with `dialect=dialect` iff ADD_DIALECT_SUPPORT is enabled on
   BOTH c and k (get_pack_method_flags / get_unpack_method_flags: kernels K8, K13U), else without a dialect;
   that method then dispatches through k's own cache.  The value is a tree of class identities. *)
From Coq Require Import List Arith Bool Lia.
From Verif Require Import DialectCache.
Import ListNotations.

Inductive vtree := Node (c: nat) (kids: list vtree).
Definition root (t: vtree) : nat := match t with Node c _ => c end.

Section Deep.
  Context {code: Type}.
  Variable compile : nat -> option nat -> code.
  Variable ancestors : nat -> list nat.
  Variable support : nat -> bool.                 (* ADD_DIALECT_SUPPORT *)

  Notation state := (@state code).
  Notation step1 := (step compile ancestors true).

  Definition forwarded (c k: nat) (d: option nat) : option nat := if support c && support k then d else None.

  (* pre-order, field order: (class, dialect it was called with, what served the call) *)
  Definition obs := (nat * option nat * option code)%type.

  Fixpoint call_tree (s: state) (t: vtree) (d: option nat) {struct t} : state * list obs :=
    match t with
    | Node c kids =>
        let r := step1 s (Call c d) in
        let fix go (s: state) (l: list vtree) {struct l} : state * list obs :=
            match l with
            | [] => (s, [])
            | t' :: rest =>
                let r1 := call_tree s t' (forwarded c (root t') d) in
                let r2 := go (fst r1) rest in
                (fst r2, snd r1 ++ snd r2)
            end in
        let r3 := go (fst r) kids in
        (fst r3, (c, d, snd r) :: snd r3)
    end.

  (* the same traversal, what the property demands: every node served by the fresh compile for its class
     and the dialect that reaches it *)
  Fixpoint expected_tree (t: vtree) (d: option nat) {struct t} : list (nat * option nat * option code) :=
    match t with
    | Node c kids =>
        (c, d, Some (compile c d)) ::
        (fix go (l: list vtree) : list obs :=
           match l with [] => [] | t' :: rest => expected_tree t' (forwarded c (root t') d) ++ go rest end) kids
    end.

  Fixpoint classes_of (t: vtree) : list nat :=
    match t with Node c kids => c :: (fix go (l: list vtree) := match l with [] => [] | t' :: r => classes_of t' ++ go r end) kids end.

  Definition all_defined (s: state) (t: vtree) : Prop := forall c, In c (classes_of t) -> c_default (s c) <> None.

  (* induction principle for rose trees *)
  Lemma vtree_ind' (P: vtree -> Prop) :
    (forall c kids, Forall P kids -> P (Node c kids)) -> forall t, P t.
  Proof.
    intros H. fix IH 1. intros [c kids]. apply H.
    induction kids as [|k r IHr]; constructor; [apply IH|exact IHr].
  Qed.

  Lemma defined_mono s o c : c_default (s c) <> None -> c_default (fst (step1 s o) c) <> None.
  Proof. apply step_defined. Qed.

  (* a dialect is only ever passed to a class that enables dialect support *)
  Definition call_ok (t: vtree) (d: option nat) : Prop := d = None \/ support (root t) = true.

  Lemma forwarded_ok c t d : call_ok t (forwarded c (root t) d).
  Proof.
    unfold call_ok, forwarded. destruct (support c && support (root t)) eqn:E; [|left; reflexivity].
    right. apply andb_true_iff in E. tauto.
  Qed.

  Lemma call_ok_op t d : call_ok t d -> op_ok support (Call (root t) d).
  Proof. intros [->|H]; cbn; [exact Logic.I|]. destruct d; [exact H|exact Logic.I]. Qed.

  Theorem call_tree_correct : forall t s d,
    inv compile support s -> all_defined s t -> call_ok t d ->
    inv compile support (fst (call_tree s t d)) /\
    snd (call_tree s t d) = expected_tree t d /\
    (forall c, c_default (s c) <> None -> c_default (fst (call_tree s t d) c) <> None).
  Proof.
    induction t as [c kids IHk] using vtree_ind'. intros s d I AD OK.
    cbn [call_tree expected_tree].
    assert (Hc: c_default (s c) <> None) by (apply AD; cbn; left; reflexivity).
    pose proof (step_inv compile ancestors support s (Call c d) I (call_ok_op (Node c kids) d OK)) as I1.
    pose proof (step_out compile ancestors support s c d I Hc (call_ok_op (Node c kids) d OK)) as O1.
    set (s1 := fst (step1 s (Call c d))) in *.
    assert (M1: forall x, c_default (s x) <> None -> c_default (s1 x) <> None) by (intros x Hx; apply defined_mono; exact Hx).
    rewrite O1.
    (* the loop over the kids *)
    assert (G: forall (l: list vtree) (sa: state),
               Forall (fun t => forall s d, inv compile support s -> all_defined s t -> call_ok t d ->
                                 inv compile support (fst (call_tree s t d)) /\ snd (call_tree s t d) = expected_tree t d /\
                                 (forall c, c_default (s c) <> None -> c_default (fst (call_tree s t d) c) <> None)) l ->
               inv compile support sa ->
               (forall t, In t l -> all_defined sa t) ->
               let r := (fix go (s: state) (l: list vtree) {struct l} : state * list obs :=
                           match l with
                           | [] => (s, [])
                           | t' :: rest =>
                               let r1 := call_tree s t' (forwarded c (root t') d) in
                               let r2 := go (fst r1) rest in (fst r2, snd r1 ++ snd r2) end) sa l in
               inv compile support (fst r) /\
               snd r = (fix go (l: list vtree) : list obs :=
                          match l with [] => [] | t' :: rest => expected_tree t' (forwarded c (root t') d) ++ go rest end) l /\
               (forall x, c_default (sa x) <> None -> c_default (fst r x) <> None)).
    { induction l as [|t' rest IHl]; intros sa HF Ia HD.
      - cbn. split; [exact Ia|]. split; [reflexivity|]. intros x Hx; exact Hx.
      - inversion HF as [|? ? Ht' HF']; subst.
        destruct (Ht' sa (forwarded c (root t') d) Ia (HD t' (or_introl eq_refl)) (forwarded_ok c t' d)) as [I2 [E2 M2]].
        cbn zeta.
        set (s2 := fst (call_tree sa t' (forwarded c (root t') d))) in *.
        assert (HD': forall t, In t rest -> all_defined s2 t).
        { intros t Ht x Hx. apply M2. apply (HD t (or_intror Ht)). exact Hx. }
        destruct (IHl s2 HF' I2 HD') as [I3 [E3 M3]].
        cbn [fst snd]. split; [exact I3|]. split.
        + rewrite E2. f_equal. exact E3.
        + intros x Hx. apply M3. apply M2. exact Hx. }
    assert (HDk: forall t, In t kids -> all_defined s1 t).
    { intros t Ht x Hx. apply M1. apply AD. cbn. right.
      clear -Ht Hx. induction kids as [|k r IH]; [destruct Ht|].
      apply in_or_app. destruct Ht as [->|Ht]; [left; exact Hx|right; apply IH; exact Ht]. }
    destruct (G kids s1 IHk I1 HDk) as [I4 [E4 M4]].
    cbn [fst snd]. split; [exact I4|]. split.
    - f_equal. exact E4.
    - intros x Hx. apply M4. apply M1. exact Hx.
  Qed.

  (* histories of definitions and deep calls *)
  Inductive dop := DDefine (c: nat) | DCall (t: vtree) (d: option nat).

  (* creation of a class WITHOUT dialect support: the default method only, no cache
     (the prologue `if not '<cache>' in cls.__dict__` is emitted only with ADD_DIALECT_SUPPORT) *)
  Definition define_plain (s: state) (c: nat) : state :=
    upd s c (mk_cstate (c_cache (s c)) (Some (compile c None))).

  Lemma define_plain_inv s c : support c = false -> inv compile support s -> inv compile support (define_plain s c).
  Proof.
    intros Hs I. unfold define_plain. split.
    - intros x l k m Hc Hg. destruct (Nat.eq_dec x c) as [->|N].
      + rewrite upd_same in Hc. cbn in Hc. eapply (inv_entries compile support s I); eassumption.
      + rewrite upd_other in Hc by exact N. eapply (inv_entries compile support s I); eassumption.
    - intros x m Hd. destruct (Nat.eq_dec x c) as [->|N].
      + rewrite upd_same in Hd. cbn in Hd. injection Hd as <-. reflexivity.
      + rewrite upd_other in Hd by exact N. eapply (inv_default compile support s I); eassumption.
    - intros x Hx Hd. destruct (Nat.eq_dec x c) as [->|N].
      + rewrite Hs in Hx. discriminate.
      + rewrite upd_other in * by exact N. apply (inv_own compile support s I); assumption.
  Qed.

  Definition dstep (s: state) (o: dop) : state * list obs :=
    match o with
    | DDefine c => (if support c then fst (step1 s (Define c)) else define_plain s c, [])
    | DCall t d => call_tree s t d
    end.

  Fixpoint drun (s: state) (ops: list dop) : list (list obs) * state :=
    match ops with
    | [] => ([], s)
    | o :: r => let x := dstep s o in let y := drun (fst x) r in (snd x :: fst y, snd y)
    end.

  Definition defines_before (ops: list dop) (i: nat) (c: nat) : Prop := In (DDefine c) (firstn i ops).

  Lemma dstep_inv s o : inv compile support s ->
    (match o with DCall t d => all_defined s t /\ call_ok t d | _ => True end) -> inv compile support (fst (dstep s o)).
  Proof.
    intros I H. destruct o as [c|t d]; cbn [dstep fst].
    - destruct (support c) eqn:Es; [apply step_inv; [exact I|exact Logic.I]|apply define_plain_inv; assumption].
    - destruct H as [H1 H2]. destruct (call_tree_correct t s d I H1 H2) as [I2 _]. exact I2.
  Qed.

  Lemma dstep_defined s o x : inv compile support s ->
    (match o with DCall t d => all_defined s t /\ call_ok t d | _ => True end) ->
    c_default (s x) <> None -> c_default (fst (dstep s o) x) <> None.
  Proof.
    intros I H Hx. destruct o as [c|t d]; cbn [dstep fst].
    - destruct (support c); [apply step_defined; exact Hx|].
      unfold define_plain. destruct (Nat.eq_dec x c) as [->|N]; [rewrite upd_same; cbn; discriminate|].
      rewrite upd_other by exact N. exact Hx.
    - destruct H as [H1 H2]. destruct (call_tree_correct t s d I H1 H2) as [_ [_ M]]. apply M. exact Hx.
  Qed.

  Lemma dstep_define_defined s c : c_default (fst (dstep s (DDefine c)) c) <> None.
  Proof.
    cbn [dstep fst]. destruct (support c); [apply step_define_defined|].
    unfold define_plain. rewrite upd_same. cbn. discriminate.
  Qed.

  (* a history is well formed when every deep call only touches classes defined earlier in it *)
  Fixpoint well_formed (defd: list nat) (ops: list dop) : Prop :=
    match ops with
    | [] => True
    | DDefine c :: r => well_formed (c :: defd) r
    | DCall t d :: r => ((forall c, In c (classes_of t) -> In c defd) /\ call_ok t d) /\ well_formed defd r
    end.

  Lemma isolation_deep_from : forall ops s defd,
    inv compile support s -> (forall c, In c defd -> c_default (s c) <> None) -> well_formed defd ops ->
    forall i t d, nth_error ops i = Some (DCall t d) ->
      nth_error (fst (drun s ops)) i = Some (expected_tree t d).
  Proof.
    induction ops as [|o r IH]; intros s defd I HD WF i t d Hn.
    - destruct i; discriminate.
    - cbn [drun fst]. destruct i as [|i].
      + cbn in Hn. injection Hn as ->. cbn [nth_error]. f_equal. cbn [dstep].
        destruct WF as [[Hc Hok] _].
        destruct (call_tree_correct t s d I (fun c Hin => HD c (Hc c Hin)) Hok) as [_ [E _]]. exact E.
      + cbn [nth_error] in *.
        destruct o as [c|t0 d0].
        * apply (IH (fst (dstep s (DDefine c))) (c :: defd)); try assumption.
          -- apply dstep_inv; [exact I|exact Logic.I].
          -- intros x [<-|Hx]; [apply dstep_define_defined|].
             apply dstep_defined; [exact I|exact Logic.I|apply HD; exact Hx].
        * destruct WF as [[Hc Hok] WF'].
          assert (AD: all_defined s t0) by (intros x Hx; apply HD; apply Hc; exact Hx).
          apply (IH (fst (dstep s (DCall t0 d0))) defd); try assumption.
          -- apply dstep_inv; [exact I|split; [exact AD|exact Hok]].
          -- intros x Hx. apply dstep_defined; [exact I|split; [exact AD|exact Hok]|apply HD; exact Hx].
  Qed.

  Theorem isolation_deep : forall ops i t d,
    well_formed [] ops -> nth_error ops i = Some (DCall t d) ->
    nth_error (fst (drun (init) ops)) i = Some (expected_tree t d).
  Proof.
    intros ops i t d WF Hn. apply (isolation_deep_from ops init []); try assumption.
    - apply inv_init.
    - intros c [].
  Qed.
End Deep.

(* executable instance for the correspondence *)
Definition dobs_eqb (a b: nat * option nat * option tag) : bool :=
  let '(c1, d1, o1) := a in let '(c2, d2, o2) := b in Nat.eqb c1 c2 && onat_eqb d1 d2 && otag_eqb o1 o2.

Definition deep_case := (list (nat * list nat) * list nat * list nat * list dop
                         * (list (list (option tag)) * list (option (list nat))))%type.
(* hierarchy, classes WITHOUT dialect support, observed classes, history, (outputs per op, own cache keys) *)
Definition deep_case_ok (c: deep_case) : bool :=
  let '(h, nosupport, classes, ops, (eouts, ekeys)) := c in
  let support := fun k => negb (existsb (Nat.eqb k) nosupport) in
  let r := drun tcompile (anc_of h) support init ops in
  list_eqb (list_eqb otag_eqb) (map (map (fun x => snd x)) (fst r)) eouts
  && list_eqb okeys_eqb (cache_keys (snd r) classes) ekeys.
