(* C08 - kernel K108a (VerifGen.K108a = CodeBuilder._pack_method_set_value and __pack_method_set_value translated
   from /repo on this run; they return the text they emit as structured lines): a reading of the emitted shapes
   (run_lines) and the proof that what the translated emitters emit for a field MEANS what the hand-written model of
   the generated body (OptProj.guard, OptProj.key_kw -- used by emit_kw) says. *)
From Coq Require Import List String Ascii ZArith Bool.
From Verif Require Import Regex PyK PyK_c08 OptProj.
From VerifGen Require Import K108a.
Import ListNotations.
Open Scope string_scope.

(* what the generated statements of ONE field see at run time *)
Record renv := {
  rv_by_alias : bool;          (* the keyword parameter by_alias *)
  rv_ne_default : bool;        (* value != <default literal> *)
  rv_not_nan : bool;           (* not (isinstance(value, float) and isnan(value)) *)
  rv_packed : pv;              (* value of the packer expression *)
}.

Definition packed_tok : kv := KStr "<packed>".       (* the packer expression (text) *)
Definition literal_tok : kv := KStr "<literal>".     (* get_field_default_literal(...) (text) *)

Definition str_is (v: kv) (s: string) : bool := match v with KStr t => String.eqb t s | _ => false end.
Definition piece_is (v: kv) (tag: string) (x: kv) : bool :=
  match v with KTuple [KStr t; y] => String.eqb t tag && kv_eqb y x | _ => false end.

(* kwargs[{k!r}] = {packed}   |   kwargs['{k}'] = {packed}      (k a str: the key is k) *)
Definition set_key (ps: kv) : option string :=
  match ps with
  | KList [a; KTuple [KStr t; KStr k]; b; c] =>
      if (str_is a "kwargs[" && String.eqb t "repr" && str_is b "] = " && piece_is c "fmt" packed_tok)
         || (str_is a "kwargs['" && String.eqb t "fmt" && str_is b "'] = " && piece_is c "fmt" packed_tok)
      then Some k else None
  | _ => None end.

Inductive header := HIfByAlias | HElse | HIfNeDefault | HIfNotNan.
Definition header_of (ps: kv) : option header :=
  match ps with
  | KList [a] => if str_is a "if by_alias:" then Some HIfByAlias else if str_is a "else:" then Some HElse else None
  | KList [a; KTuple [KStr t; KTuple [KStr f; KList cond]]; b] =>
      if str_is a "if " && String.eqb t "fmt" && String.eqb f "fstr" && str_is b ":" then
        match cond with
        | [x] => if str_is x "not (isinstance(value, float) and isnan(value))" then Some HIfNotNan else None
        | [x; y] => if str_is x "value != " && piece_is y "fmt" literal_tok then Some HIfNeDefault else None
        | _ => None end
      else None
  | _ => None end.

(* sequential execution of emitted lines; None: a shape this reading does not know *)
Fixpoint run_lines (fuel: nat) (l: list kv) (e: renv) : option (list (string * pv)) :=
  match fuel with
  | O => None
  | S n =>
    match l with
    | [] => Some []
    | KTuple [t; ps] :: rest =>
        if str_is t "line" then
          match set_key ps, run_lines n rest e with
          | Some k, Some r => Some ((k, e.(rv_packed)) :: r)
          | _, _ => None end
        else None
    | KTuple [t; h; KList body] :: rest =>
        if str_is t "block" then
          match header_of h with
          | Some HIfByAlias =>
              match rest with
              | KTuple [t2; h2; KList body2] :: rest2 =>
                  match str_is t2 "block", header_of h2 with
                  | true, Some HElse =>
                      match run_lines n (if e.(rv_by_alias) then body else body2) e, run_lines n rest2 e with
                      | Some a, Some r => Some (a ++ r)%list
                      | _, _ => None end
                  | _, _ => None end
              | _ => None end
          | Some HIfNeDefault =>
              match run_lines n body e, run_lines n rest e with
              | Some a, Some r => Some ((if e.(rv_ne_default) then a else []) ++ r)%list
              | _, _ => None end
          | Some HIfNotNan =>
              match run_lines n body e, run_lines n rest e with
              | Some a, Some r => Some ((if e.(rv_not_nan) then a else []) ++ r)%list
              | _, _ => None end
          | _ => None end
        else None
    | _ => None end
  end.

(* arguments of the emitters for a field plan in a static context *)
Definition enc_defval (p: fplan) : kv := match default_value p with None => KMissing | Some _ => KObj 7 end.
Definition enc_isnan (p: fplan) : kv := KBool (match default_value p with Some PNaN => true | _ => false end).
Definition enc_alias (p: fplan) : kv := match p.(p_alias) with Some a => KStr a | None => KNone end.
Definition env_of (c: sctx) (p: fplan) (raw v: pv) : renv :=
  {| rv_by_alias := c.(r_ba);
     rv_ne_default := match default_value p with Some d => negb (py_eq raw d) | None => true end;
     rv_not_nan := negb (is_nan raw);
     rv_packed := v |}.
Definition emitted (c: sctx) (p: fplan) : res (list kv) :=
  set_value (enc_defval p) literal_tok (enc_isnan p) (KBool c.(s_ba))
            (KStr p.(p_name)) (enc_alias p) (KBool c.(s_fba)) packed_tok (KBool c.(s_od)).

Theorem K108a_set_value_lemma : forall (c: sctx) (p: fplan) (raw v: pv),
  exists l, emitted c p = Ok l /\
            run_lines 4 l (env_of c p raw v) = guarded (guard c.(s_od) p raw) [(key_kw c p, v)].
Proof.
  intros [son sod sba sfon sfba ron rba] [nm al ty tr df om] raw v.
  unfold emitted, env_of, guard, key_kw, guarded, enc_defval, enc_isnan, enc_alias, default_value.
  cbn [s_od s_ba s_fba r_ba p_name p_alias p_default].
  destruct sod, sba, sfba, rba, al as [a|], df as [|d|d]; try destruct d;
    (eexists; split; [reflexivity|]); cbn;
    repeat match goal with |- context [if ?b then _ else _] => destruct b end; reflexivity.
Qed.

(* the model's per-key emission for a field that is not nullable IS the meaning of the emitted code *)
Theorem K108a_emit_kw_lemma : forall (c: sctx) (p: fplan) (raw pk: pv), nullable p = false ->
  exists l, emitted c p = Ok l /\
            run_lines 4 l (env_of c p raw (pval p (raw, pk))) = emit_kw c (p, (raw, pk)).
Proof.
  intros c p raw pk Hn.
  destruct (K108a_set_value_lemma c p raw (pval p (raw, pk))) as [l [H1 H2]].
  exists l. split; [exact H1|]. rewrite H2. unfold emit_kw. cbn [fst snd]. rewrite Hn. reflexivity.
Qed.

(* ------------------------------------------------------------------ *)
(* the TEXT of the emitted lines (CodeLines: `with indent(h)` appends h and indents the body by four blanks), for the
   per-run comparison of the translated emitters with the text the real ones write.  repr of a str: printable
   ASCII without backslash and without both kinds of quotes (checked by the harness before a case is made) *)
Definition has_char (c: ascii) (s: string) : bool := existsb (Ascii.eqb c) (list_ascii_of_string s).
Definition py_repr (s: string) : string :=
  if has_char "'"%char s && negb (has_char """"%char s) then """" ++ s ++ """" else "'" ++ s ++ "'".

Fixpoint piece_text (fuel: nat) (v: kv) : string :=
  match fuel with
  | O => "?"
  | S n =>
    match v with
    | KStr s => s
    | KTuple [KStr t; x] =>
        if String.eqb t "repr" then match x with KStr s => py_repr s | _ => "?" end
        else if String.eqb t "fmt" then piece_text n x
        else if String.eqb t "fstr" then match x with KList ps => String.concat "" (map (piece_text n) ps) | _ => "?" end
        else "?"
    | _ => "?" end
  end.
Definition pieces_text (ps: kv) : string :=
  match ps with KList l => String.concat "" (map (piece_text 4) l) | _ => "?" end.

Fixpoint render (fuel: nat) (ind: string) (l: list kv) : list string :=
  match fuel with
  | O => ["?"]
  | S n =>
    flat_map (fun x =>
      match x with
      | KTuple [t; ps] => if str_is t "line" then [ind ++ pieces_text ps] else ["?"]
      | KTuple [t; h; KList body] =>
          if str_is t "block" then (ind ++ pieces_text h) :: render n (ind ++ "    ") body else ["?"]
      | _ => ["?"] end) l
  end.

Fixpoint strs_eqb (a b: list string) : bool :=
  match a, b with [], [] => true | x :: r, y :: t => String.eqb x y && strs_eqb r t | _, _ => false end.
