(* C05 / kernel K105b: vocabulary and meaning of the frame that CodeBuilder._add_unpack_method_lines (builder.py) emits
   around the field blocks of a generated from_dict: the extra-keys check, the `d.keys` touch of a class without
   fields, the blocks, and the `except AttributeError` handler.  The emitting code is translated to Gallina on every
   run (coq/gen/K105b.v, tools/kernels/k105b_frame.py); K105bProofs.v proves that the emitted frame is Errs.body.
   Definitions only. *)
From Coq Require Import List String Bool.
From Verif Require Import Core Errs.
Import ListNotations.

Inductive frstmt :=
| RKeys                 (* d_keys = set(d.keys()) *)
| RForbidden            (* forbidden_keys = d_keys - {<allowed keys>} *)
| RIfForbiddenRaise     (* if forbidden_keys: raise ExtraKeysError(forbidden_keys,cls) from None *)
| RTouch                (* d.keys *)
| RBlocks.              (* the field blocks, in declaration order; nothing is emitted after them inside the try *)

Inductive fhandler :=
| HAttributeErrorNotDictValueErrorElseReraise.   (* except AttributeError: if not isinstance(d, dict): raise ValueError(..) from None / else: raise *)

Record frst := { r_keys : list pv; r_forb : list pv }.
Definition frst0 : frst := {| r_keys := []; r_forb := [] |}.

Definition key_in (allowed: list string) (k: pv) : bool :=
  match k with VStr s => str_in s allowed | _ => false end.

Section RunFrame.
  Variable cls : string.
  Variable d : pv.
  Variable allowed : list string.                  (* the literal set in the RForbidden line *)
  Variable blocks : res (list (option pv)).        (* outcome of the field blocks on d *)

  Fixpoint run_try (l: list frstmt) (st: frst) : res (list (option pv)) :=
    match l with
    | [] => Ok []
    | RKeys :: r => match d with
                    | VDict kvs => run_try r {| r_keys := map fst kvs; r_forb := r_forb st |}
                    | _ => Exn XAttributeError end              (* d.keys on a non-mapping *)
    | RForbidden :: r => run_try r {| r_keys := r_keys st; r_forb := filter (fun k => negb (key_in allowed k)) (r_keys st) |}
    | RIfForbiddenRaise :: r => match r_forb st with
                                | [] => run_try r st
                                | ks => Exn (XExtraKeys ks cls) end
    | RTouch :: r => if is_dict d then run_try r st else Exn XAttributeError
    | RBlocks :: _ => blocks
    end.

  Definition run_handler (h: fhandler) (r: res (list (option pv))) : res (list (option pv)) :=
    match h with
    | HAttributeErrorNotDictValueErrorElseReraise =>
        match r with
        | Exn XAttributeError => if is_dict d then Exn XAttributeError else Exn XValueError
        | _ => r end
    end.

  Definition run_frame (body: list frstmt) (h: fhandler) : res (list (option pv)) := run_handler h (run_try body frst0).
End RunFrame.
