(* Tuples with an unpacked segment (Tuple[a, Unpack[Tuple[b, ...]], c]): list / index
   arithmetic behind the type-level model.
   - congruence of the plan-driven walk [tu_walk] (generated form) under related item
     decoders, used by "generated code = reference reading" (C02/C03);
   - the bridge: on a sequence with at least head + tail items the plan-driven walk over
     [tu_plan] equals the documented head / middle / tail form [tu_split].
   Independent of the translated kernel K7 (TyK7.v ties [tu_plan] to it). *)
From Coq Require Import List String Ascii ZArith Bool Lia.
From Verif Require Import Core TupleIdx TyModel.
Import ListNotations.
Open Scope Z_scope.
Open Scope list_scope.

(* ------------------------------------------------------------------ *)
(* indexing / slicing commute with map *)
Lemma nth_signed_map {A B} (g: A -> B) (l: list A) i : nth_signed (map g l) i = option_map g (nth_signed l i).
Proof.
  unfold nth_signed. rewrite map_length.
  destruct (orb _ _); [reflexivity|].
  apply nth_error_map.
Qed.

Lemma slice_list_map {A B} (g: A -> B) (l: list A) i j : slice_list (map g l) i j = map g (slice_list l i j).
Proof.
  unfold slice_list. rewrite map_length.
  destruct (_ <=? _); [reflexivity|]. rewrite skipn_map, firstn_map. reflexivity.
Qed.

Lemma nth_signed_In {A} (l: list A) i x : nth_signed l i = Some x -> In x l.
Proof.
  unfold nth_signed. destruct (orb _ _); [discriminate|]. apply nth_error_In.
Qed.

Lemma in_firstn {A} n (l: list A) x : In x (firstn n l) -> In x l.
Proof.
  revert l. induction n as [|n IH]; intros l H; [destruct H|].
  destruct l as [|a l]; [destruct H|]. cbn [firstn] in H. destruct H as [H|H]; [left; exact H | right; apply IH; exact H].
Qed.

Lemma in_skipn {A} n (l: list A) x : In x (skipn n l) -> In x l.
Proof.
  revert l. induction n as [|n IH]; intros l H; [exact H|].
  destruct l as [|a l]; [destruct H|]. right. apply IH. exact H.
Qed.

Lemma slice_list_In {A} (l: list A) i j x : In x (slice_list l i j) -> In x l.
Proof.
  unfold slice_list. destruct (_ <=? _); [intros []|].
  intros H. apply (in_skipn _ _ _ (in_firstn _ _ _ H)).
Qed.

Lemma mapM_map {A B C} (g: A -> B) (f: B -> res C) l : mapM f (map g l) = mapM (fun x => f (g x)) l.
Proof. induction l as [|a l IH]; [reflexivity|]. cbn [map mapM]. rewrite IH. reflexivity. Qed.

Lemma mapM_ext_in' {A B} (f g: A -> res B) (l: list A) :
  (forall x, In x l -> f x = g x) -> mapM f l = mapM g l.
Proof.
  induction l as [|a l IH]; intros H; [reflexivity|].
  cbn [mapM]. rewrite (H a (or_introl eq_refl)). rewrite IH; [reflexivity|].
  intros x Hx. apply H. right. exact Hx.
Qed.

Lemma omapM_map' {A B C} (h: A -> B) (f: B -> option C) l : omapM f (map h l) = omapM (fun x => f (h x)) l.
Proof. induction l as [|a l IH]; [reflexivity|]. cbn [map omapM]. rewrite IH. reflexivity. Qed.

Lemma omapM_ext_in' {A B} (f g: A -> option B) l : (forall x, In x l -> f x = g x) -> omapM f l = omapM g l.
Proof.
  induction l as [|a l IH]; intros H; [reflexivity|].
  cbn [omapM]. rewrite (H a (or_introl eq_refl)), IH; [reflexivity|]. intros x Hx. apply H. right. exact Hx.
Qed.

Lemma omapM_length {A B} (f: A -> option B) l r : omapM f l = Some r -> List.length r = List.length l.
Proof.
  revert r. induction l as [|a l IH]; intros r H.
  - inversion H. reflexivity.
  - cbn [omapM] in H. destruct (f a); [|discriminate]. destruct (omapM f l) as [ys|]; [|discriminate].
    inversion H. cbn [List.length]. rewrite (IH ys eq_refl). reflexivity.
Qed.

(* exact-length positional predicate over any kind of descriptor *)
Section PosAll.
  Context {T X: Type}.
  Variable q : T -> X -> bool.
  Fixpoint pos_all (ds: list T) (xs: list X) {struct ds} : bool :=
    match ds, xs with
    | [], [] => true
    | d :: ds', x :: xs' => q d x && pos_all ds' xs'
    | _, _ => false end.
End PosAll.

Lemma pos_all_map {T A X} (q: T -> X -> bool) (g: A -> X) ds l :
  pos_all q ds (map g l) = pos_all (fun d x => q d (g x)) ds l.
Proof.
  revert l. induction ds as [|d ds IH]; intros l; destruct l as [|x l]; try reflexivity.
  cbn [map pos_all]. rewrite IH. reflexivity.
Qed.

Lemma forallb_map' {A B} (q: B -> bool) (g: A -> B) l : forallb q (map g l) = forallb (fun x => q (g x)) l.
Proof. induction l as [|a l IH]; [reflexivity|]. cbn [map forallb]. rewrite IH. reflexivity. Qed.

Lemma pos_all_impl_in {T X} (p q: T -> X -> bool) ds (l: list X) :
  (forall d x, In x l -> p d x = true -> q d x = true) -> pos_all p ds l = true -> pos_all q ds l = true.
Proof.
  revert l. induction ds as [|d ds IH]; intros l H Hp; destruct l as [|x l]; try discriminate Hp; [reflexivity|].
  cbn [pos_all] in *. apply andb_prop in Hp. destruct Hp as [Ha Hl].
  rewrite (H d x (or_introl eq_refl) Ha). apply IH; [|exact Hl]. intros d0 x0 Hx. apply H. right. exact Hx.
Qed.

Lemma pos_all_length {T X} (q: T -> X -> bool) ds l : pos_all q ds l = true -> List.length l = List.length ds.
Proof.
  revert l. induction ds as [|d ds IH]; intros l H; destruct l as [|x l]; try discriminate H; [reflexivity|].
  cbn [pos_all] in H. apply andb_prop in H. cbn [List.length]. rewrite (IH l (proj2 H)). reflexivity.
Qed.

(* the three parts of head ++ middle ++ tail *)
Lemma app3_parts {A} (a m b: list A) :
  firstn (List.length a) (a ++ m ++ b) = a /\
  firstn (List.length (a ++ m ++ b) - List.length a - List.length b) (skipn (List.length a) (a ++ m ++ b)) = m /\
  skipn (List.length (a ++ m ++ b) - List.length b) (a ++ m ++ b) = b.
Proof.
  repeat split.
  - rewrite firstn_app, Nat.sub_diag, firstn_all. cbn [firstn]. apply app_nil_r.
  - rewrite skipn_app, Nat.sub_diag, skipn_all. cbn [skipn app].
    rewrite !app_length. replace (List.length a + (List.length m + List.length b) - List.length a - List.length b)%nat with (List.length m) by lia.
    rewrite firstn_app, Nat.sub_diag, firstn_all. cbn [firstn]. apply app_nil_r.
  - rewrite !app_length. replace (List.length a + (List.length m + List.length b) - List.length b)%nat with (List.length a + List.length m)%nat by lia.
    rewrite app_assoc. rewrite skipn_app. rewrite app_length, Nat.sub_diag. cbn [skipn].
    rewrite <- (app_length a m), skipn_all. reflexivity.
Qed.

Lemma omapM_pos_all {T B} (g: T -> option B) (q: T -> B -> bool) ts cs :
  Forall (fun t => forall c, g t = Some c -> q t c = true) ts -> omapM g ts = Some cs -> pos_all q ts cs = true.
Proof.
  intros HF. revert cs. induction HF as [|t1 ts H1 Hts IH]; intros cs Em.
  - inversion Em. reflexivity.
  - cbn [omapM] in Em. destruct (g t1) as [c1|] eqn:E1; [|discriminate Em].
    destruct (omapM g ts) as [cs1|] eqn:E2; [|discriminate Em]. inversion Em.
    cbn [pos_all]. rewrite (H1 c1 eq_refl). apply (IH cs1 eq_refl).
Qed.

Definition In_opt {A} (x: A) (l: option (list A)) : Prop := match l with Some l' => In x l' | None => False end.

(* ------------------------------------------------------------------ *)
(* congruence of the walkers: two descriptor kinds related by [h] (e.g. cu true), two item
   kinds obtained from the same underlying list by [g1] / [g2] (e.g. closures uk x / ref_dec x) *)
Section Rel.
  Context {T1 T2 X1 X2 A: Type}.
  Variable h : T2 -> T1.
  Variable g1 : A -> X1.
  Variable g2 : A -> X2.
  Variable run1 : T1 -> X1 -> res pv.
  Variable run2 : T2 -> X2 -> res pv.
  Variable k1 : T1 -> option pv.
  Variable k2 : T2 -> option pv.

  Lemma tu_at_rel (l: option (list A)) a d :
    k1 (h d) = k2 d -> (forall x, In_opt x l -> run1 (h d) (g1 x) = run2 d (g2 x)) ->
    tu_at run1 k1 (option_map (map g1) l) a (h d) = tu_at run2 k2 (option_map (map g2) l) a d.
  Proof.
    intros Hk Hr. unfold tu_at. rewrite Hk. destruct (k2 d); [reflexivity|].
    destruct l as [l|]; cbn [option_map]; [|reflexivity].
    destruct a as [i|i j]; [|reflexivity]. rewrite !nth_signed_map.
    destruct (nth_signed l i) as [x|] eqn:En; cbn [option_map]; [|reflexivity].
    apply Hr. cbn. apply (nth_signed_In _ _ _ En).
  Qed.

  Lemma tu_ones_rel (l: option (list A)) plan ds :
    (forall d, In d ds -> k1 (h d) = k2 d) ->
    (forall d x, In d ds -> In_opt x l -> run1 (h d) (g1 x) = run2 d (g2 x)) ->
    tu_ones run1 k1 (option_map (map g1) l) plan (map h ds) = tu_ones run2 k2 (option_map (map g2) l) plan ds.
  Proof.
    revert plan. induction ds as [|d ds IH]; intros plan Hk Hr.
    - destruct plan; reflexivity.
    - destruct plan as [|a plan]; [reflexivity|]. cbn [map tu_ones].
      rewrite (tu_at_rel l a d (Hk d (or_introl eq_refl)) (fun x Hx => Hr d x (or_introl eq_refl) Hx)).
      rewrite IH; [reflexivity | intros d0 Hd0; apply Hk; right; exact Hd0 | intros d0 x Hd0; apply Hr; right; exact Hd0].
  Qed.

  Lemma pos_walk_rel (l: list A) ds :
    (forall d, In d ds -> k1 (h d) = k2 d) ->
    (forall d x, In d ds -> In x l -> run1 (h d) (g1 x) = run2 d (g2 x)) ->
    pos_walk run1 k1 (map h ds) (map g1 l) = pos_walk run2 k2 ds (map g2 l).
  Proof.
    revert l. induction ds as [|d ds IH]; intros l Hk Hr.
    - destruct l; reflexivity.
    - destruct l as [|x l]; [reflexivity|]. cbn [map pos_walk].
      rewrite (Hk d (or_introl eq_refl)). rewrite (Hr d x (or_introl eq_refl) (or_introl eq_refl)).
      rewrite IH; [reflexivity | intros d0 Hd0; apply Hk; right; exact Hd0 | intros d0 x0 Hd0 Hx0; apply Hr; right; assumption].
  Qed.

  Variable tail1 : list T1 -> res (list pv).
  Variable tail2 : list T2 -> res (list pv).
  Hypothesis tail_rel : forall ds, tail1 (map h ds) = tail2 ds.

  Lemma fix_walk_rel (l: list A) ds :
    (forall d x, In d ds -> In x l -> run1 (h d) (g1 x) = run2 d (g2 x)) ->
    fix_walk run1 tail1 (map h ds) (map g1 l) = fix_walk run2 tail2 ds (map g2 l).
  Proof.
    revert l. induction ds as [|d ds IH]; intros l Hr.
    - destruct l; reflexivity.
    - destruct l as [|x l]; cbn [map fix_walk].
      + apply (tail_rel (d :: ds)).
      + rewrite (Hr d x (or_introl eq_refl) (or_introl eq_refl)).
        rewrite IH; [reflexivity | intros d0 x0 Hd0 Hx0; apply Hr; right; assumption].
  Qed.

  Lemma mid_var_rel (sl: option (list A)) u :
    (forall x, In_opt x sl -> run1 (h u) (g1 x) = run2 u (g2 x)) ->
    mid_var run1 (h u) (option_map (map g1) sl) = mid_var run2 u (option_map (map g2) sl).
  Proof.
    intros Hr. unfold mid_var. destruct sl as [s|]; cbn [option_map]; [|reflexivity].
    rewrite !mapM_map. apply mapM_ext_in'. intros x Hx. apply Hr. exact Hx.
  Qed.

  Lemma mid_fix_rel (sl: option (list A)) us :
    (forall d, In d us -> k1 (h d) = k2 d) ->
    (forall d x, In d us -> In_opt x sl -> run1 (h d) (g1 x) = run2 d (g2 x)) ->
    mid_fix run1 k1 tail1 (map h us) (option_map (map g1) sl) = mid_fix run2 k2 tail2 us (option_map (map g2) sl).
  Proof.
    intros Hk Hr. unfold mid_fix. rewrite omapM_map'. rewrite (omapM_ext_in' _ k2 us Hk).
    destruct (omapM k2 us); [reflexivity|].
    destruct sl as [s|]; cbn [option_map]; [|reflexivity].
    apply fix_walk_rel. intros d x Hd Hx. apply Hr; assumption.
  Qed.

  (* positional variants: the item decoders are only related on the pairs a predicate accepts *)
  Variable q : T2 -> A -> bool.
  Hypothesis k_rel : forall d, k1 (h d) = k2 d.

  Lemma pos_walk_rel_all (l: list A) ds : pos_all q ds l = true ->
    (forall d x, In x l -> q d x = true -> run1 (h d) (g1 x) = run2 d (g2 x)) ->
    pos_walk run1 k1 (map h ds) (map g1 l) = pos_walk run2 k2 ds (map g2 l).
  Proof.
    revert l. induction ds as [|d ds IH]; intros l HA Hr; destruct l as [|x l]; try discriminate HA; [reflexivity|].
    cbn [pos_all] in HA. apply andb_prop in HA. destruct HA as [Hq HA].
    cbn [map pos_walk]. rewrite k_rel. rewrite (Hr d x (or_introl eq_refl) Hq).
    rewrite (IH l HA); [reflexivity|]. intros d0 x0 Hx0. apply Hr. right. exact Hx0.
  Qed.

  Lemma fix_walk_rel_all (l: list A) ds : pos_all q ds l = true ->
    (forall d x, In x l -> q d x = true -> run1 (h d) (g1 x) = run2 d (g2 x)) ->
    fix_walk run1 tail1 (map h ds) (map g1 l) = fix_walk run2 tail2 ds (map g2 l).
  Proof.
    revert l. induction ds as [|d ds IH]; intros l HA Hr; destruct l as [|x l]; try discriminate HA; [reflexivity|].
    cbn [pos_all] in HA. apply andb_prop in HA. destruct HA as [Hq HA].
    cbn [map fix_walk]. rewrite (Hr d x (or_introl eq_refl) Hq).
    rewrite (IH l HA); [reflexivity|]. intros d0 x0 Hx0. apply Hr. right. exact Hx0.
  Qed.

  Lemma mid_var_rel_all (M: list A) u : forallb (q u) M = true ->
    (forall x, In x M -> q u x = true -> run1 (h u) (g1 x) = run2 u (g2 x)) ->
    mid_var run1 (h u) (Some (map g1 M)) = mid_var run2 u (Some (map g2 M)).
  Proof.
    intros HA Hr. unfold mid_var. rewrite !mapM_map. apply mapM_ext_in'. intros x Hx.
    rewrite forallb_forall in HA. apply (Hr x Hx (HA x Hx)).
  Qed.

  Lemma mid_fix_rel_all (M: list A) us : pos_all q us M = true ->
    (forall d x, In x M -> q d x = true -> run1 (h d) (g1 x) = run2 d (g2 x)) ->
    mid_fix run1 k1 tail1 (map h us) (Some (map g1 M)) = mid_fix run2 k2 tail2 us (Some (map g2 M)).
  Proof.
    intros HA Hr. unfold mid_fix. rewrite omapM_map'. rewrite (omapM_ext_in' _ k2 us (fun d _ => k_rel d)).
    destruct (omapM k2 us); [reflexivity|]. apply (fix_walk_rel_all M us HA Hr).
  Qed.

  Lemma tu_split_rel_all (l: list A) pre post mid1 mid2 :
    pos_all q pre (firstn (List.length pre) l) = true ->
    pos_all q post (skipn (List.length l - List.length post) l) = true ->
    (forall d x, In x l -> q d x = true -> run1 (h d) (g1 x) = run2 d (g2 x)) ->
    mid1 (Some (map g1 (firstn (List.length l - List.length pre - List.length post) (skipn (List.length pre) l)))) =
    mid2 (Some (map g2 (firstn (List.length l - List.length pre - List.length post) (skipn (List.length pre) l)))) ->
    tu_split run1 k1 (map g1 l) (map h pre) (map h post) mid1 = tu_split run2 k2 (map g2 l) pre post mid2.
  Proof.
    intros Hp Hq Hr Hm. unfold tu_split. rewrite !map_length.
    rewrite <- !firstn_map, <- !skipn_map in Hm.
    rewrite !firstn_map, !skipn_map. rewrite !firstn_map.
    rewrite (pos_walk_rel_all _ pre Hp) by (intros d x Hx; apply Hr; apply (in_firstn _ _ _ Hx)).
    rewrite (pos_walk_rel_all _ post Hq) by (intros d x Hx; apply Hr; apply (in_skipn _ _ _ Hx)).
    rewrite <- !firstn_map, <- !skipn_map. rewrite Hm. reflexivity.
  Qed.

  Lemma tu_walk_rel (l: option (list A)) plan pre post mid1 mid2 :
    (forall d, In d (pre ++ post) -> k1 (h d) = k2 d) ->
    (forall d x, In d (pre ++ post) -> In_opt x l -> run1 (h d) (g1 x) = run2 d (g2 x)) ->
    (forall i j, mid1 (option_map (map g1) (option_map (fun l0 => slice_list l0 i j) l)) =
                 mid2 (option_map (map g2) (option_map (fun l0 => slice_list l0 i j) l))) ->
    tu_walk run1 k1 (option_map (map g1) l) plan (map h pre) (map h post) mid1 =
    tu_walk run2 k2 (option_map (map g2) l) plan pre post mid2.
  Proof.
    intros Hk Hr Hm. unfold tu_walk. rewrite map_length.
    rewrite (tu_ones_rel l (firstn (List.length pre) plan) pre);
      [| intros d Hd; apply Hk; apply in_or_app; left; exact Hd
       | intros d x Hd; apply Hr; apply in_or_app; left; exact Hd ].
    rewrite (tu_ones_rel l (skipn (S (List.length pre)) plan) post);
      [| intros d Hd; apply Hk; apply in_or_app; right; exact Hd
       | intros d x Hd; apply Hr; apply in_or_app; right; exact Hd ].
    destruct (nth_error plan (List.length pre)) as [[i|i j]|]; try reflexivity.
    assert (Hs: mid1 (option_map (fun l0 => slice_list l0 i j) (option_map (map g1) l)) =
                mid2 (option_map (fun l0 => slice_list l0 i j) (option_map (map g2) l))).
    { specialize (Hm i j). destruct l as [l|]; cbn [option_map] in *; [|exact Hm].
      rewrite !slice_list_map. exact Hm. }
    rewrite Hs. reflexivity.
  Qed.
End Rel.

(* ------------------------------------------------------------------ *)
(* ranges *)
Lemma zrange_nil' a b : b <= a -> zrange a b = [].
Proof. intros H. unfold zrange. replace (Z.to_nat (b - a)) with 0%nat by lia. reflexivity. Qed.

Lemma zrange_cons' a b : a < b -> zrange a b = a :: zrange (a + 1) b.
Proof.
  intros H. unfold zrange. replace (Z.to_nat (b - a)) with (S (Z.to_nat (b - (a + 1)))) by lia.
  cbn [seq map]. f_equal; [lia|]. rewrite <- seq_shift, map_map. apply map_ext. intros k. lia.
Qed.

Lemma zrange_length a b : List.length (zrange a b) = Z.to_nat (b - a).
Proof. unfold zrange. rewrite map_length, seq_length. reflexivity. Qed.

(* the three parts of the plan *)
Lemma tu_plan_pre u m : firstn u (tu_plan u m) = map AI (zrange 0 (Z.of_nat u)).
Proof.
  unfold tu_plan. rewrite firstn_app.
  assert (Hl: List.length (map AI (zrange 0 (Z.of_nat u))) = u) by (rewrite map_length, zrange_length; lia).
  rewrite Hl, Nat.sub_diag. cbn [firstn]. rewrite app_nil_r.
  rewrite <- Hl at 1. apply firstn_all.
Qed.

Lemma tu_plan_mid u m :
  nth_error (tu_plan u m) u = Some (ASl (Z.of_nat u) (tu_slice_hi (Z.of_nat (u + 1 + m)) (Z.of_nat u))).
Proof.
  unfold tu_plan.
  assert (Hl: List.length (map AI (zrange 0 (Z.of_nat u))) = u) by (rewrite map_length, zrange_length; lia).
  rewrite nth_error_app2 by lia. rewrite Hl, Nat.sub_diag. reflexivity.
Qed.

Lemma tu_plan_post u m :
  skipn (S u) (tu_plan u m) =
  map (fun j => AI (j - Z.of_nat (u + 1 + m))) (zrange (Z.of_nat u + 1) (Z.of_nat (u + 1 + m))).
Proof.
  unfold tu_plan.
  assert (Hl: List.length (map AI (zrange 0 (Z.of_nat u))) = u) by (rewrite map_length, zrange_length; lia).
  rewrite skipn_app. rewrite Hl. replace (S u - u)%nat with 1%nat by lia.
  rewrite (skipn_all2 (map AI (zrange 0 (Z.of_nat u)))) by lia. reflexivity.
Qed.

(* ------------------------------------------------------------------ *)
(* the bridge: plan-driven reading of a long enough sequence = head / middle / tail *)
Lemma nth_skipn {A} (l: list A) k : (k < List.length l)%nat ->
  exists x, nth_error l k = Some x /\ skipn k l = x :: skipn (S k) l.
Proof.
  revert k. induction l as [|a l IH]; intros k H; [cbn in H; lia|].
  destruct k as [|k].
  - exists a. split; reflexivity.
  - cbn [List.length] in H. destruct (IH k) as [x [H1 H2]]; [lia|]. exists x. split; [exact H1 | exact H2].
Qed.

Lemma nth_signed_nat {A} (l: list A) k : (k < List.length l)%nat -> nth_signed l (Z.of_nat k) = nth_error l k.
Proof.
  intros H. unfold nth_signed.
  replace (Z.of_nat k <? 0) with false by (symmetry; apply Z.ltb_ge; lia).
  replace (Z.of_nat k <? 0) with false by (symmetry; apply Z.ltb_ge; lia).
  replace (Z.of_nat (List.length l) <=? Z.of_nat k) with false by (symmetry; apply Z.leb_gt; lia).
  cbn [orb]. rewrite Nat2Z.id. reflexivity.
Qed.

Lemma nth_signed_neg {A} (l: list A) r : (0 < r)%nat -> (r <= List.length l)%nat ->
  nth_signed l (- Z.of_nat r) = nth_error l (List.length l - r).
Proof.
  intros H0 H. unfold nth_signed.
  replace (- Z.of_nat r <? 0) with true by (symmetry; apply Z.ltb_lt; lia).
  replace (Z.of_nat (List.length l) + - Z.of_nat r <? 0) with false by (symmetry; apply Z.ltb_ge; lia).
  replace (Z.of_nat (List.length l) <=? Z.of_nat (List.length l) + - Z.of_nat r) with false by (symmetry; apply Z.leb_gt; lia).
  cbn [orb]. f_equal. lia.
Qed.

Section Bridge.
  Context {T X: Type}.
  Variable run : T -> X -> res pv.
  Variable konst : T -> option pv.

  Lemma tu_ones_head (l: list X) ds : forall k, (k + List.length ds <= List.length l)%nat ->
    tu_ones run konst (Some l) (map AI (zrange (Z.of_nat k) (Z.of_nat (k + List.length ds)))) ds =
    pos_walk run konst ds (firstn (List.length ds) (skipn k l)).
  Proof.
    induction ds as [|d ds IH]; intros k H.
    - rewrite zrange_nil' by (cbn [List.length]; lia). reflexivity.
    - cbn [List.length] in *. rewrite zrange_cons' by lia. cbn [map tu_ones].
      destruct (nth_skipn l k) as [x [Hn Hs]]; [lia|].
      rewrite Hs. cbn [firstn pos_walk].
      replace (Z.of_nat k + 1) with (Z.of_nat (S k)) by lia.
      replace (k + S (List.length ds))%nat with (S k + List.length ds)%nat by lia.
      rewrite (IH (S k)) by lia.
      unfold tu_at. destruct (konst d); [reflexivity|].
      rewrite nth_signed_nat by lia. rewrite Hn. reflexivity.
  Qed.

  Lemma tu_ones_tail (l: list X) n ds : (List.length ds <= List.length l)%nat ->
    tu_ones run konst (Some l) (map (fun j => AI (j - n)) (zrange (n - Z.of_nat (List.length ds)) n)) ds =
    pos_walk run konst ds (skipn (List.length l - List.length ds) l).
  Proof.
    induction ds as [|d ds IH]; intros H.
    - rewrite zrange_nil' by (cbn [List.length]; lia). cbn [List.length]. rewrite Nat.sub_0_r, skipn_all. reflexivity.
    - cbn [List.length] in *. rewrite zrange_cons' by lia. cbn [map tu_ones].
      destruct (nth_skipn l (List.length l - S (List.length ds))) as [x [Hn Hs]]; [lia|].
      rewrite Hs. cbn [pos_walk].
      replace (n - Z.of_nat (S (List.length ds)) + 1) with (n - Z.of_nat (List.length ds)) by lia.
      replace (S (List.length l - S (List.length ds))) with (List.length l - List.length ds)%nat by lia.
      rewrite IH by lia.
      unfold tu_at. destruct (konst d); [reflexivity|].
      replace (n - Z.of_nat (S (List.length ds)) - n) with (- Z.of_nat (S (List.length ds))) by lia.
      rewrite nth_signed_neg by lia. rewrite Hn. reflexivity.
  Qed.

  Lemma tu_slice (l: list X) u m : (u + m <= List.length l)%nat ->
    slice_list l (Z.of_nat u) (tu_slice_hi (Z.of_nat (u + 1 + m)) (Z.of_nat u)) =
    firstn (List.length l - u - m) (skipn u l).
  Proof.
    intros H. unfold slice_list, tu_slice_hi, clampi.
    replace (Z.of_nat u <? 0) with false by (symmetry; apply Z.ltb_ge; lia).
    replace (Z.of_nat u <? 0) with false by (symmetry; apply Z.ltb_ge; lia).
    replace (Z.of_nat (List.length l) <? Z.of_nat u) with false by (symmetry; apply Z.ltb_ge; lia).
    destruct m as [|m].
    - assert (Hhi: (if Z.of_nat (u + 1 + 0) =? 1 then None
                    else if Z.of_nat u <? Z.of_nat (u + 1 + 0) - 1 then Some (Z.of_nat u + 1 - Z.of_nat (u + 1 + 0)) else None) = None).
      { destruct (Z.of_nat (u + 1 + 0) =? 1); [reflexivity|].
        replace (Z.of_nat u <? Z.of_nat (u + 1 + 0) - 1) with false by (symmetry; apply Z.ltb_ge; lia). reflexivity. }
      rewrite Hhi. rewrite Nat2Z.id.
      destruct (Z.of_nat (List.length l) <=? Z.of_nat u) eqn:Eb.
      + apply Z.leb_le in Eb. replace (List.length l - u - 0)%nat with 0%nat by lia. reflexivity.
      + f_equal. lia.
    - replace (Z.of_nat (u + 1 + S m) =? 1) with false by (symmetry; apply Z.eqb_neq; lia).
      replace (Z.of_nat u <? Z.of_nat (u + 1 + S m) - 1) with true by (symmetry; apply Z.ltb_lt; lia).
      replace (Z.of_nat u + 1 - Z.of_nat (u + 1 + S m) <? 0) with true by (symmetry; apply Z.ltb_lt; lia).
      replace (Z.of_nat (List.length l) + (Z.of_nat u + 1 - Z.of_nat (u + 1 + S m)) <? 0) with false by (symmetry; apply Z.ltb_ge; lia).
      replace (Z.of_nat (List.length l) <? Z.of_nat (List.length l) + (Z.of_nat u + 1 - Z.of_nat (u + 1 + S m))) with false
        by (symmetry; apply Z.ltb_ge; lia).
      rewrite Nat2Z.id.
      destruct (Z.of_nat (List.length l) + (Z.of_nat u + 1 - Z.of_nat (u + 1 + S m)) <=? Z.of_nat u) eqn:Eb.
      + apply Z.leb_le in Eb. replace (List.length l - u - S m)%nat with 0%nat by lia. reflexivity.
      + f_equal. lia.
  Qed.

  Theorem tu_walk_split (l: list X) pre post mid : (List.length pre + List.length post <= List.length l)%nat ->
    tu_walk run konst (Some l) (tu_plan (List.length pre) (List.length post)) pre post mid =
    tu_split run konst l pre post mid.
  Proof.
    intros H. unfold tu_walk, tu_split.
    rewrite tu_plan_pre, tu_plan_mid, tu_plan_post. cbn [option_map].
    pose proof (tu_ones_head l pre 0) as Hh. cbn [Nat.add Z.of_nat skipn] in Hh. rewrite Hh by lia.
    rewrite (tu_slice l _ _ H).
    pose proof (tu_ones_tail l (Z.of_nat (List.length pre + 1 + List.length post)) post) as Ht.
    replace (Z.of_nat (List.length pre + 1 + List.length post) - Z.of_nat (List.length post)) with (Z.of_nat (List.length pre) + 1) in Ht by lia.
    rewrite Ht by lia. reflexivity.
  Qed.
End Bridge.

(* ------------------------------------------------------------------ *)
(* what a successful walk returned: head ++ middle ++ tail, every item accepted by a predicate *)
Section WalkAll.
  Context {T X: Type}.
  Variable run : T -> X -> res pv.
  Variable konst : T -> option pv.
  Variable tail : list T -> res (list pv).
  Variable q : T -> pv -> bool.
  Hypothesis konst_ok : forall d c, konst d = Some c -> q d c = true.
  Hypothesis tail_ok : forall ds r, tail ds = Ok r -> pos_all q ds r = true.

  Lemma tu_ones_all items plan ds a :
    (forall d x y, In d ds -> In_opt x items -> run d x = Ok y -> q d y = true) ->
    tu_ones run konst items plan ds = Ok a -> pos_all q ds a = true.
  Proof.
    revert plan a. induction ds as [|d ds IH]; intros plan a Hr H; destruct plan as [|p plan]; cbn [tu_ones] in H; try discriminate H.
    - inversion H. reflexivity.
    - destruct (tu_at run konst items p d) as [y|] eqn:Ey; [|discriminate H].
      destruct (tu_ones run konst items plan ds) as [ys|] eqn:Eys; [|discriminate H]. inversion H; subst.
      cbn [pos_all]. rewrite (IH plan ys); [| intros d0 x0 y0 Hd0; apply Hr; right; exact Hd0 | exact Eys].
      rewrite andb_true_r. unfold tu_at in Ey. destruct (konst d) as [c|] eqn:Ek.
      + inversion Ey; subst. apply (konst_ok _ _ Ek).
      + destruct items as [l|]; [|discriminate Ey]. destruct p as [i|i j]; [|discriminate Ey].
        destruct (nth_signed l i) as [x|] eqn:En; [|discriminate Ey].
        apply (Hr d x y (or_introl eq_refl)); [cbn; apply (nth_signed_In _ _ _ En) | exact Ey].
  Qed.

  Lemma pos_walk_all ds (l: list X) a :
    (forall d x y, In d ds -> In x l -> run d x = Ok y -> q d y = true) ->
    pos_walk run konst ds l = Ok a -> pos_all q ds a = true.
  Proof.
    revert l a. induction ds as [|d ds IH]; intros l a Hr H; destruct l as [|x l]; cbn [pos_walk] in H; try discriminate H.
    - inversion H. reflexivity.
    - destruct (match konst d with Some c => Ok c | None => run d x end) as [y|] eqn:Ey; [|discriminate H].
      destruct (pos_walk run konst ds l) as [ys|] eqn:Eys; [|discriminate H]. inversion H; subst.
      cbn [pos_all]. rewrite (IH l ys); [| intros d0 x0 y0 Hd0 Hx0; apply Hr; right; assumption | exact Eys].
      rewrite andb_true_r. destruct (konst d) as [c|] eqn:Ek.
      + inversion Ey; subst. apply (konst_ok _ _ Ek).
      + apply (Hr d x y (or_introl eq_refl) (or_introl eq_refl) Ey).
  Qed.

  Lemma fix_walk_all ds (l: list X) m :
    (forall d x y, In d ds -> In x l -> run d x = Ok y -> q d y = true) ->
    fix_walk run tail ds l = Ok m -> pos_all q ds m = true.
  Proof.
    revert l m. induction ds as [|d ds IH]; intros l m Hr H.
    - destruct l; inversion H; reflexivity.
    - destruct l as [|x l]; cbn [fix_walk] in H; [apply (tail_ok _ _ H)|].
      destruct (run d x) as [y|] eqn:Ey; [|discriminate H].
      destruct (fix_walk run tail ds l) as [ys|] eqn:Eys; [|discriminate H]. inversion H; subst.
      cbn [pos_all]. rewrite (Hr d x y (or_introl eq_refl) (or_introl eq_refl) Ey).
      apply (IH l ys); [| exact Eys]. intros d0 x0 y0 Hd0 Hx0. apply Hr; right; assumption.
  Qed.

  Lemma mid_var_all u sl m :
    (forall x y, In_opt x sl -> run u x = Ok y -> q u y = true) ->
    mid_var run u sl = Ok m -> forallb (q u) m = true.
  Proof.
    intros Hr H. unfold mid_var in H. destruct sl as [s|]; [|discriminate H].
    revert m H. induction s as [|x s IH]; intros m H.
    - inversion H. reflexivity.
    - cbn [mapM] in H. destruct (run u x) as [y|] eqn:Ey; [|discriminate H].
      destruct (mapM (run u) s) as [ys|] eqn:Eys; [|discriminate H]. inversion H; subst.
      cbn [forallb]. rewrite (Hr x y (or_introl eq_refl) Ey).
      apply IH; [|reflexivity]. intros x0 y0 Hx0. apply Hr. right. exact Hx0.
  Qed.

  Lemma mid_fix_all us sl m :
    (forall d x y, In d us -> In_opt x sl -> run d x = Ok y -> q d y = true) ->
    mid_fix run konst tail us sl = Ok m -> pos_all q us m = true.
  Proof.
    intros Hr H. unfold mid_fix in H. destruct (omapM konst us) as [cs|] eqn:Ec.
    - inversion H; subst. refine (omapM_pos_all konst q us m _ Ec).
      apply Forall_forall. intros d _ c Hc. apply (konst_ok _ _ Hc).
    - destruct sl as [s|]; [|discriminate H]. apply (fix_walk_all us s m); [|exact H].
      intros d x y Hd Hx. apply Hr; [exact Hd | exact Hx].
  Qed.

  Lemma tu_walk_parts items plan pre post mid r (Pm: list pv -> Prop) :
    (forall d x y, In d (pre ++ post) -> In_opt x items -> run d x = Ok y -> q d y = true) ->
    (forall sl m, (forall x, In_opt x sl -> In_opt x items) -> mid sl = Ok m -> Pm m) ->
    tu_walk run konst items plan pre post mid = Ok r ->
    exists a m b, r = a ++ m ++ b /\ pos_all q pre a = true /\ Pm m /\ pos_all q post b = true.
  Proof.
    intros Hr Hm H. unfold tu_walk in H.
    destruct (tu_ones run konst items (firstn (List.length pre) plan) pre) as [a|] eqn:Ea; [|discriminate H]. cbn [bind] in H.
    destruct (nth_error plan (List.length pre)) as [[i|i j]|]; try discriminate H.
    destruct (mid (option_map (fun l => slice_list l i j) items)) as [m|] eqn:Em; [|discriminate H]. cbn [bind] in H.
    destruct (tu_ones run konst items (skipn (S (List.length pre)) plan) post) as [b|] eqn:Eb; [|discriminate H]. cbn [bind] in H.
    inversion H. exists a, m, b. repeat split.
    - apply (tu_ones_all _ _ _ _ (fun d x y Hd => Hr d x y (in_or_app _ _ _ (or_introl Hd))) Ea).
    - apply (Hm (option_map (fun l => slice_list l i j) items) m); [|exact Em]. destruct items as [l|]; cbn; [|intros x []]. intros x Hx. apply (slice_list_In _ _ _ _ Hx).
    - apply (tu_ones_all _ _ _ _ (fun d x y Hd => Hr d x y (in_or_app _ _ _ (or_intror Hd))) Eb).
  Qed.

  Lemma tu_split_parts (l: list X) pre post mid r (Pm: list pv -> Prop) :
    (forall d x y, In d (pre ++ post) -> In x l -> run d x = Ok y -> q d y = true) ->
    (forall s m, (forall x, In x s -> In x l) -> mid (Some s) = Ok m -> Pm m) ->
    tu_split run konst l pre post mid = Ok r ->
    exists a m b, r = a ++ m ++ b /\ pos_all q pre a = true /\ Pm m /\ pos_all q post b = true.
  Proof.
    intros Hr Hm H. unfold tu_split in H.
    destruct (pos_walk run konst pre (firstn (List.length pre) l)) as [a|] eqn:Ea; [|discriminate H]. cbn [bind] in H.
    match type of H with (bind ?X _ = _) => destruct X as [m|] eqn:Em end; [|discriminate H]. cbn [bind] in H.
    match type of H with (bind ?X _ = _) => destruct X as [b|] eqn:Eb end; [|discriminate H]. cbn [bind] in H.
    inversion H. exists a, m, b. repeat split.
    - apply (pos_walk_all _ _ _ (fun d x y Hd Hx => Hr d x y (in_or_app _ _ _ (or_introl Hd)) (in_firstn _ _ _ Hx)) Ea).
    - refine (Hm _ m _ Em). intros x Hx. apply (in_skipn _ _ _ (in_firstn _ _ _ Hx)).
    - apply (pos_walk_all _ _ _ (fun d x y Hd Hx => Hr d x y (in_or_app _ _ _ (or_intror Hd)) (in_skipn _ _ _ Hx)) Eb).
  Qed.
End WalkAll.

(* ------------------------------------------------------------------ *)
(* positional reasoning on conforming (exact-length) walks: descriptor / input item / output item triples *)
Inductive zip3 {T A B: Type} (Rel: T -> A -> B -> Prop) : list T -> list A -> list B -> Prop :=
| zip3_nil : zip3 Rel [] [] []
| zip3_cons d x y ds xs ys : Rel d x y -> zip3 Rel ds xs ys -> zip3 Rel (d :: ds) (x :: xs) (y :: ys).

Lemma zip3_impl {T A B} (R1 R2: T -> A -> B -> Prop) ds xs ys :
  (forall d x y, R1 d x y -> R2 d x y) -> zip3 R1 ds xs ys -> zip3 R2 ds xs ys.
Proof. intros H Hz. induction Hz; constructor; auto. Qed.

Lemma zip3_pos_all {T A B} (Rel: T -> A -> B -> Prop) (q: T -> B -> bool) ds xs ys :
  (forall d x y, Rel d x y -> q d y = true) -> zip3 Rel ds xs ys -> pos_all q ds ys = true.
Proof. intros H Hz. induction Hz; [reflexivity|]. cbn [pos_all]. rewrite (H _ _ _ H0), IHHz. reflexivity. Qed.

Lemma zip3_forallb {T A B} (Rel: T -> A -> B -> Prop) (q: B -> bool) ds xs ys :
  (forall d x y, Rel d x y -> q y = true) -> zip3 Rel ds xs ys -> forallb q ys = true.
Proof. intros H Hz. induction Hz; [reflexivity|]. cbn [forallb]. rewrite (H _ _ _ H0), IHHz. reflexivity. Qed.

Lemma zip3_length {T A B} (Rel: T -> A -> B -> Prop) ds xs ys :
  zip3 Rel ds xs ys -> List.length ys = List.length xs /\ List.length ds = List.length xs.
Proof. intros Hz. induction Hz; [split; reflexivity|]. cbn [List.length]. destruct IHHz as [H1 H2]. rewrite H1, H2. split; reflexivity. Qed.

Lemma Forall2_forallb {A B} (Rel: A -> B -> Prop) (q: B -> bool) xs ys :
  (forall x y, Rel x y -> q y = true) -> Forall2 Rel xs ys -> forallb q ys = true.
Proof. intros H Hf. induction Hf; [reflexivity|]. cbn [forallb]. rewrite (H _ _ H0), IHHf. reflexivity. Qed.

Section Zip.
  Context {T X A: Type}.
  Variable g : A -> X.
  Variable run : T -> X -> res pv.
  Variable tail : list T -> res (list pv).
  Variable qc : T -> A -> bool.
  Let none : T -> option pv := fun _ => None.

  Definition stepR (l: list A) (d: T) (x: A) (y: pv) : Prop := qc d x = true /\ In x l /\ run d (g x) = Ok y.

  Lemma pos_walk_zip (l: list A) ds a : pos_all qc ds l = true ->
    pos_walk run none ds (map g l) = Ok a -> zip3 (stepR l) ds l a.
  Proof.
    assert (Hgen: forall l0, (forall x, In x l0 -> In x l) -> forall ds a, pos_all qc ds l0 = true ->
              pos_walk run none ds (map g l0) = Ok a -> zip3 (stepR l) ds l0 a).
    { induction l0 as [|x l0 IH]; intros Hin ds0 a0 HA H; destruct ds0 as [|d ds0]; try discriminate HA.
      - inversion H. constructor.
      - cbn [pos_all] in HA. apply andb_prop in HA. destruct HA as [Hq HA].
        cbn [map pos_walk] in H. unfold none in H at 1.
        destruct (run d (g x)) as [y|] eqn:Ey; [|discriminate H].
        destruct (pos_walk run none ds0 (map g l0)) as [ys|] eqn:Eys; [|discriminate H]. inversion H; subst.
        constructor; [split; [exact Hq | split; [apply Hin; left; reflexivity | exact Ey]]|].
        apply IH; [intros x0 Hx0; apply Hin; right; exact Hx0 | exact HA | exact Eys]. }
    apply Hgen. auto.
  Qed.

  Lemma fix_walk_zip (l: list A) ds a : pos_all qc ds l = true ->
    fix_walk run tail ds (map g l) = Ok a -> zip3 (stepR l) ds l a.
  Proof.
    assert (Hgen: forall l0, (forall x, In x l0 -> In x l) -> forall ds a, pos_all qc ds l0 = true ->
              fix_walk run tail ds (map g l0) = Ok a -> zip3 (stepR l) ds l0 a).
    { induction l0 as [|x l0 IH]; intros Hin ds0 a0 HA H; destruct ds0 as [|d ds0]; try discriminate HA.
      - inversion H. constructor.
      - cbn [pos_all] in HA. apply andb_prop in HA. destruct HA as [Hq HA].
        cbn [map fix_walk] in H.
        destruct (run d (g x)) as [y|] eqn:Ey; [|discriminate H].
        destruct (fix_walk run tail ds0 (map g l0)) as [ys|] eqn:Eys; [|discriminate H]. inversion H; subst.
        constructor; [split; [exact Hq | split; [apply Hin; left; reflexivity | exact Ey]]|].
        apply IH; [intros x0 Hx0; apply Hin; right; exact Hx0 | exact HA | exact Eys]. }
    apply Hgen. auto.
  Qed.

  Lemma mid_var_zip (l: list A) u m : forallb (qc u) l = true ->
    mid_var run u (Some (map g l)) = Ok m -> Forall2 (stepR l u) l m.
  Proof.
    unfold mid_var. rewrite mapM_map.
    assert (Hgen: forall l0, (forall x, In x l0 -> In x l) -> forall m0, forallb (qc u) l0 = true ->
              mapM (fun x => run u (g x)) l0 = Ok m0 -> Forall2 (stepR l u) l0 m0).
    { induction l0 as [|x l0 IH]; intros Hin m0 HA H.
      - inversion H. constructor.
      - cbn [forallb] in HA. apply andb_prop in HA. destruct HA as [Hq HA]. cbn [mapM] in H.
        destruct (run u (g x)) as [y|] eqn:Ey; [|discriminate H].
        destruct (mapM (fun x0 => run u (g x0)) l0) as [ys|] eqn:Eys; [|discriminate H]. inversion H; subst.
        constructor; [split; [exact Hq | split; [apply Hin; left; reflexivity | exact Ey]]|].
        apply IH; [intros x0 Hx0; apply Hin; right; exact Hx0 | exact HA | reflexivity]. }
    apply Hgen. auto.
  Qed.
End Zip.

(* running a second walk over the outputs of a first one gives the inputs back when each step inverts *)
Lemma zip3_pos_walk_back {T A X} (Rel: T -> A -> pv -> Prop) (g2: pv -> X) (run2: T -> X -> res pv) (konst: T -> option pv)
      (inj: A -> pv) ds xs ys :
  (forall d x y, Rel d x y -> match konst d with Some c => Ok c | None => run2 d (g2 y) end = Ok (inj x)) ->
  zip3 Rel ds xs ys -> pos_walk run2 konst ds (map g2 ys) = Ok (map inj xs).
Proof.
  intros H Hz. induction Hz; [reflexivity|]. cbn [map pos_walk]. rewrite (H _ _ _ H0), IHHz. reflexivity.
Qed.

Lemma zip3_fix_walk_back {T A X} (Rel: T -> A -> pv -> Prop) (g2: pv -> X) (run2: T -> X -> res pv) tail (inj: A -> pv) ds xs ys :
  (forall d x y, Rel d x y -> run2 d (g2 y) = Ok (inj x)) ->
  zip3 Rel ds xs ys -> fix_walk run2 tail ds (map g2 ys) = Ok (map inj xs).
Proof.
  intros H Hz. induction Hz; [reflexivity|]. cbn [map fix_walk]. rewrite (H _ _ _ H0), IHHz. reflexivity.
Qed.

Lemma Forall2_mapM_back {A X} (Rel: A -> pv -> Prop) (g2: pv -> X) (f: X -> res pv) (inj: A -> pv) xs ys :
  (forall x y, Rel x y -> f (g2 y) = Ok (inj x)) -> Forall2 Rel xs ys -> mapM f (map g2 ys) = Ok (map inj xs).
Proof.
  intros H Hf. induction Hf; [reflexivity|]. cbn [map mapM]. rewrite (H _ _ H0), IHHf. reflexivity.
Qed.

Lemma Forall2_length' {A B} (Rel: A -> B -> Prop) xs ys : Forall2 Rel xs ys -> List.length ys = List.length xs.
Proof. intros Hf. induction Hf; [reflexivity|]. cbn [List.length]. rewrite IHHf. reflexivity. Qed.

Lemma zip3_in {T A B} (Rel: T -> A -> B -> Prop) ds xs ys :
  zip3 Rel ds xs ys -> zip3 (fun d x y => In d ds /\ Rel d x y) ds xs ys.
Proof.
  intros Hz. induction Hz; constructor.
  - split; [left; reflexivity | exact H].
  - refine (zip3_impl _ _ _ _ _ _ IHHz). intros d0 x0 y0 [Hd Hr]. split; [right; exact Hd | exact Hr].
Qed.

Lemma skipn_skipn' {A} x y (l: list A) : skipn x (skipn y l) = skipn (y + x) l.
Proof.
  revert l. induction y as [|y IH]; intros l; [reflexivity|].
  destruct l as [|a l]; [cbn; destruct x; reflexivity|]. cbn [skipn Nat.add]. apply IH.
Qed.

Lemma parts_rejoin {A} (l: list A) np ns : (np + ns <= List.length l)%nat ->
  firstn np l ++ firstn (List.length l - np - ns) (skipn np l) ++ skipn (List.length l - ns) l = l.
Proof.
  intros H.
  assert (E1: skipn (List.length l - ns) l = skipn (List.length l - np - ns) (skipn np l))
    by (rewrite skipn_skipn'; f_equal; lia).
  rewrite E1, firstn_skipn, firstn_skipn. reflexivity.
Qed.

Lemma omapM_pos_eq {T} (g: T -> option pv) (qc: T -> pv -> bool) ts (M cs: list pv) :
  (forall d x c, In d ts -> qc d x = true -> g d = Some c -> x = c) ->
  pos_all qc ts M = true -> omapM g ts = Some cs -> M = cs.
Proof.
  revert M cs. induction ts as [|t ts IH]; intros M cs Hq HA Hm; destruct M as [|x M]; try discriminate HA.
  - inversion Hm. reflexivity.
  - cbn [pos_all] in HA. apply andb_prop in HA. destruct HA as [Hx HA].
    cbn [omapM] in Hm. destruct (g t) as [c|] eqn:Eg; [|discriminate Hm].
    destruct (omapM g ts) as [ys|] eqn:Er; [|discriminate Hm]. inversion Hm; subst.
    rewrite (Hq t x c (or_introl eq_refl) Hx Eg). f_equal.
    apply (IH M ys); [intros d x0 c0 Hd; apply Hq; right; exact Hd | exact HA | reflexivity].
Qed.

(* totality of conforming walks *)
Section Total.
  Context {T X A: Type}.
  Variable g : A -> X.
  Variable run : T -> X -> res pv.
  Variable tail : list T -> res (list pv).
  Variable qc : T -> A -> bool.

  Lemma pos_walk_total (l: list A) ds : pos_all qc ds l = true ->
    (forall d x, In x l -> qc d x = true -> exists y, run d (g x) = Ok y) ->
    exists a, pos_walk run (fun _ => None) ds (map g l) = Ok a.
  Proof.
    revert l. induction ds as [|d ds IH]; intros l HA Hr; destruct l as [|x l]; try discriminate HA.
    - exists []. reflexivity.
    - cbn [pos_all] in HA. apply andb_prop in HA. destruct HA as [Hq HA].
      destruct (Hr d x (or_introl eq_refl) Hq) as [y Hy].
      destruct (IH l HA (fun d0 x0 Hx0 => Hr d0 x0 (or_intror Hx0))) as [ys Hys].
      exists (y :: ys). cbn [map pos_walk]. rewrite Hy, Hys. reflexivity.
  Qed.

  Lemma fix_walk_total (l: list A) ds : pos_all qc ds l = true ->
    (forall d x, In x l -> qc d x = true -> exists y, run d (g x) = Ok y) ->
    exists a, fix_walk run tail ds (map g l) = Ok a.
  Proof.
    revert l. induction ds as [|d ds IH]; intros l HA Hr; destruct l as [|x l]; try discriminate HA.
    - exists []. reflexivity.
    - cbn [pos_all] in HA. apply andb_prop in HA. destruct HA as [Hq HA].
      destruct (Hr d x (or_introl eq_refl) Hq) as [y Hy].
      destruct (IH l HA (fun d0 x0 Hx0 => Hr d0 x0 (or_intror Hx0))) as [ys Hys].
      exists (y :: ys). cbn [map fix_walk]. rewrite Hy, Hys. reflexivity.
  Qed.

  Lemma mid_var_total (l: list A) u : forallb (qc u) l = true ->
    (forall x, In x l -> qc u x = true -> exists y, run u (g x) = Ok y) ->
    exists m, mid_var run u (Some (map g l)) = Ok m.
  Proof.
    unfold mid_var. rewrite mapM_map. induction l as [|x l IH]; intros HA Hr.
    - exists []. reflexivity.
    - cbn [forallb] in HA. apply andb_prop in HA. destruct HA as [Hq HA].
      destruct (Hr x (or_introl eq_refl) Hq) as [y Hy].
      destruct (IH HA (fun x0 Hx0 => Hr x0 (or_intror Hx0))) as [ys Hys].
      exists (y :: ys). cbn [mapM]. rewrite Hy, Hys. reflexivity.
  Qed.
End Total.
