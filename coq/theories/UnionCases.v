(* C11: case formats of the behavioural correspondence (harness/props/c11.py).
   The behaviour of every member (un)packer on the one input of the case is observed on
   the real implementation and embedded as a constant function; the model then decides
   which member wins / whether the method raises, and the domain predicates and the
   reference are evaluated here (no second copy of them in Python is trusted: the Python
   oracle's own verdicts are cross-checked against these). *)
From Coq Require Import List String ZArith Bool.
From Verif Require Import UnionModel.
Import ListNotations.

(* ---------- union decode ---------- *)
Inductive cmember := CS (k: skind) (r: option uv) | CN (e: nat) (r: option uv).

Definition to_member (c: cmember) : member :=
  match c with CS k _ => MS k | CN e r => MN e (fun _ => r) end.

Fixpoint co_of (ms: list cmember) (k: skind) (d: uv) : option uv :=
  match ms with
  | [] => None
  | CS k' r :: t => if skind_eqb k k' then r else co_of t k d
  | CN _ _ :: t => co_of t k d
  end.

Record ucase := UC {
  uc_ms : list cmember;      (* members in declaration order *)
  uc_d : uv;                 (* input *)
  uc_obs : option uv;        (* what the real union unpacker did (None = raised) *)
  uc_ref : option uv;        (* what the Python reference oracle expects *)
  uc_cls : devclass          (* the Python oracle's classification of obs vs ref *)
}.

Definition ucase_model (c: ucase) := union_dec (co_of (uc_ms c)) (map to_member (uc_ms c)) (uc_d c).
Definition ucase_ref (c: ucase) := ref_union (co_of (uc_ms c)) (map to_member (uc_ms c)) (uc_d c).
Definition ucase_cls (c: ucase) := classify (co_of (uc_ms c)) (map to_member (uc_ms c)) (uc_d c).

Definition ucase_ok_model (c: ucase) : bool := ouv_eqb (ucase_model c) (uc_obs c).
Definition ucase_ok_ref (c: ucase) : bool := ouv_eqb (ucase_ref c) (uc_ref c).
Definition ucase_ok_cls (c: ucase) : bool := devclass_eqb (ucase_cls c) (uc_cls c).
Definition ucase_ok (c: ucase) : bool := ucase_ok_model c && ucase_ok_ref c && ucase_ok_cls c.
Definition ucase_stale (c: ucase) : bool :=
  negb (ucase_ok_model c) && ucase_ok_ref c && ouv_eqb (uc_obs c) (uc_ref c) && negb (devclass_eqb (ucase_cls c) Agree).

(* ---------- Optional ---------- *)
Record ocase := OC { oc_inner : option uv; oc_d : uv; oc_obs : option uv }.
Definition ocase_ok (c: ocase) : bool := ouv_eqb (opt_dec (fun _ => oc_inner c) (oc_d c)) (oc_obs c).

(* ---------- union encode ---------- *)
Inductive cpmember := CP (cls: string) (e: option nat) (r: option uv).
Definition to_pmember (c: cpmember) : pmember := match c with CP cls e r => PM cls e (fun _ => r) end.

Record pcase := PC {
  pc_ms : list cpmember;
  pc_v : uv;
  pc_obs : option uv;
  pc_ref : option uv;        (* Python reference: the matching member's own packer *)
  pc_disj : bool             (* the Python oracle's verdict: all firing branches agree *)
}.
Definition pcase_ok_model (c: pcase) : bool := ouv_eqb (pack_union (map to_pmember (pc_ms c)) (pc_v c)) (pc_obs c).
Definition pcase_ok_disj (c: pcase) : bool := Bool.eqb (wire_disjoint (map to_pmember (pc_ms c)) (pc_v c)) (pc_disj c).
Definition pcase_ok (c: pcase) : bool := pcase_ok_model c && pcase_ok_disj c.
(* the implementation follows the reference where the (faithful) model deviates in the listed way *)
Definition pcase_stale (c: pcase) : bool :=
  negb (pcase_ok_model c) && ouv_eqb (pc_obs c) (pc_ref c) && negb (wire_disjoint (map to_pmember (pc_ms c)) (pc_v c)).

(* ---------- Literal ---------- *)
Record lcase := LC {
  lc_lits : list lit;
  lc_bdec : option uv;       (* the bytes unpacker on this input *)
  lc_v : uv;
  lc_obs : option uv;
  lc_ref : option uv         (* Python reference: exactly the listed values *)
}.
Definition lcase_ok_model (c: lcase) : bool := ouv_eqb (lit_dec (fun _ => lc_bdec c) (lc_lits c) (lc_v c)) (lc_obs c).
Definition lcase_ok_ref (c: lcase) : bool := ouv_eqb (ref_lit (fun _ => lc_bdec c) (lc_lits c) (lc_v c)) (lc_ref c).
Definition lcase_ok_dom (c: lcase) : bool := lit_nofloat (lc_lits c).
Definition lcase_ok (c: lcase) : bool := lcase_ok_model c && lcase_ok_ref c && lcase_ok_dom c.

(* Literal encode: outcome None = raised; the bytes packer's behaviour on the value is observed *)
Record lecase := LEC {
  le_lits : list lit;
  le_benc : option uv;
  le_v : uv;
  le_obs : option uv;
  le_ref : option uv
}.
Definition flat (o: option (option uv)) : option uv := match o with Some r => r | None => None end.
Definition lecase_ok_model (c: lecase) : bool := ouv_eqb (flat (lit_enc (fun _ => le_benc c) (le_lits c) (le_v c))) (le_obs c).
Definition lecase_ok_ref (c: lecase) : bool := ouv_eqb (flat (ref_lit_enc (fun _ => le_benc c) (le_lits c) (le_v c))) (le_ref c).
Definition lecase_ok (c: lecase) : bool := lecase_ok_model c && lecase_ok_ref c && lit_nofloat (le_lits c).

(* ---------- TypeVar positions ---------- *)
Record tvcase := TVC {
  tv_cs : list cmember;      (* constraints (empty: unconstrained) *)
  tv_fb : option uv;         (* unpacker of the default / bound on this input *)
  tv_d : uv;
  tv_obs : option uv
}.
Definition tvcase_ok (c: tvcase) : bool :=
  ouv_eqb (typevar_dec (co_of (tv_cs c)) (map to_member (tv_cs c)) (fun _ => tv_fb c) (tv_d c)) (tv_obs c).
