(* C16 - proofs about the string-literal model (PyStrLit.v). *)
From Coq Require Import List NArith Bool Lia.
From Verif Require Import PyStrLit.
Import ListNotations.
Open Scope N_scope.

(* ------------------------------------------------------------------ tactics *)
Ltac b2p :=
  repeat match goal with
  | H: _ || _ = true |- _ => apply orb_true_iff in H
  | H: _ || _ = false |- _ => apply orb_false_iff in H; destruct H
  | H: _ && _ = true |- _ => apply andb_true_iff in H; destruct H
  | H: _ && _ = false |- _ => apply andb_false_iff in H
  | H: negb _ = true |- _ => apply negb_true_iff in H
  | H: negb _ = false |- _ => apply negb_false_iff in H
  | H: (_ =? _) = true |- _ => apply N.eqb_eq in H
  | H: (_ =? _) = false |- _ => apply N.eqb_neq in H
  | H: (_ <? _) = true |- _ => apply N.ltb_lt in H
  | H: (_ <? _) = false |- _ => apply N.ltb_ge in H
  | H: (_ <=? _) = true |- _ => apply N.leb_le in H
  | H: (_ <=? _) = false |- _ => apply N.leb_gt in H
  end.

(* decide every comparison in the goal that lia can decide from the context *)
Ltac dec1 :=
  match goal with
  | |- context [?a =? ?b] =>
      first [ replace (a =? b) with false by (symmetry; apply N.eqb_neq; lia)
            | replace (a =? b) with true by (symmetry; apply N.eqb_eq; lia) ]
  | |- context [?a <? ?b] =>
      first [ replace (a <? b) with false by (symmetry; apply N.ltb_ge; lia)
            | replace (a <? b) with true by (symmetry; apply N.ltb_lt; lia) ]
  | |- context [?a <=? ?b] =>
      first [ replace (a <=? b) with false by (symmetry; apply N.leb_gt; lia)
            | replace (a <=? b) with true by (symmetry; apply N.leb_le; lia) ]
  end.
Ltac dec := repeat (dec1; cbv beta iota delta [negb andb orb]).

Lemma quote_cases q : is_quote q = true -> q = SQ \/ q = DQ.
Proof. unfold is_quote. intros H. b2p. destruct H as [H|H]; b2p; auto. Qed.

(* ------------------------------------------------------------------ hex *)
Lemma hexval_hexdigit d : d < 16 -> hexval (hexdigit d) = Some d.
Proof.
  intros H. unfold hexdigit, hexval.
  destruct (d <? 10) eqn:E; b2p; dec; f_equal; lia.
Qed.

Lemma pow16_succ k : 16 ^ N.of_nat (S k) = 16 * 16 ^ N.of_nat k.
Proof. rewrite Nat2N.inj_succ, N.pow_succ_r'. reflexivity. Qed.

Lemma pow16_pos k : 0 < 16 ^ N.of_nat k.
Proof. apply N.neq_0_lt_0, N.pow_nonzero. discriminate. Qed.

Lemma top_digit k n : n < 16 ^ N.of_nat (S k) -> n / 16 ^ N.of_nat k < 16.
Proof.
  intros H. rewrite pow16_succ in H. pose proof (pow16_pos k).
  apply N.div_lt_upper_bound; lia.
Qed.

(* reading back k hex digits, for every k and every accumulator *)
Lemma scan_hex t b q : forall k acc out n l,
  n < 16 ^ N.of_nat (S k) ->
  valid_cp (acc * 16 ^ N.of_nat (S k) + n) = true ->
  scan t b q (Hex (S k) acc) out (hex_k (S k) n ++ l) =
  scan t b q Norm ((acc * 16 ^ N.of_nat (S k) + n) :: out) l.
Proof.
  induction k as [|k IH]; intros acc out n l Hn Hv.
  - change (16 ^ N.of_nat 1) with 16 in *. change (16 ^ N.of_nat 0) with 1 in *.
    cbn [hex_k app scan step]. rewrite N.div_1_r, hexval_hexdigit by lia.
    cbv zeta. rewrite Hv. reflexivity.
  - cbn [hex_k app]. cbn [scan step].
    pose proof (top_digit (S k) n Hn) as Hd. pose proof (pow16_pos (S k)) as Hp.
    rewrite hexval_hexdigit by exact Hd. cbv zeta.
    assert (Hm: n mod 16 ^ N.of_nat (S k) < 16 ^ N.of_nat (S k)) by (apply N.mod_lt; lia).
    assert (E: acc * 16 ^ N.of_nat (S (S k)) + n =
               (acc * 16 + n / 16 ^ N.of_nat (S k)) * 16 ^ N.of_nat (S k) + n mod 16 ^ N.of_nat (S k)).
    { rewrite (pow16_succ (S k)). rewrite (N.div_mod n (16 ^ N.of_nat (S k))) at 1 by lia. lia. }
    rewrite E in *. apply IH; assumption.
Qed.

Lemma hexdigit_printable d : d < 16 -> 32 <= hexdigit d < 127.
Proof. intros H. unfold hexdigit. destruct (d <? 10) eqn:E; b2p; lia. Qed.

Lemma hex_k_printable : forall k n, n < 16 ^ N.of_nat k -> Forall (fun c => 32 <= c < 127) (hex_k k n).
Proof.
  induction k as [|k IH]; intros n H; cbn [hex_k]; constructor.
  - apply hexdigit_printable, top_digit, H.
  - apply IH, N.mod_lt. pose proof (pow16_pos k). lia.
Qed.

(* ------------------------------------------------------------------ single steps *)
Lemma step_bs b q out : is_quote q = true -> step false b q Norm out BS = ACont Esc out.
Proof. intros H. destruct (quote_cases q H) as [-> | ->]; destruct b; reflexivity. Qed.

Lemma step_close b q out : step false b q Norm out q = AStop out.
Proof. cbn [step]. unfold on_norm. rewrite N.eqb_refl. reflexivity. Qed.

(* ------------------------------------------------------------------ repr(str): one character *)
Lemma scan_esc_char p q c out l :
  oracle_ok p -> is_quote q = true -> valid_cp c = true ->
  scan false false q Norm out (esc_char p q c ++ l) = scan false false q Norm (c :: out) l.
Proof.
  intros Hp Hq Hv. pose proof (Hp c) as Hs.
  destruct (quote_cases q Hq) as [-> | ->]; unfold SQ, DQ, BS in *;
  unfold esc_char, BS;
  repeat match goal with
  | |- context [if ?t then _ else _] =>
      lazymatch t with
      | context [c] => let E := fresh "E" in destruct t eqn:E
      end
  end; b2p; unfold valid_cp in Hv; b2p;
  repeat match goal with H: _ \/ _ |- _ => destruct H end; b2p.
  (* every branch: run the machine on the emitted characters *)
  all: try (subst c; reflexivity).
  (* \xHH *)
  all: try (change (scan false false ?q Norm out ((92 :: 120 :: hex_k 2 c) ++ l))
              with (scan false false q (Hex 2 0) out (hex_k 2 c ++ l));
            rewrite scan_hex by (change (16 ^ N.of_nat 2) with 256; first [lia | unfold valid_cp; apply N.ltb_lt; lia]);
            change (16 ^ N.of_nat 2) with 256; rewrite N.mul_0_l, N.add_0_l; reflexivity).
  (* \uHHHH *)
  all: try (change (scan false false ?q Norm out ((92 :: 117 :: hex_k 4 c) ++ l))
              with (scan false false q (Hex 4 0) out (hex_k 4 c ++ l));
            rewrite scan_hex by (change (16 ^ N.of_nat 4) with 65536; first [lia | unfold valid_cp; apply N.ltb_lt; lia]);
            change (16 ^ N.of_nat 4) with 65536; rewrite N.mul_0_l, N.add_0_l; reflexivity).
  (* \UHHHHHHHH *)
  all: try (change (scan false false ?q Norm out ((92 :: 85 :: hex_k 8 c) ++ l))
              with (scan false false q (Hex 8 0) out (hex_k 8 c ++ l));
            rewrite scan_hex by (change (16 ^ N.of_nat 8) with 4294967296; first [lia | unfold valid_cp; apply N.ltb_lt; lia]);
            change (16 ^ N.of_nat 8) with 4294967296; rewrite N.mul_0_l, N.add_0_l; reflexivity).
  (* verbatim characters *)
  all: cbn [app scan step]; unfold on_norm, raw_ok, valid_cp, BS.
  all: try (assert (Hns: is_surrogate c = false)
              by (destruct (is_surrogate c) eqn:Es; [rewrite (Hs eq_refl) in *; discriminate | reflexivity]);
            rewrite Hns).
  all: try (assert (Hns: is_surrogate c = false)
              by (unfold is_surrogate; apply andb_false_iff; left; apply N.leb_gt; lia);
            rewrite Hns).
  all: dec; reflexivity.
Qed.

Lemma esc_char_head p q c : is_quote q = true ->
  exists f t, esc_char p q c = f :: t /\ f <> q.
Proof.
  intros Hq. unfold esc_char.
  assert (Hb: BS <> q) by (destruct (quote_cases q Hq) as [-> | ->]; discriminate).
  destruct ((c =? q) || (c =? BS)) eqn:E1; [eauto|].
  repeat match goal with
  | |- context [if ?t then _ else _] => destruct t; [eauto|]
  end; try (b2p; eexists; eexists; split; [reflexivity| congruence]).
Qed.

Lemma scan_repr_body p q : oracle_ok p -> is_quote q = true ->
  forall s out l, wf_str s ->
  scan false false q Norm out (repr_body p q s ++ l) = scan false false q Norm (rev s ++ out) l.
Proof.
  intros Hp Hq. induction s as [|c s IH]; intros out l Hw; [reflexivity|].
  inversion Hw as [|? ? Hc Hs]; subst.
  unfold repr_body in *. cbn [flat_map]. rewrite <- app_assoc.
  rewrite scan_esc_char by assumption. rewrite IH by assumption.
  cbn [rev]. rewrite <- app_assoc. reflexivity.
Qed.

Lemma choose_quote_is_quote s : is_quote (choose_quote s) = true.
Proof. unfold choose_quote. destruct (has SQ s && negb (has DQ s)); reflexivity. Qed.

(* a literal whose text after the opening quote does not start with two more quotes is
   read in single-quote mode *)
Lemma lex_quoted_single b q r :
  is_quote q = true ->
  (forall r', r <> q :: q :: r') ->
  lex_quoted b (q :: r) = scan false b q Norm [] r.
Proof.
  intros Hq Hr. cbn [lex_quoted]. rewrite Hq.
  destruct r as [|q1 [|q2 r']]; try reflexivity.
  destruct (N.eqb_spec q1 q) as [-> |]; [|reflexivity].
  destruct (N.eqb_spec q2 q) as [-> |]; [|reflexivity].
  exfalso. eapply Hr. reflexivity.
Qed.

Lemma ctx_ok_not_quote q c r : is_quote q = true -> ctx_ok (c :: r) = true -> c <> q.
Proof. intros Hq H Hc. subst. cbn in H. rewrite Hq in H. discriminate. Qed.

(* ------------------------------------------------------------------ the theorem for repr(str) *)
Theorem repr_lex p s rest :
  oracle_ok p -> wf_str s -> ctx_ok rest = true ->
  lex_string (py_repr p s ++ rest) = Some (s, rest).
Proof.
  intros Hp Hw Hc. unfold lex_string, py_repr. cbv zeta.
  set (q := choose_quote s). assert (Hq: is_quote q = true) by apply choose_quote_is_quote.
  cbn [app]. rewrite lex_quoted_single; [| exact Hq |].
  - rewrite <- app_assoc. rewrite scan_repr_body by assumption.
    cbn [app scan]. rewrite step_close. rewrite app_nil_r, rev_involutive. reflexivity.
  - intros r' E. destruct s as [|c s'].
    + cbn in E. destruct rest as [|c0 rest']; [discriminate|].
      injection E as E1 E2. apply (ctx_ok_not_quote q c0 rest' Hq Hc). exact E1.
    + unfold repr_body in E. cbn [flat_map] in E.
      destruct (esc_char_head p q c Hq) as (f & t & Ef & Hf). rewrite Ef in E.
      cbn in E. injection E as E1 _. congruence.
Qed.

(* ascii(s) is the instance with the oracle that calls nothing printable *)
Corollary ascii_lex s rest :
  wf_str s -> ctx_ok rest = true -> lex_string (py_ascii s ++ rest) = Some (s, rest).
Proof. intros. apply repr_lex; auto. intros c _. reflexivity. Qed.

(* ------------------------------------------------------------------ what repr emits *)
(* only printable ASCII and code points the oracle calls printable: no NUL, no newline,
   and (for an oracle satisfying oracle_ok) no surrogate ever reaches the compiler *)
Definition clean (p: N -> bool) (c: N) : Prop := 32 <= c < 127 \/ (127 < c /\ p c = true).

Lemma esc_char_clean p q c : is_quote q = true -> valid_cp c = true -> Forall (clean p) (esc_char p q c).
Proof.
  intros Hq Hv. unfold valid_cp in Hv. b2p.
  assert (Hh: forall k, c < 16 ^ N.of_nat k -> Forall (clean p) (hex_k k c)).
  { intros k Hk. eapply Forall_impl; [|apply hex_k_printable, Hk]. intros a Ha. left. exact Ha. }
  unfold esc_char, BS.
  repeat match goal with
  | |- context [if ?t then _ else _] => let E := fresh "E" in destruct t eqn:E
  end; b2p; repeat match goal with H: _ \/ _ |- _ => destruct H end; b2p.
  all: repeat match goal with
       | |- Forall _ (_ :: _) => apply Forall_cons
       | |- Forall _ [] => apply Forall_nil
       end.
  all: try (apply Hh; first [change (16 ^ N.of_nat 2) with 256 | change (16 ^ N.of_nat 4) with 65536
                            | change (16 ^ N.of_nat 8) with 4294967296]; lia).
  all: try (left; destruct (quote_cases q Hq) as [-> | ->]; unfold SQ, DQ in *; lia).
  all: try (right; split; [lia | assumption]).
Qed.

Lemma repr_body_clean p q s : is_quote q = true -> wf_str s -> Forall (clean p) (repr_body p q s).
Proof.
  intros Hq Hw. unfold repr_body. induction Hw as [|c s Hc Hs IH]; cbn [flat_map]; [constructor|].
  apply Forall_app. split; [apply esc_char_clean; assumption | exact IH].
Qed.

Theorem repr_clean p s : wf_str s -> Forall (clean p) (py_repr p s).
Proof.
  intros Hw. unfold py_repr. cbv zeta. set (q := choose_quote s).
  assert (Hq: is_quote q = true) by apply choose_quote_is_quote.
  assert (Hqc: clean p q) by (left; destruct (quote_cases q Hq) as [-> | ->]; unfold SQ, DQ; lia).
  constructor; [exact Hqc|]. apply Forall_app. split; [|constructor; [exact Hqc | constructor]].
  apply repr_body_clean; assumption.
Qed.

(* ------------------------------------------------------------------ repr(bytes) *)
Lemma scan_esc_byte q c out l :
  is_quote q = true -> c < 256 ->
  scan false true q Norm out (esc_byte q c ++ l) = scan false true q Norm (c :: out) l.
Proof.
  intros Hq Hv.
  destruct (quote_cases q Hq) as [-> | ->]; unfold SQ, DQ, BS in *;
  unfold esc_byte, BS;
  repeat match goal with
  | |- context [if ?t then _ else _] =>
      lazymatch t with
      | context [c] => let E := fresh "E" in destruct t eqn:E
      end
  end; b2p;
  repeat match goal with H: _ \/ _ |- _ => destruct H end; b2p.
  all: try (subst c; reflexivity).
  all: try (change (scan false true ?q Norm out ((92 :: 120 :: hex_k 2 c) ++ l))
              with (scan false true q (Hex 2 0) out (hex_k 2 c ++ l));
            rewrite scan_hex by (change (16 ^ N.of_nat 2) with 256; first [lia | unfold valid_cp; apply N.ltb_lt; lia]);
            change (16 ^ N.of_nat 2) with 256; rewrite N.mul_0_l, N.add_0_l; reflexivity).
  all: cbn [app scan step]; unfold on_norm, raw_ok, valid_cp, is_surrogate, BS.
  all: dec; reflexivity.
Qed.

Lemma esc_byte_head q c : is_quote q = true -> exists f t, esc_byte q c = f :: t /\ f <> q.
Proof.
  intros Hq. unfold esc_byte.
  assert (Hb: BS <> q) by (destruct (quote_cases q Hq) as [-> | ->]; discriminate).
  destruct ((c =? q) || (c =? BS)) eqn:E1; [eauto|].
  repeat match goal with
  | |- context [if ?t then _ else _] => destruct t; [eauto|]
  end. b2p. eexists; eexists; split; [reflexivity| congruence].
Qed.

Lemma scan_bytes_body q : is_quote q = true -> forall s out l, wf_bytes s ->
  scan false true q Norm out (flat_map (esc_byte q) s ++ l) = scan false true q Norm (rev s ++ out) l.
Proof.
  intros Hq. induction s as [|c s IH]; intros out l Hw; [reflexivity|].
  inversion Hw as [|? ? Hc Hs]; subst. cbn [flat_map]. rewrite <- app_assoc.
  rewrite scan_esc_byte by assumption. rewrite IH by assumption.
  cbn [rev]. rewrite <- app_assoc. reflexivity.
Qed.

Theorem repr_bytes_lex s rest :
  wf_bytes s -> ctx_ok rest = true ->
  lex_bytes (py_repr_bytes s ++ rest) = Some (s, rest).
Proof.
  intros Hw Hc. unfold lex_bytes, py_repr_bytes, py_repr_bytes_lit. cbv zeta.
  set (q := choose_quote s). assert (Hq: is_quote q = true) by apply choose_quote_is_quote.
  cbn [app]. rewrite lex_quoted_single; [| exact Hq |].
  - rewrite <- app_assoc.
    rewrite scan_bytes_body by assumption. cbn [app scan]. rewrite step_close. rewrite app_nil_r, rev_involutive. reflexivity.
  - intros r' E. destruct s as [|c s'].
    + cbn in E. destruct rest as [|c0 rest']; [discriminate|].
      injection E as E1 E2. apply (ctx_ok_not_quote q c0 rest' Hq Hc). exact E1.
    + cbn [flat_map] in E.
      destruct (esc_byte_head q c Hq) as (f & t & Ef & Hf). rewrite Ef in E.
      cbn in E. injection E as E1 _. congruence.
Qed.

(* ------------------------------------------------------------------ raw splicing *)
(* between static quote characters a string keeps its meaning iff it has no quote,
   backslash, newline, NUL or surrogate: true of Python identifiers, false in general *)
Lemma scan_plain q : is_quote q = true -> forall s out l,
  Forall (fun c => plain_char c = true) s ->
  scan false false q Norm out (s ++ l) = scan false false q Norm (rev s ++ out) l.
Proof.
  intros Hq. induction s as [|c s IH]; intros out l Hs; [reflexivity|].
  inversion Hs as [|? ? Hc Hs']; subst. cbn [app scan step].
  unfold plain_char, is_quote in Hc. b2p.
  unfold on_norm. rewrite H0. unfold SQ, DQ, BS in *.
  destruct (quote_cases q Hq) as [-> | ->]; unfold SQ, DQ; dec;
  (rewrite IH by assumption; cbn [rev]; rewrite <- app_assoc; reflexivity).
Qed.

Theorem raw_plain_lex s rest :
  Forall (fun c => plain_char c = true) s -> ctx_ok rest = true ->
  lex_string (SQ :: s ++ SQ :: rest) = Some (s, rest).
Proof.
  intros Hs Hc. unfold lex_string.
  assert (Hq: is_quote SQ = true) by reflexivity.
  rewrite lex_quoted_single; [| exact Hq |].
  - rewrite scan_plain by assumption. cbn [scan]. rewrite step_close. rewrite app_nil_r, rev_involutive. reflexivity.
  - intros r' E. destruct s as [|c s'].
    + cbn in E. destruct rest as [|c0 rest']; [discriminate|].
      injection E as E1 E2. apply (ctx_ok_not_quote SQ c0 rest' Hq Hc). exact E1.
    + cbn in E. injection E as E1 _. inversion Hs as [|? ? Hc' _]; subst.
      unfold plain_char in Hc'. rewrite Hq in Hc'. discriminate.
Qed.

(* either quote character as delimiter *)
Theorem quoted_plain_lex q s rest :
  is_quote q = true -> Forall (fun c => plain_char c = true) s -> ctx_ok rest = true ->
  lex_string (q :: s ++ q :: rest) = Some (s, rest).
Proof.
  intros Hq Hs Hc. unfold lex_string.
  rewrite lex_quoted_single; [| exact Hq |].
  - rewrite scan_plain by assumption. cbn [scan]. rewrite step_close. rewrite app_nil_r, rev_involutive. reflexivity.
  - intros r' E. destruct s as [|c s'].
    + cbn in E. destruct rest as [|c0 rest']; [discriminate|].
      injection E as E1 E2. apply (ctx_ok_not_quote q c0 rest' Hq Hc). exact E1.
    + cbn in E. injection E as E1 _. inversion Hs as [|? ? Hc' _]; subst.
      unfold plain_char in Hc'. rewrite Hq in Hc'. discriminate.
Qed.
