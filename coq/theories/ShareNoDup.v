(* C18: the new containers of a result are pairwise distinct objects (no aliasing inside a result). *)
From Coq Require Import List Arith Bool ZArith Lia.
From Verif Require Import Share ShareProofs ShareTwice.
Import ListNotations.

Definition isfresh (n0 l: nat) : bool := negb (l <? n0).
Definition flabels (n0: nat) (r: lv) : list nat := filter (isfresh n0) (labels r).

(* n <= n', the fresh labels of r lie in [n, n') and are pairwise distinct *)
Definition inv (n0 n n': nat) (fl: list nat) : Prop :=
  n <= n' /\ (forall l, In l fl -> n <= l /\ l < n') /\ NoDup fl.

Lemma NoDup_app_disj {A} (a b: list A) :
  NoDup a -> NoDup b -> (forall x, In x a -> ~ In x b) -> NoDup (a ++ b).
Proof.
  induction 1 as [| x a Hx Ha IH]; intros Hb Hd; simpl; [exact Hb |].
  constructor.
  - intros Hin. apply in_app_or in Hin. destruct Hin as [Hin | Hin]; [contradiction | exact (Hd x (or_introl eq_refl) Hin)].
  - apply IH; auto. intros y Hy. apply Hd. right. exact Hy.
Qed.

Lemma filter_flat_map {A B} (p: B -> bool) (f: A -> list B) l :
  filter p (flat_map f l) = flat_map (fun x => filter p (f x)) l.
Proof. induction l as [| x r IH]; simpl; [reflexivity |]. now rewrite filter_app, IH. Qed.

Lemma flabels_old n0 v : all_old n0 v = true -> flabels n0 v = [].
Proof.
  intros Ho. unfold flabels. pose proof (all_old_labels n0 v Ho) as H.
  induction (labels v) as [| a r IH]; simpl; [reflexivity |].
  assert (Hl: a < n0) by (apply H; left; reflexivity).
  unfold isfresh at 1. apply Nat.ltb_lt in Hl. rewrite Hl. simpl. apply IH. intros x Hx. apply H. right. exact Hx.
Qed.

Lemma inv_nil n0 n : inv n0 n n [].
Proof. split; [lia | split; [intros l [] | constructor]]. Qed.

Lemma inv_app n0 a b c fl1 fl2 : inv n0 a b fl1 -> inv n0 b c fl2 -> inv n0 a c (fl1 ++ fl2).
Proof.
  intros [H1 [R1 D1]] [H2 [R2 D2]]. split; [lia |]. split.
  - intros l Hl. apply in_app_or in Hl. destruct Hl as [Hl | Hl]; [destruct (R1 l Hl) | destruct (R2 l Hl)]; lia.
  - apply NoDup_app_disj; auto. intros x Hx Hx2. destruct (R1 x Hx). destruct (R2 x Hx2). lia.
Qed.

Lemma inv_node n0 n n' sub : n0 <= n -> inv n0 (S n) n' sub -> inv n0 n n' (n :: sub).
Proof.
  intros Hn [H1 [R D]]. split; [lia |]. split.
  - intros l [<- | Hl]; [lia | destruct (R l Hl); lia].
  - constructor; [| exact D]. intros Hin. destruct (R n Hin). lia.
Qed.

Lemma map_st_inv {A B} (f: A -> nat -> B * nat) (fl: B -> list nat) n0 xs :
  Forall (fun x => forall m, n0 <= m -> let (y, m') := f x m in inv n0 m m' (fl y)) xs ->
  forall m, n0 <= m -> let (ys, m') := map_st f xs m in inv n0 m m' (flat_map fl ys).
Proof.
  induction 1 as [| x r Hx Hr IH]; intros m Hm; simpl; [apply inv_nil |].
  specialize (Hx m Hm). destruct (f x m) as [y m1].
  assert (Hm1: n0 <= m1) by (destruct Hx; lia).
  specialize (IH m1 Hm1). destruct (map_st f r m1) as [ys m2]. simpl. eapply inv_app; eauto.
Qed.

Lemma zip_st_inv {A B C} (f: A -> B -> nat -> C * nat) (fl: C -> list nat) n0 xs :
  Forall (fun x => forall e m, n0 <= m -> let (y, m') := f x e m in inv n0 m m' (fl y)) xs ->
  forall es m, n0 <= m -> let (ys, m') := zip_st f es xs m in inv n0 m m' (flat_map fl ys).
Proof.
  induction 1 as [| x r Hx Hr IH]; intros es m Hm; destruct es as [| e es]; simpl; try apply inv_nil.
  specialize (Hx e m Hm). destruct (f x e m) as [y m1].
  assert (Hm1: n0 <= m1) by (destruct Hx; lia).
  specialize (IH es m1 Hm1). destruct (zip_st f es r m1) as [ys m2]. simpl. eapply inv_app; eauto.
Qed.

(* fresh labels of a node *)
Lemma flabels_seq n0 k l xs : flabels n0 (VSeq k l xs) = (if isfresh n0 l then [l] else []) ++ flat_map (flabels n0) xs.
Proof. unfold flabels. simpl. rewrite filter_flat_map. destruct (isfresh n0 l); reflexivity. Qed.
Definition pfl n0 (kv: lv * lv) : list nat := let (a, b) := kv in flabels n0 a ++ flabels n0 b.
Lemma flabels_map n0 k l kvs : flabels n0 (VMap k l kvs) = (if isfresh n0 l then [l] else []) ++ flat_map (pfl n0) kvs.
Proof.
  unfold flabels. simpl. rewrite filter_flat_map.
  assert (H: flat_map (fun x : lv * lv => filter (isfresh n0) (let (k0, x0) := x in labels k0 ++ labels x0)) kvs = flat_map (pfl n0) kvs).
  { induction kvs as [| [a b] r IH]; simpl; [reflexivity |]. now rewrite filter_app, IH. }
  rewrite H. destruct (isfresh n0 l); reflexivity.
Qed.
Lemma flabels_obj n0 c l fs : flabels n0 (VObj c l fs) = (if isfresh n0 l then [l] else []) ++ flat_map (flabels n0) fs.
Proof. unfold flabels. simpl. rewrite filter_flat_map. destruct (isfresh n0 l); reflexivity. Qed.
Lemma isfresh_ge n0 n : n0 <= n -> isfresh n0 n = true.
Proof. intros. unfold isfresh. now rewrite fresh_not_old. Qed.

Lemma ret_old_inv n0 n v : all_old n0 v = true -> inv n0 n n (flabels n0 v).
Proof. intros Ho. rewrite (flabels_old n0 v Ho). apply inv_nil. Qed.

Section PackND.
  Variable E : env.
  Variable n0 : nat.

  Definition P_nd (v: lv) : Prop :=
    forall call e n, all_old n0 v = true -> n0 <= n ->
      let (r, n') := run_pack E v call e n in inv n0 n n' (flabels n0 r).

  Lemma union_nd v call idc es n :
    Forall (fun e => forall n, all_old n0 v = true -> n0 <= n ->
              let (r, n') := run_pack E v call e n in inv n0 n n' (flabels n0 r)) es ->
    all_old n0 v = true -> n0 <= n ->
    let (r, n') := run_pack E v call (IUnion idc es) n in inv n0 n n' (flabels n0 r).
  Proof.
    intros HF Ho Hn. rewrite rp_union. destruct (in_idc idc v); [apply ret_old_inv; assumption |].
    induction HF as [| e1 r1 H1 Hr1 IHr1]; simpl; [apply ret_old_inv; assumption |].
    destruct (negb (is_id e1) && accepts v e1); [apply H1; assumption | apply IHr1].
  Qed.

  Lemma children_old k l xs : all_old n0 (VSeq k l xs) = true -> flat_map (flabels n0) xs = [].
  Proof.
    intros Ho. simpl in Ho. apply andb_prop in Ho. destruct Ho as [_ Ho]. apply forallb_Forall in Ho.
    induction Ho as [| x r Hx Hr IH]; simpl; [reflexivity |]. now rewrite (flabels_old n0 x Hx), IH.
  Qed.
  Lemma children_old_map k l kvs : all_old n0 (VMap k l kvs) = true -> flat_map (pfl n0) kvs = [].
  Proof.
    intros Ho. simpl in Ho. apply andb_prop in Ho. destruct Ho as [_ Ho]. apply forallb_Forall in Ho.
    induction Ho as [| [a b] r Hx Hr IH]; simpl; [reflexivity |]. apply andb_prop in Hx. destruct Hx as [Ha Hb].
    now rewrite (flabels_old n0 a Ha), (flabels_old n0 b Hb), IH.
  Qed.

  Lemma pack_nd_all : forall v, P_nd v.
  Proof.
    induction v as [z | | z | l0 | k l0 xs IH | k l0 kvs IH | c l0 fs IH] using lv_ind';
      intros call e; induction e as [| | | e' IHe | | e' IHe | ke IHk ve IHv | es IHes | c' fw | | res IHres | idc es IHes] using ir_ind';
      intros n Ho Hn;
      try (rewrite rp_id; apply ret_old_inv; assumption);
      try (rewrite rp_opt; first [apply ret_old_inv; reflexivity | apply IHe; assumption]; fail);
      try (apply union_nd; assumption);
      try (simpl; apply ret_old_inv; assumption; fail);
      try (simpl; apply inv_nil; fail).
    - (* VSeq, ICopy *)
      simpl. destruct k; try (rewrite flabels_seq, (isfresh_ge n0 n Hn), (children_old _ _ _ Ho); simpl;
        apply inv_node; [assumption | apply inv_nil]).
      apply ret_old_inv; assumption.
    - (* VSeq, ISeqComp *)
      simpl.
      assert (Hxs: Forall (fun x => forall m, n0 <= m ->
                 let (y, m') := run_pack E x call e' m in inv n0 m m' (flabels n0 y)) xs).
      { simpl in Ho. apply andb_prop in Ho. destruct Ho as [_ Ho]. apply forallb_Forall in Ho.
        pose proof (Forall_and _ _ _ IH Ho) as H. eapply Forall_impl; [| exact H]. intros x [Hx Hox] m Hm. apply Hx; auto. }
      pose proof (map_st_inv (fun x => run_pack E x call e') (flabels n0) n0 xs Hxs (S n) ltac:(lia)) as HM.
      destruct (map_st (fun x => run_pack E x call e') xs (S n)) as [ys n'].
      rewrite flabels_seq, (isfresh_ge n0 n Hn). simpl. apply inv_node; assumption.
    - (* VSeq, ITup *)
      simpl.
      assert (Hxs: Forall (fun x => forall (e: ir) m, n0 <= m ->
                 let (y, m') := run_pack E x call e m in inv n0 m m' (flabels n0 y)) xs).
      { simpl in Ho. apply andb_prop in Ho. destruct Ho as [_ Ho]. apply forallb_Forall in Ho.
        pose proof (Forall_and _ _ _ IH Ho) as H. eapply Forall_impl; [| exact H]. intros x [Hx Hox] e m Hm. apply Hx; auto. }
      pose proof (zip_st_inv (fun x e' => run_pack E x call e') (flabels n0) n0 xs Hxs es (S n) ltac:(lia)) as HM.
      destruct (zip_st (fun x e' => run_pack E x call e') es xs (S n)) as [ys n'].
      rewrite flabels_seq, (isfresh_ge n0 n Hn). simpl. apply inv_node; assumption.
    - (* VMap, ICopy *)
      simpl. rewrite flabels_map, (isfresh_ge n0 n Hn), (children_old_map _ _ _ Ho). simpl.
      apply inv_node; [assumption | apply inv_nil].
    - (* VMap, ISeqComp: keys *)
      simpl.
      assert (Hxs: Forall (fun kv : lv * lv => forall m, n0 <= m ->
                 let (y, m') := (let (k0, _) := kv in run_pack E k0 call e') m in inv n0 m m' (flabels n0 y)) kvs).
      { simpl in Ho. apply andb_prop in Ho. destruct Ho as [_ Ho]. apply forallb_Forall in Ho.
        pose proof (Forall_and _ _ _ IH Ho) as H. eapply Forall_impl; [| exact H].
        intros [k0 x] [[Hk Hx] Hox] m Hm. simpl in *. apply andb_prop in Hox. destruct Hox as [Hok _]. apply Hk; auto. }
      pose proof (map_st_inv _ (flabels n0) n0 kvs Hxs (S n) ltac:(lia)) as HM.
      match goal with |- context [map_st ?f kvs (S n)] => destruct (map_st f kvs (S n)) as [ys n'] end.
      rewrite flabels_seq, (isfresh_ge n0 n Hn). simpl. apply inv_node; assumption.
    - (* VMap, IMapComp *)
      simpl.
      assert (Hxs: Forall (fun kv : lv * lv => forall m, n0 <= m ->
                 let (y, m') := (let (k0, x) := kv in
                                 let (k', m1) := run_pack E k0 call ke m in
                                 let (x', m2) := run_pack E x call ve m1 in ((k', x'), m2)) in
                 inv n0 m m' (pfl n0 y)) kvs).
      { simpl in Ho. apply andb_prop in Ho. destruct Ho as [_ Ho]. apply forallb_Forall in Ho.
        pose proof (Forall_and _ _ _ IH Ho) as H. eapply Forall_impl; [| exact H].
        intros [k0 x] [[Hk Hx] Hox] m Hm. simpl in *. apply andb_prop in Hox. destruct Hox as [Hok Hox].
        specialize (Hk call ke m Hok Hm). destruct (run_pack E k0 call ke m) as [k' m1].
        assert (Hm1: n0 <= m1) by (destruct Hk; lia).
        specialize (Hx call ve m1 Hox Hm1). destruct (run_pack E x call ve m1) as [x' m2].
        simpl. eapply inv_app; eauto. }
      pose proof (map_st_inv _ (pfl n0) n0 kvs Hxs (S n) ltac:(lia)) as HM.
      match goal with |- context [map_st ?f kvs (S n)] => destruct (map_st f kvs (S n)) as [ys n'] end.
      rewrite flabels_map, (isfresh_ge n0 n Hn). simpl. apply inv_node; assumption.
    - (* VMap, IRec *)
      simpl.
      assert (Hxs: Forall (fun kv : lv * lv => forall (e: ir) m, n0 <= m ->
                 let (y, m') := (let (k0, x) := kv in let (y0, m1) := run_pack E x call e m in ((k0, y0), m1)) in
                 inv n0 m m' (pfl n0 y)) kvs).
      { simpl in Ho. apply andb_prop in Ho. destruct Ho as [_ Ho]. apply forallb_Forall in Ho.
        pose proof (Forall_and _ _ _ IH Ho) as H. eapply Forall_impl; [| exact H].
        intros [k0 x] [[Hk Hx] Hox] e m Hm. simpl in *. apply andb_prop in Hox. destruct Hox as [Hok Hox].
        specialize (Hx call e m Hox Hm). destruct (run_pack E x call e m) as [y0 m1].
        simpl. rewrite (flabels_old n0 k0 Hok). simpl. exact Hx. }
      pose proof (zip_st_inv _ (pfl n0) n0 kvs Hxs res (S n) ltac:(lia)) as HM.
      match goal with |- context [zip_st ?f res kvs (S n)] => destruct (zip_st f res kvs (S n)) as [ys n'] end.
      rewrite flabels_map, (isfresh_ge n0 n Hn). simpl. apply inv_node; assumption.
    - (* VObj, ICall *)
      simpl.
      set (call' := if fw then call else None). set (kc := e_ct E c). set (N' := effN E call' kc).
      assert (Hxs: Forall (fun x => forall (t: ty) m, n0 <= m ->
                 let (y, m') := run_pack E x call' (cp E N' (c_sup kc) t) m in inv n0 m m' (flabels n0 y)) fs).
      { simpl in Ho. apply andb_prop in Ho. destruct Ho as [_ Ho]. apply forallb_Forall in Ho.
        pose proof (Forall_and _ _ _ IH Ho) as H. eapply Forall_impl; [| exact H]. intros x [Hx Hox] t m Hm. apply Hx; auto. }
      pose proof (zip_st_inv (fun x t => run_pack E x call' (cp E N' (c_sup kc) t)) (flabels n0) n0 fs Hxs (c_fields kc) (S n) ltac:(lia)) as HM.
      destruct (zip_st (fun x t => run_pack E x call' (cp E N' (c_sup kc) t)) (c_fields kc) fs (S n)) as [ys n'].
      rewrite flabels_map, (isfresh_ge n0 n Hn). simpl.
      assert (Hi: flat_map (pfl n0) (as_items ys) = flat_map (flabels n0) ys).
      { clear. unfold as_items. induction ys as [| y r IHr]; simpl; [reflexivity |]. now rewrite IHr. }
      rewrite Hi. apply inv_node; assumption.
  Qed.
End PackND.

Lemma pack_fresh_nodup E n0 call N t v :
  all_old n0 v = true -> NoDup (flabels n0 (fst (pack_top E call N t v n0))).
Proof.
  intros Ho. unfold pack_top. pose proof (pack_nd_all E n0 v call (cp E N true t) n0 Ho (le_n _)) as H.
  destruct (run_pack E v call (cp E N true t) n0) as [r n1]. simpl. destruct H as [_ [_ H]]. exact H.
Qed.

Section UnpackND.
  Variable E : env.
  Variable n0 : nat.

  Definition U_nd (w: lv) : Prop :=
    forall t n, all_old n0 w = true -> n0 <= n ->
      let (r, n') := run_unpack E w (cu t) n in inv n0 n n' (flabels n0 r).

  Lemma unpack_nd_all : forall w, U_nd w.
  Proof.
    induction w as [z | | z | l0 | k l0 xs IH | k l0 kvs IH | c l0 fs IH] using lv_ind';
      intros t; induction t as [| lk | | | t' IHt | o t' IHt | t' IHt | ts IHts | o kt IHk vt IHv | c0 | tw IHw | us IHus | | | dd | kk tc IHc | rk IHrk rv IHrv | rs IHrs] using ty_ind';
      intros n Ho Hn;
      try (apply IHw; assumption);
      try (cbn [cu]; rewrite ru_opt; first [apply ret_old_inv; reflexivity | apply IHt; assumption]; fail);
      try (cbn [cu]; rewrite ru_union;
           induction IHus as [| t1 r1 H1 Hr1 IHr1]; simpl; [apply inv_nil |];
           match goal with |- context [cls_fits ?a ?b] => destruct (cls_fits a b) end;
           [apply H1; assumption | apply IHr1]; fail);
      try (simpl; apply ret_old_inv; assumption; fail);
      try (simpl; apply inv_nil; fail);
      try (destruct dd as [| kd]; [| destruct kd]; simpl; first [apply inv_nil |
           (rewrite flabels_seq, (isfresh_ge n0 n Hn); simpl; apply inv_node; [assumption | apply inv_nil]) |
           (rewrite flabels_map, (isfresh_ge n0 n Hn); simpl; apply inv_node; [assumption | apply inv_nil])]; fail).
    - (* VSeq, TSeq *)
      simpl.
      assert (Hxs: Forall (fun x => forall m, n0 <= m ->
                 let (y, m') := run_unpack E x (cu t') m in inv n0 m m' (flabels n0 y)) xs).
      { simpl in Ho. apply andb_prop in Ho. destruct Ho as [_ Ho]. apply forallb_Forall in Ho.
        pose proof (Forall_and _ _ _ IH Ho) as H. eapply Forall_impl; [| exact H]. intros x [Hx Hox] m Hm. apply Hx; auto. }
      pose proof (map_st_inv (fun x => run_unpack E x (cu t')) (flabels n0) n0 xs Hxs (S n) ltac:(lia)) as HM.
      destruct (map_st (fun x => run_unpack E x (cu t')) xs (S n)) as [ys n'].
      rewrite flabels_seq, (isfresh_ge n0 n Hn). simpl. apply inv_node; assumption.
    - (* VSeq, TTupV *)
      simpl.
      assert (Hxs: Forall (fun x => forall m, n0 <= m ->
                 let (y, m') := run_unpack E x (cu t') m in inv n0 m m' (flabels n0 y)) xs).
      { simpl in Ho. apply andb_prop in Ho. destruct Ho as [_ Ho]. apply forallb_Forall in Ho.
        pose proof (Forall_and _ _ _ IH Ho) as H. eapply Forall_impl; [| exact H]. intros x [Hx Hox] m Hm. apply Hx; auto. }
      pose proof (map_st_inv (fun x => run_unpack E x (cu t')) (flabels n0) n0 xs Hxs (S n) ltac:(lia)) as HM.
      destruct (map_st (fun x => run_unpack E x (cu t')) xs (S n)) as [ys n'].
      rewrite flabels_seq, (isfresh_ge n0 n Hn). simpl. apply inv_node; assumption.
    - (* VSeq, TTup *)
      simpl.
      assert (Hxt: Forall (fun x => forall (t: ty) m, n0 <= m ->
                 let (y, m') := run_unpack E x (cu t) m in inv n0 m m' (flabels n0 y)) xs).
      { simpl in Ho. apply andb_prop in Ho. destruct Ho as [_ Ho]. apply forallb_Forall in Ho.
        pose proof (Forall_and _ _ _ IH Ho) as H. eapply Forall_impl; [| exact H]. intros x [Hx Hox] t m Hm. apply Hx; auto. }
      assert (Hz: forall m, zip_st (fun x e' => run_unpack E x e') (map cu ts) xs m
                         = zip_st (fun x t => run_unpack E x (cu t)) ts xs m).
      { clear. revert ts. induction xs as [| x r IHr]; intros ts m; destruct ts as [| t ts]; simpl; try reflexivity.
        destruct (run_unpack E x (cu t) m) as [y m1]. now rewrite IHr. }
      rewrite Hz.
      pose proof (zip_st_inv (fun x t => run_unpack E x (cu t)) (flabels n0) n0 xs Hxt ts (S n) ltac:(lia)) as HM.
      destruct (zip_st (fun x t => run_unpack E x (cu t)) ts xs (S n)) as [ys n'].
      rewrite flabels_seq, (isfresh_ge n0 n Hn). simpl. apply inv_node; assumption.
    - (* VSeq, TComp *)
      simpl.
      assert (Hxs: Forall (fun x => forall m, n0 <= m ->
                 let (y, m') := run_unpack E x (cu tc) m in inv n0 m m' (flabels n0 y)) xs).
      { simpl in Ho. apply andb_prop in Ho. destruct Ho as [_ Ho]. apply forallb_Forall in Ho.
        pose proof (Forall_and _ _ _ IH Ho) as H. eapply Forall_impl; [| exact H]. intros x [Hx Hox] m Hm. apply Hx; auto. }
      pose proof (map_st_inv (fun x => run_unpack E x (cu tc)) (flabels n0) n0 xs Hxs (S n) ltac:(lia)) as HM.
      destruct (map_st (fun x => run_unpack E x (cu tc)) xs (S n)) as [ys n'].
      rewrite flabels_seq, (isfresh_ge n0 n Hn). simpl. apply inv_node; assumption.
    - (* VMap, TMap *)
      simpl.
      assert (Hxs: Forall (fun kv : lv * lv => forall m, n0 <= m ->
                 let (y, m') := (let (k0, x) := kv in
                                 let (k', m1) := run_unpack E k0 (cu kt) m in
                                 let (x', m2) := run_unpack E x (cu vt) m1 in ((k', x'), m2)) in
                 inv n0 m m' (pfl n0 y)) kvs).
      { simpl in Ho. apply andb_prop in Ho. destruct Ho as [_ Ho]. apply forallb_Forall in Ho.
        pose proof (Forall_and _ _ _ IH Ho) as H. eapply Forall_impl; [| exact H].
        intros [k0 x] [[Hk Hx] Hox] m Hm. simpl in *. apply andb_prop in Hox. destruct Hox as [Hok Hox].
        specialize (Hk kt m Hok Hm). destruct (run_unpack E k0 (cu kt) m) as [k' m1].
        assert (Hm1: n0 <= m1) by (destruct Hk; lia).
        specialize (Hx vt m1 Hox Hm1). destruct (run_unpack E x (cu vt) m1) as [x' m2].
        simpl. eapply inv_app; eauto. }
      pose proof (map_st_inv _ (pfl n0) n0 kvs Hxs (S n) ltac:(lia)) as HM.
      match goal with |- context [map_st ?f kvs (S n)] => destruct (map_st f kvs (S n)) as [ys n'] end.
      rewrite flabels_map, (isfresh_ge n0 n Hn). simpl. apply inv_node; assumption.
    - (* VMap, TDC *)
      simpl.
      assert (Hxs: Forall (fun kv : lv * lv => forall (t: ty) m, n0 <= m ->
                 let (y, m') := (let (_, x) := kv in run_unpack E x (cu t)) m in inv n0 m m' (flabels n0 y)) kvs).
      { simpl in Ho. apply andb_prop in Ho. destruct Ho as [_ Ho]. apply forallb_Forall in Ho.
        pose proof (Forall_and _ _ _ IH Ho) as H. eapply Forall_impl; [| exact H].
        intros [k0 x] [[Hk Hx] Hox] t m Hm. simpl in *. apply andb_prop in Hox. destruct Hox as [_ Hox]. apply Hx; auto. }
      pose proof (zip_st_inv (fun (kv: lv * lv) t => let (_, x) := kv in run_unpack E x (cu t)) (flabels n0) n0 kvs Hxs
                    (c_fields (e_ct E c0)) (S n) ltac:(lia)) as HM.
      match goal with |- context [zip_st ?f ?a kvs (S n)] => destruct (zip_st f a kvs (S n)) as [ys n'] end.
      rewrite flabels_obj, (isfresh_ge n0 n Hn). simpl. apply inv_node; assumption.
    - (* VMap, TRMap *)
      simpl.
      assert (Hxs: Forall (fun kv : lv * lv => forall m, n0 <= m ->
                 let (y, m') := (let (k0, x) := kv in
                                 let (k', m1) := run_unpack E k0 (cu rk) m in
                                 let (x', m2) := run_unpack E x (cu rv) m1 in ((k', x'), m2)) in
                 inv n0 m m' (pfl n0 y)) kvs).
      { simpl in Ho. apply andb_prop in Ho. destruct Ho as [_ Ho]. apply forallb_Forall in Ho.
        pose proof (Forall_and _ _ _ IH Ho) as H. eapply Forall_impl; [| exact H].
        intros [k0 x] [[Hk Hx] Hox] m Hm. simpl in *. apply andb_prop in Hox. destruct Hox as [Hok Hox].
        specialize (Hk rk m Hok Hm). destruct (run_unpack E k0 (cu rk) m) as [k' m1].
        assert (Hm1: n0 <= m1) by (destruct Hk; lia).
        specialize (Hx rv m1 Hox Hm1). destruct (run_unpack E x (cu rv) m1) as [x' m2].
        simpl. eapply inv_app; eauto. }
      pose proof (map_st_inv _ (pfl n0) n0 kvs Hxs (S n) ltac:(lia)) as HM.
      match goal with |- context [map_st ?f kvs (S n)] => destruct (map_st f kvs (S n)) as [ys n'] end.
      rewrite flabels_map, (isfresh_ge n0 n Hn). simpl. apply inv_node; assumption.
    - (* VMap, TRec *)
      simpl.
      assert (Hxs: Forall (fun kv : lv * lv => forall (t: ty) m, n0 <= m ->
                 let (y, m') := (let (k0, x) := kv in let (y0, m1) := run_unpack E x (cu t) m in ((k0, y0), m1)) in
                 inv n0 m m' (pfl n0 y)) kvs).
      { simpl in Ho. apply andb_prop in Ho. destruct Ho as [_ Ho]. apply forallb_Forall in Ho.
        pose proof (Forall_and _ _ _ IH Ho) as H. eapply Forall_impl; [| exact H].
        intros [k0 x] [[Hk Hx] Hox] t m Hm. simpl in *. apply andb_prop in Hox. destruct Hox as [Hok Hox].
        specialize (Hx t m Hox Hm). destruct (run_unpack E x (cu t) m) as [y0 m1].
        simpl. rewrite (flabels_old n0 k0 Hok). simpl. exact Hx. }
      assert (Hz: forall m,
                 zip_st (fun (kv: lv * lv) e' m => let (k0, x) := kv in
                           let (y0, m1) := run_unpack E x e' m in ((k0, y0), m1)) (map cu rs) kvs m
                 = zip_st (fun (kv: lv * lv) t m => let (k0, x) := kv in
                           let (y0, m1) := run_unpack E x (cu t) m in ((k0, y0), m1)) rs kvs m).
      { clear. revert rs. induction kvs as [| [k0 x] r IHr]; intros rs m; destruct rs as [| t ts]; simpl; try reflexivity.
        destruct (run_unpack E x (cu t) m) as [y m1]. now rewrite IHr. }
      rewrite Hz.
      pose proof (zip_st_inv _ (pfl n0) n0 kvs Hxs rs (S n) ltac:(lia)) as HM.
      match goal with |- context [zip_st ?f rs kvs (S n)] => destruct (zip_st f rs kvs (S n)) as [ys n'] end.
      rewrite flabels_map, (isfresh_ge n0 n Hn). simpl. apply inv_node; assumption.
  Qed.
End UnpackND.

Lemma unpack_fresh_nodup E n0 t w :
  all_old n0 w = true -> NoDup (flabels n0 (fst (unpack_top E t w n0))).
Proof.
  intros Ho. unfold unpack_top. pose proof (unpack_nd_all E n0 w t n0 Ho (le_n _)) as H.
  destruct (run_unpack E w (cu t) n0) as [r n1]. simpl. destruct H as [_ [_ H]]. exact H.
Qed.
