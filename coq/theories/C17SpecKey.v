(* C17: the key of a generic specialisation as a matter of IDENTITY.  unpack_dataclass / pack_dataclass reuse a method
   already present on the generic class under get_unpack_method_name(type_args, ..) (kernel K11), and that name carries
   hash_type_args(type_args) = md5(",".join(map(type_name, type_args))) (form checked on the source by the K11 plugin,
   fail closed).  A reused function is bound to the classes of the FIRST specialisation that produced the key, so the
   identity clause of C17 needs: same key -> same classes.  The model of the key is md5 (join (map (render false) args))
   with Render.render the model of type_name (compared per run with the real hash_type_args on every specialisation of
   the generated schemas).  The statement is proved under the hypothesis of C17_binding_partial (renderings injective on
   the classes involved) and refuted for a key made of SHORT names (qualname without the module). *)
From Coq Require Import List String Ascii Bool.
From Verif Require Import Render SpecKey.
Import ListNotations.
Open Scope string_scope.

Definition key_names (args : list rty) : list string := map (render false) args.
Definition spec_key (md5 : string -> string) (args : list rty) : string := md5 (SpecKey.join (key_names args)).

Lemma map_inj_on {A B} (f : A -> B) : forall l1 l2,
  (forall a b, In a l1 -> In b l2 -> f a = f b -> a = b) -> map f l1 = map f l2 -> l1 = l2.
Proof.
  induction l1 as [|a r IH]; intros [|b r2] Hinj H; cbn in H; try discriminate; auto.
  inversion H. f_equal.
  - apply Hinj; cbn; auto.
  - apply IH; auto. intros x y Hx Hy. apply Hinj; cbn; auto.
Qed.

Theorem spec_key_identity : forall (md5 : string -> string),
  (forall a b, md5 a = md5 b -> a = b) ->
  forall args1 args2,
    args1 <> [] -> args2 <> [] ->
    forallb comma_free (key_names args1) = true -> forallb comma_free (key_names args2) = true ->
    (forall a b, In a args1 -> In b args2 -> render false a = render false b -> a = b) ->
    spec_key md5 args1 = spec_key md5 args2 -> args1 = args2.
Proof.
  intros md5 Hcf args1 args2 N1 N2 C1 C2 Hinj K.
  apply Hcf in K.
  apply (map_inj_on (render false)); auto.
  apply join_inj; auto; unfold key_names.
  - destruct args1; [contradiction | discriminate].
  - destruct args2; [contradiction | discriminate].
Qed.

(* the key a change of hash_type_args to short names would compute: the module of a named class is dropped *)
Definition short_name (t : rty) : string :=
  match t with RNamed _ q => q | _ => render false t end.
Definition short_key (md5 : string -> string) (args : list rty) : string := md5 (SpecKey.join (map short_name args)).

Definition short_key_identity : Prop :=
  forall (md5 : string -> string), (forall a b, md5 a = md5 b -> a = b) ->
  forall args1 args2, args1 <> [] -> args2 <> [] ->
    forallb comma_free (key_names args1) = true -> forallb comma_free (key_names args2) = true ->
    (forall a b, In a args1 -> In b args2 -> render false a = render false b -> a = b) ->
    short_key md5 args1 = short_key md5 args2 -> args1 = args2.

Theorem short_key_refuted : ~ short_key_identity.
Proof.
  intro H.
  specialize (H (fun s => s) (fun a b e => e) [RNamed "api_v1" "Item"] [RNamed "api_v2" "Item"]).
  assert (E : [RNamed "api_v1" "Item"] = [RNamed "api_v2" "Item"]).
  { apply H; try discriminate; try reflexivity.
    intros a b [<-|[]] [<-|[]] R; cbn in R; discriminate. }
  discriminate.
Qed.

(* the two classes of the witness do get different keys from the modelled hash_type_args *)
Example spec_key_modules : forall md5, (forall a b, md5 a = md5 b -> a = b) ->
  spec_key md5 [RNamed "api_v1" "Item"] <> spec_key md5 [RNamed "api_v2" "Item"].
Proof. intros md5 Hcf K. apply Hcf in K. cbn in K. discriminate. Qed.
