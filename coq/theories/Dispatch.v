(* C10: which descent site a type takes.  Reading of the dispatch chains translated into VerifGen.K5D:
   a type whose tests (the library's own test expressions, evaluated for that type) come out as listed takes the
   listed site, on the pack and on the unpack side alike.  The harness evaluates the real tests on the real type
   objects of every generated position and compares site_of (dispatch ...) with the step the model uses there. *)
From Coq Require Import List String Ascii ZArith Bool.
From Verif Require Import Regex PyK PyK_strat PyK_c08 OptProj Strategies Positions.
From VerifGen Require Import K5D.
Import ListNotations.
Open Scope string_scope.

Inductive site := SStep (k: tstep) | SSelf | SDecline | SOther.

Definition site_of (tag: string) : site :=
  if String.eqb tag "newtype" then SStep TNewType
  else if String.eqb tag "optional" then SStep TOptional
  else if String.eqb tag "union" then SStep TMember
  else if String.eqb tag "element" then SStep TElement
  else if String.eqb tag "tuple_item" then SStep TTupleItem
  else if String.eqb tag "named_field" then SStep TNamedField
  else if String.eqb tag "typed_key" then SStep TTypedKey
  else if String.eqb tag "self" then SSelf
  else if String.eqb tag "decline" then SDecline
  else SOther.

(* p agrees with a list of (test text, outcome) *)
Definition agree (p: string -> bool) (l: list (string * bool)) : Prop :=
  Forall (fun tb => p (fst tb) = snd tb) l.

Definition special := ("is_special_typing_primitive(spec.origin_type)", true).
Definition not_special := ("is_special_typing_primitive(spec.origin_type)", false).
Definition before_newtype : list (string * bool) :=
  [special; ("is_union(spec.type)", false); ("spec.origin_type is typing.AnyStr", false);
   ("is_type_var_any(spec.type)", false); ("is_type_var(spec.type)", false)].

Definition plain_collection : list (string * bool) :=
  [not_special; ("not issubclass(spec.origin_type, Collection)", false); ("issubclass(spec.origin_type, enum.Enum)", false);
   ("issubclass(spec.origin_type, typing.ByteString)", false); ("issubclass(spec.origin_type, str)", false)].

Definition not_sequence_like : list (string * bool) :=
  [("issubclass(spec.origin_type, tuple)", false);
   ("ensure_generic_collection_subclass(spec, list, deque, Set)", false);
   ("ensure_generic_collection_subclass(spec, list)", false);
   ("ensure_generic_collection_subclass(spec, collections.deque)", false);
   ("ensure_generic_collection_subclass(spec, frozenset)", false);
   ("ensure_generic_collection_subclass(spec, Set)", false);
   ("ensure_generic_mapping(spec, args, ChainMap)", false); ("ensure_generic_mapping(spec, args, collections.ChainMap)", false);
   ("ensure_generic_mapping(spec, args, OrderedDict)", false); ("ensure_generic_mapping(spec, args, collections.OrderedDict)", false);
   ("ensure_generic_mapping(spec, args, collections.defaultdict)", false);
   ("ensure_generic_mapping(spec, args, Counter)", false); ("ensure_generic_mapping(spec, args, collections.Counter)", false)].

Ltac use_agree H :=
  unfold agree in H; cbv [special not_special before_newtype plain_collection not_sequence_like app] in H;
  repeat match type of H with
         | Forall _ (_ :: _) => let H1 := fresh "Ht" in let H2 := fresh "Hr" in
                                inversion H as [|? ? H1 H2]; subst; clear H; rename H2 into H; cbn [fst snd] in H1
         end;
  clear H.

Ltac route :=
  unfold dispatch_pack, dispatch_unpack, dispatch_pack_special, dispatch_unpack_special,
         dispatch_pack_collection, dispatch_unpack_collection;
  repeat match goal with Hx: ?p _ = _ |- _ => rewrite Hx; clear Hx end;
  cbn; try reflexivity.

Theorem route_optional p :
  agree p [special; ("is_union(spec.type)", true); ("is_optional(spec.type, resolved_type_params)", true)] ->
  site_of (dispatch_pack p) = SStep TOptional /\ site_of (dispatch_unpack p) = SStep TOptional.
Proof. intros H. use_agree H. split; route. Qed.

Theorem route_union p :
  agree p [special; ("is_union(spec.type)", true); ("is_optional(spec.type, resolved_type_params)", false)] ->
  site_of (dispatch_pack p) = SStep TMember /\ site_of (dispatch_unpack p) = SStep TMember.
Proof. intros H. use_agree H. split; route. Qed.

Theorem route_newtype p :
  agree p (before_newtype ++ [("is_new_type(spec.type)", true)]) ->
  site_of (dispatch_pack p) = SStep TNewType /\ site_of (dispatch_unpack p) = SStep TNewType.
Proof. intros H. use_agree H. split; route. Qed.

Theorem route_self p :
  agree p (before_newtype ++ [("is_new_type(spec.type)", false); ("is_literal(spec.type)", false);
                               ("spec.type is typing_extensions.LiteralString", false); ("is_self(spec.type)", true)]) ->
  site_of (dispatch_pack p) = SSelf /\ site_of (dispatch_unpack p) = SSelf.
Proof.
  intros H. use_agree H. split; route; destruct (p "spec.builder.is_nailed"); reflexivity.
Qed.


Theorem route_named_tuple p :
  agree p (plain_collection ++ [("ensure_generic_collection_subclass(spec, list)", false);
                                 ("ensure_generic_collection_subclass(spec, collections.deque)", false);
                                 ("issubclass(spec.origin_type, tuple)", true); ("is_named_tuple(spec.origin_type)", true)]) ->
  site_of (dispatch_pack p) = SStep TNamedField /\ site_of (dispatch_unpack p) = SStep TNamedField.
Proof. intros H. use_agree H. split; route. Qed.

Theorem route_tuple p :
  agree p (plain_collection ++ [("ensure_generic_collection_subclass(spec, list)", false);
                                 ("ensure_generic_collection_subclass(spec, collections.deque)", false);
                                 ("issubclass(spec.origin_type, tuple)", true); ("is_named_tuple(spec.origin_type)", false);
                                 ("ensure_generic_collection(spec)", true)]) ->
  site_of (dispatch_pack p) = SStep TTupleItem /\ site_of (dispatch_unpack p) = SStep TTupleItem.
Proof. intros H. use_agree H. split; route. Qed.

Theorem route_list p :
  agree p (plain_collection ++ [("issubclass(spec.origin_type, tuple)", false);
                                 ("ensure_generic_collection_subclass(spec, list, deque, Set)", true);
                                 ("ensure_generic_collection_subclass(spec, list)", true)]) ->
  site_of (dispatch_pack p) = SStep TElement /\ site_of (dispatch_unpack p) = SStep TElement.
Proof. intros H. use_agree H. split; route. Qed.


Theorem route_typed_dict p :
  agree p (plain_collection ++ not_sequence_like ++ [("is_typed_dict(spec.origin_type)", true)]) ->
  site_of (dispatch_pack p) = SStep TTypedKey /\ site_of (dispatch_unpack p) = SStep TTypedKey.
Proof. intros H. use_agree H. split; route. Qed.

Theorem route_mapping p :
  agree p (plain_collection ++ not_sequence_like ++
           [("is_typed_dict(spec.origin_type)", false); ("issubclass(spec.origin_type, types.MappingProxyType)", false);
            ("ensure_generic_mapping(spec, args, Mapping)", true)]) ->
  site_of (dispatch_pack p) = SStep TElement /\ site_of (dispatch_unpack p) = SStep TElement.
Proof. intros H. use_agree H. split; route. Qed.
