(* C12 - proofs about the dispatch state machine of Discr.v against the reference notions of DiscrSpec.v *)
From Coq Require Import List Arith Bool Lia.
From Verif Require Import Discr DiscrSpec.
Import ListNotations.

(* ------------------------------------------------------------------ *)
(* small list facts                                                    *)
(* ------------------------------------------------------------------ *)

Lemma memb_In x l : memb x l = true <-> In x l.
Proof.
  unfold memb. rewrite existsb_exists. split.
  - intros [y [Hy E]]. apply Nat.eqb_eq in E. subst. exact Hy.
  - intros H. exists x. split; [exact H | apply Nat.eqb_refl].
Qed.

Lemma memb_false x l : memb x l = false <-> ~ In x l.
Proof.
  split.
  - intros E H. apply memb_In in H. congruence.
  - intros H. destruct (memb x l) eqn:E; [|reflexivity]. apply memb_In in E. contradiction.
Qed.

Lemma find_app {A} (p: A -> bool) l1 l2 :
  find p (l1 ++ l2) = match find p l1 with Some x => Some x | None => find p l2 end.
Proof. induction l1 as [|a l1 IH]; cbn; [reflexivity|]. destruct (p a); [reflexivity | exact IH]. Qed.

(* ------------------------------------------------------------------ *)
(* well-formed class lists: bases are defined before the class         *)
(* ------------------------------------------------------------------ *)

Definition wf (cl: list cls) : Prop :=
  forall i k, nth_error cl i = Some k -> forall p, In p (c_parents k) -> p < i.

Lemma wf_nil : wf [].
Proof. intros i k H. destruct i; discriminate. Qed.

Lemma wf_define cl ps tg tu rq ke : wf cl -> wf (cl ++ [define cl ps tg tu rq ke]).
Proof.
  intros W i k H p Hp.
  destruct (Nat.lt_ge_cases i (length cl)) as [L|L].
  - rewrite nth_error_app1 in H by exact L. eapply W; eassumption.
  - rewrite nth_error_app2 in H by exact L.
    destruct (i - length cl) as [|m] eqn:E.
    + cbn in H. injection H as <-. cbn in Hp. apply filter_In in Hp. destruct Hp as [_ Hp].
      apply Nat.ltb_lt in Hp. lia.
    + cbn in H. destruct m; discriminate.
Qed.

Definition def_step (cl: list cls) (o: op) : list cls :=
  match o with
  | Define ps tg tu rq ke => cl ++ [define cl ps tg tu rq ke]
  | _ => cl
  end.

Lemma defs_eq ops : defs ops = fold_left def_step ops [].
Proof. reflexivity. Qed.

Lemma wf_fold ops : forall cl, wf cl -> wf (fold_left def_step ops cl).
Proof.
  induction ops as [|o r IH]; intros cl W; cbn; [exact W|].
  apply IH. destruct o; cbn; [apply wf_define; exact W | exact W | exact W | exact W | exact W].
Qed.

Lemma wf_defs ops : wf (defs ops).
Proof. rewrite defs_eq. apply wf_fold, wf_nil. Qed.

(* ------------------------------------------------------------------ *)
(* the walk yields exactly the strict transitive subclasses            *)
(* ------------------------------------------------------------------ *)

Lemma child_lt cl c d : wf cl -> child cl c d -> c < d.
Proof. intros W [k [H Hp]]. eapply W; eassumption. Qed.

Lemma child_bound cl c d : child cl c d -> d < length cl.
Proof. intros [k [H _]]. apply nth_error_Some. congruence. Qed.

Lemma desc_bound cl c d : desc cl c d -> d < length cl.
Proof. induction 1 as [c d H | c d e H _ IH]; [eapply child_bound; eassumption | exact IH]. Qed.

Lemma desc_unfold cl c x :
  desc cl c x <-> exists d1, child cl c d1 /\ (d1 = x \/ desc cl d1 x).
Proof.
  split.
  - intros H. inversion H as [c' d Hc | c' d e Hc Hd]; subst.
    + exists x. split; [exact Hc | left; reflexivity].
    + exists d. split; [exact Hc | right; exact Hd].
  - intros [d1 [Hc [E|Hd]]].
    + subst. apply desc_child. exact Hc.
    + eapply desc_step; eassumption.
Qed.

Lemma walk_spec : forall l pre c x, wf (pre ++ l) ->
  (In x (walk c l (length pre)) <->
   exists d1, length pre <= d1 /\ child (pre ++ l) c d1 /\ (d1 = x \/ desc (pre ++ l) d1 x)).
Proof.
  induction l as [|d r IH]; intros pre c x W.
  - cbn. split; [intros []|]. intros [d1 [L [Hc _]]]. apply child_bound in Hc.
    rewrite app_nil_r in Hc. lia.
  - assert (EQ: pre ++ d :: r = (pre ++ [d]) ++ r) by (rewrite <- app_assoc; reflexivity).
    assert (LEN: length (pre ++ [d]) = S (length pre)) by (rewrite app_length; cbn; lia).
    assert (NTH: nth_error (pre ++ d :: r) (length pre) = Some d).
    { rewrite nth_error_app2 by lia. rewrite Nat.sub_diag. reflexivity. }
    pose proof (IH (pre ++ [d])) as IH'. rewrite LEN in IH'. rewrite <- EQ in IH'.
    cbn [walk]. destruct (memb c (c_parents d)) eqn:M.
    + apply memb_In in M.
      assert (CH: child (pre ++ d :: r) c (length pre)) by (exists d; split; assumption).
      cbn [In]. rewrite in_app_iff. rewrite (IH' (length pre) x W). rewrite (IH' c x W). split.
      * intros [E | [H | H]].
        -- subst x. exists (length pre). split; [lia|]. split; [exact CH | left; reflexivity].
        -- exists (length pre). split; [lia|]. split; [exact CH|]. right. apply desc_unfold.
           destruct H as [d1 [_ [Hc Hd]]]. exists d1. split; assumption.
        -- destruct H as [d1 [L H]]. exists d1. split; [lia | exact H].
      * intros [d1 [L [Hc Hd]]].
        destruct (Nat.eq_dec d1 (length pre)) as [E|NE].
        -- subst d1. destruct Hd as [E | Hd]; [left; exact E|].
           right. left. apply desc_unfold in Hd. destruct Hd as [d2 [Hc2 Hd2]].
           exists d2. split; [|split; assumption].
           pose proof (child_lt _ _ _ W Hc2). lia.
        -- right. right. exists d1. split; [lia|]. split; assumption.
    + apply memb_false in M. rewrite (IH' c x W). split.
      * intros [d1 [L H]]. exists d1. split; [lia | exact H].
      * intros [d1 [L [Hc Hd]]]. exists d1. split; [|split; assumption].
        destruct (Nat.eq_dec d1 (length pre)) as [E|NE]; [|lia].
        subst d1. destruct Hc as [k [Hk Hp]]. rewrite NTH in Hk. injection Hk as <-. contradiction.
Qed.

Lemma all_sub_spec cl c x : wf cl -> (In x (all_sub cl c) <-> desc cl c x).
Proof.
  intros W. unfold all_sub. rewrite desc_unfold.
  pose proof (walk_spec cl [] c x W) as H. cbn in H. rewrite H. split.
  - intros [d1 [_ K]]. exists d1. exact K.
  - intros [d1 K]. exists d1. split; [lia | exact K].
Qed.

(* include_subtypes / include_supertypes bound exactly which classes are tried *)
Lemma variants_spec cl s c : wf cl -> (In c (variants cl s) <-> eligible cl s c).
Proof.
  intros W. unfold variants, eligible, is_sub. rewrite in_app_iff. split.
  - intros [H|H].
    + left. destruct (s_sub s); [|destruct H]. split; [reflexivity|].
      apply in_flat_map in H. destruct H as [b [Hb Hx]]. exists b. split; [exact Hb|].
      apply all_sub_spec; assumption.
    + right. destruct (eff_sup s); [|destruct H]. split; [reflexivity | exact H].
  - intros [[E [b [Hb Hd]]] | [E H]].
    + left. rewrite E. apply in_flat_map. exists b. split; [exact Hb|]. apply all_sub_spec; assumption.
    + right. rewrite E. exact H.
Qed.

Lemma is_sub_variants cl s c : wf cl ->
  (In c (if s_sub s then flat_map (all_sub cl) (s_bases s) else []) <-> is_sub cl s c).
Proof.
  intros W. unfold is_sub. split.
  - intros H. destruct (s_sub s); [|destruct H]. split; [reflexivity|].
    apply in_flat_map in H. destruct H as [b [Hb Hx]]. exists b. split; [exact Hb|].
    apply all_sub_spec; assumption.
  - intros [E [b [Hb Hd]]]. rewrite E. apply in_flat_map. exists b. split; [exact Hb|].
    apply all_sub_spec; assumption.
Qed.

Lemma eligible_lt cl s c : site_ok s (length cl) = true -> eligible cl s c -> c < length cl.
Proof.
  intros OK [[_ [b [_ Hd]]] | [_ Hb]].
  - eapply desc_bound; eassumption.
  - unfold site_ok in OK. apply andb_true_iff in OK. destruct OK as [_ OK].
    rewrite forallb_forall in OK. apply Nat.ltb_lt. apply OK. exact Hb.
Qed.

(* ------------------------------------------------------------------ *)
(* monotonicity: definitions only add classes                          *)
(* ------------------------------------------------------------------ *)

Lemma nth_error_snoc {A} (l: list A) a i k : nth_error l i = Some k -> nth_error (l ++ [a]) i = Some k.
Proof.
  intros H. rewrite nth_error_app1; [exact H|]. apply nth_error_Some. congruence.
Qed.

Lemma child_mono cl a c d : child cl c d -> child (cl ++ [a]) c d.
Proof. intros [k [H Hp]]. exists k. split; [apply nth_error_snoc; exact H | exact Hp]. Qed.

Lemma desc_mono cl a c d : desc cl c d -> desc (cl ++ [a]) c d.
Proof.
  induction 1 as [c d H | c d e H _ IH].
  - apply desc_child, child_mono, H.
  - eapply desc_step; [apply child_mono; exact H | exact IH].
Qed.

Lemma eligible_mono cl a s c : eligible cl s c -> eligible (cl ++ [a]) s c.
Proof.
  intros [[E [b [Hb Hd]]] | H].
  - left. split; [exact E|]. exists b. split; [exact Hb | apply desc_mono; exact Hd].
  - right. exact H.
Qed.

Lemma carries_mono cl a s c t : carries cl s c t -> carries (cl ++ [a]) s c t.
Proof.
  intros [He [k [Hk Ht]]]. split; [apply eligible_mono; exact He|].
  exists k. split; [apply nth_error_snoc; exact Hk | exact Ht].
Qed.

(* ------------------------------------------------------------------ *)
(* registry                                                            *)
(* ------------------------------------------------------------------ *)

Lemma reg_get_In t r c : reg_get t r = Some c -> In (t, c) r.
Proof.
  induction r as [|[t' c'] r IH]; cbn; [discriminate|].
  destruct (Nat.eqb t t') eqn:E.
  - intros H. injection H as <-. apply Nat.eqb_eq in E. subst. left. reflexivity.
  - intros H. right. apply IH. exact H.
Qed.

Lemma In_reg_get t c r : In (t, c) r -> exists c', reg_get t r = Some c'.
Proof.
  induction r as [|[t' c'] r IH]; cbn; [intros []|].
  destruct (Nat.eqb t t') eqn:E; [intros _; eexists; reflexivity|].
  intros [H|H]; [|apply IH; exact H]. injection H as E1 E2. subst. rewrite Nat.eqb_refl in E. discriminate.
Qed.

Lemma add_tags_In (v: nat) (ts: list tag) : forall (r: reg) (e: tag * nat),
  In e (fold_left (fun r t => (t, v) :: r) ts r) <-> In e r \/ (snd e = v /\ In (fst e) ts).
Proof.
  induction ts as [|t ts IH]; intros r e; cbn.
  - split; [intros H; left; exact H | intros [H | [_ []]]; exact H].
  - rewrite IH. cbn. split.
    + intros [[E|H] | [E H]].
      * subst e. right. split; [reflexivity | left; reflexivity].
      * left. exact H.
      * right. split; [exact E | right; exact H].
    + intros [H | [E [H|H]]].
      * left. right. exact H.
      * left. left. destruct e as [a b]. cbn in *. subst. reflexivity.
      * right. split; assumption.
Qed.

Lemma add_variant_In cl s (r: reg) v (e: tag * nat) :
  In e (reg_add_variant cl s r v) <-> In e r \/ (snd e = v /\ In (fst e) (tags_of s (nth v cl dummy_cls))).
Proof. unfold reg_add_variant. apply add_tags_In. Qed.

Lemma refill_In cl s vs : forall (r: reg) (e: tag * nat),
  In e (fold_left (reg_add_variant cl s) vs r) <->
  In e r \/ (In (snd e) vs /\ In (fst e) (tags_of s (nth (snd e) cl dummy_cls))).
Proof.
  induction vs as [|v vs IH]; intros r e; cbn [fold_left In].
  - split; [intros H; left; exact H | intros [H | [[] _]]; exact H].
  - rewrite IH. rewrite add_variant_In. split.
    + intros [[H | [E H]] | [H1 H2]].
      * left. exact H.
      * right. split; [left; symmetry; exact E | rewrite E; exact H].
      * right. split; [right; exact H1 | exact H2].
    + intros [H | [[E|H1] H2]].
      * left. left. exact H.
      * left. right. split; [symmetry; exact E | rewrite <- E in H2; exact H2].
      * right. split; assumption.
Qed.

Lemma nth_of_nth_error cl c k : nth_error cl c = Some k -> nth c cl dummy_cls = k.
Proof. intros H. apply nth_error_nth. exact H. Qed.

(* every binding of a refilled registry is an old one or a true one *)
Lemma refill_sound cl s r t c : wf cl -> site_ok s (length cl) = true ->
  In (t, c) (refill cl s r) -> In (t, c) r \/ carries cl s c t.
Proof.
  intros W OK H. unfold refill in H. apply refill_In in H. cbn in H.
  destruct H as [H | [Hv Ht]]; [left; exact H|]. right.
  apply variants_spec in Hv; [|exact W]. split; [exact Hv|].
  pose proof (eligible_lt _ _ _ OK Hv) as L. apply nth_error_Some in L.
  destruct (nth_error cl c) as [k|] eqn:E; [|congruence].
  exists k. split; [reflexivity|]. rewrite (nth_of_nth_error _ _ _ E) in Ht. exact Ht.
Qed.

(* after a refill every carried tag is bound *)
Lemma refill_complete cl s r t c : wf cl -> carries cl s c t -> exists c', reg_get t (refill cl s r) = Some c'.
Proof.
  intros W [He [k [Hk Ht]]]. apply In_reg_get with (c := c). unfold refill. apply refill_In. right. cbn.
  split; [apply variants_spec; assumption|]. rewrite (nth_of_nth_error _ _ _ Hk). exact Ht.
Qed.

(* ---- registry keys ---- *)

Lemma rkey_eqb_eq a b : rkey_eqb a b = true <-> a = b.
Proof.
  destruct a as [a1 a2], b as [b1 b2]. unfold rkey_eqb. cbn. rewrite andb_true_iff, !Nat.eqb_eq.
  split; [intros [-> ->]; reflexivity | intros E; injection E as -> ->; split; reflexivity].
Qed.

Lemma find_idx_nth {A} (p: A -> bool) l : forall i j a,
  find_idx p l i = Some (j, a) -> i <= j /\ nth_error l (j - i) = Some a.
Proof.
  induction l as [|b l IH]; intros i j a; cbn; [discriminate|].
  destruct (p b).
  - intros E. injection E as <- <-. split; [lia|]. rewrite Nat.sub_diag. reflexivity.
  - intros E. apply IH in E. destruct E as [L E]. split; [lia|].
    replace (j - i) with (S (j - S i)) by lia. exact E.
Qed.

Lemma config_site_nth sites c j sj : config_site sites c = Some (j, sj) -> nth_error sites j = Some sj.
Proof.
  unfold config_site. intros E. apply find_idx_nth in E. destruct E as [_ E].
  rewrite Nat.sub_0_r in E. exact E.
Qed.

(* the settings that govern the registry stored under a key *)
Definition key_site (sites: list site) (k: rkey) : option site :=
  match snd k with
  | 0 => nth_error sites (fst k)
  | S c => match config_site sites c with Some (_, sj) => Some sj | None => None end
  end.

(* the invariant: every registry (of every site, of every nested dispatcher) only holds true bindings *)
Definition reg_sound (sites: list site) (x: st) : Prop :=
  forall k s t c, key_site sites k = Some s -> In (t, c) (get_reg k (regs x)) -> carries (classes x) s c t.

Lemma get_reg_reset top vs : forall rs k (e: tag * nat),
  In e (get_reg k (reset_nested top vs rs)) -> In e (get_reg k rs).
Proof.
  unfold reset_nested. induction vs as [|v vs IH]; intros rs k e; cbn [fold_left]; [intros H; exact H|].
  intros H. apply IH in H. cbn in H. destruct (rkey_eqb k (top, S v)); [destruct H | exact H].
Qed.

(* compiling a per-format method / switching the format of the call touches neither the classes nor the registries *)
Lemma classes_mark codec vs x : classes (mark codec vs x) = classes x.
Proof. unfold mark. destruct (codec || Nat.eqb (cur x) 0); reflexivity. Qed.

Lemma regs_mark codec vs x : regs (mark codec vs x) = regs x.
Proof. unfold mark. destruct (codec || Nat.eqb (cur x) 0); reflexivity. Qed.

Lemma cur_mark codec vs x : cur (mark codec vs x) = cur x.
Proof. unfold mark. destruct (codec || Nat.eqb (cur x) 0); reflexivity. Qed.

Lemma mark_cur0 codec vs x : cur x = 0 -> mark codec vs x = x.
Proof. intros Z. unfold mark. rewrite Z. rewrite Bool.orb_true_r. reflexivity. Qed.

Lemma reg_sound_ext sites x y : classes y = classes x -> regs y = regs x -> reg_sound sites x -> reg_sound sites y.
Proof. intros Ec Er RS k s t c K Hin. rewrite Ec. rewrite Er in Hin. eapply RS; eassumption. Qed.

Section Dispatch.
  Variable acc : cls -> list nat -> verdict.
  Variable sites : list site.

  (* invariant carried through every (nested) call: same classes, all registries sound *)
  Definition inv (cl: list cls) (x: st) : Prop := classes x = cl /\ reg_sound sites x.

  Lemma inv_mark cl codec vs x : inv cl x -> inv cl (mark codec vs x).
  Proof.
    intros [E RS]. split; [rewrite classes_mark; exact E|].
    eapply reg_sound_ext; [apply classes_mark | apply regs_mark | exact RS].
  Qed.

  Definition enter_ok (cl: list cls) (enter: st -> nat -> st * outcome) : Prop :=
    forall x1 c, inv cl x1 -> inv cl (fst (enter x1 c)).

  Lemma refill_retry_inv cl enter top codec k s t x0 :
    wf cl -> enter_ok cl enter -> key_site sites k = Some s -> site_ok s (length cl) = true ->
    inv cl x0 -> inv cl (fst (refill_retry enter top codec k s t x0)).
  Proof.
    intros W EO K OK [E RS]. unfold refill_retry.
    set (r' := refill (classes x0) s (get_reg k (regs x0))).
    set (rs := if codec then reset_nested top (built (classes x0) s) (regs x0) else regs x0).
    assert (I': inv cl (mark codec (built (classes x0) s) (St (classes x0) ((k, r') :: rs) (comp x0) (cur x0)))).
    { apply inv_mark. split; [exact E|]. intros k2 s2 t2 c2 K2 Hin. cbn in *. destruct (rkey_eqb k2 k) eqn:EQ.
      - apply rkey_eqb_eq in EQ. subst k2. rewrite K in K2. injection K2 as <-.
        apply refill_sound in Hin; [|rewrite E; exact W|rewrite E; exact OK].
        destruct Hin as [Hin|Hin]; [|exact Hin]. eapply RS; eassumption.
      - eapply RS; [exact K2|]. unfold rs in Hin. destruct codec; [eapply get_reg_reset; exact Hin | exact Hin]. }
    destruct (crash_on_refill s); [exact I'|].
    destruct (reg_get t r') as [c|]; [|exact I'].
    exact (EO _ c I').
  Qed.

  Lemma field_body_inv cl enter top codec k s t x :
    wf cl -> enter_ok cl enter -> key_site sites k = Some s -> site_ok s (length cl) = true ->
    inv cl x -> inv cl (fst (field_body enter top codec k s t x)).
  Proof.
    intros W EO K OK I. unfold field_body.
    destruct (reg_get t (get_reg k (regs x))) as [c|]; [|apply refill_retry_inv; assumption].
    destruct (has_method codec x c); [exact (EO _ c I) | apply refill_retry_inv; assumption].
  Qed.

  Lemma loop_body_inv cl enter : enter_ok cl enter -> forall vs x, inv cl x -> inv cl (fst (loop_body enter vs x)).
  Proof.
    intros EO. induction vs as [|v vs IH]; intros x I; cbn [loop_body]; [exact I|].
    pose proof (EO _ v I) as H. destruct (enter x v) as [x1 o]. cbn [fst] in H.
    destruct o; try (apply IH; exact H). exact H.
  Qed.

  Lemma dispatcher_inv : forall fuel top codec k s x inp present,
    wf (classes x) -> reg_sound sites x -> key_site sites k = Some s ->
    inv (classes x) (fst (dispatcher acc sites fuel top codec k s x inp present)).
  Proof.
    induction fuel as [|f IH]; intros top codec k s x inp present W RS K; cbn [dispatcher]; [split; [reflexivity | exact RS]|].
    destruct (negb (site_ok s (length (classes x)))) eqn:OK; [split; [reflexivity | exact RS]|].
    apply negb_false_iff in OK.
    set (enter := enter_with acc sites (fun k' s' x' => dispatcher acc sites f top codec k' s' x' inp present) top codec present).
    assert (EO: enter_ok (classes x) enter).
    { intros x1 c [E1 RS1]. unfold enter, enter_with.
      destruct (config_site sites c) as [[j sj]|] eqn:C; [|split; assumption].
      assert (K': key_site sites (if codec then (top, S c) else (j, 0)) = Some sj).
      { destruct codec; unfold key_site; cbn; [rewrite C; reflexivity | eapply config_site_nth; exact C]. }
      pose proof (IH top codec _ sj x1 inp present (eq_ind_r wf W E1) RS1 K') as H. rewrite E1 in H. exact H. }
    assert (I: inv (classes x) x) by (split; [reflexivity | exact RS]).
    destruct (s_field s).
    - destruct (assoc (s_fid s) inp) as [[t|]|]; [|exact I|exact I]. apply field_body_inv; assumption.
    - apply loop_body_inv; [|exact I]. intros x1 c I1. apply EO, inv_mark. exact I1.
  Qed.

  Lemma decode1_inv x i inp present : wf (classes x) -> reg_sound sites x ->
    inv (classes x) (fst (decode1 acc sites x i inp present)).
  Proof.
    intros W RS. unfold decode1. destruct (nth_error sites i) as [s|] eqn:Es; [|split; [reflexivity | exact RS]].
    apply dispatcher_inv; [exact W | exact RS | exact Es].
  Qed.

  Lemma decode_seq_inv : forall l x done, wf (classes x) -> reg_sound sites x ->
    inv (classes x) (fst (decode_seq acc sites x l done)).
  Proof.
    induction l as [|[[i inp] present] l IH]; intros x done W RS; cbn [decode_seq]; [split; [reflexivity | exact RS]|].
    pose proof (decode1_inv x i inp present W RS) as [E1 RS1].
    destruct (decode1 acc sites x i inp present) as [x1 o]. cbn [fst] in *.
    destruct o; try (split; assumption).
    pose proof (IH x1 (c :: done) (eq_ind_r wf W E1) RS1) as H. rewrite E1 in H. exact H.
  Qed.

  Lemma reg_sound_step x o : wf (classes x) -> reg_sound sites x ->
    classes (fst (step acc sites x o)) = def_step (classes x) o /\ reg_sound sites (fst (step acc sites x o)).
  Proof.
    intros W RS. destruct o as [ps tg tu rq ke | i inp present | l | f i inp present | i]; cbn [step].
    - split; [reflexivity|]. intros k s t c K Hin. cbn in *. apply carries_mono. eapply RS; eassumption.
    - pose proof (decode1_inv x i inp present W RS) as H.
      destruct (decode1 acc sites x i inp present) as [x' o]. exact H.
    - pose proof (decode_seq_inv l x [] W RS) as H.
      destruct (decode_seq acc sites x l []) as [x' o]. exact H.
    - pose proof (decode1_inv (set_cur f x) i inp present W RS) as H.
      destruct (decode1 acc sites (set_cur f x) i inp present) as [x' o]. exact H.
    - split; [reflexivity | exact RS].
  Qed.

  Lemma fold_inv ops : forall x, wf (classes x) -> reg_sound sites x ->
    classes (fold_left (fun x o => fst (step acc sites x o)) ops x) = fold_left def_step ops (classes x)
    /\ reg_sound sites (fold_left (fun x o => fst (step acc sites x o)) ops x).
  Proof.
    induction ops as [|o r IH]; intros x W RS; cbn [fold_left]; [split; [reflexivity | exact RS]|].
    destruct (reg_sound_step x o W RS) as [E1 S1].
    assert (W1: wf (classes (fst (step acc sites x o)))).
    { rewrite E1. destruct o; cbn; [apply wf_define; exact W | exact W | exact W | exact W | exact W]. }
    destruct (IH _ W1 S1) as [E2 S2]. split; [rewrite E2, E1; reflexivity | exact S2].
  Qed.

  (* the format of the running call: a dispatcher leaves it alone, DecodeF resets it - it is 0 between the calls *)
  Definition keeps_cur (enter: st -> nat -> st * outcome) : Prop := forall x c, cur (fst (enter x c)) = cur x.

  Lemma refill_retry_cur enter top codec k s t x0 : keeps_cur enter -> cur (fst (refill_retry enter top codec k s t x0)) = cur x0.
  Proof.
    intros KC. unfold refill_retry. destruct (crash_on_refill s); [cbn [fst]; rewrite cur_mark; reflexivity|].
    destruct (reg_get t _) as [c|]; [rewrite KC | cbn [fst]]; rewrite cur_mark; reflexivity.
  Qed.

  Lemma field_body_cur enter top codec k s t x : keeps_cur enter -> cur (fst (field_body enter top codec k s t x)) = cur x.
  Proof.
    intros KC. unfold field_body. destruct (reg_get t _) as [c|]; [|apply refill_retry_cur; exact KC].
    destruct (has_method codec x c); [apply KC | apply refill_retry_cur; exact KC].
  Qed.

  Lemma loop_body_cur enter : keeps_cur enter -> forall vs x, cur (fst (loop_body enter vs x)) = cur x.
  Proof.
    intros KC. induction vs as [|v vs IH]; intros x; cbn [loop_body]; [reflexivity|].
    pose proof (KC x v) as H. destruct (enter x v) as [x1 o]. cbn [fst] in H.
    destruct o; try (rewrite IH; exact H). exact H.
  Qed.

  Lemma dispatcher_cur : forall fuel top codec k s x inp present,
    cur (fst (dispatcher acc sites fuel top codec k s x inp present)) = cur x.
  Proof.
    induction fuel as [|f IH]; intros top codec k s x inp present; cbn [dispatcher]; [reflexivity|].
    destruct (negb (site_ok s (length (classes x)))); [reflexivity|].
    set (enter := enter_with acc sites (fun k' s' x' => dispatcher acc sites f top codec k' s' x' inp present) top codec present).
    assert (KC: keeps_cur enter).
    { intros x1 c. unfold enter, enter_with. destruct (config_site sites c) as [[j sj]|]; [apply IH | reflexivity]. }
    destruct (s_field s).
    - destruct (assoc (s_fid s) inp) as [[t|]|]; [|reflexivity|reflexivity]. apply field_body_cur; exact KC.
    - apply loop_body_cur. intros x1 c. rewrite KC. apply cur_mark.
  Qed.

  Lemma decode1_cur x i inp present : cur (fst (decode1 acc sites x i inp present)) = cur x.
  Proof. unfold decode1. destruct (nth_error sites i); [apply dispatcher_cur | reflexivity]. Qed.

  Lemma decode_seq_cur : forall l x done, cur (fst (decode_seq acc sites x l done)) = cur x.
  Proof.
    induction l as [|[[i inp] present] l IH]; intros x done; cbn [decode_seq]; [reflexivity|].
    pose proof (decode1_cur x i inp present) as H. destruct (decode1 acc sites x i inp present) as [x1 o]. cbn [fst] in H.
    destruct o; try exact H. rewrite IH. exact H.
  Qed.

  Lemma step_cur x o : cur x = 0 -> cur (fst (step acc sites x o)) = 0.
  Proof.
    intros Z. destruct o as [ps tg tu rq ke | i inp present | l | f i inp present | i]; cbn [step].
    - exact Z.
    - pose proof (decode1_cur x i inp present) as H. destruct (decode1 acc sites x i inp present). cbn [fst] in *. congruence.
    - pose proof (decode_seq_cur l x []) as H. destruct (decode_seq acc sites x l []). cbn [fst] in *. congruence.
    - destruct (decode1 acc sites (set_cur f x) i inp present). reflexivity.
    - exact Z.
  Qed.

  Lemma final_cur ops : cur (final acc sites ops) = 0.
  Proof.
    unfold final. assert (G: forall x, cur x = 0 -> cur (fold_left (fun x o => fst (step acc sites x o)) ops x) = 0).
    { induction ops as [|o r IH]; intros x Z; cbn [fold_left]; [exact Z|]. apply IH, step_cur, Z. }
    apply G. reflexivity.
  Qed.

  Lemma st0_sound : reg_sound sites st0.
  Proof. intros k s t c _ H. cbn in H. destruct H. Qed.

  Lemma final_classes ops : classes (final acc sites ops) = defs ops.
  Proof. unfold final. apply (fold_inv ops st0 wf_nil st0_sound). Qed.

  Theorem registry_invariant ops : reg_sound sites (final acc sites ops).
  Proof. unfold final. apply (fold_inv ops st0 wf_nil st0_sound). Qed.

  Corollary registry_invariant' ops i s t c :
    nth_error sites i = Some s -> In (t, c) (get_reg (i, 0) (regs (final acc sites ops))) -> carries (defs ops) s c t.
  Proof.
    intros Hs Hin. rewrite <- (final_classes ops). eapply registry_invariant; [|exact Hin]. exact Hs.
  Qed.

  (* ---------------------------------------------------------------- *)
  (* the decode events                                                 *)
  (* ---------------------------------------------------------------- *)

  (* no class that carries the tag is itself a class-level dispatcher (README: a class-level discriminator
     cannot produce the class that declares it) *)
  Definition plain_carriers (cl: list cls) (s: site) (t: tag) : Prop :=
    forall c, carries cl s c t -> config_site sites c = None.

  Lemma field_spec_of_leaf cl s t present c :
    tag_unique cl s t -> carries cl s c t -> field_spec acc cl s t present (leaf acc cl c present).
  Proof.
    intros U C. unfold leaf, field_spec.
    assert (EQ: forall c', carries cl s c' t -> c' = c) by (intros c' C'; apply U; assumption).
    destruct (acc (nth c cl dummy_cls) present) eqn:V;
      (split; [|split; [|split; [|split; [|split; [|split; [|split; [|split; [|split]]]]]]]]);
      try discriminate;
      try (intros c'; split; [intros E; first [discriminate | injection E as <-; split; [exact C | exact V]]
                              | intros [C' V']; first [rewrite (EQ _ C') in V'; congruence | f_equal; symmetry; apply EQ; exact C']]);
      try (split; [discriminate | intros H; exfalso; exact (H c C)]);
      try (intros cs E; discriminate).
  Qed.

  Lemma field_spec_none cl s t present : (forall c, ~ carries cl s c t) -> field_spec acc cl s t present ONotFound.
  Proof.
    intros NO. unfold field_spec. split; [|split; [|split; [|split; [|split; [|split; [|split; [|split; [|split]]]]]]]].
    - intros c. split; [discriminate|]. intros [C _]. exfalso. exact (NO c C).
    - intros c. split; [discriminate|]. intros [C _]. exfalso. exact (NO c C).
    - split; [intros _; exact NO | reflexivity].
    - discriminate.
    - discriminate.
    - intros c. split; [discriminate|]. intros [C _]. exfalso. exact (NO c C).
    - intros c. split; [discriminate|]. intros [C _]. exfalso. exact (NO c C).
    - intros cs E. discriminate.
    - discriminate.
    - discriminate.
  Qed.

  (* a class without class-level discriminator is a leaf *)
  Definition enter_leaf (present: list nat) (enter: st -> nat -> st * outcome) : Prop :=
    forall x1 c, config_site sites c = None -> enter x1 c = (x1, leaf acc (classes x1) c present).

  Lemma refill_retry_correct cl enter top codec k s t present x0 :
    wf cl -> inv cl x0 -> key_site sites k = Some s -> site_ok s (length cl) = true -> crash_on_refill s = false ->
    tag_unique cl s t -> plain_carriers cl s t -> enter_leaf present enter ->
    field_spec acc cl s t present (snd (refill_retry enter top codec k s t x0)).
  Proof.
    intros W [E RS] K OK NC U P EL. unfold refill_retry. rewrite NC.
    set (r' := refill (classes x0) s (get_reg k (regs x0))).
    set (rs := if codec then reset_nested top (built (classes x0) s) (regs x0) else regs x0).
    destruct (reg_get t r') as [c|] eqn:G'.
    - assert (C: carries cl s c t).
      { apply reg_get_In in G'. unfold r' in G'. rewrite E in G'. apply refill_sound in G'; [|exact W|exact OK].
        destruct G' as [G'|G']; [|exact G']. rewrite <- E. eapply RS; eassumption. }
      rewrite (EL _ c (P c C)). cbn [snd]. rewrite classes_mark. cbn [classes]. rewrite E. apply field_spec_of_leaf; assumption.
    - cbn [snd]. apply field_spec_none. intros c C.
      destruct (refill_complete _ _ (get_reg k (regs x0)) _ _ W C) as [c' E']. unfold r' in G'. rewrite E in G'. congruence.
  Qed.

  Lemma field_body_correct cl enter top codec k s t present x :
    wf cl -> inv cl x -> key_site sites k = Some s -> site_ok s (length cl) = true -> crash_on_refill s = false ->
    tag_unique cl s t -> plain_carriers cl s t -> enter_leaf present enter ->
    field_spec acc cl s t present (snd (field_body enter top codec k s t x)).
  Proof.
    intros W I K OK NC U P EL. unfold field_body.
    destruct (reg_get t (get_reg k (regs x))) as [c|] eqn:G; [|apply refill_retry_correct; assumption].
    destruct (has_method codec x c); [|apply refill_retry_correct; assumption].
    destruct I as [E RS].
    assert (C: carries cl s c t) by (rewrite <- E; eapply RS; [exact K | apply reg_get_In; exact G]).
    rewrite (EL _ c (P c C)). cbn [snd]. rewrite E. apply field_spec_of_leaf; assumption.
  Qed.

  Lemma enter_with_leaf rec top codec present : enter_leaf present (enter_with acc sites rec top codec present).
  Proof. intros x1 c H. unfold enter_with. rewrite H. reflexivity. Qed.

  (* one decode through a field site, from ANY sound state: invariant kept and outcome as the property demands *)
  Lemma decode1_field x i s inp t present :
    wf (classes x) -> reg_sound sites x ->
    nth_error sites i = Some s -> s_field s = true -> site_ok s (length (classes x)) = true ->
    crash_on_refill s = false -> assoc (s_fid s) inp = Some (Hashable t) ->
    tag_unique (classes x) s t -> plain_carriers (classes x) s t ->
    field_spec acc (classes x) s t present (snd (decode1 acc sites x i inp present)).
  Proof.
    intros W RS Hs Hf OK NC HT U P. unfold decode1. rewrite Hs. cbn [dispatcher]. rewrite OK. cbn [negb]. rewrite Hf. rewrite HT.
    apply (field_body_correct (classes x));
      [exact W | split; [reflexivity | exact RS] | exact Hs | exact OK | exact NC | exact U | exact P | apply enter_with_leaf].
  Qed.

  Theorem decode_field_correct pre i s inp t present :
    nth_error sites i = Some s -> s_field s = true -> site_ok s (length (defs pre)) = true ->
    crash_on_refill s = false -> assoc (s_fid s) inp = Some (Hashable t) ->
    tag_unique (defs pre) s t -> plain_carriers (defs pre) s t ->
    exists o, snd (step acc sites (final acc sites pre) (Decode i inp present)) = Some o
              /\ field_spec acc (defs pre) s t present o.
  Proof.
    intros Hs Hf OK NC HT U P.
    pose proof (registry_invariant pre) as RS. pose proof (wf_defs pre) as W. pose proof (final_classes pre) as CL.
    set (x := final acc sites pre) in *. rewrite <- CL in W, OK, U, P |- *.
    pose proof (decode1_field x i s inp t present W RS Hs Hf OK NC HT U P) as F.
    cbn [step]. destruct (decode1 acc sites x i inp present) as [x' o]. exists o. split; [reflexivity | exact F].
  Qed.

  (* a holder with several discriminated fields: every field is decided by its own site *)
  Definition entry_ok (cl: list cls) (e: nat * inkeys * list nat) : Prop :=
    let '(i, inp, present) := e in
    exists s, nth_error sites i = Some s /\ s_field s = true /\ site_ok s (length cl) = true /\ crash_on_refill s = false
              /\ forall t, assoc (s_fid s) inp = Some (Hashable t) ->
                   tag_unique cl s t /\ plain_carriers cl s t.

  Lemma decode_seq_correct : forall l x done, wf (classes x) -> reg_sound sites x ->
    (forall e, In e l -> entry_ok (classes x) e) ->
    seq_spec acc (classes x) sites l done (snd (decode_seq acc sites x l done)).
  Proof.
    induction l as [|[[i inp] present] l IH]; intros x done W RS H; cbn [decode_seq]; [apply seq_nil|].
    destruct (H _ (or_introl eq_refl)) as [s [Hs [Hf [OK [NC HT]]]]].
    pose proof (decode1_inv x i inp present W RS) as [E1 RS1].
    destruct (assoc (s_fid s) inp) as [[t|]|] eqn:A.
    - destruct (HT t eq_refl) as [U P].
      pose proof (decode1_field x i s inp t present W RS Hs Hf OK NC A U P) as F.
      destruct (decode1 acc sites x i inp present) as [x1 o]. cbn [fst snd] in *.
      destruct o; try (eapply seq_fail; [exact Hs | exact A | exact F | intros c' E; discriminate]).
      eapply seq_ok; [exact Hs | exact A | exact F|].
      pose proof (IH x1 (c :: done) (eq_ind_r wf W E1) RS1) as G. rewrite E1 in G. apply G.
      intros e He. apply H. right. exact He.
    - assert (M: decode1 acc sites x i inp present = (x, ONotFound)).
      { unfold decode1. rewrite Hs. cbn [dispatcher]. rewrite OK. cbn [negb]. rewrite Hf. rewrite A. reflexivity. }
      rewrite M. cbn [snd]. eapply seq_unhashable; eassumption.
    - assert (M: decode1 acc sites x i inp present = (x, OMissing)).
      { unfold decode1. rewrite Hs. cbn [dispatcher]. rewrite OK. cbn [negb]. rewrite Hf. rewrite A. reflexivity. }
      rewrite M. cbn [snd]. eapply seq_missing; eassumption.
  Qed.

  Theorem multi_field_correct pre l :
    (forall e, In e l -> entry_ok (defs pre) e) ->
    exists o, snd (step acc sites (final acc sites pre) (DecodeSeq l)) = Some o
              /\ seq_spec acc (defs pre) sites l [] o.
  Proof.
    intros H. pose proof (registry_invariant pre) as RS. pose proof (wf_defs pre) as W. pose proof (final_classes pre) as CL.
    set (x := final acc sites pre) in *. rewrite <- CL in W, H |- *.
    pose proof (decode_seq_correct l x [] W RS H) as F.
    cbn [step]. destruct (decode_seq acc sites x l []) as [x' o]. exists o. split; [reflexivity | exact F].
  Qed.

  Theorem missing_tag pre i s inp present :
    nth_error sites i = Some s -> s_field s = true -> site_ok s (length (defs pre)) = true ->
    assoc (s_fid s) inp = None ->
    step acc sites (final acc sites pre) (Decode i inp present) = (final acc sites pre, Some OMissing).
  Proof.
    intros Hs Hf OK HT. cbn [step]. unfold decode1. rewrite Hs. cbn [dispatcher]. rewrite final_classes. rewrite OK.
    cbn [negb]. rewrite Hf. rewrite HT. reflexivity.
  Qed.

  (* an unhashable value under the key cannot be the tag of any class: SuitableVariantNotFound, no lookup, state untouched *)
  Theorem unhashable_tag pre i s inp present :
    nth_error sites i = Some s -> s_field s = true -> site_ok s (length (defs pre)) = true ->
    assoc (s_fid s) inp = Some Unhashable ->
    step acc sites (final acc sites pre) (Decode i inp present) = (final acc sites pre, Some ONotFound).
  Proof.
    intros Hs Hf OK HT. cbn [step]. unfold decode1. rewrite Hs. cbn [dispatcher]. rewrite final_classes. rewrite OK.
    cbn [negb]. rewrite Hf. rewrite HT. reflexivity.
  Qed.

  (* an input that is not a mapping: ValueError from a field dispatcher, nobody accepts it in no-field mode; state untouched *)
  Theorem non_mapping pre i s :
    nth_error sites i = Some s -> site_ok s (length (defs pre)) = true ->
    step acc sites (final acc sites pre) (DecodeBad i)
    = (final acc sites pre, Some (if s_field s then ONotDict else ONotFound)).
  Proof.
    intros Hs OK. cbn [step]. unfold decode_bad. rewrite Hs. rewrite final_classes. rewrite OK. reflexivity.
  Qed.

  (* the keys of all field dispatchers are present in the input (whatever their values) *)
  Definition keys_present (inp: inkeys) : Prop :=
    forall j sj, nth_error sites j = Some sj -> s_field sj = true -> assoc (s_fid sj) inp <> None.

  Lemma refill_retry_nm enter top codec k s t x0 :
    (forall x1 c, snd (enter x1 c) <> OMissing) -> snd (refill_retry enter top codec k s t x0) <> OMissing.
  Proof.
    intros EN. unfold refill_retry. destruct (crash_on_refill s); [discriminate|]. destruct (reg_get t _) as [c|]; [|discriminate].
    apply EN.
  Qed.

  Lemma loop_body_nm enter : forall vs x, snd (loop_body enter vs x) <> OMissing.
  Proof.
    induction vs as [|v vs IH]; intros x; cbn [loop_body]; [discriminate|].
    destruct (enter x v) as [x1 o]. destruct o; try apply IH. discriminate.
  Qed.

  (* MissingDiscriminator is reported only for a key that is really absent: any state, any tag values, any depth *)
  Lemma dispatcher_not_missing inp present : keys_present inp -> forall fuel top codec k s x,
    (s_field s = true -> assoc (s_fid s) inp <> None) ->
    snd (dispatcher acc sites fuel top codec k s x inp present) <> OMissing.
  Proof.
    intros KP. induction fuel as [|f IH]; intros top codec k s x OWN; cbn [dispatcher]; [discriminate|].
    destruct (negb (site_ok s (length (classes x)))); [discriminate|].
    set (enter := enter_with acc sites (fun k' s' x' => dispatcher acc sites f top codec k' s' x' inp present) top codec present).
    assert (EN: forall x1 c, snd (enter x1 c) <> OMissing).
    { intros x1 c. unfold enter, enter_with. destruct (config_site sites c) as [[j sj]|] eqn:C.
      - apply IH. intros F. exact (KP j sj (config_site_nth _ _ _ _ C) F).
      - cbn [snd]. unfold leaf. destruct (acc _ _); discriminate. }
    destruct (s_field s) eqn:F; [|apply loop_body_nm].
    destruct (assoc (s_fid s) inp) as [[t|]|] eqn:A; [|discriminate|exfalso; exact (OWN eq_refl eq_refl)].
    unfold field_body. destruct (reg_get t (get_reg k (regs x))) as [c|]; [|apply refill_retry_nm; exact EN].
    destruct (has_method codec x c); [exact (EN x c) | apply refill_retry_nm; exact EN].
  Qed.

  Lemma decode1_not_missing x i inp present : keys_present inp -> snd (decode1 acc sites x i inp present) <> OMissing.
  Proof.
    intros KP. unfold decode1. destruct (nth_error sites i) as [s|] eqn:Es; [|discriminate].
    apply dispatcher_not_missing; [exact KP|]. intros F. exact (KP i s Es F).
  Qed.

  Theorem present_keys_not_missing x i inp present :
    keys_present inp -> snd (step acc sites x (Decode i inp present)) <> Some OMissing.
  Proof.
    intros KP. cbn [step]. pose proof (decode1_not_missing x i inp present KP) as H.
    destruct (decode1 acc sites x i inp present) as [x' o]. cbn [snd] in *. intros E. apply H. congruence.
  Qed.
End Dispatch.

Lemma field_spec_functional acc cl s t present o1 o2 :
  field_spec acc cl s t present o1 -> field_spec acc cl s t present o2 -> o1 = o2.
Proof.
  intros [I1 [R1 [N1 [M1 [B1 [K1 [A1 [Y1 [D1 X1]]]]]]]]] [I2 [R2 [N2 [M2 [B2 [K2 [A2 [Y2 [D2 X2]]]]]]]]].
  destruct o1 as [c| | | |c|c|cs| | |c].
  - symmetry. apply I2. apply I1. reflexivity.
  - exfalso. apply M1. reflexivity.
  - symmetry. apply N2. apply N1. reflexivity.
  - exfalso. apply B1. reflexivity.
  - symmetry. apply R2. apply R1. reflexivity.
  - symmetry. apply K2. apply K1. reflexivity.
  - exfalso. exact (Y1 cs eq_refl).
  - exfalso. apply D1. reflexivity.
  - exfalso. apply X1. reflexivity.
  - symmetry. apply A2. apply A1. reflexivity.
Qed.

(* same classes, same site settings, same tag, same other fields => same answer, whatever was decoded or created before *)
Theorem history_independent acc sites1 sites2 pre1 pre2 i1 i2 s inp1 inp2 t present :
  nth_error sites1 i1 = Some s -> nth_error sites2 i2 = Some s -> s_field s = true ->
  assoc (s_fid s) inp1 = Some (Hashable t) -> assoc (s_fid s) inp2 = Some (Hashable t) ->
  defs pre1 = defs pre2 -> site_ok s (length (defs pre1)) = true -> crash_on_refill s = false -> tag_unique (defs pre1) s t ->
  plain_carriers sites1 (defs pre1) s t -> plain_carriers sites2 (defs pre1) s t ->
  snd (step acc sites1 (final acc sites1 pre1) (Decode i1 inp1 present))
  = snd (step acc sites2 (final acc sites2 pre2) (Decode i2 inp2 present)).
Proof.
  intros H1 H2 Hf T1 T2 E OK NC U P1 P2.
  destruct (decode_field_correct acc sites1 pre1 i1 s inp1 t present H1 Hf OK NC T1 U P1) as [o1 [E1 S1]].
  rewrite E in OK, U, P2.
  destruct (decode_field_correct acc sites2 pre2 i2 s inp2 t present H2 Hf OK NC T2 U P2) as [o2 [E2 S2]].
  rewrite E in S1. rewrite E1, E2. f_equal. eapply field_spec_functional; eassumption.
Qed.

(* no eligible class is itself a class-level dispatcher *)
Definition no_nested (sites: list site) (cl: list cls) (s: site) : Prop :=
  forall c, eligible cl s c -> config_site sites c = None.

Definition acceptsb (acc: cls -> list nat -> verdict) (cl: list cls) (present: list nat) (c: nat) : bool :=
  match acc (nth c cl dummy_cls) present with VAccept => true | _ => false end.

Lemma loop_body_leaves acc sites present enter codec : enter_leaf acc sites present enter ->
  forall vs x, cur x = 0 -> (forall v, In v vs -> config_site sites v = None) ->
  loop_body (fun x1 v => enter (mark codec [v] x1) v) vs x
  = (x, match find (acceptsb acc (classes x) present) vs with Some c => OInst c | None => ONotFound end).
Proof.
  intros EL. induction vs as [|v vs IH]; intros x Z H; cbn [loop_body find]; [reflexivity|].
  rewrite (mark_cur0 codec [v] x Z).
  rewrite (EL x v (H v (or_introl eq_refl))). unfold leaf, acceptsb at 1.
  destruct (acc (nth v (classes x) dummy_cls) present); try reflexivity;
    (rewrite IH; [reflexivity | exact Z | intros w Hw; apply H; right; exact Hw]).
Qed.

Theorem nofield_correct acc sites pre i s inp present :
  nth_error sites i = Some s -> s_field s = false -> site_ok s (length (defs pre)) = true ->
  no_nested sites (defs pre) s ->
  exists o, step acc sites (final acc sites pre) (Decode i inp present) = (final acc sites pre, Some o)
            /\ nofield_spec acc (defs pre) s present o.
Proof.
  intros Hs Hf OK NN.
  pose proof (wf_defs pre) as W.
  pose proof (final_classes acc sites pre) as CL.
  cbn [step]. unfold decode1. rewrite Hs. cbn [dispatcher]. rewrite CL. rewrite OK. cbn [negb]. rewrite Hf.
  rewrite (loop_body_leaves acc sites present _ _ (enter_with_leaf acc sites _ _ _ present)).
  2:{ apply final_cur. }
  2:{ intros v Hv. apply NN. apply variants_spec; assumption. }
  rewrite CL. eexists. split; [reflexivity|].
  set (p := acceptsb acc (defs pre) present).
  assert (PA: forall c, p c = true <-> acc (nth c (defs pre) dummy_cls) present = VAccept).
  { intros c. unfold p, acceptsb. destruct (acc (nth c (defs pre) dummy_cls) present); split; congruence. }
  unfold nofield_spec. fold (acceptsb acc (defs pre) present). fold p.
  destruct (find p (variants (defs pre) s)) as [c|] eqn:F.
  - split; [|split; [|split]].
    + intros c' E. injection E as <-.
      pose proof (find_some _ _ F) as [Hin Hp].
      split; [apply variants_spec; assumption|]. split; [apply PA; exact Hp|].
      unfold variants in F. rewrite find_app in F.
      destruct (find p (if s_sub s then flat_map (all_sub (defs pre)) (s_bases s) else [])) as [c1|] eqn:F1.
      * injection F as <-. left. apply is_sub_variants; [exact W|]. exact (proj1 (find_some _ _ F1)).
      * right. intros c' Hs' Hacc. apply is_sub_variants in Hs'; [|exact W].
        pose proof (find_none _ _ F1 c' Hs') as Hn. apply PA in Hacc. congruence.
    + split; [discriminate|]. intros H. exfalso.
      pose proof (find_some _ _ F) as [Hin Hp]. apply (H c); [apply variants_spec; assumption | apply PA; exact Hp].
    + left. exists c. reflexivity.
    + reflexivity.
  - split; [|split; [|split]].
    + intros c E. discriminate.
    + split; [|reflexivity]. intros _ c He Hacc. apply variants_spec in He; [|exact W].
      pose proof (find_none _ _ F c He) as Hn. apply PA in Hacc. congruence.
    + right. reflexivity.
    + reflexivity.
Qed.

(* the k-th output of the trace is the step taken from the state reached by the prefix *)
Lemma trace_app acc sites pre : forall x o post,
  nth_error (trace acc sites x (pre ++ o :: post)) (length pre)
  = Some (snd (step acc sites (fold_left (fun x o => fst (step acc sites x o)) pre x) o)).
Proof.
  induction pre as [|a pre IH]; intros x o post; cbn.
  - destruct (step acc sites x o). reflexivity.
  - destruct (step acc sites x a) as [x' out] eqn:E. cbn. rewrite IH. reflexivity.
Qed.

Theorem trace_event acc sites pre o post :
  nth_error (run acc sites (pre ++ o :: post)) (length pre) = Some (snd (step acc sites (final acc sites pre) o)).
Proof. apply trace_app. Qed.

(* ------------------------------------------------------------------ *)
(* the computable domain predicate used by the harness                 *)
(* ------------------------------------------------------------------ *)

Lemma carriers_In cl s t c : wf cl -> site_ok s (length cl) = true ->
  (In c (carriers cl s t) <-> carries cl s c t).
Proof.
  intros W OK. unfold carriers. rewrite filter_In. rewrite nodup_In. rewrite variants_spec by exact W.
  rewrite memb_In. split.
  - intros [He Ht]. split; [exact He|].
    pose proof (eligible_lt _ _ _ OK He) as L. apply nth_error_Some in L.
    destruct (nth_error cl c) as [k|] eqn:E; [|congruence].
    exists k. split; [reflexivity|]. rewrite (nth_of_nth_error _ _ _ E) in Ht. exact Ht.
  - intros [He [k [Hk Ht]]]. split; [exact He|]. rewrite (nth_of_nth_error _ _ _ Hk). exact Ht.
Qed.

Theorem tag_uniqueb_iff cl s t : wf cl -> site_ok s (length cl) = true ->
  (tag_uniqueb cl s t = true <-> tag_unique cl s t).
Proof.
  intros W OK. unfold tag_uniqueb. rewrite Nat.leb_le. split.
  - intros L c1 c2 C1 C2. apply carriers_In in C1; [|assumption|assumption].
    apply carriers_In in C2; [|assumption|assumption].
    destruct (carriers cl s t) as [|a [|b l]]; cbn in *.
    + destruct C1.
    + destruct C1 as [<-|[]]. destruct C2 as [<-|[]]. reflexivity.
    + lia.
  - intros U.
    assert (ND: NoDup (carriers cl s t)) by (unfold carriers; apply NoDup_filter, NoDup_nodup).
    destruct (carriers cl s t) as [|a [|b l]] eqn:E; cbn; try lia.
    exfalso. inversion ND as [|? ? Hn _]; subst. apply Hn.
    assert (a = b).
    { apply U; apply carriers_In; try assumption; rewrite E; cbn; auto. }
    subst. left. reflexivity.
Qed.
