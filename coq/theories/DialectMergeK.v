(* C13: the hand model DialectMerge.merge_strategies IS the translated strategy part of Dialect.merge
   (kernel K113a) on the embedding DialectLayerK5.emb_map of strategy maps into the kernel's value type. *)
From Coq Require Import List String Ascii ZArith Bool Lia.
From Verif Require Import Regex PyK PyK_strat PyK_dictops DialectMerge DialectLayer DialectLayerK5.
From VerifGen Require Import K113a.
Import ListNotations.
Open Scope nat_scope.
Open Scope string_scope.

Lemma tkey_eqb a b : kv_eqb (tkey a) (tkey b) = Nat.eqb a b.
Proof. reflexivity. Qed.

Lemma d_get_emb_map m k :
  d_get (emb_map m) (tkey k) = match sm_get m k with Some v => Some (emb (Some v)) | None => None end.
Proof.
  unfold sm_get. induction m as [|[k' v] r IH]; cbn [emb_map map d_get a_get fst snd]; [reflexivity|].
  rewrite tkey_eqb. destruct (Nat.eqb k' k); [reflexivity|exact IH].
Qed.

Lemma d_set_emb_map m k v :
  d_set (emb_map m) (tkey k) (emb (Some v)) = emb_map (sm_set m k v).
Proof.
  unfold sm_set. induction m as [|[k' x] r IH]; cbn [emb_map map d_set a_set fst snd]; [reflexivity|].
  rewrite tkey_eqb. destruct (Nat.eqb k' k); cbn [map fst snd]; [reflexivity|].
  f_equal. exact IH.
Qed.

Lemma d_set_emb_ent b s f :
  d_set (emb_ent b) (KStr s) (fun_of f) = emb_ent (a_set String.eqb b s f).
Proof.
  induction b as [|[s' x] r IH]; cbn [emb_ent map d_set a_set fst snd]; [reflexivity|].
  change (kv_eqb (KStr s') (KStr s)) with (String.eqb s' s).
  destruct (String.eqb s' s); cbn [map fst snd]; [reflexivity|]. f_equal. exact IH.
Qed.

Lemma d_update_emb_ent : forall e b, d_update (emb_ent b) (emb_ent e) = emb_ent (e_update b e).
Proof.
  unfold d_update, e_update, a_update.
  induction e as [|[s f] r IH]; intros b; cbn [emb_ent map fold_left fst snd]; [reflexivity|].
  rewrite d_set_emb_ent. apply IH.
Qed.

Lemma isinstance_emb v : k_isinstance_strategy (emb v) = match v with Some (SStrat _) => true | _ => false end.
Proof. destruct v as [[id|e]|]; reflexivity. Qed.

(* loop 1: plain insertion (dict values are copied) *)
Lemma step1_spec acc k v :
  merge_strat_step1 (KDict (emb_map acc)) (tkey k) (emb (Some v)) = Ok (KDict (emb_map (sm_set acc k v))).
Proof.
  unfold merge_strat_step1. rewrite isinstance_emb. destruct v as [id|e]; cbn [k_truthy bind k_dict_set k_dict_copy emb].
  - change (emb_obj id) with (emb (Some (SStrat id))). rewrite d_set_emb_map. reflexivity.
  - change (KDict (emb_ent e)) with (emb (Some (SDict e))). rewrite d_set_emb_map. reflexivity.
Qed.

(* loop 2: DialectMerge.ms_step *)
Lemma step2_spec acc k v :
  merge_strat_step2 (KDict (emb_map acc)) (tkey k) (emb (Some v)) = Ok (KDict (emb_map (ms_step acc (k, v)))).
Proof.
  unfold merge_strat_step2, ms_step. rewrite isinstance_emb. destruct v as [id|e]; cbn [k_truthy bind k_dict_set emb].
  - change (emb_obj id) with (emb (Some (SStrat id))). rewrite d_set_emb_map. reflexivity.
  - cbn [k_dict_get]. rewrite d_get_emb_map. destruct (sm_get acc k) as [[s|b]|] eqn:E; cbn [bind].
    + rewrite isinstance_emb. cbn [k_truthy bind k_dict_set].
      change (KDict (emb_ent e)) with (emb (Some (SDict e))). rewrite d_set_emb_map. reflexivity.
    + rewrite isinstance_emb. cbn [k_truthy bind k_dict_setdefault_update]. rewrite d_get_emb_map, E. cbn [emb].
      rewrite d_update_emb_ent. change (KDict (emb_ent (e_update b e))) with (emb (Some (SDict (e_update b e)))).
      rewrite d_set_emb_map. reflexivity.
    + cbn [k_isinstance_strategy k_truthy bind k_dict_setdefault_update]. rewrite d_get_emb_map, E.
      change (@nil (kv * kv)) with (emb_ent []). rewrite d_update_emb_ent.
      change (KDict (emb_ent (e_update [] e))) with (emb (Some (SDict (e_update [] e)))).
      rewrite d_set_emb_map. reflexivity.
Qed.

Lemma fold1_spec : forall c acc,
  k_fold_items merge_strat_step1 (emb_map c) (KDict (emb_map acc)) =
  Ok (KDict (emb_map (fold_left (fun a kv => sm_set a (fst kv) (snd kv)) c acc))).
Proof.
  induction c as [|[k v] r IH]; intros acc; cbn [emb_map map k_fold_items fold_left fst snd]; [reflexivity|].
  rewrite step1_spec. apply IH.
Qed.

Lemma fold2_spec : forall o acc,
  k_fold_items merge_strat_step2 (emb_map o) (KDict (emb_map acc)) = Ok (KDict (emb_map (fold_left ms_step o acc))).
Proof.
  induction o as [|[k v] r IH]; intros acc; cbn [emb_map map k_fold_items fold_left fst snd]; [reflexivity|].
  rewrite step2_spec. apply IH.
Qed.

(* the translated loops compute the hand model, for ALL strategy maps *)
Theorem merge_strategies_is_code c o :
  merge_strategy_maps (KDict (emb_map c)) (KDict (emb_map o)) = Ok (KDict (emb_map (merge_strategies c o))).
Proof.
  unfold merge_strategy_maps, merge_strategies. change (@nil (kv * kv)) with (emb_map []).
  rewrite fold1_spec. cbn [bind]. rewrite fold2_spec. reflexivity.
Qed.

(* (T) validation case: the translated loops on the embedding of two real maps give the embedding of the map the
   real Dialect.merge returned *)
Definition k113a_case_ok (c: smap * smap * smap) : bool :=
  let '(a, b, expected) := c in
  match merge_strategy_maps (KDict (emb_map a)) (KDict (emb_map b)) with
  | Ok r => kv_eqb r (KDict (emb_map expected))
  | Raise _ => false
  end.
