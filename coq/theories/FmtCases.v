(* Checker used by the harness-generated case files of C04: runs the model (Fmt.v) on a case and
   compares with what the real implementation and the real format library produced. *)
From Coq Require Import List String Ascii ZArith Bool.
From Verif Require Import Fmt.
Import ListNotations.
Open Scope string_scope.

Inductive dec_obs :=
| DecSame                      (* decode returned a value equal to the input (same concrete types) *)
| DecMissing (field: string)   (* decode raised MissingField(field) *)
| DecOther.                    (* anything else *)

Record fcase := {
  c_fmt : fmt;
  c_env : env;                                (* class table (inherited fields flattened) *)
  c_enums : enums;                            (* enum classes: member -> value *)
  c_ty : ty;
  c_val : pv;
  c_tab : ltab;                               (* stdlib renderings of the leaves of c_val *)
  c_utab : utab;                              (* renderings by the user strategies *)
  c_user : list (lkind * sentry);             (* the caller's dialect (serialization_strategy) *)
  c_fmt_entries : list (lkind * sentry);      (* impl: serialization_strategy of the format's own dialect *)
  c_fmt_omit : bool;                          (* impl: the format's own dialect sets omit_none = True *)
  c_unrepr : list (lkind * string);           (* native leaves the format cannot carry (aware time, odd offset) *)
  c_pack : bv;                                (* impl: tree handed to the format library (identity encoder) *)
  c_basic : bv;                               (* impl: to_dict(dialect=caller's dialect) *)
  c_insub : bool;                             (* harness: value inside F's representable subset *)
  c_parsed : option bv;                       (* library: parse_F(encode_F v), when inside the subset *)
  c_dec : dec_obs;                            (* impl: decode_F(encode_F v) *)
}.

Definition leaf_repr_of (bad: list (lkind * string)) (F: fmt) (k: lkind) (p: string) : bool :=
  negb (existsb (fun kp => match kp with (k', p') => lkind_eqb k' k && String.eqb p' p end) bad).

Definition res_bv_is (r: res bv) (b: bv) : bool := match r with Ok x => bv_sim x b && bv_sim b x | Err _ => false end.

Definition approxb (render: lkind -> string -> string) (omit: bool) (parsed basic: bv) : bool :=
  let rhs := if omit then drop_nulls basic else basic in
  bv_sim (render_natives render parsed) rhs && bv_sim rhs (render_natives render parsed).

Definition case_ok (c: fcase) : bool :=
  let F := c.(c_fmt) in
  let E := c.(c_env) in
  let EN := c.(c_enums) in
  let render := tab_render c.(c_tab) in
  let parse_leaf := tab_parse c.(c_tab) in
  let urender := utab_render c.(c_utab) in
  let uparse := utab_parse c.(c_utab) in
  let X := udial_of c.(c_user) in
  let ls := eff_lsem F X in
  (* the model's table of the format dialects is what the code declares *)
  forallb (fun k => sentry_eqb (fmt_entry F k) (udial_of c.(c_fmt_entries) k)) all_kinds
  && Bool.eqb (fmt_omit F) c.(c_fmt_omit)
  && res_bv_is (pack render urender E EN ls c.(c_val) "" c.(c_ty)) c.(c_pack)
  && res_bv_is (pack render urender E EN (user_lsem X) c.(c_val) "" c.(c_ty)) c.(c_basic)
  && wf_env E && wf_enums EN && wf_ty E c.(c_ty)
  && Bool.eqb (representable (leaf_repr_of c.(c_unrepr)) F c.(c_pack)) c.(c_insub)
  && match c.(c_parsed) with
     | None => negb c.(c_insub)
     | Some pd =>
         (* the assumed law of the library, on this document *)
         bv_sim (norm render F c.(c_pack)) pd && bv_sim pd (norm render F c.(c_pack))
         (* parsed ~ basic *)
         && approxb render (omit_none ls) pd c.(c_basic)
         (* decode *)
         && match unpack parse_leaf uparse E EN ls pd "" c.(c_ty), c.(c_dec) with
            | Ok w, DecSame => pv_sim w c.(c_val) && pv_sim c.(c_val) w
            | Err (EMissingField n), DecMissing m => String.eqb n m
            | _, _ => false end
     end.
