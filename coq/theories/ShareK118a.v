(* Tie by translation, decode side: the container an unpacker of the sharing model builds for a
   collection type (Share.cu: USeq (seq_kind o) / UMap (map_kind o), always a comprehension) is what the
   if/elif chain of mashumaro/core/meta/types/unpack.py:unpack_collection -- kernel K118a, translated on
   every run -- emits for the origin's class; and whatever the facts about the origin type are, no branch
   of that chain (nor of unpack_tuple / unpack_named_tuple / unpack_typed_dict) hands back the input
   object or a shallow copy of it. *)
From Coq Require Import List Bool Arith Lia.
From Verif Require Import Share ShareProofs ShareMore UnpackDecision.
From VerifGen Require Import K118a.
Import ListNotations.

Definition kind_of_ctor (c: uctor) : option kind :=
  match c with
  | CList => Some KList | CDeque => Some KDeque | CTuple => Some KTuple
  | CFrozenSet => Some KFrozenSet | CSet => Some KSet
  | CDict => Some KDict | COrderedDict => Some KOrderedDict | CDefaultDict => Some KDefaultDict
  | CCounter => Some KCounter | CChainMap => Some KChainMap
  | CMappingProxy | CBytes | CByteArray | CStr | CNamedTuple => None
  end.

(* the IR of the model for an emitted template; [ie] / [ke],[ve] are the item unpackers *)
Definition uir_of_decision (d: udecision) (ie ke ve: uir) : option uir :=
  match d with
  | UDBuild c BSeqComp => option_map (fun k => USeq k ie) (kind_of_ctor c)
  | UDBuild c BMapComp => option_map (fun k => UMap k ke ve) (kind_of_ctor c)
  | UDSame => Some UId
  | _ => None
  end.

Definition is_seq_origin (o: origin) : bool :=
  match o with
  | OList | OSet | OFrozenSet | ODeque | OSequence | OMutableSequence | OAbstractSet | OMutableSet => true
  | _ => false end.
Definition is_map_origin (o: origin) : bool :=
  match o with
  | ODict | OOrderedDict | ODefaultDict | OCounter | OMapping | OMutableMapping => true
  | _ => false end.

Lemma cu_seq_is_source o t :
  is_seq_origin o = true ->
  uir_of_decision (unpack_collection_decision (origin_facts o)) (cu t) UId UId = Some (cu (TSeq o t)).
Proof. destruct o; intro H; try discriminate H; reflexivity. Qed.

Lemma cu_map_is_source o kt vt :
  is_map_origin o = true ->
  uir_of_decision (unpack_collection_decision (origin_facts o)) UId (cu kt) (cu vt) = Some (cu (TMap o kt vt)).
Proof. destruct o; intro H; try discriminate H; reflexivity. Qed.

(* tuples are delegated; every template of unpack_tuple builds a tuple (variadic: comprehension = cu (TTupV _);
   fixed: one unpacker per position = cu (TTup _)) *)
Lemma tuple_is_source :
  unpack_collection_decision (origin_facts OTuple) = UDTuple /\
  forall d, In d unpack_tuple_results ->
            d = UDBuild CTuple BSeqComp \/ d = UDBuild CTuple BItems \/ d = UDBuild CTuple BEmpty.
Proof.
  split; [reflexivity |].
  intros d Hd. simpl in Hd.
  repeat (destruct Hd as [Hd | Hd]; [subst d; auto |]). contradiction.
Qed.

(* the anchor "unpackers always build new containers", for EVERY vector of facts about the origin type *)
Lemma unpack_collection_rebuilds : forall f, rebuilds (unpack_collection_decision f) = true.
Proof.
  intro f. unfold unpack_collection_decision.
  repeat match goal with
         | |- context [if ?b then _ else _] => destruct b
         end; reflexivity.
Qed.

Lemma unpack_structs_rebuild :
  forallb rebuilds (unpack_tuple_results ++ unpack_named_tuple_results ++ unpack_typed_dict_results) = true.
Proof. reflexivity. Qed.

(* ------------------------------------------------------------------ *)
(* the decode compiler with the collection cases taken from the translated source *)
Definition from_source (d: udecision) (ie ke ve: uir) : uir :=
  match uir_of_decision d ie ke ve with Some e => e | None => UId end.

Fixpoint cuK (t: ty) : uir :=
  match t with
  | TAtom => UAtom
  | TLeaf _ => UConv
  | TAny | TPass => UId
  | TOpt t' => UOpt (cuK t')
  | TSeq o t' => from_source (unpack_collection_decision (origin_facts o)) (cuK t') UId UId
  | TTupV t' => USeq KTuple (cuK t')
  | TTup ts => UTup (map cuK ts)
  | TMap o kt vt => from_source (unpack_collection_decision (origin_facts o)) UId (cuK kt) (cuK vt)
  | TDC c => UCall c
  | TWrap t' => cuK t'
  | TUnion ts => UUnion (map (fun t' => (tcls t', cuK t')) ts)
  | TNone | TLit => UAtom
  | TAbsent d => UDefault d
  | TComp k t' => USeq k (cuK t')
  | TRMap kt vt => UMap KDict (cuK kt) (cuK vt)
  | TRec ts => URec (map cuK ts)
  end.

(* sequence origins sit in TSeq, mapping origins in TMap *)
Fixpoint wf_origins (t: ty) : bool :=
  match t with
  | TAtom | TLeaf _ | TAny | TPass | TDC _ | TNone | TLit | TAbsent _ => true
  | TOpt t' | TTupV t' | TWrap t' | TComp _ t' => wf_origins t'
  | TSeq o t' => is_seq_origin o && wf_origins t'
  | TMap o kt vt => is_map_origin o && wf_origins kt && wf_origins vt
  | TRMap kt vt => wf_origins kt && wf_origins vt
  | TTup ts | TRec ts | TUnion ts => forallb wf_origins ts
  end.

Lemma map_ext_Forall {A B} (f g: A -> B) xs :
  Forall (fun x => f x = g x) xs -> map f xs = map g xs.
Proof. induction 1; simpl; congruence. Qed.

Lemma Forall_wf_step (P: ty -> Prop) ts :
  Forall (fun t => wf_origins t = true -> P t) ts -> forallb wf_origins ts = true -> Forall P ts.
Proof.
  induction 1 as [| t r Ht Hr IH]; simpl; intro H; [constructor |].
  apply andb_prop in H. destruct H as [H1 H2]. constructor; auto.
Qed.

Lemma cuK_is_cu : forall t, wf_origins t = true -> cuK t = cu t.
Proof.
  induction t as [| lk | | | t' IHt | o t' IHt | t' IHt | ts IHts | o kt IHk vt IHv | c0 | tw IHw | us IHus | | | dd
                  | kk tc IHc | rk IHrk rv IHrv | rs IHrs] using ty_ind';
    simpl; intro H; try reflexivity.
  - rewrite IHt; auto.
  - apply andb_prop in H. destruct H as [Ho Ht]. rewrite (IHt Ht).
    unfold from_source. now rewrite (cu_seq_is_source o t' Ho).
  - rewrite IHt; auto.
  - f_equal. apply map_ext_Forall. now apply Forall_wf_step.
  - apply andb_prop in H. destruct H as [H Hv]. apply andb_prop in H. destruct H as [Ho Hk].
    rewrite (IHk Hk), (IHv Hv). unfold from_source. now rewrite (cu_map_is_source o kt vt Ho).
  - auto.
  - f_equal. apply map_ext_Forall.
    apply Forall_wf_step with (P := fun t => (tcls t, cuK t) = (tcls t, cu t)); auto.
    eapply Forall_impl; [| exact IHus]. simpl. intros a Ha Hw. now rewrite (Ha Hw).
  - rewrite IHc; auto.
  - apply andb_prop in H. destruct H as [Hk Hv]. rewrite (IHrk Hk), (IHrv Hv). reflexivity.
  - f_equal. apply map_ext_Forall. now apply Forall_wf_step.
Qed.

(* decode freshness, stated for the compiler whose collection cases are the translated source *)
Lemma unpack_fresh_source E n0 t w :
  wf_origins t = true ->
  wconforms E w t = true -> all_old n0 w = true ->
  let (r, n1) := run_unpack E w (cuK t) n0 in
  maxold n0 r = anyref E w t /\ n0 <= n1.
Proof.
  intros Hwf Hc Ho. rewrite (cuK_is_cu t Hwf). exact (unpack_top_fresh E n0 t w Hc Ho).
Qed.

(* non-vacuity: the chain distinguishes the classes (a deque is not a list, an OrderedDict not a dict, a ChainMap is
   rebuilt map by map, a mappingproxy / bytes / bytearray are built anew) and a deviating chain would be noticed:
   by-reference and shallow-copy templates are not "rebuilds" *)
Example k118a_examples :
  unpack_collection_decision (origin_facts OList) = UDBuild CList BSeqComp /\
  unpack_collection_decision (origin_facts ODeque) = UDBuild CDeque BSeqComp /\
  unpack_collection_decision (origin_facts OMutableSet) = UDBuild CSet BSeqComp /\
  unpack_collection_decision (origin_facts OSequence) = UDBuild CList BSeqComp /\
  unpack_collection_decision (origin_facts OOrderedDict) = UDBuild COrderedDict BMapComp /\
  unpack_collection_decision (origin_facts OMutableMapping) = UDBuild CDict BMapComp /\
  unpack_collection_decision xf_chainmap = UDBuild CChainMap BChainComp /\
  unpack_collection_decision xf_mappingproxy = UDBuild CMappingProxy BMapComp /\
  unpack_collection_decision xf_bytearray = UDBuild CByteArray BScalar /\
  unpack_collection_decision xf_bytes = UDBuild CBytes BScalar /\
  unpack_collection_decision xf_str = UDBuild CStr BScalar /\
  rebuilds UDSame = false /\ rebuilds UDCopy = false /\
  cuK (TSeq ODeque (TMap OCounter TAtom TAtom)) = USeq KDeque (UMap KCounter UAtom UAtom).
Proof. repeat split; reflexivity. Qed.
