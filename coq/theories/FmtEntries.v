(* C04: vocabulary of kernel K104a (tools/kernels/k104a_format_entries.py): what the entry points of the five formats
   - the <F>Decoder / <F>Encoder classes of mashumaro/codecs/*.py and the mixin classes of mashumaro/mixins/*.py -
   hand to the code generators, and the format model's own table of it.

   The format model (Fmt.v / FmtProofs.v) is parametric in  ser F / parse F  (the format library) and in the
   effective dialect  ls.  This file names WHICH library function and WHICH dialect each entry point uses, so that
   "codec objects and mixin methods are the same composition" becomes a statement about the source. *)
From Coq Require Import List String Bool.
From Verif Require Import Fmt.
Import ListNotations.
Open Scope string_scope.

(* how __init__ of a codec class treats its default_dialect argument *)
Inductive drule :=
| DAsIs                          (* handed to the builder unchanged (None = no dialect)                         *)
| DMergeInto (cls: string).      (* cls.merge(default_dialect) when given, cls otherwise                        *)

Record centry := mk_centry {
  c_dec_rule : drule;  c_dec_fn : string;  c_dec_param : bool;   (* pre_decoder_func: normalised library call; is it a
                                                                    keyword parameter (with this default)?       *)
  c_enc_rule : drule;  c_enc_fn : string;  c_enc_param : bool }.

Inductive mkind := MGenerated | MPlain.
Record mentry := mk_mentry {
  m_kind : mkind;                         (* methods generated from __mashumaro_builder_params / plain Python     *)
  m_pack_name : string;  m_unpack_name : string;           (* format_name of packer / unpacker                   *)
  m_pack_dialect : option string;  m_unpack_dialect : option string;
  m_enc_fn : string;  m_dec_fn : string;
  m_enc_kwargs : list string }.

(* ---- the model's table ------------------------------------------------------------------------------- *)
(* the library functions that play  parse F / ser F  (the ones fmt_law is validated for on every run) *)
Definition lib_parse (F: fmt) : string :=
  match F with
  | FJson => "json.loads"
  | FOrjson => "orjson.loads"
  | FYaml => "yaml.load(_, getattr(yaml, 'CSafeLoader', yaml.SafeLoader))"
  | FMsgpack => "msgpack.unpackb(_, raw=False)"
  | FToml => "tomllib.loads"
  end.
Definition lib_ser (F: fmt) : string :=
  match F with
  | FJson => "json.dumps"
  | FOrjson => "orjson.dumps"
  | FYaml => "yaml.dump(_, Dumper=getattr(yaml, 'CDumper', yaml.Dumper))"
  | FMsgpack => "msgpack.packb(_, use_bin_type=True)"
  | FToml => "tomli_w.dumps"
  end.
(* the format's dialect class (json and yaml have none) *)
Definition dialect_class (F: fmt) : option string :=
  match F with
  | FJson | FYaml => None
  | FOrjson => Some "mashumaro.mixins.orjson.OrjsonDialect"
  | FMsgpack => Some "mashumaro.mixins.msgpack.MessagePackDialect"
  | FToml => Some "mashumaro.mixins.toml.TOMLDialect"
  end.
Definition rule_of (F: fmt) : drule :=
  match dialect_class F with Some c => DMergeInto c | None => DAsIs end.
(* format names of the generated methods: to_<pack name> / from_<unpack name> *)
Definition pack_name (F: fmt) : string :=
  match F with FJson => "json" | FOrjson => "jsonb" | FYaml => "yaml" | FMsgpack => "msgpack" | FToml => "toml" end.
Definition unpack_name (F: fmt) : string :=
  match F with FJson | FOrjson => "json" | FYaml => "yaml" | FMsgpack => "msgpack" | FToml => "toml" end.

(* ---- meaning of a dialect rule: the effective dialect of the object built with default_dialect = X
        (X = no_user when the argument is omitted).  `DMergeInto cls` is  cls.merge(X):  the content of cls is the
        format's table (K41: C04_format_dialect_tables_match_source) and merge is Fmt.eff_id
        (C04_merge_strategies_is_model_clause, C04_merge_keeps_format_omit_none), i.e. Fmt.eff_lsem F X. ---- *)
Definition rule_lsem (F: fmt) (r: drule) (X: udialect) : lsem :=
  match r with
  | DAsIs => user_lsem X
  | DMergeInto _ => eff_lsem F X
  end.

Definition drule_eqb (a b: drule) : bool :=
  match a, b with
  | DAsIs, DAsIs => true
  | DMergeInto x, DMergeInto y => String.eqb x y
  | _, _ => false end.
Definition ostr_eqb (a b: option string) : bool :=
  match a, b with None, None => true | Some x, Some y => String.eqb x y | _, _ => false end.

Lemma drule_eqb_eq a b : drule_eqb a b = true -> a = b.
Proof.
  destruct a, b; simpl; intro H; try discriminate; try reflexivity.
  apply String.eqb_eq in H. subst. reflexivity.
Qed.
Lemma ostr_eqb_eq a b : ostr_eqb a b = true -> a = b.
Proof.
  destruct a, b; simpl; intro H; try discriminate; try reflexivity.
  apply String.eqb_eq in H. subst. reflexivity.
Qed.

(* without a format dialect class the effective dialect is the caller's own: for json / yaml the two readings agree *)
Lemma rule_lsem_model F X : rule_lsem F (rule_of F) X = eff_lsem F X.
Proof. destruct F; reflexivity. Qed.
