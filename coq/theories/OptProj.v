(* C08 - model of the option handling of the generated to_dict body
   (builder.py _add_pack_method_lines / _pack_method_set_value / add_pack_method dispatch)
   and the reference projection.  Executable, no proofs here.

   The model is FLAT: it is parametric in the already packed value of every field
   (the value the field's packer expression yields); nested classes are treated in
   OptNested.v. *)
From Coq Require Import List String Ascii ZArith Bool.
Import ListNotations.
Open Scope string_scope.
Open Scope Z_scope.

(* ------------------------------------------------------------------ *)
(* Python values as far as the body looks at them                       *)
Inductive pv :=
| PNone
| PBool (b: bool)
| PInt (z: Z)
| PFlt (z: Z)            (* a float with an integral value (0.0, 1.0, -0.0 = 0.0 ...) *)
| PFltX (n: nat)         (* any other finite float, numbered by the harness *)
| PNaN                   (* float('nan') *)
| PStr (s: string)
| POpq (n: nat)          (* any other object; numbered up to Python == by the harness *)
| PDict (kvs: list (string * pv))    (* the mapping produced for a nested dataclass *)
| PList (l: list pv).                (* the list produced for a List[<dataclass>] field *)

Definition is_none (v: pv) : bool := match v with PNone => true | _ => false end.
Definition is_nan (v: pv) : bool := match v with PNaN => true | _ => false end.

(* structural identity (type-sensitive): used to compare outputs *)
Fixpoint pv_eqb (a b: pv) {struct a} : bool :=
  match a, b with
  | PNone, PNone | PNaN, PNaN => true
  | PBool x, PBool y => Bool.eqb x y
  | PInt x, PInt y | PFlt x, PFlt y => x =? y
  | PStr x, PStr y => String.eqb x y
  | POpq x, POpq y | PFltX x, PFltX y => Nat.eqb x y
  | PDict x, PDict y =>
      (fix deqb (l1 l2: list (string * pv)) : bool :=
         match l1, l2 with
         | [], [] => true
         | (k1, v1) :: r1, (k2, v2) :: r2 => String.eqb k1 k2 && pv_eqb v1 v2 && deqb r1 r2
         | _, _ => false end) x y
  | PList x, PList y =>
      (fix leqb (l1 l2: list pv) : bool :=
         match l1, l2 with
         | [], [] => true
         | v1 :: r1, v2 :: r2 => pv_eqb v1 v2 && leqb r1 r2
         | _, _ => false end) x y
  | _, _ => false end.

(* Python == : numbers compare across bool/int/float, NaN equals nothing *)
Definition num (v: pv) : option Z :=
  match v with PBool b => Some (if b then 1 else 0) | PInt z | PFlt z => Some z | _ => None end.
Definition py_eq (a b: pv) : bool :=
  match num a, num b with
  | Some x, Some y => x =? y
  | _, _ => match a, b with
            | PNone, PNone => true
            | PStr s, PStr t => String.eqb s t
            | POpq i, POpq j | PFltX i, PFltX j => Nat.eqb i j
            | _, _ => false end
  end.

(* ------------------------------------------------------------------ *)
(* option lattice                                                       *)
Inductive tri := U | F | T.
Record ns := { n_on : tri; n_od : tri; n_ba : tri }.   (* omit_none, omit_default, serialize_by_alias *)

Fixpoint first_set (l: list tri) : bool :=
  match l with [] => false | U :: r => first_set r | F :: _ => false | T :: _ => true end.
Definition sel (f: ns -> tri) (o: option ns) : tri := match o with Some n => f n | None => U end.
(* get_dialect_or_config_option(option, False): first namespace that has the attribute *)
Definition look (f: ns -> tri) (l: list (option ns)) : bool := first_set (map (sel f) l).

Record opts := {
  o_call : option ns;        (* dialect=... keyword argument of the call *)
  o_cfgd : option ns;        (* Config.dialect *)
  o_cfg  : ns;               (* Config *)
  o_dd   : option ns;        (* default dialect of the codec / mixin *)
  o_sort : bool;             (* Config.sort_keys *)
  o_fon  : bool;             (* TO_DICT_ADD_OMIT_NONE_FLAG *)
  o_fba  : bool;             (* TO_DICT_ADD_BY_ALIAS_FLAG *)
  o_fdl  : bool;             (* ADD_DIALECT_SUPPORT *)
  o_fcx  : bool;             (* ADD_SERIALIZATION_CONTEXT (no influence on the mapping) *)
  o_kon  : option bool;      (* omit_none=... keyword argument *)
  o_kba  : option bool;      (* by_alias=... keyword argument *)
}.

Definition ns_unset : ns := {| n_on := U; n_od := U; n_ba := U |}.
Definition plain_opts : opts :=
  {| o_call := None; o_cfgd := None; o_cfg := ns_unset; o_dd := None; o_sort := false;
     o_fon := false; o_fba := false; o_fdl := false; o_fcx := false; o_kon := None; o_kba := None |}.

(* a keyword argument is accepted only by a method generated with the feature *)
Definition kw_ok (o: opts) : bool :=
  (match o.(o_kon) with Some _ => o.(o_fon) | None => true end)
  && (match o.(o_kba) with Some _ => o.(o_fba) | None => true end)
  && (match o.(o_call) with Some _ => o.(o_fdl) | None => true end).

(* the four code generation options of a class, and what a class forwards to a nested class:
   the keyword flags enabled on BOTH (get_pack_method_flags, kernel K8) *)
Record flags := { g_on : bool; g_ba : bool; g_dl : bool; g_cx : bool }.
Definition both (a b: flags) : flags :=
  {| g_on := a.(g_on) && b.(g_on); g_ba := a.(g_ba) && b.(g_ba);
     g_dl := a.(g_dl) && b.(g_dl); g_cx := a.(g_cx) && b.(g_cx) |}.
Definition flags_of (o: opts) : flags := {| g_on := o.(o_fon); g_ba := o.(o_fba); g_dl := o.(o_fdl); g_cx := o.(o_fcx) |}.

(* ------------------------------------------------------------------ *)
(* fields                                                               *)
Inductive dflt := DNo | DVal (v: pv) | DFac (v: pv).   (* DFac v: default_factory whose call yields v *)

(* the field's type as far as CodeBuilder.is_field_nullable looks at it (kernel K17) *)
Inductive fty :=
| TyPlain                   (* int, date, List[...], a dataclass, ... *)
| TyAny | TyNoneType | TyNoneLit        (* typing.Any, type(None), None *)
| TyOptional                (* Optional[X] = Union[X, None]: exactly two members *)
| TyUnionNone               (* a Union of three or more members one of which is None *)
| TyTypeVarAny              (* an unconstrained, unbound TypeVar *)
| TyAnnotated (t: fty)      (* Annotated[t, ...] *)
| TyFinal (t: fty)          (* Final[t] *)
| TyFinalBare.              (* Final without argument *)

(* Annotated[...] and Final[...] do not change what a field may hold *)
Fixpoint unwrap (t: fty) : fty :=
  match t with TyAnnotated u | TyFinal u => unwrap u | _ => t end.
(* is_field_nullable, type part = the type admits None (since /repo 906a805 every union that
   contains None counts, not only the two-member Optional) *)
Definition ty_nullable (t: fty) : bool :=
  match unwrap t with TyAny | TyNoneType | TyNoneLit | TyOptional | TyTypeVarAny | TyUnionNone => true | _ => false end.

Record fplan := {
  p_name : string;
  p_alias : option string;
  p_ty : fty;
  p_trivial : bool;         (* the packer is the identity expression *)
  p_default : dflt;
  p_omit : bool;            (* metadata serialize="omit" *)
}.

Definition p_tynull (p: fplan) : bool := ty_nullable p.(p_ty).
Arguments p_tynull : simpl never.

(* could_be_none = is_field_nullable: get_field_default WITHOUT calling the factory *)
Definition nullable (p: fplan) : bool :=
  p_tynull p || match p.(p_default) with DVal PNone => true | _ => false end.
(* get_field_default(call_factory=True) *)
Definition default_value (p: fplan) : option pv :=
  match p.(p_default) with DNo => None | DVal v | DFac v => Some v end.
Definition default_is_none (p: fplan) : bool :=
  match default_value p with Some PNone => true | _ => false end.
Definition has_alias (p: fplan) : bool := match p.(p_alias) with Some _ => true | None => false end.

Definition fval := (pv * pv)%type.     (* raw attribute value, value of the packer expression *)
Definition row := (fplan * fval)%type.

(* value the packer expression yields (identity packers yield the raw object) *)
Definition pval (p: fplan) (v: fval) : pv := if p.(p_trivial) then fst v else snd v.

(* ------------------------------------------------------------------ *)
(* sorting by field name (sort_keys): insertion sort, code point order  *)
Section Sort.
  Context {A: Type} (key: A -> string).
  Fixpoint insert_by (x: A) (l: list A) : list A :=
    match l with
    | [] => [x]
    | y :: r => if String.leb (key x) (key y) then x :: l else y :: insert_by x r end.
  Definition sort_by (l: list A) : list A := fold_right insert_by [] l.
End Sort.

Definition row_name (r: row) : string := (fst r).(p_name).

(* ------------------------------------------------------------------ *)
(* the generated body                                                   *)
Record sctx := {
  s_on : bool; s_od : bool; s_ba : bool;     (* options read by the builder (static) *)
  s_fon : bool; s_fba : bool;                (* keyword features *)
  r_on : bool; r_ba : bool;                  (* run-time values of the keyword parameters *)
}.

(* builder.py:893-900 *)
Definition use_kwargs (c: sctx) (fs: list fplan) : bool :=
  existsb (fun p => nullable p && negb p.(p_trivial)) fs
  || (existsb nullable fs && (c.(s_on) || c.(s_fon)))
  || (c.(s_fba) && existsb has_alias fs)
  || c.(s_od).

(* __pack_method_set_value *)
Definition key_kw (c: sctx) (p: fplan) : string :=
  match p.(p_alias) with
  | Some a => if c.(s_fba) then (if c.(r_ba) then a else p.(p_name))
              else if c.(s_ba) then a else p.(p_name)
  | None => p.(p_name) end.
(* dict literal: aliases.get(fname, fname) if serialize_by_alias *)
Definition key_lit (c: sctx) (p: fplan) : string :=
  match p.(p_alias) with Some a => if c.(s_ba) then a else p.(p_name) | None => p.(p_name) end.

(* _pack_method_set_value: `if value != <default>:` on the RAW value; for a NaN default
   `if not (isinstance(value, float) and isnan(value)):` -- only a float NaN matches, nothing raises *)
Definition guard (od: bool) (p: fplan) (raw: pv) : bool :=
  if od then
    match default_value p with
    | None => true
    | Some PNaN => negb (is_nan raw)
    | Some d => negb (py_eq raw d) end
  else true.

Definition out := option (list (string * pv)).      (* None: the call raises (no branch of the current body does) *)
Definition guarded (g: bool) (l: list (string * pv)) : out := Some (if g then l else []).

Definition emit_kw (c: sctx) (r: row) : out :=
  let p := fst r in let raw := fst (snd r) in
  let k := key_kw c p in
  let dn := default_is_none p in
  if nullable p then
    if p.(p_trivial) && negb c.(s_on) && negb c.(s_fon) && negb (c.(s_od) && dn) then
      guarded (guard c.(s_od) p raw) [(k, raw)]
    else if negb (is_none raw) then
      guarded (guard (c.(s_od) && negb dn) p raw) [(k, pval p (snd r))]
    else if c.(s_on) && negb c.(s_fon) then Some []
    else if c.(s_od) && dn then Some []
    else if c.(s_fon) then (if negb c.(r_on) then Some [(k, PNone)] else Some [])
    else Some [(k, PNone)]
  else
    guarded (guard c.(s_od) p raw) [(k, pval p (snd r))].

Definition emit_lit (c: sctx) (r: row) : out := Some [(key_lit c (fst r), pval (fst r) (snd r))].

Section FlatMapM.
  Context {A C: Type} (f: A -> option (list C)).
  Fixpoint flat_mapM (l: list A) : option (list C) :=
    match l with
    | [] => Some []
    | x :: r => match f x, flat_mapM r with Some a, Some b => Some (a ++ b)%list | _, _ => None end end.
End FlatMapM.

Definition body (c: sctx) (sort: bool) (rows: list row) : out :=
  let rows := if sort then sort_by row_name rows else rows in
  let rows := filter (fun r => negb (fst r).(p_omit)) rows in
  if use_kwargs c (map fst rows) then flat_mapM (emit_kw c) rows else flat_mapM (emit_lit c) rows.

(* ------------------------------------------------------------------ *)
(* dispatch: default method, dialect-specific method (add_pack_method,
   _add_pack_method_with_dialect_lines, get_pack_method_default_flag_values) *)
Definition levels (o: opts) (bd: option ns) : list (option ns) := [bd; o.(o_cfgd); Some o.(o_cfg); o.(o_dd)].
Definition kwdef (b: option bool) (d: bool) : bool := match b with Some x => x | None => d end.

Definition ctx_of (o: opts) : sctx :=
  (* keyword defaults of the default method (built with dialect = None) *)
  let on0 := look n_on (levels o None) in
  let ba0 := look n_ba (levels o None) in
  (* `if dialect is None:` ... `else:` dispatch to the method built for that dialect; the
     default method forwards ITS resolved keyword values explicitly *)
  let bd := if o.(o_fdl) then o.(o_call) else None in
  {| s_on := look n_on (levels o bd);
     s_od := look n_od (levels o bd);
     s_ba := look n_ba (levels o bd);
     s_fon := o.(o_fon); s_fba := o.(o_fba);
     r_on := kwdef o.(o_kon) on0;
     r_ba := kwdef o.(o_kba) ba0 |}.

Definition to_dict_model (o: opts) (fs: list fplan) (vs: list fval) : out :=
  body (ctx_of o) o.(o_sort) (combine fs vs).

(* the plain twin: same fields, no per-field omit, no options *)
Definition clear_omit (p: fplan) : fplan :=
  {| p_name := p.(p_name); p_alias := p.(p_alias); p_ty := p.(p_ty); p_trivial := p.(p_trivial);
     p_default := p.(p_default); p_omit := false |}.
Definition plain_out (fs: list fplan) (vs: list fval) : list (string * pv) :=
  match to_dict_model plain_opts (map clear_omit fs) vs with Some l => l | None => [] end.

(* ------------------------------------------------------------------ *)
(* reference: the projection (written from the property text)           *)
Record eff := { e_on : bool; e_od : bool; e_ba : bool; e_sort : bool }.

(* keyword argument > call dialect > Config.dialect > Config > default dialect > False *)
Definition eff_of (o: opts) : eff :=
  {| e_on := kwdef o.(o_kon) (look n_on (levels o o.(o_call)));
     e_od := look n_od (levels o o.(o_call));
     e_ba := kwdef o.(o_kba) (look n_ba (levels o o.(o_call)));
     e_sort := o.(o_sort) |}.

(* "value equals the field default": Python ==, a NaN default is matched by NaN *)
Definition equals_default (p: fplan) (raw: pv) : bool :=
  match default_value p with
  | None => false
  | Some PNaN => is_nan raw
  | Some d => py_eq raw d end.

Definition dropped (e: eff) (p: fplan) (raw: pv) (plainv: pv) : bool :=
  p.(p_omit) || (e.(e_on) && is_none plainv) || (e.(e_od) && equals_default p raw).

Definition spec_key (e: eff) (p: fplan) : string :=
  match p.(p_alias) with Some a => if e.(e_ba) then a else p.(p_name) | None => p.(p_name) end.

Definition prow := (row * (string * pv))%type.     (* field, its values, its entry in the plain output *)
Definition prow_name (r: prow) : string := row_name (fst r).

Definition project_row (e: eff) (r: prow) : list (string * pv) :=
  let p := fst (fst r) in let raw := fst (snd (fst r)) in let v := snd (snd r) in
  if dropped e p raw v then [] else [(spec_key e p, v)].

Definition project (e: eff) (fs: list fplan) (vs: list fval) (plain: list (string * pv)) : list (string * pv) :=
  let rows := combine (combine fs vs) plain in
  let rows := if e.(e_sort) then sort_by prow_name rows else rows in
  flat_map (project_row e) rows.

(* ------------------------------------------------------------------ *)
(* side conditions                                                      *)
(* a key of the plain output is None only for a nullable field holding None *)
Definition row_ok (r: row) : bool :=
  (nullable (fst r) && is_none (fst (snd r))) || negb (is_none (pval (fst r) (snd r))).
Definition vals_ok (fs: list fplan) (vs: list fval) : bool :=
  Nat.eqb (List.length fs) (List.length vs) && forallb row_ok (combine fs vs).

(* negation of the signature of known finding call-dialect-vs-flag-defaults (D14): the call
   passes dialect=D to a class with the keyword feature, does not pass the keyword itself, and
   D sets the option to a value different from the default method's keyword default *)
Definition d14_on (o: opts) : bool :=
  o.(o_fdl) && o.(o_fon) && match o.(o_kon) with Some _ => false | None => true end &&
  negb (Bool.eqb (look n_on (levels o o.(o_call))) (look n_on (levels o None))).
Definition d14_ba (o: opts) : bool :=
  o.(o_fdl) && o.(o_fba) && match o.(o_kba) with Some _ => false | None => true end &&
  negb (Bool.eqb (look n_ba (levels o o.(o_call))) (look n_ba (levels o None))).
Definition flag_defaults_ok (o: opts) : bool := negb (d14_on o) && negb (d14_ba o).

(* the produced mapping: a dict built by successive assignments *)
Fixpoint dict_set (d: list (string * pv)) (k: string) (v: pv) : list (string * pv) :=
  match d with
  | [] => [(k, v)]
  | (k', x) :: r => if String.eqb k' k then (k', v) :: r else (k', x) :: dict_set r k v end.
Definition dict_of (l: list (string * pv)) : list (string * pv) :=
  fold_left (fun d kv => dict_set d (fst kv) (snd kv)) l [].

Fixpoint pairs_eqb (a b: list (string * pv)) : bool :=
  match a, b with
  | [], [] => true
  | (k, v) :: r, (k', v') :: r' => String.eqb k k' && pv_eqb v v' && pairs_eqb r r'
  | _, _ => false end.
