(* C11: proofs about the serialization side at any depth (UnionDeepEnc.v). *)
From Coq Require Import List String Ascii ZArith Bool Lia.
From Verif Require Import UnionModel UnionProofs UnionDeep UnionDeepProofs UnionDeepEnc.
Import ListNotations.

(* flat: on the domain the generated packer is the reference *)
Theorem pack_union_ref : forall pms v, pcoherent pms v -> wire_disjoint pms v = true ->
  existsb (fun m => p_accepts m v) pms = true -> pack_union pms v = ref_pack pms v.
Proof.
  intros pms v Hc Hw He. unfold ref_pack.
  destruct (find (fun m => p_accepts m v) pms) as [m|] eqn:F.
  - apply find_some in F. destruct F as [Hi Ha]. apply pack_union_partial; assumption.
  - apply existsb_exists in He. destruct He as [m [Hi Ha]].
    pose proof (find_none _ _ F m Hi) as Hn. simpl in Hn. congruence.
Qed.

Definition pagree (v: uv) (a b: pmember) : Prop :=
  p_cls a = p_cls b /\ p_e a = p_e b /\ p_enc a v = p_enc b v.

Lemma pagree_accepts : forall v a b, pagree v a b -> p_accepts a v = p_accepts b v /\ p_out a v = p_out b v.
Proof.
  intros v a b [H1 [H2 H3]]. unfold p_accepts, p_out, p_ident. rewrite H1, H2, H3. split; reflexivity.
Qed.

Lemma ref_pack_ext : forall v ms ms', Forall2 (pagree v) ms ms' -> ref_pack ms v = ref_pack ms' v.
Proof.
  intros v ms ms' H; unfold ref_pack; induction H as [|a b r r' Hab _ IH]; simpl; [reflexivity|].
  destruct (pagree_accepts v a b Hab) as [Ha Ho]. rewrite Ha. destruct (p_accepts b v); [exact Ho | exact IH].
Qed.

Section PtyInd.
  Variable P : pty -> Prop.
  Hypothesis HLeaf : forall c i f, P (QLeaf c i f).
  Hypothesis HU : forall l, Forall (fun p => P (snd p)) l -> P (QU l).
  Hypothesis HOpt : forall t, P t -> P (QOpt t).
  Hypothesis HList : forall t, P t -> P (QList t).
  Hypothesis HTupV : forall t, P t -> P (QTupV t).
  Hypothesis HTupF : forall l, Forall P l -> P (QTupF l).
  Hypothesis HDict : forall t, P t -> P (QDict t).
  Fixpoint pty_ind' (t: pty) : P t :=
    match t with
    | QLeaf c i f => HLeaf c i f
    | QU l => HU l ((fix go (l: list (nat * pty)) : Forall (fun p => P (snd p)) l :=
                       match l with
                       | [] => Forall_nil _
                       | p :: r => Forall_cons p (match p as p0 return P (snd p0) with (e, t') => pty_ind' t' end) (go r)
                       end) l)
    | QOpt t' => HOpt t' (pty_ind' t')
    | QList t' => HList t' (pty_ind' t')
    | QTupV t' => HTupV t' (pty_ind' t')
    | QTupF l => HTupF l ((fix go (l: list pty) : Forall P l :=
                             match l with [] => Forall_nil _ | x :: r => Forall_cons x (pty_ind' x) (go r) end) l)
    | QDict t' => HDict t' (pty_ind' t')
    end.
End PtyInd.

(* hereditary coherence of the packer expressions *)
Fixpoint qcoh (t: pty) : uv -> Prop :=
  match t with
  | QU l => fun v => pcoherent (map (qmember pack_union) l) v /\
                     fold_right (fun p Q => qcoh (snd p) v /\ Q) True l
  | QOpt t' => fun v => is_none v = false -> qcoh t' v
  | QList t' | QTupV t' => seq_All (qcoh t')
  | QTupF l => fun v => tup_All (map qcoh l) v 0
  | QDict t' => dict_All (qcoh t')
  | _ => fun _ => True
  end.

Definition PQ (t: pty) : Prop := forall v, qcoh t v -> qsafe t v = true -> qenc t v = qref t v.

Lemma qenc_QU : forall l, qenc (QU l) = pack_union (map (qmember pack_union) l).
Proof. reflexivity. Qed.
Lemma qref_QU : forall l, qref (QU l) = ref_pack (map (qmember ref_pack) l).
Proof. reflexivity. Qed.

Lemma qmembers_agree : forall l v, Forall (fun p => PQ (snd p)) l ->
  fold_right (fun p Q => qcoh (snd p) v /\ Q) True l ->
  forallb (fun p => qsafe (snd p) v) l = true ->
  Forall2 (pagree v) (map (qmember pack_union) l) (map (qmember ref_pack) l).
Proof.
  intros l v H; induction H as [|[e t'] r Hp _ IH]; intros Hc Hs; simpl; [constructor|].
  simpl in Hc, Hs. destruct Hc as [Hc1 Hc2]. apply andb_true_iff in Hs; destruct Hs as [Hs1 Hs2].
  constructor; [|apply IH; assumption].
  simpl in Hp. unfold pagree.
  destruct t' as [c [|] f| | | | | |]; simpl; repeat split; try reflexivity; apply (Hp v Hc1 Hs1).
Qed.

Lemma seq_case_q : forall w t, PQ t -> forall v, seq_All (qcoh t) v -> seq_all (qsafe t) v = true ->
  seq_run w (qenc t) v = seq_run w (qref t) v.
Proof.
  intros w t IH v Hc Hs. apply seq_run_ext. intros l Hl.
  unfold seq_all in Hs. rewrite Hl in Hs. specialize (Hc l Hl).
  rewrite forallb_forall in Hs. rewrite Forall_forall in *. intros x Hx. apply IH; auto.
Qed.

Lemma tup_case_q : forall l, Forall PQ l -> forall v i,
  tup_All (map qcoh l) v i -> tup_all (map qsafe l) v i = true ->
  tup_items (map qenc l) v i = tup_items (map qref l) v i.
Proof.
  intros l H; induction H as [|t r Ht _ IH]; intros v i Hc Hs; simpl in *; [reflexivity|].
  destruct Hc as [Hc1 Hc2]. destruct (index_of v i) as [x|]; [|reflexivity].
  apply andb_true_iff in Hs; destruct Hs as [Hs1 Hs2].
  rewrite (Ht x (Hc1 x eq_refl) Hs1), (IH v (S i) Hc2 Hs2). reflexivity.
Qed.

Theorem deep_enc_partial : forall t, PQ t.
Proof.
  induction t as [c i f|l IH|t IH|t IH|t IH|l IH|t IH] using pty_ind'; intros v Hc Hs.
  - reflexivity.
  - rewrite qenc_QU, qref_QU. simpl in Hc, Hs. destruct Hc as [Hc Hcl].
    apply andb_true_iff in Hs; destruct Hs as [Hs Hsl]. apply andb_true_iff in Hs; destruct Hs as [Hw He].
    rewrite (pack_union_ref _ v Hc Hw He). apply ref_pack_ext. apply qmembers_agree; assumption.
  - unfold qenc, qref; simpl. unfold opt_dec. simpl in Hc, Hs.
    destruct (is_none v) eqn:E; [reflexivity|]. simpl in Hs. apply (IH v (Hc eq_refl) Hs).
  - apply (seq_case_q UList t IH v Hc Hs).
  - apply (seq_case_q UList t IH v Hc Hs).
  - unfold qenc, qref; simpl. simpl in Hc, Hs.
    change (map (qgen pack_union) l) with (map qenc l). change (map (qgen ref_pack) l) with (map qref l).
    rewrite (tup_case_q l IH v 0 Hc Hs). reflexivity.
  - unfold qenc, qref; simpl. unfold dict_run. simpl in Hc, Hs. unfold dict_All in Hc. unfold dict_all in Hs.
    destruct (items_of v) as [kvs|]; [|reflexivity].
    specialize (Hc kvs eq_refl). rewrite forallb_forall in Hs. rewrite Forall_forall in Hc.
    f_equal. apply mapO_ext. apply Forall_forall. intros [k x] Hi.
    change (qgen pack_union t x) with (qenc t x). change (qgen ref_pack t x) with (qref t x).
    rewrite (IH x (Hc _ Hi) (Hs _ Hi)). reflexivity.
Qed.
