(* C14: concrete families in the model: the divergence removed by fix D5 and the three defects the
   faithful model contains (known findings C14/...). *)
From Coq Require Import List Arith Bool Lia.
From Verif Require Import LazyModel LazyProofs LazyCheck.
Import ListNotations.

Definition to_dict : mname := MN true 0 false 0.
Definition from_dict : mname := MN false 0 false 0.
Definition to_msgpack : mname := MN true 1 true 0.

(* --- D5: class A(DataClassDictMixin) with lazy_compilation + ADD_DIALECT_SUPPORT ---------------------- *)
Definition F_d5 : fam := [CD true true [(0, 0)] [] None].
Definition st_d5_a (d5: bool) : state := after_defs F_d5 d5 [0].
(* state after the dialect-specific (lazy!) build and the first rebuild of the default method *)
Definition st_d5_b : state :=
  fst (build F_d5 false (bfuel F_d5)
         (fst (build F_d5 false (bfuel F_d5) (st_d5_a false) true 0 to_dict (Some 1))) false 0 to_dict None).

Lemma d5_b_slot : mro_slot F_d5 st_d5_b 0 to_dict = Some (Compiled 0 to_dict None).
Proof. vm_compute. reflexivity. Qed.
Lemma d5_b_cache : cache_lookup st_d5_b 0 to_dict 1 = Some (Stub 0 to_dict).
Proof. vm_compute. reflexivity. Qed.
Lemma d5_b_build : build F_d5 false (bfuel F_d5) st_d5_b false 0 (stub_target to_dict) None = (st_d5_b, None).
Proof. vm_compute. reflexivity. Qed.

Lemma d5_loop : forall fuel, dispatch F_d5 false fuel st_d5_b 0 to_dict (Some 1) = (st_d5_b, DOOF).
Proof.
  induction fuel as [|fuel IH]; [reflexivity|].
  rewrite dispatch_S, d5_b_slot, d5_b_cache. cbn [run_cached]. rewrite d5_b_build. exact IH.
Qed.

Lemma d5_a_slot : mro_slot F_d5 (st_d5_a false) 0 to_dict = Some (Stub 0 to_dict).
Proof. vm_compute. reflexivity. Qed.
Lemma d5_a_cache : cache_lookup (st_d5_a false) 0 to_dict 1 = None.
Proof. vm_compute. reflexivity. Qed.
Definition st_d5_a1 : state := fst (build F_d5 false (bfuel F_d5) (st_d5_a false) true 0 (dialect_target to_dict) (Some 1)).
Lemma d5_a_build : build F_d5 false (bfuel F_d5) (st_d5_a false) true 0 (dialect_target to_dict) (Some 1) = (st_d5_a1, None).
Proof. vm_compute. reflexivity. Qed.
Lemma d5_a1_cache : cache_lookup st_d5_a1 0 to_dict 1 = Some (Stub 0 to_dict).
Proof. vm_compute. reflexivity. Qed.
Lemma d5_a1_build : build F_d5 false (bfuel F_d5) st_d5_a1 false 0 (stub_target to_dict) None = (st_d5_b, None).
Proof. vm_compute. reflexivity. Qed.

(* before fix D5: A(...).to_dict(dialect=D) never returns, whatever the fuel *)
Theorem lazy_dialect_diverges : forall fuel,
  snd (call F_d5 false fuel (V []) (st_d5_a false) 0 to_dict (Some 1)) = OOF.
Proof.
  intros [|fuel]; [reflexivity|].
  rewrite call_V, dispatch_S, d5_a_slot, d5_a_cache, d5_a_build, d5_a1_cache. cbn [run_cached].
  rewrite d5_a1_build, d5_loop. reflexivity.
Qed.

(* after fix D5 the same call answers with fuel 2 (and the answer is the eager one) *)
Example lazy_dialect_fixed :
  snd (call F_d5 true 2 (V []) (st_d5_a true) 0 to_dict (Some 1)) = Out (Node 0 to_dict (Some 1) []).
Proof. vm_compute. reflexivity. Qed.

(* --- fixed (was: known finding C14/lazy-stub-drops-type-args) ----------------------------------------------------- *)
(* K0 generic (lazy), K1(a: K0[int]) lazy: the stub for K0.__mashumaro_to_dict_<md5>__ rebuilds that very method *)
Definition F_spec (lazy: bool) : fam := [CD lazy false [(0, 0)] [] None; CD lazy false [(0, 0)] [FD 0 1 true] None].
Definition h_spec : list op := [Define 0; Define 1; Call 1 to_dict None (V [(0, V [])])].

Example lazy_specialisation_agrees :
  run (F_spec true) true FUEL st0 h_spec = run (F_spec false) true FUEL st0 h_spec /\
  nth_error (run (F_spec true) true FUEL st0 h_spec) 2 =
    Some (Out (Node 1 to_dict None [Node 0 (MN true 0 false 1) None []])).
Proof. split; vm_compute; reflexivity. Qed.

(* --- fixed by 28d8957 (was: known finding C14/dialect-call-before-default-compile) --------------------------- *)
(* K0 plain, K1(p: K0) with ADD_DIALECT_SUPPORT: lazy K1, FIRST call with a dialect: the nested class is now
   compiled on demand for its DEFAULT method, so the first call answers like the eager twin (general statement:
   LazyProofs.no_cache_attribute_error + history_partial) *)
Definition F_dial (lazy: bool) : fam := [CD false false [] [] None; CD lazy true [(0, 0)] [FD 0 0 true] None].
Definition h_dial : list op := [Define 0; Define 1; Call 1 to_dict (Some 1) (V [(0, V [])])].

Example dialect_first_agrees :
  nth_error (run (F_dial true) true FUEL st0 h_dial) 2 =
    Some (Out (Node 1 to_dict (Some 1) [Node 0 to_dict None []])) /\
  run (F_dial true) true FUEL st0 h_dial = run (F_dial false) true FUEL st0 h_dial.
Proof. split; vm_compute; reflexivity. Qed.

(* --- fixed by b1d4bae / 423401c (was: known finding C14/dialect-first-call-on-self-referencing-class) --------- *)
(* K0(MessagePack mixin, ADD_DIALECT_SUPPORT, ks: List[K0]) and the same with ks: List[Self]: the first call with a
   dialect compiles the default nested method and answers as after a plain call *)
Definition F_self (byname: bool) : fam := [CD false true [(0, 0); (1, 1)] [FD 0 0 byname] None].
Example dialect_first_selfref_agrees : forall byname,
  nth_error (run (F_self byname) true FUEL st0 [Define 0; Call 0 to_msgpack (Some 1) (V [(0, V [])])]) 1 =
    Some (Out (Node 0 (MN true 1 false 0) (Some 1) [Node 0 (MN true 1 false 0) (Some 1) []])) /\
  nth_error (run (F_self byname) true FUEL st0
               [Define 0; Call 0 to_msgpack None (V [(0, V [])]); Call 0 to_msgpack (Some 1) (V [(0, V [])])]) 2 =
    Some (Out (Node 0 (MN true 1 false 0) (Some 1) [Node 0 (MN true 1 false 0) (Some 1) []])).
Proof. intros [|]; split; vm_compute; reflexivity. Qed.

(* --- known finding C14/ondemand-build-cycle ----------------------------------------------------------------- *)
(* K0(MessagePack mixin, b: Optional[K1]), K1 plain (a: Optional[K0]) *)
Definition F_cyc (lazy: bool) : fam := [CD lazy false [(0, 0); (1, 1)] [FD 1 0 true] None; CD false false [] [FD 0 0 true] None].
Definition h_cyc : list op := [Define 0; Define 1; Call 0 to_msgpack None (V [])].

Example build_cycle_diverges :
  nth_error (run (F_cyc false) true FUEL st0 h_cyc) 2 = Some (Exc EBuildCycle) /\
  nth_error (run (F_cyc true) true FUEL st0 h_cyc) 2 = Some (Out (Node 0 to_msgpack None [])).
Proof. split; vm_compute; reflexivity. Qed.

(* --- inheritance: run-time lookup through the MRO ------------------------------------------------------------- *)
(* K0 plain, K1(K0) plain with one more position, H(MessagePack mixin, k: K1).  In every reachable state K1 owns
   __mashumaro_to_dict_msgpack__ when H's code calls it (LazyProofs.complete); in a hand-made state where only the
   parent K0 owns it - the situation of the former defects - the call silently runs K0's code on the K1 value *)
Definition F_inh : fam :=
  [CD false false [] [] None; CD false false [] [FD 0 0 true] (Some 0); CD false false [(0, 0); (1, 1)] [FD 1 0 true] None].
Definition h_inh : list op := [Define 0; Define 1; Define 2; Call 2 to_msgpack None (V [(0, V [(0, V [])])])].
Example inherited_lookup_reachable :
  nth_error (run F_inh true FUEL st0 h_inh) 3 =
    Some (Out (Node 2 to_msgpack None [Node 1 (MN true 1 false 0) None [Node 0 (MN true 1 false 0) None []]])).
Proof. vm_compute. reflexivity. Qed.

Definition st_parent_only : state :=
  ST [((0, MN true 1 false 0), Compiled 0 (MN true 1 false 0) None)] [] [0; 1].
Example mro_fallback_runs_parent_code :
  snd (call F_inh true FUEL (V [(0, V [])]) st_parent_only 1 (MN true 1 false 0) None) =
    Out (Node 0 (MN true 1 false 0) None []) /\
  get_slot st_parent_only 1 (MN true 1 false 0) = None.
Proof. split; vm_compute; reflexivity. Qed.

(* --- the full statement of C14 in the model, and its refutation ------------------------------------------ *)
(* "for every family, every pair of definition orders / lazy flags and every history of calls, the outcomes
    equal those of the twin" *)
Definition history_full : Prop :=
  forall (F F': fam) (defs defs' calls: list op) (fuel: nat),
    same_shape F F' -> 2 <= fuel ->
    (forall o, In o calls -> match o with Call _ _ _ _ => True | Define _ => False end) ->
    skipn (length defs) (run F true fuel st0 (defs ++ calls)) =
    skipn (length defs') (run F' true fuel st0 (defs' ++ calls)).

Theorem history_refuted : ~ history_full.
Proof.
  intros H.
  specialize (H (F_cyc false) (F_cyc true) [Define 0; Define 1] [Define 0; Define 1]
                [Call 0 to_msgpack None (V [])] FUEL).
  assert (S: same_shape (F_cyc false) (F_cyc true)).
  { intros [|[|c]]; split; reflexivity. }
  specialize (H S).
  assert (L: 2 <= FUEL) by (unfold FUEL; lia). specialize (H L).
  assert (C: forall o, In o [Call 0 to_msgpack None (V [])] ->
                       match o with Call _ _ _ _ => True | Define _ => False end).
  { intros o [<-|[]]. exact I. }
  specialize (H C). vm_compute in H. discriminate.
Qed.

(* the history theorem is not vacuous: an eager and a lazy family, both answering, same answer *)
Example history_nonvacuous :
  let h := [Define 0; Define 1; Call 1 to_dict None (V [(0, V [])]); Call 1 from_dict None (V [])] in
  run (F_dial true) true 2 st0 h = run (F_dial false) true 2 st0 h /\
  nth_error (run (F_dial true) true 2 st0 h) 2 = Some (Out (Node 1 to_dict None [Node 0 to_dict None []])) /\
  ok_hist (F_dial true) true 2 st0 h /\ ok_hist (F_dial false) true 2 st0 h.
Proof. repeat split; vm_compute; try reflexivity; try discriminate. Qed.

(* the computable domain predicate implies the one used by the theorems *)
Lemma selfref_unspecb_ok F : selfref_unspecb F = true -> selfref_unspec F.
Proof.
  unfold selfref_unspecb, selfref_unspec. intros H c f Hf (g & Hg & Eg).
  rewrite forallb_forall in H.
  destruct (Nat.lt_ge_cases c (length F)) as [L|L].
  - specialize (H (cls F c) (nth_In F dflt_c L)). rewrite forallb_forall in H. specialize (H f Hf).
    apply orb_prop in H as [H|H]; [|now apply Nat.eqb_eq].
    exfalso. apply negb_true_iff in H. unfold has_selfb in H.
    assert (T: existsb (fun g0 => Nat.eqb (f_cls g0) (f_cls f)) (c_fields (cls F (f_cls f))) = true).
    { apply existsb_exists. exists g. split; [exact Hg|]. now apply Nat.eqb_eq. }
    congruence.
  - unfold cls in Hf. rewrite nth_overflow in Hf by exact L. destruct Hf.
Qed.
