(* C11 / K22: the Literal (un)packer methods emitted by the (translated) loops compute
   UnionModel.lit_dec / lit_enc.  Re-checked on every run against coq/gen/K22.v. *)
From Coq Require Import List Bool ZArith.
From Verif Require Import UnionModel UnionProofs LitEmit.
From VerifGen Require Import K22.
Import ListNotations.

Section K22Facts.
  Variable bdec benc : uv -> option uv.

  Lemma ustep_run : forall l rest v,
    run_ulines bdec (ustep l ++ rest) v =
    if lit_match bdec v l then Some (lit_const l) else run_ulines bdec rest v.
  Proof.
    intros l rest v. unfold ustep. destruct l; simpl; unfold cls_eq;
      try (match goal with |- context [same_class ?a ?b && py_eq ?a ?b] => destruct (same_class a b && py_eq a b) end; reflexivity).
    destruct (bdec v) as [y|]; [|reflexivity]. destruct (uv_eqb y b); reflexivity.
  Qed.

  Theorem emit_unpack_correct : forall lits v, run_ulines bdec (emit_unpack lits) v = lit_dec bdec lits v.
  Proof.
    intros lits v. unfold emit_unpack, lit_dec. induction lits as [|l r IH]; [reflexivity|].
    cbn [flat_map first_some]. rewrite <- app_assoc, ustep_run.
    destruct (lit_match bdec v l); [reflexivity | exact IH].
  Qed.

  Lemma kstep_run : forall l rest v,
    run_klines benc (kstep l ++ rest) v =
    if lit_pmatch v l then lit_pout benc v l else run_klines benc rest v.
  Proof.
    intros l rest v. unfold kstep, lit_pmatch. destruct l; simpl; unfold cls_eq;
      match goal with |- context [same_class ?a ?b && py_eq ?a ?b] => destruct (same_class a b && py_eq a b) end; reflexivity.
  Qed.

  Definition flat2 (o: option (option uv)) : option uv := match o with Some r => r | None => None end.

  Theorem emit_pack_lit_correct : forall lits v, run_klines benc (emit_pack lits) v = flat2 (lit_enc benc lits v).
  Proof.
    intros lits v. unfold emit_pack, lit_enc. induction lits as [|l r IH]; [reflexivity|].
    cbn [flat_map first_some]. rewrite <- app_assoc, kstep_run.
    destruct (lit_pmatch v l); [reflexivity | exact IH].
  Qed.
End K22Facts.
