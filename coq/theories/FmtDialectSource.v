(* C04: the format model's table of the format dialects (Fmt.fmt_entry / Fmt.fmt_omit) IS what the three dialect
   classes of /repo declare, as read from the source on this run (VerifGen.K41). *)
From Coq Require Import List Bool.
From Verif Require Import Fmt.
From VerifGen Require Import K41.
Import ListNotations.

Definition fmt_eqb (a b: fmt) : bool :=
  match a, b with
  | FJson, FJson | FOrjson, FOrjson | FYaml, FYaml | FMsgpack, FMsgpack | FToml, FToml => true
  | _, _ => false end.

Fixpoint assoc_fmt {A} (F: fmt) (l: list (fmt * A)) : option A :=
  match l with [] => None | (F', x) :: r => if fmt_eqb F' F then Some x else assoc_fmt F r end.

(* json and yaml have no dialect class: no entry in the source tables *)
Definition source_entry (F: fmt) (k: lkind) : option sentry :=
  match assoc_fmt F source_strategies with Some l => udial_of l k | None => None end.
Definition source_omit (F: fmt) : bool :=
  match assoc_fmt F source_omit_none with Some b => b | None => false end.

Definition all_fmts : list fmt := [FJson; FOrjson; FYaml; FMsgpack; FToml].

Lemma tables_match_sweep :
  forallb (fun F => Bool.eqb (source_omit F) (fmt_omit F) &&
                    forallb (fun k => sentry_eqb (source_entry F k) (fmt_entry F k)) all_kinds) all_fmts = true.
Proof. vm_compute. reflexivity. Qed.

Lemma sentry_eqb_eq a b : sentry_eqb a b = true -> a = b.
Proof.
  destruct a as [[i|s d]|]; destruct b as [[j|s' d']|]; simpl; intro H; try discriminate; try reflexivity.
  - apply PeanoNat.Nat.eqb_eq in H. subst. reflexivity.
  - apply andb_true_iff in H. destruct H as [H1 H2].
    destruct s, s'; try discriminate; destruct d, d'; try discriminate;
      repeat match goal with H : Nat.eqb _ _ = true |- _ => apply PeanoNat.Nat.eqb_eq in H; subst end; reflexivity.
Qed.

Theorem format_dialect_tables_match_source : forall F k,
  source_entry F k = fmt_entry F k /\ source_omit F = fmt_omit F.
Proof.
  intros F k. pose proof tables_match_sweep as H. rewrite forallb_forall in H.
  assert (HF : In F all_fmts) by (destruct F; simpl; tauto).
  specialize (H F HF). apply andb_true_iff in H. destruct H as [H1 H2].
  rewrite forallb_forall in H2. split.
  - apply sentry_eqb_eq. apply H2. destruct k; simpl; tauto.
  - apply eqb_prop. exact H1.
Qed.
