(* C04: the encoder keywords of the generated to_<format> methods (orjson: option = orjson_options, resolved from
   Config; property anchor "encoder kwargs such as orjson_options resolved from Config").  Vocabulary of kernel
   K104b (tools/kernels/k104b_encoder_kwargs.py) and the meaning of what it reads. *)
From Coq Require Import ZArith Bool.

(* the three return statements the generator can choose *)
Inductive rstmt :=
| RPlain        (* return <tree>                                   *)
| REnc          (* return encoder(<tree>)                          *)
| REncOpts.     (* return encoder(<tree>, <kw>=<the method's kw parameter>) *)

Definition rstmt_eqb (a b: rstmt) : bool :=
  match a, b with RPlain, RPlain | REnc, REnc | REncOpts, REncOpts => true | _, _ => false end.

(* the value of the method's keyword parameter: the call-time argument, else its default = the Config value *)
Definition param_value (config: Z) (call: option Z) : Z :=
  match call with Some o => o | None => config end.

(* which keyword value reaches the library function: None = the keyword is not passed at all *)
Definition reaching (r: rstmt) (param: Z) : option Z :=
  match r with REncOpts => Some param | _ => None end.

(* is the library function applied at all *)
Definition encoder_applied (r: rstmt) : bool := match r with RPlain => false | _ => true end.

Section Method.
  (* ret: the decision read from the generator (K104b: ret_plain / ret_dialect) *)
  Variable ret : bool -> bool -> rstmt.
  Definition kw_used (has_encoder has_kwargs: bool) (config: Z) (call: option Z) : option Z :=
    reaching (ret has_encoder has_kwargs) (param_value config call).
End Method.

(* what the property's anchor says: an encoder with keywords always receives the resolved value *)
Definition kw_expected (has_encoder has_kwargs: bool) (config: Z) (call: option Z) : option Z :=
  if has_encoder && has_kwargs then Some (param_value config call) else None.

Definition oz_eqb (a b: option Z) : bool :=
  match a, b with None, None => true | Some x, Some y => Z.eqb x y | _, _ => false end.
