(* C09 -- fields whose type is another dataclass.

   The key rules are per class: the outer class resolves its keys with its own aliases and options; the
   value found under the key a dataclass-typed field is read from is then decoded by the *inner* class
   with the inner class's aliases and options (neither allow_deserialization_not_by_alias nor
   forbid_extra_keys leaks inwards or outwards); whatever goes wrong inside is reported against the outer
   field (InvalidFieldValue), in field order with the outer MissingField errors, after the outer
   extra-key check.

   Values stay opaque integers for the key resolution; a value v >= 1000 denotes the (v-1000)-th mapping
   of a table that comes with the input.  The definition is generic in how a class decodes (`dec`),
   reads one field (`rd`) and finds its extra keys (`ex`); it is instantiated with the reference
   (keymodel, field_read, extra_keys) and with the description of the generated code
   (code_from_dict, first_present/code_plan, the emitted allowed set). *)
From Coq Require Import List String Ascii ZArith Bool.
From Verif Require Import Regex PyK PyK_alias KeyModel KeyImpl KeyProofs.
From VerifGen Require Import K4.
Import ListNotations.
Open Scope string_scope.
Open Scope list_scope.

Definition inner_of (tbl: list dict) (v: Z) : option dict :=
  if (1000 <=? v)%Z then nth_error tbl (Z.to_nat (v - 1000)) else None.

(* what a field ends up holding *)
Inductive nres :=
| RScalar (v: Z)                                        (* the value as it is *)
| RInner (vals: list (string * option (key * Z))).      (* an instance of the inner class *)

Inductive noutcome :=
| NInst (vals: list (string * option nres))
| NMissing (f: string)
| NExtra (ks: list key)
| NInvalid (f: string).                                 (* InvalidFieldValue.field_name *)

Fixpoint cls_of (nt: list (string * cls)) (n: string) : option cls :=
  match nt with [] => None | (k, c) :: r => if String.eqb k n then Some c else cls_of r n end.

Section Generic.
Variable dec : cls -> dict -> outcome.
Variable rd  : cls -> dict -> fld -> option (key * Z).
Variable ex  : cls -> dict -> list key.

Definition ncons (n: string) (r: option nres) (o: noutcome) : noutcome :=
  match o with NInst vs => NInst ((n, r) :: vs) | _ => o end.

(* nt: the fields of the outer class that are dataclass-typed, with their class *)
Fixpoint nfields (c: cls) (nt: list (string * cls)) (tbl: list dict) (d: dict) (fs: list fld) : noutcome :=
  match fs with
  | [] => NInst []
  | f :: r =>
      match rd c d f with
      | None => if f_dflt f then ncons (f_name f) None (nfields c nt tbl d r) else NMissing (f_name f)
      | Some (k, v) =>
          match cls_of nt (f_name f) with
          | None => ncons (f_name f) (Some (RScalar v)) (nfields c nt tbl d r)
          | Some inner =>
              match inner_of tbl v with
              | None => NInvalid (f_name f)                      (* not a mapping *)
              | Some dn => match dec inner dn with
                           | OInst vs => ncons (f_name f) (Some (RInner vs)) (nfields c nt tbl d r)
                           | _ => NInvalid (f_name f)             (* MissingField / ExtraKeysError of the inner class *)
                           end
              end
          end
      end
  end.

Definition ndecode (c: cls) (nt: list (string * cls)) (tbl: list dict) (d: dict) : noutcome :=
  match ex c d with
  | (_ :: _) as ks => if c_forbid c then NExtra ks else nfields c nt tbl d (c_fields c)
  | [] => nfields c nt tbl d (c_fields c)
  end.
End Generic.

(* the reference *)
Definition nkeymodel := ndecode keymodel field_read extra_keys.

(* the generated code: every class decodes with code_from_dict, reads the keys of its emitted lookups and
   subtracts its emitted allowed set *)
Definition ncode :=
  ndecode code_from_dict (fun c d f => first_present d (code_plan c f))
          (fun c d => filter (fun k => negb (kmem k (code_accepted c))) (keys d)).

Theorem ncode_eq_nkeymodel : forall c nt tbl d, ncode c nt tbl d = nkeymodel c nt tbl d.
Proof.
  intros c nt tbl d. unfold ncode, nkeymodel, ndecode.
  assert (Hex: filter (fun k => negb (kmem k (code_accepted c))) (keys d) = extra_keys c d).
  { unfold extra_keys. apply filter_ext. intro k. now rewrite code_accepted_members. }
  rewrite Hex.
  assert (Hf: forall fs, nfields code_from_dict (fun c d f => first_present d (code_plan c f)) c nt tbl d fs
                         = nfields keymodel field_read c nt tbl d fs).
  { induction fs as [|f r IH]; cbn [nfields]; [reflexivity|].
    unfold field_read at 1. rewrite code_plan_candidates. rewrite IH.
    destruct (first_present d (candidates c f)) as [[k v]|]; [|reflexivity].
    destruct (cls_of nt (f_name f)) as [inner|]; [|reflexivity].
    destruct (inner_of tbl v) as [dn|]; [|reflexivity].
    now rewrite code_eq_keymodel. }
  rewrite Hf. reflexivity.
Qed.

Lemma ndecode_ext : forall dec1 dec2 rd1 rd2 ex1 ex2,
  (forall c d, dec1 c d = dec2 c d) -> (forall c d f, rd1 c d f = rd2 c d f) -> (forall c d, ex1 c d = ex2 c d) ->
  forall c nt tbl d, ndecode dec1 rd1 ex1 c nt tbl d = ndecode dec2 rd2 ex2 c nt tbl d.
Proof.
  intros dec1 dec2 rd1 rd2 ex1 ex2 Hd Hr He c nt tbl d. unfold ndecode. rewrite He.
  assert (Hf: forall fs, nfields dec1 rd1 c nt tbl d fs = nfields dec2 rd2 c nt tbl d fs).
  { induction fs as [|f r IH]; cbn [nfields]; [reflexivity|]. rewrite Hr, IH.
    destruct (rd2 c d f) as [[k v]|]; [|reflexivity].
    destruct (cls_of nt (f_name f)); [|reflexivity]. destruct (inner_of tbl v); [|reflexivity]. now rewrite Hd. }
  now rewrite Hf.
Qed.

(* the same built directly on the kernels translated from /repo (K4) *)
Definition impl_dec (c: cls) (d: dict) : outcome :=
  match impl_from_dict c d with Ok o => o | Raise _ => OMissing "<raise>" end.

Definition impl_rd (c: cls) (d: dict) (f: fld) : option (key * Z) :=
  match impl_alias c f with
  | Ok a => match impl_field_read c d (f, a) with Ok r => r | Raise _ => None end
  | Raise _ => None
  end.

Definition impl_ex (c: cls) (d: dict) : list key :=
  match impl_filtered c (c_fields c) with
  | Ok ff => match allowed_keys (enc_discr (c_discr c)) (KBool (c_allow c)) (enc_filtered ff) with
             | Ok al => impl_forbidden al d
             | Raise _ => []
             end
  | Raise _ => []
  end.

Definition nimpl := ndecode impl_dec impl_rd impl_ex.

Theorem nimpl_eq_nkeymodel : forall c nt tbl d, nimpl c nt tbl d = nkeymodel c nt tbl d.
Proof.
  intros. rewrite <- ncode_eq_nkeymodel. unfold nimpl, ncode. apply ndecode_ext.
  - intros c0 d0. unfold impl_dec. now rewrite impl_eq_code.
  - intros c0 d0 f. unfold impl_rd. now rewrite impl_alias_spec, impl_field_read_spec.
  - intros c0 d0. unfold impl_ex. rewrite impl_filtered_spec, enc_filtered_ff, allowed_keys_spec.
    apply impl_forbidden_spec.
Qed.

(* the options of the outer class do not reach the inner class and vice versa: the outcome for the inner
   mapping is the inner class's own keymodel *)
Theorem nested_uses_inner_options : forall c nt tbl d f k v inner dn,
  c_fields c = [f] -> extra_keys c d = [] ->
  field_read c d f = Some (k, v) -> cls_of nt (f_name f) = Some inner -> inner_of tbl v = Some dn ->
  nkeymodel c nt tbl d
  = match keymodel inner dn with
    | OInst vs => NInst [(f_name f, Some (RInner vs))]
    | _ => NInvalid (f_name f)
    end.
Proof.
  intros c nt tbl d f k v inner dn Hf Hex Hr Hc Hi.
  unfold nkeymodel, ndecode. rewrite Hex, Hf. cbn [nfields]. rewrite Hr, Hc, Hi.
  destruct (keymodel inner dn); reflexivity.
Qed.

(* ---- observation: attribute values; an inner instance shows the values of its fields ---- *)
Inductive nobs_val := OV (v: Z) | OI (vals: list (string * Z)).

Inductive nobservation :=
| NVInst (vals: list (string * nobs_val))
| NVMissing (f: string)
| NVExtra (ks: list key)
| NVInvalid (f: string).

(* dfl: per outer field its default value; idfl: per dataclass-typed field the defaults of the inner class *)
Fixpoint nobs_vals (vs: list (string * option nres)) (dfl: list Z) (idfl: list (string * list Z)) : list (string * nobs_val) :=
  match vs with
  | [] => []
  | (n, r) :: vr =>
      let dv := match dfl with x :: _ => x | [] => 0%Z end in
      (n, match r with
          | None => OV dv
          | Some (RScalar v) => OV v
          | Some (RInner ivs) =>
              OI (obs_vals ivs (match find (fun p => String.eqb (fst p) n) idfl with Some p => snd p | None => [] end))
          end) :: nobs_vals vr (tl dfl) idfl
  end.

Definition nobserve (dfl: list Z) (idfl: list (string * list Z)) (o: noutcome) : nobservation :=
  match o with
  | NInst vs => NVInst (nobs_vals vs dfl idfl)
  | NMissing f => NVMissing f
  | NExtra ks => NVExtra ks
  | NInvalid f => NVInvalid f
  end.

Definition nobs_val_eqb (a b: nobs_val) : bool :=
  match a, b with
  | OV x, OV y => Z.eqb x y
  | OI x, OI y => list_eqb (fun p q => String.eqb (fst p) (fst q) && Z.eqb (snd p) (snd q)) x y
  | _, _ => false
  end.

Definition nobservation_eqb (a b: nobservation) : bool :=
  match a, b with
  | NVInst x, NVInst y => list_eqb (fun p q => String.eqb (fst p) (fst q) && nobs_val_eqb (snd p) (snd q)) x y
  | NVMissing x, NVMissing y => String.eqb x y
  | NVExtra x, NVExtra y => list_eqb key_eqb x y
  | NVInvalid x, NVInvalid y => String.eqb x y
  | _, _ => false
  end.
