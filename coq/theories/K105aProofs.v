(* C05 / K105a: the field block emitted by the (translated) FieldUnpackerCodeBlockBuilder.build computes
   Errs.field_step, for every field and every input.  Re-checked on every run against the current translation
   (coq/gen/K105a.v). *)
From Coq Require Import List String Bool.
From Verif Require Import Core Errs FieldEmit.
From VerifGen Require Import K105a.
Import ListNotations.

Definition rmap {A B} (g: A -> B) (r: res A) : res B := match r with Ok x => Ok (g x) | Exn e => Exn e end.

(* the block of field f, as `build` emits it *)
Definition block_of (f: fspec) : list fstmt :=
  fblock (p_nba f) (fs_ident f) (has_default f) (fs_nullable f) (p_dnone f).

(* what the constructor receives: the block's result, the dataclass default when the block leaves kwargs alone.
   (Errs.field_step says `Some None` where the emitted block of a field with default None writes nothing for a
   null input: the same instance.) *)
Theorem fblock_field_step : forall cls f d,
  rmap (fill f) (run_block cls f d (in_kwargs (has_default f)) (block_of f)) = rmap (fill f) (field_step cls d f).
Proof.
  intros cls [name key key2 dflt nullable ident dec] d.
  unfold block_of, p_nba, p_dnone, has_default, field_step, read_key, run_block, in_kwargs, fill.
  cbn [fs_name fs_key fs_key2 fs_default fs_nullable fs_ident fs_dec].
  destruct key2 as [k2|]; destruct dflt as [dv|]; destruct nullable; destruct ident;
    try (destruct dv); cbn;
    (destruct (py_get d key) as [[v|]|?]; cbn; try reflexivity);
    try (destruct (py_get d k2) as [[v|]|?]; cbn; try reflexivity);
    try (destruct v; cbn; try reflexivity);
    try (match goal with |- context [dec ?x] => destruct (dec x); cbn; reflexivity end).
Qed.

(* the blocks of all fields in declaration order: Errs.field_loop *)
Fixpoint run_blocks (cls: string) (d: pv) (fs: list fspec) : res (list (option pv)) :=
  match fs with
  | [] => Ok []
  | f :: r =>
      match run_block cls f d (in_kwargs (has_default f)) (block_of f) with
      | Exn e => Exn e
      | Ok x => match run_blocks cls d r with
                | Exn e => Exn e
                | Ok xs => Ok (x :: xs) end
      end
  end.

Theorem fblocks_field_loop : forall cls d fs,
  rmap (fill_all fs) (run_blocks cls d fs) = rmap (fill_all fs) (field_loop cls d fs).
Proof.
  intros cls d fs; induction fs as [|f r IH]; [reflexivity|].
  cbn [run_blocks field_loop].
  pose proof (fblock_field_step cls f d) as H.
  destruct (run_block cls f d (in_kwargs (has_default f)) (block_of f)) as [x|e];
    destruct (field_step cls d f) as [y|e']; cbn in H; try discriminate H.
  - destruct (run_blocks cls d r) as [xs|e]; destruct (field_loop cls d r) as [ys|e']; cbn in IH; try discriminate IH.
    + cbn. congruence.
    + cbn. congruence.
  - cbn. congruence.
Qed.

(* the generated from_dict with the EMITTED blocks in place of the hand-written field loop of Errs.v *)
Definition body_e (c: cspec) (d: pv) : res (list (option pv)) :=
  outer_handler d
    (match extra_check c d with
     | Exn e => Exn e
     | Ok _ => match touch c d with
               | Exn e => Exn e
               | Ok _ => run_blocks c.(cs_name) d c.(cs_fields) end
     end).

Definition from_dict_e (c: cspec) (d0: pv) : res pv :=
  match (match c.(cs_pre) with Some h => h d0 | None => Ok d0 end) with
  | Exn e => Exn e
  | Ok d =>
      match body_e c d with
      | Exn e => Exn e
      | Ok xs =>
          let obj := VObj c.(cs_name) (fill_all c.(cs_fields) xs) in
          match c.(cs_post) with Some h => h obj | None => Ok obj end
      end
  end.

Lemma body_e_body : forall c d, rmap (fill_all (cs_fields c)) (body_e c d) = rmap (fill_all (cs_fields c)) (body c d).
Proof.
  intros c d. unfold body_e, body.
  destruct (extra_check c d) as [u|e]; [|reflexivity].
  destruct (touch c d) as [u'|e]; [|reflexivity].
  pose proof (fblocks_field_loop (cs_name c) d (cs_fields c)) as H.
  destruct (run_blocks (cs_name c) d (cs_fields c)) as [xs|e]; destruct (field_loop (cs_name c) d (cs_fields c)) as [ys|e'];
    cbn in H; try discriminate H.
  - exact H.
  - inversion H; subst. reflexivity.
Qed.

Theorem from_dict_emitted : forall c d, from_dict_e c d = from_dict c d.
Proof.
  intros c d0. unfold from_dict_e, from_dict.
  destruct (match cs_pre c with Some h => h d0 | None => Ok d0 end) as [d|e]; [|reflexivity].
  pose proof (body_e_body c d) as H.
  destruct (body_e c d) as [xs|e]; destruct (body c d) as [ys|e']; cbn in H; try discriminate H.
  - inversion H as [H1]. cbv zeta. rewrite H1. reflexivity.
  - inversion H; subst. reflexivity.
Qed.
