(* C05 / K105a: the field block emitted by the (translated) FieldUnpackerCodeBlockBuilder.build computes
   Errs.field_step, for every field and every input.  Re-checked on every run against the current translation
   (coq/gen/K105a.v). *)
From Coq Require Import List String Bool.
From Verif Require Import Core Errs FieldEmit.
From VerifGen Require Import K105a.
Import ListNotations.

Definition rmap {A B} (g: A -> B) (r: res A) : res B := match r with Ok x => Ok (g x) | Exn e => Exn e end.

(* the block of field f, as `build` emits it *)
Definition block_of (f: fspec) : list fstmt :=
  fblock (p_nba f) (fs_ident f) (has_default f) (fs_nullable f) (p_dnone f).

(* agreement of the emitted block with the model's step: the same exception, or the same value for the constructor --
   with ONE representation difference: for a null input on a field whose default is None the emitted block writes
   nothing into kwargs (the dataclass default None applies), where Errs.field_step says `Some None` *)
Definition block_agrees (f: fspec) (r1 r2: res (option pv)) : Prop :=
  match r1, r2 with
  | Exn a, Exn b => a = b
  | Ok x, Ok y => x = y \/ (x = None /\ y = Some VNone /\ fs_default f = Some VNone)
  | _, _ => False end.

Theorem fblock_field_step : forall cls f d,
  block_agrees f (run_block cls f d (in_kwargs (has_default f)) (block_of f)) (field_step cls d f).
Proof.
  intros cls [name key key2 dflt nullable ident dec] d.
  unfold block_of, p_nba, p_dnone, has_default, field_step, read_key, run_block, in_kwargs.
  cbn [fs_name fs_key fs_key2 fs_default fs_nullable fs_ident fs_dec].
  Local Ltac fin := cbn; first [reflexivity | left; reflexivity | right; repeat split; reflexivity].
  destruct key2 as [k2|]; destruct dflt as [dv|]; destruct nullable; destruct ident;
    try (destruct dv); cbn;
    (destruct (py_get d key) as [[v|]|?]; cbn; try (fin; fail));
    try (destruct (py_get d k2) as [[v|]|?]; cbn; try (fin; fail));
    try (destruct v; cbn; try (fin; fail));
    try (match goal with |- context [dec ?x] => destruct (dec x); fin end).
Qed.

(* what the constructor call `cls(__a, ..., **kwargs)` receives for a field: the block's value; the dataclass default
   when the block left kwargs alone; a positional local that was never bound is an UnboundLocalError *)
Definition recv (f: fspec) (x: option pv) : res pv :=
  match x with
  | Some v => Ok v
  | None => match fs_default f with Some dv => Ok dv | None => Exn (XOther "UnboundLocalError") end
  end.

Fixpoint recv_all (fs: list fspec) (xs: list (option pv)) : res (list (string * pv)) :=
  match fs, xs with
  | f :: r, x :: s =>
      match recv f x with
      | Exn e => Exn e
      | Ok v => match recv_all r s with Exn e => Exn e | Ok l => Ok ((fs_name f, v) :: l) end
      end
  | _, _ => Ok [] end.

Lemma field_step_none : forall cls d f, field_step cls d f = Ok None -> exists dv, fs_default f = Some dv.
Proof.
  intros cls d f. unfold field_step, has_default. destruct (read_key d f) as [[v|]|e]; try discriminate.
  - destruct (fs_ident f); [discriminate|]. destruct (fs_nullable f && is_none v); [discriminate|].
    destruct (fs_dec f v); discriminate.
  - destruct (fs_default f) as [dv|]; [eauto | discriminate].
Qed.

Lemma recv_agrees : forall cls d f x y,
  field_step cls d f = Ok y -> block_agrees f (Ok x) (Ok y) -> recv f x = Ok (snd (fill f y)).
Proof.
  intros cls d f x y Hs [->|[-> [-> Hd]]]; unfold recv, fill; cbn [snd].
  - destruct y as [v|]; [reflexivity|].
    destruct (field_step_none cls d f Hs) as [dv Hdv]. rewrite Hdv. reflexivity.
  - rewrite Hd. reflexivity.
Qed.

(* the blocks of all fields in declaration order *)
Fixpoint run_blocks (cls: string) (d: pv) (fs: list fspec) : res (list (option pv)) :=
  match fs with
  | [] => Ok []
  | f :: r =>
      match run_block cls f d (in_kwargs (has_default f)) (block_of f) with
      | Exn e => Exn e
      | Ok x => match run_blocks cls d r with
                | Exn e => Exn e
                | Ok xs => Ok (x :: xs) end
      end
  end.

Definition loop_agrees (fs: list fspec) (r1 r2: res (list (option pv))) : Prop :=
  match r1, r2 with
  | Exn a, Exn b => a = b
  | Ok xs, Ok ys => recv_all fs xs = Ok (fill_all fs ys)
  | _, _ => False end.

(* the sequence of emitted blocks: the first exception of Errs.field_loop, or the constructor receives the
   model's instance fields *)
Theorem fblocks_field_loop : forall cls d fs, loop_agrees fs (run_blocks cls d fs) (field_loop cls d fs).
Proof.
  intros cls d fs; induction fs as [|f r IH]; [reflexivity|].
  cbn [run_blocks field_loop].
  pose proof (fblock_field_step cls f d) as H.
  destruct (run_block cls f d (in_kwargs (has_default f)) (block_of f)) as [x|e];
    destruct (field_step cls d f) as [y|e'] eqn:Es; cbn in H; try contradiction.
  - unfold loop_agrees in IH.
    destruct (run_blocks cls d r) as [xs|e]; destruct (field_loop cls d r) as [ys|e']; try contradiction; cbn.
    + rewrite (recv_agrees cls d f x y Es H). rewrite IH. destruct f; reflexivity.
    + exact IH.
  - exact H.
Qed.

(* the generated from_dict with the EMITTED blocks in place of the hand-written field loop of Errs.v *)
Definition body_e (c: cspec) (d: pv) : res (list (option pv)) :=
  outer_handler d
    (match extra_check c d with
     | Exn e => Exn e
     | Ok _ => match touch c d with
               | Exn e => Exn e
               | Ok _ => run_blocks c.(cs_name) d c.(cs_fields) end
     end).

(* after the try frame: return cls(<locals>, **kwargs) -- outside every handler *)
Definition construct (c: cspec) (xs: list (option pv)) : res pv :=
  match recv_all c.(cs_fields) xs with
  | Exn e => Exn e
  | Ok kv => let obj := VObj c.(cs_name) kv in
             match c.(cs_post) with Some h => h obj | None => Ok obj end
  end.

Definition from_dict_e (c: cspec) (d0: pv) : res pv :=
  match (match c.(cs_pre) with Some h => h d0 | None => Ok d0 end) with
  | Exn e => Exn e
  | Ok d => match body_e c d with Exn e => Exn e | Ok xs => construct c xs end
  end.

Lemma body_e_body : forall c d, loop_agrees (cs_fields c) (body_e c d) (body c d).
Proof.
  intros c d. unfold body_e, body.
  destruct (extra_check c d) as [u|e]; [|cbn; destruct e; try reflexivity; destruct (is_dict d); reflexivity].
  destruct (touch c d) as [u'|e]; [|cbn; destruct e; try reflexivity; destruct (is_dict d); reflexivity].
  pose proof (fblocks_field_loop (cs_name c) d (cs_fields c)) as H.
  destruct (run_blocks (cs_name c) d (cs_fields c)) as [xs|e]; destruct (field_loop (cs_name c) d (cs_fields c)) as [ys|e'];
    cbn in H; try contradiction.
  - exact H.
  - subst e'. cbn. destruct e; try reflexivity. destruct (is_dict d); reflexivity.
Qed.

Theorem from_dict_emitted : forall c d, from_dict_e c d = from_dict c d.
Proof.
  intros c d0. unfold from_dict_e, from_dict.
  destruct (match cs_pre c with Some h => h d0 | None => Ok d0 end) as [d|e]; [|reflexivity].
  pose proof (body_e_body c d) as H.
  destruct (body_e c d) as [xs|e]; destruct (body c d) as [ys|e']; cbn in H; try contradiction.
  - unfold construct. rewrite H. reflexivity.
  - subst e'. reflexivity.
Qed.
