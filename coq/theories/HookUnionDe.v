(* C19: the speculative try-each of the union UNPACKER, tied to the source through C11's kernel K19 (the emission loop
   of UnionUnpackerBuilder._add_body translated on every run; K19Proofs.fold_step).

   Hooks.unpack at a Union position runs  dtry  over the distinct member classes in order (dedup_nat), each
   `C.from_dict(value)`; events of a member that was tried and failed stay in the log.  Here: for dataclass members the
   translated loop emits exactly one `try: return <member's from_dict> / except Exception: pass` per distinct member in
   that order, then `raise` - no type-match shortcut, no fallback block - and with the trace meaning of a try block that
   method IS Hooks.unpack at that position. *)
From Coq Require Import List Bool Arith.
From Verif Require Import UnionModel UnionEmit K19Proofs Hooks.
From VerifGen Require Import K19.
Import ListNotations.
Local Open Scope list_scope.

(* a dataclass member as the emission loop sees it: not TypeMatchEligible, not the expression "value", expression
   identified by the class *)
Definition umb (dec: nat -> uv -> option uv) (c: nat) : mspec := NM c false (dec c).

Lemma filter_tme_umb : forall dec l, filter is_tme (map (umb dec) l) = [].
Proof. induction l as [|c r IH]; simpl; [reflexivity | exact IH]. Qed.

Lemma dd_dedup_nat_de : forall dec cs seenK seen,
  (forall c, existsb (mkey_eqb (KN c)) seenK = existsb (Nat.eqb c) seen) ->
  dd seenK (map (umb dec) cs) = map (umb dec) (dedup_nat cs seen).
Proof.
  induction cs as [|c r IH]; intros seenK seen H; simpl; [reflexivity|].
  unfold mk at 1. simpl. rewrite (H c).
  destruct (existsb (Nat.eqb c) seen).
  - apply IH. exact H.
  - simpl. f_equal. apply IH. intros c'. simpl. rewrite (H c'). reflexivity.
Qed.

Theorem emit_union_dc :
  forall dec cs,
    emit (map (umb dec) cs) = map (fun c => LTry [BRet (umb dec c)]) (dedup_nat cs []) ++ [LRaise].
Proof.
  intros dec cs. unfold emit.
  assert (Ht: count_tme (map (umb dec) cs) = 0) by (unfold count_tme; rewrite filter_tme_umb; reflexivity).
  rewrite Ht.
  assert (Hok: seen_ok 0 est0) by (intros c m []).
  destruct (fold_step 0 (map (umb dec) cs) est0 Hok) as [H1 H2]. simpl in H1, H2.
  rewrite (dd_dedup_nat_de dec cs [] [] (fun c => eq_refl)) in H1, H2.
  rewrite H1, H2, filter_tme_umb. simpl. rewrite map_map. reflexivity.
Qed.

(* hook-trace meaning of the emitted method: the try blocks one after the other (Hooks.dtry), then raise *)
Definition run_union_de_lines (call: mspec -> D) (ls: list line) : D :=
  dtry (flat_map (fun l => match l with
                           | LTry [BRet m] => [call m]
                           | LTryRet m => [call m]
                           | _ => [] end) ls).

Lemma run_union_de_tries : forall call (f: nat -> mspec) l,
  run_union_de_lines call (map (fun c => LTry [BRet (f c)]) l ++ [LRaise]) = dtry (map (fun c => call (f c)) l).
Proof.
  intros call f l. unfold run_union_de_lines. f_equal.
  induction l as [|c r IH]; simpl; [reflexivity|]. f_equal. exact IH.
Qed.

Theorem k19_unpack_union :
  forall E w cs dec,
    unpack E w (TUnion cs)
    = run_union_de_lines (fun m => match m with NM c _ _ => unpack E w (TDc c) | SM _ => dfail end)
                         (emit (map (umb dec) cs)).
Proof.
  intros E w cs dec. rewrite emit_union_dc, run_union_de_tries.
  destruct w; reflexivity.
Qed.
