(* C12 - running the emitted registry region (DiscrEmit.exec_block on the program K12 reads from unpack.py) is the
   model's Discr.field_body / Discr.refill_retry. *)
From Coq Require Import List Arith Bool.
From Verif Require Import Discr PyK_discr DiscrEmit.
Import ListNotations.

Section Unfold.
  Variables (cl: list cls) (s: site) (t: tag) (vs: list nat) (hm: nat -> bool) (tr: nat -> tagres).
  Notation X := (exec cl s t vs hm tr).
  Notation XB := (exec_block cl s t vs hm tr).

  Lemma exec_try b h hb e :
    X (STry b h hb) e = match XB b e with
                        | (CExc x, e') => if catches h [x] then XB hb e' else (CExc x, e')
                        | y => y
                        end.
  Proof. reflexivity. Qed.

  Lemma exec_for_variants b e :
    X (SForVariants b) e
    = for_loop (fun v e => XB b (Env (e_map e) (e_reg e) (e_built e) v (e_tags e) (e_tag1 e) (e_chosen e) (e_unpack e))) vs e.
  Proof. reflexivity. Qed.

  Lemma exec_for_tags b e :
    X (SForTags b) e
    = for_loop (fun g e => XB b (Env (e_map e) (e_reg e) (e_built e) (e_var e) (e_tags e) g (e_chosen e) (e_unpack e)))
               (match e_tags e with TList l => l | TScalar _ => [] end) e.
  Proof. reflexivity. Qed.

  Lemma exec_iflist a b e : X (SIfList a b) e = match e_tags e with TList _ => XB a e | TScalar _ => XB b e end.
  Proof. reflexivity. Qed.

  Lemma block_cons q r e : XB (q :: r) e = match X q e with (CNext, e') => XB r e' | y => y end.
  Proof. reflexivity. Qed.
End Unfold.

(* the program the kernel is expected to read from the source (K12Proofs: emit_lookup = prog, by computation) *)
Definition reg_part (tagger: bool) : list estmt :=
  if tagger then [STags; SIfList [SForTags [SRegTagVar]] [SRegTagsVar]]
  else [STry [SRegOwn] [EKeyError] [SContinue]].

Definition prog (nailed tagger: bool) : list estmt :=
  [STry (if nailed then [SLookup; SOwnCheck; SBind] else [SBindReg]) [EKeyError; EAttributeError]
        [SSetMap;
         SForVariants (reg_part tagger ++ [SBuild]);
         STry [if nailed then SRetry else SRetryReg] [EKeyError] [SRaiseNotFound]];
   SReturnCall].

Section Proofs.
  Variables (cl: list cls) (s: site) (t: tag) (vs: list nat) (hm: nat -> bool) (tr: nat -> tagres).
  Notation X := (exec cl s t vs hm tr).
  Notation XB := (exec_block cl s t vs hm tr).

  (* the tagger returns, as a list or as a bare value, the tags the model attributes to the class *)
  Hypothesis Htr : forall v, flat (tr v) = match assoc (s_tgid s) (c_ttags (nth v cl dummy_cls)) with Some l => l | None => [] end.

  Lemma tags_loop : forall l e,
    exists g, for_loop (fun g e => XB [SRegTagVar] (Env (e_map e) (e_reg e) (e_built e) (e_var e) (e_tags e) g (e_chosen e) (e_unpack e))) l e
              = (CNext, Env (e_map e) (fold_left (fun r g => (g, e_var e) :: r) l (e_reg e)) (e_built e) (e_var e) (e_tags e) g (e_chosen e) (e_unpack e)).
  Proof.
    induction l as [|a l IH]; intros e; cbn [for_loop fold_left].
    - exists (e_tag1 e). destruct e; reflexivity.
    - cbn. apply (IH (Env (e_map e) ((a, e_var e) :: e_reg e) (e_built e) (e_var e) (e_tags e) a (e_chosen e) (e_unpack e))).
  Qed.

  (* one iteration of the refill loop, with a tagger: every tag registered, the unpacker built *)
  Lemma iter_tagger v e :
    exists g, XB (reg_part true ++ [SBuild]) (Env (e_map e) (e_reg e) (e_built e) v (e_tags e) (e_tag1 e) (e_chosen e) (e_unpack e))
              = (CNext, Env (e_map e) (fold_left (fun r g => (g, v) :: r) (flat (tr v)) (e_reg e)) (v :: e_built e) v (tr v) g (e_chosen e) (e_unpack e)).
  Proof.
    cbn [reg_part app]. rewrite block_cons. cbn [exec prim e_map e_var e_reg e_built e_tags e_tag1 e_chosen e_unpack].
    rewrite block_cons, exec_iflist. cbn [e_tags].
    destruct (tr v) as [l|tg] eqn:T.
    - rewrite block_cons, exec_for_tags. cbn [e_tags].
      destruct (tags_loop l (Env (e_map e) (e_reg e) (e_built e) v (TList l) (e_tag1 e) (e_chosen e) (e_unpack e))) as [g H].
      rewrite H. exists g. reflexivity.
    - exists (e_tag1 e). reflexivity.
  Qed.

  Lemma loop_tagger : forall l e,
    exists e', for_loop (fun v e => XB (reg_part true ++ [SBuild]) (Env (e_map e) (e_reg e) (e_built e) v (e_tags e) (e_tag1 e) (e_chosen e) (e_unpack e))) l e
               = (CNext, e')
               /\ e_reg e' = fold_left (fun r v => fold_left (fun r g => (g, v) :: r) (flat (tr v)) r) l (e_reg e)
               /\ e_built e' = rev l ++ e_built e /\ e_chosen e' = e_chosen e /\ e_unpack e' = e_unpack e /\ e_map e' = e_map e.
  Proof.
    induction l as [|v l IH]; intros e; cbn [for_loop fold_left rev app].
    - exists e. repeat split; reflexivity.
    - destruct (iter_tagger v e) as [g H]. rewrite H.
      destruct (IH (Env (e_map e) (fold_left (fun r g => (g, v) :: r) (flat (tr v)) (e_reg e)) (v :: e_built e) v (tr v) g (e_chosen e) (e_unpack e)))
        as [e' [E [R [B [C [U M]]]]]].
      exists e'. cbn in *. rewrite <- app_assoc. cbn. repeat split; assumption.
  Qed.

  (* one iteration without a tagger: a class without the key in its own __dict__ is skipped (continue: not built) *)
  Definition own_tag (v: nat) : option tag := assoc (s_fid s) (c_tags (nth v cl dummy_cls)).

  Lemma loop_own : forall l e,
    exists e', for_loop (fun v e => XB (reg_part false ++ [SBuild]) (Env (e_map e) (e_reg e) (e_built e) v (e_tags e) (e_tag1 e) (e_chosen e) (e_unpack e))) l e
               = (CNext, e')
               /\ e_reg e' = fold_left (fun r v => match own_tag v with Some tg => (tg, v) :: r | None => r end) l (e_reg e)
               /\ e_built e' = rev (filter (fun v => match own_tag v with None => false | _ => true end) l) ++ e_built e
               /\ e_chosen e' = e_chosen e /\ e_unpack e' = e_unpack e /\ e_map e' = e_map e.
  Proof.
    induction l as [|v l IH]; intros e; cbn [for_loop fold_left filter rev app].
    - exists e. repeat split; reflexivity.
    - cbn [reg_part app]. rewrite block_cons, exec_try. cbn [exec_block exec prim e_var]. fold (own_tag v).
      destruct (own_tag v) as [tg|] eqn:O.
      + cbn [set_reg e_map e_reg e_built e_var e_tags e_tag1 e_chosen e_unpack].
        destruct (IH (Env (e_map e) ((tg, v) :: e_reg e) (v :: e_built e) v (e_tags e) (e_tag1 e) (e_chosen e) (e_unpack e)))
          as [e' [E [R [B [C [U M]]]]]].
        exists e'. cbn in *. rewrite <- app_assoc. cbn. repeat split; assumption.
      + cbn.
        destruct (IH (Env (e_map e) (e_reg e) (e_built e) v (e_tags e) (e_tag1 e) (e_chosen e) (e_unpack e))) as [e' [E [R [B [C [U M]]]]]].
        exists e'. cbn in *. repeat split; assumption.
  Qed.

  Lemma fold_ext {A B} (f g: A -> B -> A) : (forall a b, f a b = g a b) -> forall l a, fold_left f l a = fold_left g l a.
  Proof. intros H. induction l as [|b l IH]; intros a; cbn; [reflexivity|]. rewrite H. apply IH. Qed.

  (* the handler of the guarded lookup: refill loop, retry, and then the final call *)
  Definition handler (nailed: bool) : list estmt :=
    [SSetMap; SForVariants (reg_part (s_tagger s) ++ [SBuild]);
     STry [if nailed then SRetry else SRetryReg] [EKeyError] [SRaiseNotFound]].

  Hypothesis Hvs : vs = variants cl s.

  Lemma miss_path nailed e : e_built e = [] ->
    result_of (match XB (handler nailed) e with (CNext, e') => XB [SReturnCall] e' | y => y end)
    = Some (true, reg_get t (refill cl s (e_reg e)), refill cl s (e_reg e), built cl s).
  Proof.
    intros B0. unfold handler. rewrite block_cons. cbn [exec prim]. rewrite block_cons, exec_for_variants.
    set (e1 := Env true (e_reg e) (e_built e) (e_var e) (e_tags e) (e_tag1 e) (e_chosen e) (e_unpack e)).
    assert (L: exists e', for_loop (fun v e => XB (reg_part (s_tagger s) ++ [SBuild])
                                              (Env (e_map e) (e_reg e) (e_built e) v (e_tags e) (e_tag1 e) (e_chosen e) (e_unpack e))) vs e1 = (CNext, e')
                          /\ e_reg e' = refill cl s (e_reg e) /\ rev (e_built e') = built cl s /\ e_map e' = true).
    { unfold refill, built, reg_add_variant, tags_of. rewrite <- Hvs. destruct (s_tagger s).
      - destruct (loop_tagger vs e1) as [e' [E [R [B [_ [_ M]]]]]]. unfold e1 in R, B, M; cbn [e_reg e_built e_map] in R, B, M.
        exists e'. split; [exact E|]. split; [|split; [|exact M]].
        + rewrite R. apply fold_ext. intros a b. rewrite Htr. reflexivity.
        + rewrite B, B0, app_nil_r. apply rev_involutive.
      - destruct (loop_own vs e1) as [e' [E [R [B [_ [_ M]]]]]]. unfold e1 in R, B, M; cbn [e_reg e_built e_map] in R, B, M.
        exists e'. split; [exact E|]. split; [|split; [|exact M]].
        + rewrite R. apply fold_ext. intros a b. unfold own_tag. destruct (assoc (s_fid s) (c_tags (nth b cl dummy_cls))); reflexivity.
        + rewrite B, B0, app_nil_r. rewrite rev_involutive. reflexivity. }
    destruct L as [e' [E [R [B M]]]]. rewrite E. rewrite block_cons, exec_try.
    assert (RT: XB [if nailed then SRetry else SRetryReg] e'
                = match reg_get t (e_reg e') with
                  | Some c => (CNext, Env (e_map e') (e_reg e') (e_built e') (e_var e') (e_tags e') (e_tag1 e') (e_chosen e') (Some c))
                  | None => (CExc EKeyError, e')
                  end).
    { destruct nailed; cbn [exec_block exec prim]; destruct (reg_get t (e_reg e')); reflexivity. }
    rewrite RT. rewrite <- R. destruct (reg_get t (e_reg e')) as [c|].
    - cbn. rewrite B, M. reflexivity.
    - cbn. rewrite B, M. reflexivity.
  Qed.

  (* THE TIE: the emitted registry region, run on a registry r by a dispatcher whose variants may or may not have their
     own method (hm), answers exactly what the model's clause answers: the class entered (or not found), the registry
     afterwards, the variants whose unpacker was (re)built *)
  Theorem prog_is_model nailed r :
    result_of (XB (prog nailed (s_tagger s)) (env0 r)) = Some (model_lookup cl s t hm r).
  Proof.
    unfold prog, model_lookup. fold (handler nailed). rewrite block_cons, exec_try.
    destruct nailed.
    - (* nailed: __variant = REG[tag]; own-method test; unpack = __variant.NAME *)
      rewrite block_cons. cbn [exec prim env0 e_reg]. destruct (reg_get t r) as [c|] eqn:G.
      + rewrite block_cons. cbn [exec prim e_chosen]. unfold has_m. cbn [e_built memb existsb]. rewrite orb_false_r.
        destruct (hm c) eqn:H.
        * cbn. reflexivity.
        * cbn [catches existsb subclass_of orb]. apply (miss_path true); reflexivity.
      + cbn [catches existsb subclass_of orb]. apply (miss_path true); reflexivity.
    - (* codec: unpack = attrs_registry[REG[tag]].NAME *)
      rewrite block_cons. cbn [exec prim env0 e_reg]. destruct (reg_get t r) as [c|] eqn:G.
      + unfold has_m. cbn [e_built memb existsb]. rewrite orb_false_r. destruct (hm c) eqn:H.
        * cbn. reflexivity.
        * cbn [catches existsb subclass_of orb]. apply (miss_path false); reflexivity.
      + cbn [catches existsb subclass_of orb]. apply (miss_path false); reflexivity.
  Qed.
End Proofs.

(* Discr.field_body IS "run the lookup region, commit, call the class" *)
Lemma field_body_is_lookup enter top codec k s t x :
  field_body enter top codec k s t x
  = commit_lookup enter top codec k x (model_lookup (classes x) s t (has_method codec x) (get_reg k (regs x))).
Proof.
  unfold field_body, refill_retry, model_lookup, commit_lookup, crash_on_refill.
  destruct (reg_get t (get_reg k (regs x))) as [c|]; [destruct (has_method codec x c)|]; reflexivity.
Qed.

(* ... hence: the model's field-mode clause = running the emitted statements on the dispatcher's registry, with
   "has its own method" read off the model state, then committing what they did *)
Theorem field_body_runs prog_nailed enter top codec k s t x tr :
  (forall v, flat (tr v) = match assoc (s_tgid s) (c_ttags (nth v (classes x) dummy_cls)) with Some l => l | None => [] end) ->
  option_map (commit_lookup enter top codec k x)
             (result_of (exec_block (classes x) s t (variants (classes x) s) (has_method codec x) tr
                                    (prog prog_nailed (s_tagger s)) (env0 (get_reg k (regs x)))))
  = Some (field_body enter top codec k s t x).
Proof.
  intros Htr. rewrite (prog_is_model (classes x) s t (variants (classes x) s) (has_method codec x) tr Htr eq_refl).
  cbn [option_map]. rewrite field_body_is_lookup. reflexivity.
Qed.
