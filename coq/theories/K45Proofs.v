(* C03 / K45: the code emitted by the (translated) unpack_named_tuple computes the model.
   as_list: TyModel.nt_items with [nt_exhausted (has_default fds)] -- trailing defaults exactly when the input is
            exhausted at a reading position; an IndexError raised inside an item propagates (fix 8ccb0df);
   as_dict: TyNtDict.nd_fields -- "in" guards exactly on the defaulted fields (fix 28df7ca).
   Re-checked on every run against coq/gen/K45.v. *)
From Coq Require Import List Bool ZArith String Arith Lia.
From Verif Require Import Core TupleIdx TyModel TyProofs TyNtDict NtEmit.
From VerifGen Require Import K45.
Import ListNotations.

Lemma nth_skipn_some {X} (l: list X) k x : nth_error l k = Some x -> skipn k l = x :: skipn (S k) l.
Proof.
  revert l. induction k as [|k IH]; intros l H; destruct l as [|y l]; try discriminate H.
  - inversion H. reflexivity.
  - cbn [nth_error] in H. cbn [skipn]. rewrite (IH l H). reflexivity.
Qed.

Lemma nth_skipn_none {X} (l: list X) k : nth_error l k = None -> skipn k l = [] /\ (k <? List.length l)%nat = false.
Proof.
  intros H. apply nth_error_None in H. split; [apply skipn_all2; exact H | apply Nat.ltb_ge; exact H].
Qed.

Lemma nt_items_nil {X} (run: sfield -> X -> res pv) konst miss fds : nt_items run konst miss fds [] = nt_tail konst miss fds.
Proof. destruct fds; reflexivity. Qed.

Lemma has_default_false fds : has_default fds = false -> forall f, In f fds -> f.(sf_default) = None.
Proof.
  unfold has_default. intros H f Hf. destruct (sf_default f) as [dv|] eqn:Ed; [|reflexivity].
  assert (existsb (fun g => match sf_default g with Some _ => true | None => false end) fds = true) as Hx.
  { apply existsb_exists. exists f. split; [exact Hf | rewrite Ed; reflexivity]. }
  rewrite Hx in H. discriminate H.
Qed.

Section AsList.
  Context {X: Type}.
  Variable run : sfield -> X -> res pv.
  Variable konst : sfield -> option pv.
  Variable l : list X.
  Variable has : string -> res bool.

  Lemma run_try_items : forall fds k,
    run_try (ev_list run konst l) (List.length l) (map (fun _ => NLAppend) (map sf_name fds)) (map IPos (seq k (List.length (map sf_name fds)))) fds k
      = nt_items run konst (nt_exhausted true) fds (skipn k l).
  Proof.
    induction fds as [|f rest IH]; intros k.
    - destruct (skipn k l); reflexivity.
    - cbn [map List.length seq run_try]. unfold ev_list at 1.
      destruct (nth_error l k) as [x|] eqn:En.
      + rewrite (nth_skipn_some l k x En). cbn [nt_items]. rewrite (IH (S k)).
        destruct (run f x) as [y|e]; [reflexivity|].
        assert (Hlt: (k <? List.length l)%nat = true).
        { apply Nat.ltb_lt. apply nth_error_Some. rewrite En. discriminate. }
        destruct e; try reflexivity. rewrite Hlt. reflexivity.
      + destruct (nth_skipn_none l k En) as [Hs Hlt]. rewrite Hs. cbn [nt_items nt_tail].
        destruct (konst f) as [c|].
        * rewrite (IH (S k)).
          assert (Hs': skipn (S k) l = []) by (apply skipn_all2; apply nth_error_None in En; lia).
          rewrite Hs', nt_items_nil. reflexivity.
        * rewrite Hlt. reflexivity.
  Qed.

  Lemma run_call_items : forall fds k,
    run_call (ev_list run konst l) (map IPos (seq k (List.length (map sf_name fds)))) fds
      = nt_items run konst (nt_exhausted false) fds (skipn k l).
  Proof.
    induction fds as [|f rest IH]; intros k.
    - destruct (skipn k l); reflexivity.
    - cbn [map List.length seq run_call]. unfold ev_list at 1.
      destruct (nth_error l k) as [x|] eqn:En.
      + rewrite (nth_skipn_some l k x En). cbn [nt_items]. rewrite (IH (S k)).
        destruct (run f x) as [y|e]; reflexivity.
      + destruct (nth_skipn_none l k En) as [Hs _]. rewrite Hs. cbn [nt_items nt_tail].
        destruct (konst f) as [c|]; [|reflexivity].
        rewrite (IH (S k)).
        assert (Hs': skipn (S k) l = []) by (apply skipn_all2; apply nth_error_None in En; lia).
        rewrite Hs', nt_items_nil. reflexivity.
  Qed.

  (* the emitted as_list code IS the positional walk of TyModel *)
  Theorem k45_as_list : forall (fds: list sfield) (in_defaults: string -> bool),
    run_code (ev_list run konst l) has (List.length l)
             (k45_indices false (map sf_name fds))
             (k45_code false (negb (has_default fds)) in_defaults (map sf_name fds)) fds
      = nt_items run konst (nt_exhausted (has_default fds)) fds l.
  Proof.
    intros fds ind. unfold k45_indices, k45_code, run_code.
    destruct (has_default fds); cbn [negb].
    - rewrite run_try_items. reflexivity.
    - rewrite run_call_items. reflexivity.
  Qed.
End AsList.

Section AsDict.
  Context {D: Type}.
  Variable run : sfield -> D -> res pv.
  Variable konst : sfield -> option pv.
  Variable inp : nd_input D.

  Lemma ev_dict_read f : ev_dict run konst inp (IName f.(sf_name)) f = nd_read run konst inp f.
  Proof. unfold ev_dict, nd_read. destruct (konst f); [reflexivity|]. destruct inp; reflexivity. Qed.

  Lemma run_call_fields : forall fds, (forall f, In f fds -> f.(sf_default) = None) ->
    run_call (ev_dict run konst inp) (map IName (map sf_name fds)) fds = nd_fields run konst inp fds.
  Proof.
    induction fds as [|f rest IH]; intros Hd; [reflexivity|].
    cbn [map run_call nd_fields]. rewrite ev_dict_read. unfold nd_field. rewrite (Hd f (or_introl eq_refl)).
    rewrite IH; [reflexivity|]. intros g Hg. apply Hd. right. exact Hg.
  Qed.

  Lemma run_kw_fields (in_defaults: string -> bool) : forall fds,
    (forall f, In f fds -> in_defaults f.(sf_name) = match f.(sf_default) with Some _ => true | None => false end) ->
    (os <- run_kw (ev_dict run konst inp) (nd_has inp)
                  (map (fun field => if in_defaults field then NLSetIf field else NLSet field) (map sf_name fds))
                  (map IName (map sf_name fds)) fds ;;
     fill_kw os fds) = nd_fields run konst inp fds.
  Proof.
    induction fds as [|f rest IH]; intros Hd; [reflexivity|].
    cbn [map run_kw nd_fields]. rewrite (Hd f (or_introl eq_refl)). rewrite ev_dict_read.
    rewrite <- IH by (intros g Hg; apply Hd; right; exact Hg).
    unfold nd_field. destruct (sf_default f) as [dv|] eqn:Ed.
    - destruct (nd_has inp (sf_name f)) as [b|e]; [|reflexivity]. cbn [bind]. destruct b.
      + destruct (nd_read run konst inp f) as [y|e]; [|reflexivity]. cbn [bind].
        destruct (run_kw _ _ _ _ rest) as [os|e]; [|reflexivity]. cbn [bind fill_kw]. reflexivity.
      + cbn [bind]. destruct (run_kw _ _ _ _ rest) as [os|e]; [|reflexivity]. cbn [bind fill_kw]. rewrite Ed. reflexivity.
    - destruct (nd_read run konst inp f) as [y|e]; [|reflexivity]. cbn [bind].
      destruct (run_kw _ _ _ _ rest) as [os|e]; [|reflexivity]. cbn [bind fill_kw]. reflexivity.
  Qed.

  (* the emitted as_dict code IS the by-name walk of TyNtDict: "in" guards exactly on the defaulted fields *)
  Theorem k45_as_dict : forall (fds: list sfield) (in_defaults: string -> bool) (vlen: nat),
    (forall f, In f fds -> in_defaults f.(sf_name) = match f.(sf_default) with Some _ => true | None => false end) ->
    run_code (ev_dict run konst inp) (nd_has inp) vlen
             (k45_indices true (map sf_name fds))
             (k45_code true (negb (has_default fds)) in_defaults (map sf_name fds)) fds
      = nd_fields run konst inp fds.
  Proof.
    intros fds ind vlen Hd. unfold k45_indices, k45_code, run_code.
    destruct (has_default fds) eqn:Eh; cbn [negb].
    - apply run_kw_fields. exact Hd.
    - apply run_call_fields. apply has_default_false. exact Eh.
  Qed.
End AsDict.
