(* C12 - faithful model of the region of known finding C12/nofield-inherited-unpacker:
   no-field Discriminator through an Annotated field of a mixin holder (nailed builder,
   unpack.py:447-465 + 485-510) over PLAIN dataclasses with single inheritance.

   The generated loop is
       for variant in variants:
           try:    return variant.__mashumaro_from_dict__(value)
           except AttributeError:                       # nobody in the MRO owns a compiled unpacker
               if get_class_that_defines_method(...) != variant: CodeBuilder(variant).add_unpack_method()
               try: return variant.__mashumaro_from_dict__(value)
               except Exception: pass
           except Exception: pass
   A plain class that INHERITS a compiled unpacker from an ancestor m raises no AttributeError:
   m's unpacker runs with cls = variant, i.e. it reads m's fields and calls variant( ** kwargs).
   State = Discr's class list + the set of classes that own a compiled unpacker (it lives on the
   class, so it is shared by all holders). *)
From Coq Require Import List Arith Bool.
From Verif Require Import Discr DiscrSpec.
Import ListNotations.

(* nearest class in the single-inheritance MRO of v (v first) that owns a compiled unpacker *)
Fixpoint owner (fuel: nat) (cl: list cls) (compiled: list nat) (v: nat) : option nat :=
  match fuel with
  | 0 => None
  | S f =>
      if memb v compiled then Some v
      else match c_parents (nth v cl dummy_cls) with
           | p :: _ => owner f cl compiled p
           | [] => None
           end
  end.

Definition subset (a b: list nat) : bool := forallb (fun x => memb x b) a.

Definition accb (k: cls) (present: list nat) : bool := match acc_req k present with VAccept => true | _ => false end.

(* one iteration of the loop: (compiled set afterwards, Some v if an instance of v is returned) *)
Definition try_nailed (cl: list cls) (present: list nat) (compiled: list nat) (v: nat) : list nat * option nat :=
  let kv := nth v cl dummy_cls in
  match owner (S (length cl)) cl compiled v with
  | None => (v :: compiled, if accb kv present then Some v else None)
  | Some m =>
      let km := nth m cl dummy_cls in
      (* m's unpacker needs m's fields; v( ** kwargs) succeeds iff v requires nothing beyond them *)
      (compiled, if accb km present && subset (c_req kv) (c_req km) then Some v else None)
  end.

Fixpoint loop_nailed (cl: list cls) (present: list nat) (compiled: list nat) (vs: list nat) : list nat * outcome :=
  match vs with
  | [] => (compiled, ONotFound)
  | v :: r =>
      match try_nailed cl present compiled v with
      | (compiled', Some c) => (compiled', OInst c)
      | (compiled', None) => loop_nailed cl present compiled' r
      end
  end.

Record kst := KSt { k_classes : list cls; k_compiled : list nat }.

Definition kstep (sites: list site) (x: kst) (o: op) : kst * option outcome :=
  match o with
  | Define ps tg tu rq ke => (KSt (k_classes x ++ [define (k_classes x) ps tg tu rq ke]) (k_compiled x), None)
  | DecodeSeq _ => (x, Some OBadSite)
  | DecodeBad _ => (x, Some OBadSite)
  | Decode i _ present =>
      match nth_error sites i with
      | None => (x, Some OBadSite)
      | Some s =>
          if negb (site_ok s (length (k_classes x))) || s_field s then (x, Some OBadSite)
          else let (cmp, out) := loop_nailed (k_classes x) present (k_compiled x) (variants (k_classes x) s) in
               (KSt (k_classes x) cmp, Some out)
      end
  end.

Fixpoint ktrace (sites: list site) (x: kst) (ops: list op) : list (option outcome) :=
  match ops with
  | [] => []
  | o :: r => let (x', out) := kstep sites x o in out :: ktrace sites x' r
  end.

Definition krun (sites: list site) (ops: list op) : list (option outcome) := ktrace sites (KSt [] []) ops.

Definition kcase_ok (c: list site * list op * list (option outcome)) : bool :=
  let '(sites, ops, expected) := c in list_eqb oout_eqb (krun sites ops) expected.

(* ---- the defect, in the faithful model: the property's no-field clause is violated ---- *)
Definition kf_sites : list site :=
  [Site [0] false true false false false false 0 0; Site [1] false true false false false false 0 0].
Definition kf_pre : list op :=
  [Define [] [] [] [0] false; Define [0] [] [] [1] false; Decode 0 [] [0]].

Lemma nofield_inherited_unpacker_refuted :
  (* after C0's unpacker was compiled by any earlier decode ... *)
  nth_error (krun kf_sites (kf_pre ++ [Decode 1 [] [0; 1]])) 3 = Some (Some ONotFound)
  (* ... C1 (eligible, accepts) is skipped, although the property demands it: *)
  /\ ~ nofield_spec acc_req (defs kf_pre) (Site [1] false true false false false false 0 0) [0; 1] ONotFound
  /\ nofield_spec acc_req (defs kf_pre) (Site [1] false true false false false false 0 0) [0; 1] (OInst 1)
  (* and without the earlier decode the same call answers C1: the answer depends on the history *)
  /\ nth_error (krun kf_sites [Define [] [] [] [0] false; Define [0] [] [] [1] false; Decode 1 [] [0; 1]]) 2 = Some (Some (OInst 1)).
Proof.
  split; [reflexivity|]. split; [|split; [|reflexivity]].
  - intros [_ [_ [_ E]]]. vm_compute in E. discriminate.
  - unfold nofield_spec. split; [|split; [|split]].
    + intros c E. injection E as <-. split; [|split].
      * right. split; [reflexivity | left; reflexivity].
      * reflexivity.
      * right. intros c' [F _]. discriminate.
    + split; [discriminate|]. intros H. exfalso. apply (H 1); [|reflexivity].
      right. split; [reflexivity | left; reflexivity].
    + left. exists 1. reflexivity.
    + reflexivity.
Qed.
