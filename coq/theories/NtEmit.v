(* C03 / kernel K45: vocabulary and semantics of the code that unpack.py unpack_named_tuple emits for a
   NamedTuple class, in both forms (as_list / as_dict), with and without defaults.  The emission is translated
   from /repo on every run (coq/gen/K45.v, tools/kernels/k45_namedtuple_emit.py); K45Proofs.v proves that the
   emitted code computes TyModel.nt_items (as_list, incl. the rule of fix 8ccb0df) resp. TyNtDict.nd_fields
   (as_dict, incl. the rule of fix 28df7ca). *)
From Coq Require Import List Bool ZArith String Arith.
From Verif Require Import Core TupleIdx TyModel TyNtDict.
Import ListNotations.

(* the subscript of a field's unpacker expression: value['a'] / value[0] *)
Inductive nt_idx := IName (s: string) | IPos (n: nat).

Inductive nt_line :=
| NLSet (name: string)       (* fields['name'] = <unpacker> *)
| NLSetIf (name: string)     (* if 'name' in value: fields['name'] = <unpacker> *)
| NLAppend.                  (* fields.append(<unpacker>) *)

Inductive nt_code :=
| NCCall                       (* no helper: the expression C(<unpacker>, <unpacker>, ...) *)
| NCKw (body: list nt_line)    (* fields = {} ; body ; return C( **fields ) *)
| NCTry (body: list nt_line).  (* fields = [] ; try: body ; except IndexError: if len(fields) < len(value): raise ; return C( *fields ) *)

Section NtCode.
  Variable ev : nt_idx -> sfield -> res pv.        (* value of a field's unpacker expression with that subscript *)
  Variable has : string -> res bool.               (* 'name' in value *)
  Variable vlen : nat.                             (* len(value) *)

  Fixpoint run_call (ixs: list nt_idx) (fds: list sfield) : res (list pv) :=
    match ixs, fds with
    | i :: ixs', f :: fds' => y <- ev i f ;; ys <- run_call ixs' fds' ;; Ok (y :: ys)
    | _, _ => Ok [] end.

  (* Some y: fields[name] was set; None: left to C( **fields ) *)
  Fixpoint run_kw (body: list nt_line) (ixs: list nt_idx) (fds: list sfield) : res (list (option pv)) :=
    match body, ixs, fds with
    | ln :: body', i :: ixs', f :: fds' =>
        o <- match ln with
             | NLSet _ => y <- ev i f ;; Ok (Some y)
             | NLSetIf n => b <- has n ;; if b then (y <- ev i f ;; Ok (Some y)) else Ok None
             | NLAppend => Exn XAttributeError        (* a dict has no append *)
             end ;;
        os <- run_kw body' ixs' fds' ;; Ok (o :: os)
    | _, _, _ => Ok [] end.

  (* C( **fields ): a field that was not set takes its default; TypeError when it has none *)
  Fixpoint fill_kw (os: list (option pv)) (fds: list sfield) : res (list pv) :=
    match os, fds with
    | o :: os', f :: fds' =>
        y <- match o with
             | Some y => Ok y
             | None => match f.(sf_default) with Some dv => Ok dv | None => Exn XTypeError end end ;;
        ys <- fill_kw os' fds' ;; Ok (y :: ys)
    | _, _ => Ok [] end.

  (* [j] = len(fields) so far.  An IndexError leaves the try block: re-raised when len(fields) < len(value),
     otherwise C( *fields ) is called with the items read so far: the remaining fields take their defaults *)
  Fixpoint run_try (body: list nt_line) (ixs: list nt_idx) (fds: list sfield) (j: nat) : res (list pv) :=
    match body, ixs, fds with
    | [], _, _ => Ok []
    | NLAppend :: body', i :: ixs', f :: fds' =>
        match ev i f with
        | Ok y => ys <- run_try body' ixs' fds' (S j) ;; Ok (y :: ys)
        | Exn XIndexError => if (j <? vlen)%nat then Exn XIndexError else nt_defaults fds
        | Exn e => Exn e end
    | _, _, _ => Exn XTypeError
    end.

  Definition run_code (ixs: list nt_idx) (code: nt_code) (fds: list sfield) : res (list pv) :=
    match code with
    | NCCall => run_call ixs fds
    | NCKw body => os <- run_kw body ixs fds ;; fill_kw os fds
    | NCTry body => run_try body ixs fds O
    end.
End NtCode.

(* evaluation of "<unpacker of f>(value[i])" on a list input.  As in TyModel.nt_items: an item that exists is
   given to the item unpacker; where it does not exist the expression raises IndexError unless it is a constant
   (does not mention value[i]). *)
Definition ev_list {X} (run: sfield -> X -> res pv) (konst: sfield -> option pv) (l: list X) (i: nt_idx) (f: sfield) : res pv :=
  match i with
  | IPos n => match nth_error l n with
              | Some x => run f x
              | None => match konst f with Some c => Ok c | None => Exn XIndexError end end
  | IName _ => Exn XTypeError end.

(* ... and on the inputs of TyNtDict: constants are not read; value['a'] on a dict is a lookup (KeyError),
   on anything else a TypeError *)
Definition ev_dict {D} (run: sfield -> D -> res pv) (konst: sfield -> option pv) (inp: nd_input D) (i: nt_idx) (f: sfield) : res pv :=
  match konst f with
  | Some c => Ok c
  | None =>
      match i, inp with
      | IName s, NDict es => match look es s with Some d => run f d | None => Exn XKeyError end
      | _, _ => Exn XTypeError end
  end.

Definition str_mem (s: string) (l: list string) : bool := existsb (String.eqb s) l.

(* ---- pack side (kernel K45b): the expression pack_named_tuple returns ---- *)
Inductive nt_pack_code :=
| NPList (ixs: list nt_idx)                        (* [p0(value[0]), p1(value[1]), ...] *)
| NPDict (keys: list string) (ixs: list nt_idx).   (* {'a': p0(value[0]), 'b': p1(value[1]), ...} *)

Definition run_pack_code (ev: nt_idx -> sfield -> res pv) (code: nt_pack_code) (fds: list sfield) : res pv :=
  match code with
  | NPList ixs => r <- run_call ev ixs fds ;; Ok (VList r)
  | NPDict keys ixs => r <- run_call ev ixs fds ;; Ok (VDict (combine (map VStr keys) r))
  end.
