(* C02 / C03, kernel K45a: vocabulary and semantics of the statements that pack.py pack_typed_dict and
   unpack.py unpack_typed_dict emit into the helper of a TypedDict class.  The two emission loops are translated
   from /repo on every run (coq/gen/K45a.v, tools/kernels/k45a_typeddict_emit.py); K45aProofs.v proves that the
   emitted helper computes TyModel.td_go over TyModel.td_order (required keys, then the optional keys present,
   each group in declaration order). *)
From Coq Require Import List Bool ZArith String.
From Verif Require Import Core TupleIdx TyModel.
Import ListNotations.

Inductive td_line :=
| TLReq (key: string)     (* d['key'] = <(un)packer>(value['key']) *)
| TLOpt (key: string).    (* key_value = value.get('key', MISSING) ; if key_value is not MISSING: d['key'] = <(un)packer>(key_value) *)

Section TdCode.
  Context {D: Type}.
  Variable run : sfield -> D -> res pv.        (* the (un)packer of a key applied to the entry found *)
  Variable konst : sfield -> option pv.        (* the expression is a constant: value['key'] is not evaluated *)
  Variable miss : exn.                         (* value['key'] fails *)
  Variable fld : string -> option sfield.      (* annotations[key] *)
  Variable es : list (pv * D).                 (* the dict *)

  (* Some (k, y): d[k] = y was executed; None: nothing was set.  As in TyModel.td_field an entry that exists is
     given to the (un)packer. *)
  Definition run_td_line (ln: td_line) : res (option (pv * pv)) :=
    match ln with
    | TLReq key =>
        match fld key with
        | None => Exn XKeyError
        | Some f =>
            match konst f with
            | Some c => Ok (Some (VStr key, c))
            | None => match look es key with
                      | Some d => y <- run f d ;; Ok (Some (VStr key, y))
                      | None => Exn miss end
            end
        end
    | TLOpt key =>
        match fld key with
        | None => Exn XKeyError
        | Some f =>
            match look es key with
            | Some d => y <- run f d ;; Ok (Some (VStr key, y))
            | None => Ok None end
        end
    end.

  (* d = {} ; lines ; return d *)
  Fixpoint run_td_lines (lns: list td_line) : res (list (pv * pv)) :=
    match lns with
    | [] => Ok []
    | ln :: r =>
        o <- run_td_line ln ;; tl <- run_td_lines r ;;
        Ok (match o with Some kv => kv :: tl | None => tl end)
    end.
End TdCode.

Definition find_field (fds: list sfield) (n: string) : option sfield :=
  find (fun f => String.eqb f.(sf_name) n) fds.
