(* The JSON Schema's alias resolution (kernel K6A = jsonschema.schema.Instance.alias, translated
   from /repo on this run) against the serializer's (kernel K4 = CodeBuilder.__get_field_alias). *)
From Coq Require Import List String Ascii ZArith Bool.
From Verif Require Import Regex PyK PyK_alias KeyModel KeyImpl KeyProofs.
From VerifGen Require Import K4 K6A.
Import ListNotations.
Open Scope string_scope.

(* the key of a field in a by-alias document: `alias if alias is not None else name` *)
Definition key_of (a: option string) (n: string) : string := match a with Some s => s | None => n end.

(* schema side: metadata alias, else the last Annotated Alias, else Config.aliases[name], else the name *)
Lemma schema_alias_spec_thm :
  forall (fname: string) (md: kv) (m: option string) (l: list ann) (al: list (string * string)),
    k_dict_get md (KStr "alias") = Ok (enc_ostr m) ->
    schema_alias md (KTuple (map enc_ann l)) (enc_aliases al) (KStr fname)
    = Ok (KStr (key_of (orelse m (orelse (last_alias l) (assoc al fname))) fname)).
Proof.
  intros fname md m l al Hm. unfold schema_alias. rewrite Hm. cbn [bind].
  remember (k_dict_get (enc_aliases al) (KStr fname)) as G eqn:HG.
  rewrite dict_get_aliases in HG.
  destruct m as [s|]; cbn [enc_ostr orelse key_of].
  - reflexivity.
  - cbn. cbn [k_for]. erewrite for_list_alias0.
    2:{ intros [s|] acc; reflexivity. }
    cbn [bind]. destruct (last_alias l) as [s|]; cbn; [reflexivity|].
    subst G. cbn [bind]. destruct (assoc al fname) as [s|]; reflexivity.
Qed.

(* the two copies of the precedence rule agree for all three alias sources:
   the key the serializer writes (by alias) is the key the schema lists.
   [isann]: the field type is Annotated[...]; then both sides see its metadata l,
   otherwise the schema sees the empty default and the serializer does not look *)
Theorem alias_agrees_thm :
  forall (fname: string) (md anns: kv) (m: option string) (isann: bool) (l: list ann) (al: list (string * string)),
    k_dict_get md (KStr "alias") = Ok (enc_ostr m) ->
    (isann = true -> anns = KTuple (map enc_ann l)) ->
    exists a, get_field_alias (KStr fname) md (KBool isann) anns (enc_aliases al) = Ok (enc_ostr a)
              /\ schema_alias md (KTuple (map enc_ann (if isann then l else []))) (enc_aliases al) (KStr fname)
                 = Ok (KStr (key_of a fname)).
Proof.
  intros fname md anns m isann l al Hm Hann.
  eexists. split; [apply (get_field_alias_spec fname md anns m isann l al Hm Hann)|].
  rewrite (schema_alias_spec_thm fname md m _ al Hm). destruct isann; reflexivity.
Qed.
