(* The JSON Schema's alias resolution (kernel K6A = jsonschema.schema.Instance.alias, translated
   from /repo on this run) against the serializer's (kernel K4 = CodeBuilder.__get_field_alias). *)
From Coq Require Import List String Ascii ZArith Bool.
From Verif Require Import Regex PyK PyK_alias KeyModel KeyImpl KeyProofs.
From VerifGen Require Import K4 K6A.
Import ListNotations.
Open Scope string_scope.

(* the key of a field in a by-alias document: `alias if alias is not None else name` *)
Definition key_of (a: option string) (n: string) : string := match a with Some s => s | None => n end.

(* schema side: metadata alias, else Config.aliases[name], else the name *)
Lemma schema_alias_spec_thm :
  forall (fname: string) (md: kv) (m: option string) (al: list (string * string)),
    k_dict_get md (KStr "alias") = Ok (enc_ostr m) ->
    schema_alias md (enc_aliases al) (KStr fname) = Ok (KStr (key_of (orelse m (assoc al fname)) fname)).
Proof.
  intros fname md m al Hm. unfold schema_alias. rewrite Hm. cbn [bind].
  remember (k_dict_get (enc_aliases al) (KStr fname)) as G eqn:HG.
  rewrite dict_get_aliases in HG.
  destruct m as [s|]; cbn [enc_ostr orelse key_of].
  - reflexivity.
  - cbn. subst G. cbn [bind]. destruct (assoc al fname) as [s|]; reflexivity.
Qed.

(* the two copies of the precedence rule agree unless an Annotated Alias decides *)
Theorem alias_agrees_thm :
  forall (fname: string) (md anns: kv) (m: option string) (isann: bool) (l: list ann) (al: list (string * string)),
    k_dict_get md (KStr "alias") = Ok (enc_ostr m) ->
    (isann = true -> anns = KTuple (map enc_ann l)) ->
    (m <> None \/ isann = false \/ last_alias l = None) ->
    exists a, get_field_alias (KStr fname) md (KBool isann) anns (enc_aliases al) = Ok (enc_ostr a)
              /\ schema_alias md (enc_aliases al) (KStr fname) = Ok (KStr (key_of a fname)).
Proof.
  intros fname md anns m isann l al Hm Hann Hc.
  eexists. split; [apply (get_field_alias_spec fname md anns m isann l al Hm Hann)|].
  rewrite (schema_alias_spec_thm fname md m al Hm).
  destruct m as [s|]; cbn [orelse]; [reflexivity|].
  destruct Hc as [Hc|[Hc|Hc]]; [congruence| subst isann; reflexivity|].
  destruct isann; [rewrite Hc|]; reflexivity.
Qed.

(* ... and disagree when it does (known finding schema-annotated-alias-ignored):
   x: Annotated[int, Alias("ann_x")], no metadata alias, no Config.aliases entry *)
Theorem annotated_alias_refuted_thm :
  get_field_alias (KStr "x") (KDict []) (KBool true) (KTuple [enc_ann (AAlias "ann_x")]) (enc_aliases []) = Ok (KStr "ann_x")
  /\ schema_alias (KDict []) (enc_aliases []) (KStr "x") = Ok (KStr "x").
Proof. split; reflexivity. Qed.
