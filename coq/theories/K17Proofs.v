(* C08 - kernel K17 (VerifGen.K17 = CodeBuilder.is_field_nullable translated from /repo on this run):
   OptProj.nullable is the translated predicate. *)
From Coq Require Import List String Ascii ZArith Bool Lia Arith.
From Verif Require Import Regex PyK PyK_c08 OptProj.
From VerifGen Require Import K17.
Import ListNotations.
Open Scope string_scope.

Fixpoint enc_fty (t: fty) : kv :=
  match t with
  | TyPlain => KObj 0 | TyAny => ty_any | TyNoneType => ty_nonetype | TyNoneLit => KNone
  | TyOptional => KTuple [KStr "Optional"] | TyUnionNone => KTuple [KStr "UnionNone"]
  | TyTypeVarAny => KTuple [KStr "TypeVarAny"]
  | TyAnnotated u => KTuple [KStr "Annotated"; enc_fty u]
  | TyFinal u => KTuple [KStr "Final"; enc_fty u]
  | TyFinalBare => KTuple [KStr "Final"] end.

(* get_field_default(fname) WITHOUT calling the factory *)
Definition enc_default (d: dflt) : kv :=
  match d with DNo => KMissing | DVal PNone => KNone | DVal _ => KObj 7 | DFac _ => KObj 8 end.

Fixpoint wraps (t: fty) : nat :=
  match t with TyAnnotated u | TyFinal u => S (wraps u) | _ => O end.

Lemma wraps_depth t : (wraps t <= kv_depth (enc_fty t))%nat.
Proof.
  induction t; cbn [wraps enc_fty kv_depth]; lia.
Qed.

Lemma iter_unwrap : forall t n, (wraps t < n)%nat ->
  k_iter n is_field_nullable_step (enc_fty t) = Ok (enc_fty (unwrap t)).
Proof.
  induction t; intros n Hn; destruct n as [|n]; try lia; try reflexivity.
  - cbn [wraps] in Hn. cbn [k_iter]. change (is_field_nullable_step (enc_fty (TyAnnotated t))) with (Ok (Some (enc_fty t)) : res (option kv)).
    cbn [unwrap]. apply IHt. lia.
  - cbn [wraps] in Hn. cbn [k_iter]. change (is_field_nullable_step (enc_fty (TyFinal t))) with (Ok (Some (enc_fty t)) : res (option kv)).
    cbn [unwrap]. apply IHt. lia.
Qed.

Lemma unwrap_base t : match unwrap t with TyAnnotated _ | TyFinal _ => False | _ => True end.
Proof. induction t; cbn; auto. Qed.

Theorem K17_nullable_lemma : forall (p: fplan),
  is_field_nullable (enc_default p.(p_default)) (enc_fty p.(p_ty)) = Ok (KBool (nullable p)).
Proof.
  intros p. unfold is_field_nullable.
  rewrite iter_unwrap by (pose proof (wraps_depth (p_ty p)); lia).
  unfold nullable, p_tynull, ty_nullable. cbn [bind].
  pose proof (unwrap_base (p_ty p)) as Hb.
  destruct (unwrap (p_ty p)); try contradiction; destruct (p_default p) as [|[]|]; reflexivity.
Qed.

(* ------------------------------------------------------------------ *)
(* DECLARED field types: the fields of a generic class are declared with type variables; OptProj.fty
   (p_ty) is the type the variable stands for in the specialisation at hand.  That the translated
   is_field_nullable, run on the declared type, answers for the RESOLVED type is proved here instead of
   being part of the encoding (before /repo 4da7e9e it did not: the tests looked at the variable itself). *)
Inductive dty :=
| DTy (t: fty)              (* a type expression without variables at the positions is_field_nullable inspects;
                               DTy TyTypeVarAny = a variable left unbound, without bound / constraints / default *)
| DVar (b: fty)             (* a type variable that the specialisation binds to b *)
| DVarBound (b: fty)        (* a type variable left unbound, declared TypeVar(..., bound=b): values are packed as b *)
| DAnnotated (d: dty)       (* Annotated[d, ...] *)
| DFinal (d: dty).          (* Final[d] *)

Fixpoint resolve (d: dty) : fty :=
  match d with
  | DTy t => t | DVar b => b | DVarBound b => b
  | DAnnotated u => TyAnnotated (resolve u) | DFinal u => TyFinal (resolve u) end.

Fixpoint enc_dty (d: dty) : kv :=
  match d with
  | DTy t => enc_fty t
  | DVar b => KTuple [KStr "TypeVar"; enc_fty b]
  | DVarBound b => KTuple [KStr "TypeVarBound"; enc_fty b]
  | DAnnotated u => KTuple [KStr "Annotated"; enc_dty u]
  | DFinal u => KTuple [KStr "Final"; enc_dty u] end.

(* domain: a type argument is a type mashumaro compiles a serializer for -- not Annotated / Final at its top
   (Final is no type argument; a variable bound to Annotated[...] is rejected: UnserializableDataError) --
   and variables are bound or unconstrained (the bounded, unbound variable: K17_bound_refuted) *)
Definition bind_ok (b: fty) : bool :=
  match b with TyAnnotated _ | TyFinal _ | TyFinalBare => false | _ => true end.
Fixpoint dty_ok (d: dty) : bool :=
  match d with
  | DTy _ => true | DVar b => bind_ok b | DVarBound _ => false
  | DAnnotated u | DFinal u => dty_ok u end.

Definition with_ty (p: fplan) (t: fty) : fplan :=
  {| p_name := p.(p_name); p_alias := p.(p_alias); p_ty := t; p_trivial := p.(p_trivial);
     p_default := p.(p_default); p_omit := p.(p_omit) |}.

Fixpoint dwraps (d: dty) : nat :=
  match d with DTy t => wraps t | DAnnotated u | DFinal u => S (dwraps u) | _ => O end.
Fixpoint dunwrap (d: dty) : dty :=
  match d with DTy t => DTy (unwrap t) | DAnnotated u | DFinal u => dunwrap u | _ => d end.

Lemma dwraps_depth d : (dwraps d <= kv_depth (enc_dty d))%nat.
Proof.
  induction d; cbn [dwraps enc_dty]; try (cbn [kv_depth]; lia).
  apply wraps_depth.
Qed.

Lemma iter_dunwrap : forall d n, (dwraps d < n)%nat ->
  k_iter n is_field_nullable_step (enc_dty d) = Ok (enc_dty (dunwrap d)).
Proof.
  induction d; intros n Hn.
  - cbn [dwraps] in Hn. cbn [enc_dty dunwrap]. apply iter_unwrap. exact Hn.
  - destruct n as [|n]; [lia|]. reflexivity.
  - destruct n as [|n]; [lia|]. reflexivity.
  - cbn [dwraps] in Hn. destruct n as [|n]; [lia|]. cbn [k_iter].
    change (is_field_nullable_step (enc_dty (DAnnotated d))) with (Ok (Some (enc_dty d)) : res (option kv)).
    cbn [dunwrap]. apply IHd. lia.
  - cbn [dwraps] in Hn. destruct n as [|n]; [lia|]. cbn [k_iter].
    change (is_field_nullable_step (enc_dty (DFinal d))) with (Ok (Some (enc_dty d)) : res (option kv)).
    cbn [dunwrap]. apply IHd. lia.
Qed.

Lemma resolve_dunwrap d : unwrap (resolve d) = unwrap (resolve (dunwrap d)).
Proof.
  induction d; cbn [resolve dunwrap unwrap]; auto.
  induction t; cbn [unwrap]; auto.
Qed.

Lemma dty_ok_dunwrap d : dty_ok d = dty_ok (dunwrap d).
Proof. induction d; cbn [dty_ok dunwrap]; auto. Qed.

Lemma dunwrap_base d :
  match dunwrap d with
  | DAnnotated _ | DFinal _ => False
  | DTy t => match t with TyAnnotated _ | TyFinal _ => False | _ => True end
  | _ => True end.
Proof. induction d; cbn [dunwrap]; auto. apply unwrap_base. Qed.

(* the translated predicate on the DECLARED type = the model's `nullable` of the plan with the RESOLVED type *)
Theorem K17_nullable_declared_lemma : forall (p: fplan) (d: dty), dty_ok d = true ->
  is_field_nullable (enc_default p.(p_default)) (enc_dty d) = Ok (KBool (nullable (with_ty p (resolve d)))).
Proof.
  intros p d Hok. unfold is_field_nullable.
  rewrite iter_dunwrap by (pose proof (dwraps_depth d); lia).
  unfold nullable, p_tynull, ty_nullable. cbn [with_ty p_ty p_default bind].
  rewrite resolve_dunwrap. rewrite dty_ok_dunwrap in Hok.
  pose proof (dunwrap_base d) as Hb.
  destruct (dunwrap d) as [t|b|b|u|u]; try contradiction; cbn [dty_ok] in Hok; try discriminate.
  - cbn [resolve enc_dty]. destruct t; try contradiction; destruct (p_default p) as [|[]|]; reflexivity.
  - cbn [resolve enc_dty]. destruct b; cbn [bind_ok] in Hok; try discriminate; destruct (p_default p) as [|[]|]; reflexivity.
Qed.

(* full statement (no domain predicate) is false: a variable left unbound whose bound admits None.  The packer
   treats such a field as its bound (values are packed as Optional[int]: None is a conforming value), the
   predicate looks at the variable and answers "not nullable" *)
Theorem K17_bound_refuted_lemma :
  ~ (forall (p: fplan) (d: dty),
       is_field_nullable (enc_default p.(p_default)) (enc_dty d) = Ok (KBool (nullable (with_ty p (resolve d))))).
Proof.
  intros H.
  specialize (H {| p_name := "gv"; p_alias := None; p_ty := TyPlain; p_trivial := true; p_default := DNo; p_omit := false |}
                (DVarBound TyOptional)).
  vm_compute in H. discriminate H.
Qed.
