(* C08 - kernel K17 (VerifGen.K17 = CodeBuilder.is_field_nullable translated from /repo on this run):
   OptProj.nullable is the translated predicate. *)
From Coq Require Import List String Ascii ZArith Bool Lia Arith.
From Verif Require Import Regex PyK PyK_c08 OptProj.
From VerifGen Require Import K17.
Import ListNotations.
Open Scope string_scope.

Fixpoint enc_fty (t: fty) : kv :=
  match t with
  | TyPlain => KObj 0 | TyAny => ty_any | TyNoneType => ty_nonetype | TyNoneLit => KNone
  | TyOptional => KTuple [KStr "Optional"] | TyUnionNone => KTuple [KStr "UnionNone"]
  | TyTypeVarAny => KTuple [KStr "TypeVarAny"]
  | TyAnnotated u => KTuple [KStr "Annotated"; enc_fty u]
  | TyFinal u => KTuple [KStr "Final"; enc_fty u]
  | TyFinalBare => KTuple [KStr "Final"] end.

(* get_field_default(fname) WITHOUT calling the factory *)
Definition enc_default (d: dflt) : kv :=
  match d with DNo => KMissing | DVal PNone => KNone | DVal _ => KObj 7 | DFac _ => KObj 8 end.

Fixpoint wraps (t: fty) : nat :=
  match t with TyAnnotated u | TyFinal u => S (wraps u) | _ => O end.

Lemma wraps_depth t : (wraps t <= kv_depth (enc_fty t))%nat.
Proof.
  induction t; cbn [wraps enc_fty kv_depth]; lia.
Qed.

Lemma iter_unwrap : forall t n, (wraps t < n)%nat ->
  k_iter n is_field_nullable_step (enc_fty t) = Ok (enc_fty (unwrap t)).
Proof.
  induction t; intros n Hn; destruct n as [|n]; try lia; try reflexivity.
  - cbn [wraps] in Hn. cbn [k_iter]. change (is_field_nullable_step (enc_fty (TyAnnotated t))) with (Ok (Some (enc_fty t)) : res (option kv)).
    cbn [unwrap]. apply IHt. lia.
  - cbn [wraps] in Hn. cbn [k_iter]. change (is_field_nullable_step (enc_fty (TyFinal t))) with (Ok (Some (enc_fty t)) : res (option kv)).
    cbn [unwrap]. apply IHt. lia.
Qed.

Lemma unwrap_base t : match unwrap t with TyAnnotated _ | TyFinal _ => False | _ => True end.
Proof. induction t; cbn; auto. Qed.

Theorem K17_nullable_lemma : forall (p: fplan),
  is_field_nullable (enc_default p.(p_default)) (enc_fty p.(p_ty)) = Ok (KBool (nullable p)).
Proof.
  intros p. unfold is_field_nullable.
  rewrite iter_unwrap by (pose proof (wraps_depth (p_ty p)); lia).
  unfold nullable, p_tynull, ty_nullable. cbn [bind].
  pose proof (unwrap_base (p_ty p)) as Hb.
  destruct (unwrap (p_ty p)); try contradiction; destruct (p_default p) as [|[]|]; reflexivity.
Qed.
