(* Theorems about K40 = the skeleton of CodecCodeBuilder.add_decode_method / add_encode_method as translated
   from /repo on this run. *)
From Coq Require Import List Bool.
From Verif Require Import CodecWrap.
From VerifGen Require Import K40.
Import ListNotations.

(* Decoder objects: the callable installed as `decode` computes  unpack(pre_decoder(data))  when a pre-decoder
   is given and  unpack(data)  otherwise - the pre-decoder runs exactly once, and the direct-call shortcut
   (install the method itself) is taken only without a pre-decoder, where it is the same function. *)
Theorem codec_decode_sem : forall (b_codec b_m: bool) (In Out: Type) (pre: In -> In) (post: Out -> Out)
                                  (E M: In -> option Out),
  (b_m = true -> forall x, E x = M x) ->
  forall d, call In Out pre post E M (install (decode_prog b_codec b_m) None NotInstalled) d
            = E (if b_codec then pre d else d).
Proof.
  intros b_codec b_m In Out pre post E M HM d.
  destruct b_codec, b_m; simpl; try reflexivity. symmetry. apply HM. reflexivity.
Qed.

(* Encoder objects: `encode` computes  post_encoder(pack(obj))  / pack(obj): the post-encoder is applied exactly once *)
Theorem codec_encode_sem : forall (b_codec b_m: bool) (In Out: Type) (pre: In -> In) (post: Out -> Out)
                                  (E M: In -> option Out),
  (b_m = true -> forall x, E x = M x) ->
  forall v, call In Out pre post E M (install (encode_prog b_codec b_m) None NotInstalled) v
            = if b_codec then option_map post (E v) else E v.
Proof.
  intros b_codec b_m In Out pre post E M HM v.
  destruct b_codec, b_m; simpl; try reflexivity. symmetry. apply HM. reflexivity.
Qed.
