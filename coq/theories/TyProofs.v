(* Proofs about the type-level model (TyModel.v):
   - C02: the generated packer (with its optimisations) equals the reference encoder
   - C03: the generated unpacker equals the reference decoder on EVERY input
   - basic-form closure of the reference encoder *)
From Coq Require Import List String Ascii ZArith Bool Lia.
From Verif Require Import Core TupleIdx TyModel TyTuple.
Import ListNotations.
Open Scope string_scope.
Open Scope Z_scope.
Open Scope list_scope.

(* ------------------------------------------------------------------ *)
(* induction principle for the nested value type *)
Section PvInd.
  Variable Q : pv -> Prop.
  Hypothesis HNone : Q VNone.
  Hypothesis HBool : forall b, Q (VBool b).
  Hypothesis HInt : forall z, Q (VInt z).
  Hypothesis HFloat : forall f, Q (VFloat f).
  Hypothesis HStr : forall s, Q (VStr s).
  Hypothesis HBytes : forall m b, Q (VBytes m b).
  Hypothesis HList : forall l, Forall Q l -> Q (VList l).
  Hypothesis HTuple : forall l, Forall Q l -> Q (VTuple l).
  Hypothesis HSet : forall f l, Forall Q l -> Q (VSet f l).
  Hypothesis HDict : forall kvs, Forall (fun p => Q (fst p) /\ Q (snd p)) kvs -> Q (VDict kvs).
  Hypothesis HObj : forall c fs, Forall (fun p => Q (snd p)) fs -> Q (VObj c fs).
  Hypothesis HEnum : forall e m, Q (VEnum e m).
  Hypothesis HLeaf : forall k w, Q (VLeaf k w).
  Hypothesis HNT : forall c l, Forall Q l -> Q (VNT c l).
  Hypothesis HOther : forall t, Q (VOther t).

  Fixpoint pv_rect' (v: pv) : Q v :=
    let fix all (l: list pv) : Forall Q l :=
        match l with [] => Forall_nil _ | x :: r => @Forall_cons _ Q x r (pv_rect' x) (all r) end in
    match v with
    | VNone => HNone | VBool b => HBool b | VInt z => HInt z | VFloat f => HFloat f
    | VStr s => HStr s | VBytes m b => HBytes m b
    | VList l => HList l (all l)
    | VTuple l => HTuple l (all l)
    | VSet f l => HSet f l (all l)
    | VDict kvs =>
        HDict kvs ((fix alld (l: list (pv * pv)) : Forall (fun p => Q (fst p) /\ Q (snd p)) l :=
                      match l with
                      | [] => Forall_nil _
                      | (k, x) :: r => @Forall_cons _ (fun p => Q (fst p) /\ Q (snd p)) (k, x) r (conj (pv_rect' k) (pv_rect' x)) (alld r) end) kvs)
    | VObj c fs =>
        HObj c fs ((fix allo (l: list (string * pv)) : Forall (fun p => Q (snd p)) l :=
                      match l with
                      | [] => Forall_nil _
                      | (n, x) :: r => @Forall_cons _ (fun p => Q (snd p)) (n, x) r (pv_rect' x) (allo r) end) fs)
    | VEnum e m => HEnum e m | VLeaf k w => HLeaf k w
    | VNT c l => HNT c l (all l)
    | VOther t => HOther t
    end.
End PvInd.


(* element types of the unpacked segment of a tuple *)
Definition mid_elems (mid: sty) : list sty :=
  match mid with STupleVar t' => [t'] | STupleFix ts => ts | _ => [] end.

(* induction principle for the type grammar (nested list in STupleFix) *)
Section StyInd.
  Variable Q : sty -> Prop.
  Hypothesis H1 : Q SAny. Hypothesis H2 : Q SNoneT. Hypothesis H3 : Q SIntT. Hypothesis H4 : Q SFloatT.
  Hypothesis H5 : Q SBoolT. Hypothesis H6 : Q SStrT.
  Hypothesis H7 : forall m, Q (SBytes m).
  Hypothesis H8 : forall k, Q (SLeaf k).
  Hypothesis H9 : forall e, Q (SEnum e).
  Hypothesis H10 : forall t, Q t -> Q (SList t).
  Hypothesis H11 : forall f t, Q t -> Q (SSet f t).
  Hypothesis H12 : forall t, Q t -> Q (STupleVar t).
  Hypothesis H13 : forall ts, Forall Q ts -> Q (STupleFix ts).
  Hypothesis H13u : forall pre, Forall Q pre -> forall mid, Q mid -> Forall Q (mid_elems mid) ->
                    forall post, Forall Q post -> Q (STupleU pre mid post).
  Hypothesis H14 : forall kt, Q kt -> forall vt, Q vt -> Q (SDict kt vt).
  Hypothesis H15 : forall t, Q t -> Q (SOpt t).
  Hypothesis H16 : forall c, Q (SData c).
  Hypothesis H17 : forall c, Q (SNamed c).
  Hypothesis H18 : forall c, Q (STyped c).
  Hypothesis H19 : forall t, Q t -> Q (SSeq t).
  Hypothesis H20 : forall kt, Q kt -> forall vt, Q vt -> Q (SMap kt vt).
  Hypothesis H21 : forall b t, Q t -> Q (SBox b t).
  Hypothesis H22 : forall ls, Q (SLit ls).
  Fixpoint sty_ind' (t: sty) : Q t :=
    match t with
    | SAny => H1 | SNoneT => H2 | SIntT => H3 | SFloatT => H4 | SBoolT => H5 | SStrT => H6
    | SBytes m => H7 m | SLeaf k => H8 k | SEnum e => H9 e
    | SList t' => H10 t' (sty_ind' t')
    | SSet f t' => H11 f t' (sty_ind' t')
    | STupleVar t' => H12 t' (sty_ind' t')
    | STupleFix ts =>
        H13 ts ((fix all (l: list sty) : Forall Q l :=
                   match l with [] => Forall_nil _ | x :: r => @Forall_cons _ Q x r (sty_ind' x) (all r) end) ts)
    | STupleU pre mid post =>
        let all := (fix all (l: list sty) : Forall Q l :=
                      match l with [] => Forall_nil _ | x :: r => @Forall_cons _ Q x r (sty_ind' x) (all r) end) in
        H13u pre (all pre) mid (sty_ind' mid)
             (match mid as m return Forall Q (mid_elems m) with
              | STupleVar t' => @Forall_cons _ Q t' [] (sty_ind' t') (Forall_nil _)
              | STupleFix ts => all ts
              | _ => Forall_nil _ end)
             post (all post)
    | SDict kt vt => H14 kt (sty_ind' kt) vt (sty_ind' vt)
    | SOpt t' => H15 t' (sty_ind' t')
    | SData c => H16 c
    | SNamed c => H17 c
    | STyped c => H18 c
    | SSeq t' => H19 t' (sty_ind' t')
    | SMap kt vt => H20 kt (sty_ind' kt) vt (sty_ind' vt)
    | SBox b t' => H21 b t' (sty_ind' t')
    | SLit ls => H22 ls
    end.
End StyInd.

(* ------------------------------------------------------------------ *)
(* mapM congruence *)
Lemma mapM_ext_in {A B} (f g: A -> res B) (l: list A) :
  (forall x, In x l -> f x = g x) -> mapM f l = mapM g l.
Proof.
  induction l as [|a l IH]; intros H; [reflexivity|].
  cbn [mapM]. rewrite (H a (or_introl eq_refl)). rewrite IH; [reflexivity|].
  intros x Hx. apply H. right. exact Hx.
Qed.

Lemma Forall_In {A} (Q: A -> Prop) l : Forall Q l -> forall x, In x l -> Q x.
Proof. intros H x Hx. rewrite Forall_forall in H. auto. Qed.

(* ------------------------------------------------------------------ *)
(* the Python dict invariant: no two keys are equal *)
Fixpoint nodup_keys (kvs: list (pv * pv)) : bool :=
  match kvs with
  | [] => true
  | (k, _) :: r => negb (existsb (fun p => py_eq k (fst p)) r) && nodup_keys r end.

Lemma d_insert_fresh acc k v :
  (forall a, In a acc -> py_eq (fst a) k = false) -> d_insert acc k v = acc ++ [(k, v)].
Proof.
  induction acc as [|[k' x] acc IH]; intros H; [reflexivity|].
  cbn [d_insert]. pose proof (H (k', x) (or_introl eq_refl)) as Hk. cbn [fst] in Hk. rewrite Hk. cbn [app]. f_equal.
  apply IH. intros a Ha. apply H. right. exact Ha.
Qed.

Lemma fold_insert_nodup (l acc: list (pv * pv)) :
  nodup_keys l = true ->
  (forall a p, In a acc -> In p l -> py_eq (fst a) (fst p) = false) ->
  fold_left (fun acc kv => d_insert acc (fst kv) (snd kv)) l acc = acc ++ l.
Proof.
  revert acc. induction l as [|[k v] r IH]; intros acc Hn Hd.
  - cbn. rewrite app_nil_r. reflexivity.
  - cbn [fold_left fst snd]. cbn [nodup_keys] in Hn. apply andb_prop in Hn. destruct Hn as [Hk Hr].
    rewrite d_insert_fresh.
    + rewrite IH; [rewrite <- app_assoc; reflexivity | exact Hr |].
      intros a p Ha Hp. apply in_app_or in Ha. destruct Ha as [Ha|[Ha|[]]].
      * apply Hd; [exact Ha | right; exact Hp].
      * subst a. cbn [fst]. apply negb_true_iff in Hk.
        destruct (py_eq k (fst p)) eqn:Epe; [|reflexivity].
        exfalso. assert (existsb (fun p0 => py_eq k (fst p0)) r = true) as Hx.
        { apply existsb_exists. exists p. split; assumption. }
        rewrite Hx in Hk. discriminate.
    + intros a Ha. apply (Hd a (k, v) Ha (or_introl eq_refl)).
Qed.

Lemma dict_of_pairs_nodup kvs : nodup_keys kvs = true -> dict_of_pairs kvs = kvs.
Proof.
  intros H. unfold dict_of_pairs. rewrite fold_insert_nodup; [reflexivity | exact H |].
  intros a p [].
Qed.


(* ------------------------------------------------------------------ *)
(* NamedTuple / TypedDict walkers: congruence lemmas *)
Lemma py_eq_str_l key n : py_eq key (VStr n) = true -> key = VStr n.
Proof.
  destruct key as [ | b | z | f | s | m b | l | l | fr l | kvs | c fs | e m | k w | c l | tg ]; cbn; try discriminate.
  all: try (destruct f as [m e | | [] | ]; cbn; discriminate).
  intros H. apply String.eqb_eq in H. subst. reflexivity.
Qed.

Lemma py_eq_str_str a b : py_eq (VStr a) (VStr b) = String.eqb a b.
Proof. reflexivity. Qed.

Lemma look_map {A D} (g: A -> D) (kvs: list (pv * A)) n :
  look (map (fun p => match p with (key, x) => (key, g x) end) kvs) n = option_map g (look kvs n).
Proof.
  induction kvs as [|[key x] kvs IH]; [reflexivity|].
  cbn [map look]. destruct (py_eq key (VStr n)); [reflexivity | exact IH].
Qed.

Lemma look_In {D} (es: list (pv * D)) n d : look es n = Some d -> exists key, In (key, d) es /\ key = VStr n.
Proof.
  induction es as [|[key x] es IH]; cbn [look]; [discriminate|].
  destruct (py_eq key (VStr n)) eqn:Ek.
  - intros H. inversion H; subst. exists key. split; [left; reflexivity | apply py_eq_str_l; exact Ek].
  - intros H. destruct (IH H) as [k' [Hin Hk]]. exists k'. split; [right; exact Hin | exact Hk].
Qed.

Lemma In_td_order f fds : In f (td_order fds) -> In f fds.
Proof.
  unfold td_order. intros H. apply in_app_or in H. destruct H as [H|H]; apply filter_In in H; apply H.
Qed.

Lemma nt_tail_ext k1 k2 m1 m2 fds :
  (forall f, k1 f = k2 f) -> (forall r, m1 r = m2 r) -> nt_tail k1 m1 fds = nt_tail k2 m2 fds.
Proof.
  intros Hk Hm. induction fds as [|f r IH]; [reflexivity|].
  cbn [nt_tail]. rewrite Hk, IH, Hm. reflexivity.
Qed.

Lemma nt_items_ext {X} (run1 run2: sfield -> X -> res pv) k1 k2 m1 m2 fds (l: list X) :
  (forall f x, In x l -> run1 f x = run2 f x) -> (forall f, k1 f = k2 f) -> (forall r, m1 r = m2 r) ->
  nt_items run1 k1 m1 fds l = nt_items run2 k2 m2 fds l.
Proof.
  intros Hr Hk Hm. revert fds. induction l as [|x l IH]; intros fds.
  - destruct fds as [|f r]; [reflexivity|]. cbn [nt_items]. apply nt_tail_ext; assumption.
  - destruct fds as [|f r]; [reflexivity|]. cbn [nt_items].
    rewrite (Hr f x (or_introl eq_refl)). rewrite IH; [reflexivity|].
    intros f0 x0 Hx0. apply Hr. right. exact Hx0.
Qed.

(* exact-length positional predicate (conformance of a NamedTuple instance) *)
Section NtAll.
  Context {X: Type}.
  Variable q : sfield -> X -> bool.
  Fixpoint nt_all (fds: list sfield) (l: list X) {struct l} : bool :=
    match fds, l with
    | [], [] => true
    | f :: r, x :: l' => q f x && nt_all r l'
    | _, _ => false end.
End NtAll.

Lemma nt_items_ext_all {X} (q: sfield -> X -> bool) (run1 run2: sfield -> X -> res pv) k m fds (l: list X) :
  nt_all q fds l = true -> (forall f x, In x l -> q f x = true -> run1 f x = run2 f x) ->
  nt_items run1 k m fds l = nt_items run2 k m fds l.
Proof.
  revert fds. induction l as [|x l IH]; intros fds HA Hr.
  - destruct fds; [reflexivity | discriminate HA].
  - destruct fds as [|f r]; [reflexivity|]. cbn [nt_all] in HA. apply andb_prop in HA. destruct HA as [Hq HA].
    cbn [nt_items]. rewrite (Hr f x (or_introl eq_refl) Hq). rewrite (IH r HA); [reflexivity|].
    intros f0 x0 Hx0. apply Hr. right. exact Hx0.
Qed.

Lemma td_go_ext {D1 D2} (run1: sfield -> D1 -> res pv) (run2: sfield -> D2 -> res pv) k1 k2 ms es1 es2 fds :
  (forall f, In f fds -> td_field run1 k1 ms es1 f = td_field run2 k2 ms es2 f) ->
  td_go run1 k1 ms es1 fds = td_go run2 k2 ms es2 fds.
Proof.
  induction fds as [|f r IH]; intros H; [reflexivity|].
  cbn [td_go]. rewrite (H f (or_introl eq_refl)). rewrite IH; [reflexivity|].
  intros g Hg. apply H. right. exact Hg.
Qed.

Lemma td_nondict_ext k1 k2 fds : (forall f, k1 f = k2 f) -> td_nondict k1 fds = td_nondict k2 fds.
Proof.
  intros Hk. unfold td_nondict. f_equal. apply td_go_ext. intros f _. unfold td_field. rewrite Hk. reflexivity.
Qed.

(* TypedDict values: every key is a declared name; canonical key order = a subsequence of
   the (de)serializer's order [td_order] *)
Definition key_declared (fds: list sfield) (key: pv) : bool :=
  match key with VStr s => existsb (fun f => String.eqb f.(sf_name) s) fds | _ => false end.

Fixpoint td_sorted (order: list sfield) (kvs: list (pv * pv)) : bool :=
  match order with
  | [] => match kvs with [] => true | _ => false end
  | f :: order' =>
      match kvs with
      | [] => true
      | (key, _) :: r => if py_eq key (VStr f.(sf_name)) then td_sorted order' r else td_sorted order' kvs
      end
  end.

(* ------------------------------------------------------------------ *)
(* class-table well-formedness pieces shared by C01 / C03 *)
Fixpoint names_nodup (l: list sfield) : bool :=
  match l with
  | [] => true
  | f :: r => negb (existsb (fun g => String.eqb f.(sf_name) g.(sf_name)) r) && names_nodup r end.

Lemma sfind_In E kd c k : sfind E kd c = Some k -> In k E /\ sc_kind k = kd.
Proof.
  induction E as [|x E IH]; cbn [sfind]; [discriminate|].
  destruct (ckind_eqb (sc_kind x) kd && String.eqb (sc_name x) c) eqn:Eq.
  - intros H. inversion H; subst. split; [left; reflexivity|].
    apply andb_prop in Eq. destruct Eq as [Eq _]. destruct (sc_kind k), kd; try discriminate Eq; reflexivity.
  - intros H. destruct (IH H) as [Hin Hk]. split; [right; exact Hin | exact Hk].
Qed.

Lemma names_nodup_notin f r g :
  existsb (fun g0 => String.eqb (sf_name f) (sf_name g0)) r = false -> In g r -> String.eqb (sf_name f) (sf_name g) = false.
Proof.
  intros Hn Hg. destruct (String.eqb (sf_name f) (sf_name g)) eqn:Eq; [|reflexivity].
  assert (existsb (fun g0 => String.eqb (sf_name f) (sf_name g0)) r = true) as Hx.
  { apply existsb_exists. exists g. split; assumption. }
  rewrite Hx in Hn. discriminate.
Qed.

Lemma names_nodup_inj l : names_nodup l = true -> forall f g, In f l -> In g l ->
  String.eqb (sf_name f) (sf_name g) = true -> f = g.
Proof.
  induction l as [|f0 r IH]; intros Hn f g Hf Hg He; [destruct Hf|].
  cbn [names_nodup] in Hn. apply andb_prop in Hn. destruct Hn as [Hh Hr]. apply negb_true_iff in Hh.
  destruct Hf as [Hf|Hf]; destruct Hg as [Hg|Hg].
  - subst. reflexivity.
  - subst f0. rewrite (names_nodup_notin f r g Hh Hg) in He. discriminate.
  - subst f0. rewrite String.eqb_sym in He. rewrite (names_nodup_notin g r f Hh Hf) in He. discriminate.
  - apply (IH Hr f g Hf Hg He).
Qed.

Lemma names_nodup_filter q l : names_nodup l = true -> names_nodup (filter q l) = true.
Proof.
  induction l as [|f r IH]; intros Hn; [reflexivity|].
  cbn [names_nodup] in Hn. apply andb_prop in Hn. destruct Hn as [Hh Hr]. apply negb_true_iff in Hh.
  cbn [filter]. destruct (q f); [|apply IH; exact Hr].
  cbn [names_nodup]. rewrite (IH Hr), andb_true_r. apply negb_true_iff.
  destruct (existsb (fun g => String.eqb (sf_name f) (sf_name g)) (filter q r)) eqn:Ex; [|reflexivity].
  apply existsb_exists in Ex. destruct Ex as [g [Hg He]]. apply filter_In in Hg. destruct Hg as [Hg _].
  rewrite (names_nodup_notin f r g Hh Hg) in He. discriminate.
Qed.

Lemma names_nodup_app a b : names_nodup a = true -> names_nodup b = true ->
  (forall f g, In f a -> In g b -> String.eqb (sf_name f) (sf_name g) = false) -> names_nodup (a ++ b) = true.
Proof.
  induction a as [|f r IH]; intros Ha Hb Hd; [exact Hb|].
  cbn [names_nodup] in Ha. apply andb_prop in Ha. destruct Ha as [Hh Hr]. apply negb_true_iff in Hh.
  cbn [app names_nodup]. rewrite IH; [| exact Hr | exact Hb | intros f1 g1 Hf1 Hg1; apply Hd; [right; exact Hf1 | exact Hg1]].
  rewrite andb_true_r. apply negb_true_iff. rewrite existsb_app, Hh. cbn [orb].
  destruct (existsb (fun g => String.eqb (sf_name f) (sf_name g)) b) eqn:Ex; [|reflexivity].
  apply existsb_exists in Ex. destruct Ex as [g [Hg He]]. rewrite (Hd f g (or_introl eq_refl) Hg) in He. discriminate.
Qed.

Lemma names_nodup_td_order fds : names_nodup fds = true -> names_nodup (td_order fds) = true.
Proof.
  intros Hn. unfold td_order. apply names_nodup_app; try (apply names_nodup_filter; exact Hn).
  intros f g Hf Hg. apply filter_In in Hf. apply filter_In in Hg. destruct Hf as [Hf Of]. destruct Hg as [Hg Og].
  destruct (String.eqb (sf_name f) (sf_name g)) eqn:Eq; [|reflexivity].
  rewrite (names_nodup_inj fds Hn f g Hf Hg Eq) in Of. rewrite Og in Of. discriminate.
Qed.

Lemma In_td_order_iff f fds : In f fds -> In f (td_order fds).
Proof.
  intros H. unfold td_order. apply in_or_app. destruct (sf_opt f) eqn:Eo.
  - right. apply filter_In. split; assumption.
  - left. apply filter_In. split; [exact H | rewrite Eo; reflexivity].
Qed.

(* ---- what a successful TypedDict walk returned ---- *)
Section TdGo.
  Context {D: Type}.
  Variable run : sfield -> D -> res pv.
  Variable konst : sfield -> option pv.
  Variable ms : exn.
  Variable es : list (pv * D).

  Lemma td_go_cons f rest R : td_go run konst ms es (f :: rest) = Ok R ->
    (td_field run konst ms es f = None /\ td_go run konst ms es rest = Ok R) \/
    (exists y tl, td_field run konst ms es f = Some (Ok y) /\ td_go run konst ms es rest = Ok tl /\ R = (VStr (sf_name f), y) :: tl).
  Proof.
    cbn [td_go]. destruct (td_field run konst ms es f) as [[y|e]|].
    - cbn [bind]. destruct (td_go run konst ms es rest) as [tl|e]; cbn [bind]; [|discriminate].
      intros H. inversion H. right. exists y, tl. repeat split.
    - discriminate.
    - intros H. left. split; [reflexivity | exact H].
  Qed.

  Lemma td_go_keys order R : td_go run konst ms es order = Ok R ->
    forall p, In p R -> exists f, In f order /\ fst p = VStr (sf_name f).
  Proof.
    revert R. induction order as [|f rest IH]; intros R H p Hp.
    - inversion H; subst. destruct Hp.
    - destruct (td_go_cons f rest R H) as [[_ Hr] | [y [tl [_ [Hr HR]]]]].
      + destruct (IH R Hr p Hp) as [g [Hg Hk]]. exists g. split; [right; exact Hg | exact Hk].
      + subst R. destruct Hp as [Hp|Hp].
        * subst p. exists f. split; [left; reflexivity | reflexivity].
        * destruct (IH tl Hr p Hp) as [g [Hg Hk]]. exists g. split; [right; exact Hg | exact Hk].
  Qed.

  Lemma td_go_vals order R : td_go run konst ms es order = Ok R ->
    forall p, In p R -> exists f, In f order /\ fst p = VStr (sf_name f) /\ td_field run konst ms es f = Some (Ok (snd p)).
  Proof.
    revert R. induction order as [|f rest IH]; intros R H p Hp.
    - inversion H; subst. destruct Hp.
    - destruct (td_go_cons f rest R H) as [[_ Hr] | [y [tl [Hs [Hr HR]]]]].
      + destruct (IH R Hr p Hp) as [g [Hg Hk]]. exists g. split; [right; exact Hg | exact Hk].
      + subst R. destruct Hp as [Hp|Hp].
        * subst p. exists f. split; [left; reflexivity | split; [reflexivity | exact Hs]].
        * destruct (IH tl Hr p Hp) as [g [Hg Hk]]. exists g. split; [right; exact Hg | exact Hk].
  Qed.

  Lemma td_go_look_none order R n : td_go run konst ms es order = Ok R ->
    (forall g, In g order -> String.eqb (sf_name g) n = false) -> @look pv R n = None.
  Proof.
    intros H Hn. pose proof (td_go_keys order R H) as Hk. clear H.
    induction R as [|[key y] R IH]; [reflexivity|].
    cbn [look]. destruct (Hk (key, y) (or_introl eq_refl)) as [g [Hg Hkey]]. cbn [fst] in Hkey. subst key.
    rewrite py_eq_str_str, (Hn g Hg). apply IH. intros p Hp. apply Hk. right. exact Hp.
  Qed.

  Lemma td_go_look order R : names_nodup order = true -> td_go run konst ms es order = Ok R ->
    forall f, In f order ->
      (td_field run konst ms es f = None /\ @look pv R (sf_name f) = None) \/
      (exists y, td_field run konst ms es f = Some (Ok y) /\ @look pv R (sf_name f) = Some y).
  Proof.
    revert R. induction order as [|f0 rest IH]; intros R Hn H f Hf; [destruct Hf|].
    cbn [names_nodup] in Hn. apply andb_prop in Hn. destruct Hn as [Hh Hr]. apply negb_true_iff in Hh.
    destruct (td_go_cons f0 rest R H) as [[Hnone Hrest] | [y [tl [Hsome [Hrest HR]]]]].
    - destruct Hf as [Hf|Hf].
      + subst f0. left. split; [exact Hnone|].
        apply (td_go_look_none rest R (sf_name f) Hrest). intros g Hg.
        rewrite String.eqb_sym. apply (names_nodup_notin f rest g Hh Hg).
      + apply (IH R Hr Hrest f Hf).
    - subst R. destruct Hf as [Hf|Hf].
      + subst f0. right. exists y. split; [exact Hsome|]. cbn [look]. rewrite py_eq_str_str, String.eqb_refl. reflexivity.
      + cbn [look]. rewrite py_eq_str_str, (names_nodup_notin f0 rest f Hh Hf). apply (IH tl Hr Hrest f Hf).
  Qed.

  Lemma td_go_nodup order R : names_nodup order = true -> td_go run konst ms es order = Ok R -> nodup_keys R = true.
  Proof.
    revert R. induction order as [|f0 rest IH]; intros R Hn H.
    - inversion H. reflexivity.
    - cbn [names_nodup] in Hn. apply andb_prop in Hn. destruct Hn as [Hh Hr]. apply negb_true_iff in Hh.
      destruct (td_go_cons f0 rest R H) as [[_ Hrest] | [y [tl [_ [Hrest HR]]]]]; [apply (IH R Hr Hrest)|].
      subst R. cbn [nodup_keys]. rewrite (IH tl Hr Hrest), andb_true_r. apply negb_true_iff.
      destruct (existsb (fun p => py_eq (VStr (sf_name f0)) (fst p)) tl) eqn:Ex; [|reflexivity].
      apply existsb_exists in Ex. destruct Ex as [p [Hp He]].
      destruct (td_go_keys rest tl Hrest p Hp) as [g [Hg Hk]]. rewrite Hk, py_eq_str_str in He.
      rewrite (names_nodup_notin f0 rest g Hh Hg) in He. discriminate.
  Qed.

  Lemma td_go_sorted order R : names_nodup order = true -> td_go run konst ms es order = Ok R -> td_sorted order R = true.
  Proof.
    revert R. induction order as [|f0 rest IH]; intros R Hn H.
    - inversion H. reflexivity.
    - cbn [names_nodup] in Hn. apply andb_prop in Hn. destruct Hn as [Hh Hr]. apply negb_true_iff in Hh.
      destruct (td_go_cons f0 rest R H) as [[_ Hrest] | [y [tl [_ [Hrest HR]]]]].
      + cbn [td_sorted]. destruct R as [|[key y] R']; [reflexivity|].
        destruct (td_go_keys rest _ Hrest (key, y) (or_introl eq_refl)) as [g [Hg Hk]]. cbn [fst] in Hk. subst key.
        rewrite py_eq_str_str. rewrite String.eqb_sym, (names_nodup_notin f0 rest g Hh Hg). apply (IH _ Hr Hrest).
      + subst R. cbn [td_sorted]. rewrite py_eq_str_str, String.eqb_refl. apply (IH tl Hr Hrest).
  Qed.
End TdGo.

(* ------------------------------------------------------------------ *)
(* conformance: the value is built from the canonical concrete classes of the annotation.
   [o = true] additionally asks that the keys of every TypedDict value come in the order the
   decoder produces (required keys, then optional keys, each in declaration order): Python's
   == on dicts ignores the order, equality of [pv] terms does not (used by C01 only). *)
Section Conf.
  Variable o : bool.
  Variable E : senv.

  Fixpoint conf_g (v: pv) {struct v} : sty -> bool :=
    fix on_t (t: sty) {struct t} : bool :=
      match t with
      | SAny => true
      | SNoneT => is_none v
      | SIntT => match v with VInt _ => true | _ => false end
      | SFloatT => match v with VFloat _ => true | _ => false end
      | SBoolT => match v with VBool _ => true | _ => false end
      | SStrT => match v with VStr _ => true | _ => false end
      | SBytes m => match v with VBytes m' _ => Bool.eqb m m' | _ => false end
      | SLeaf k => match v with VLeaf k' _ => String.eqb k k' | _ => false end
      | SEnum e => match v with VEnum e' _ => String.eqb e e' | _ => false end
      | SList t' | SSeq t' => match v with VList l => forallb (fun x => conf_g x t') l | _ => false end
      | SSet fr t' => match v with VSet fr' l => Bool.eqb fr fr' && forallb (fun x => conf_g x t') l | _ => false end
      | STupleVar t' => match v with VTuple l => forallb (fun x => conf_g x t') l | _ => false end
      | STupleFix ts =>
          match v with
          | VTuple l =>
              (fix go (ts: list sty) (l: list pv) {struct l} : bool :=
                 match ts, l with
                 | [], [] => true
                 | t' :: ts', x :: l' => conf_g x t' && go ts' l'
                 | _, _ => false end) ts l
          | _ => false end
      | STupleU pre mid post =>
          match v with
          | VTuple l =>
              let cs : list (sty -> bool) := map (fun x => conf_g x) l in
              let np := List.length pre in
              let ns := List.length post in
              let L := List.length l in
              (np + ns <=? L)%nat &&
              pos_all (fun t' cx => cx t') pre (firstn np cs) &&
              (match mid with
               | STupleVar t' => forallb (fun cx => cx t') (firstn (L - np - ns) (skipn np cs))
               | STupleFix ts => pos_all (fun t' cx => cx t') ts (firstn (L - np - ns) (skipn np cs))
               | _ => false end) &&
              pos_all (fun t' cx => cx t') post (skipn (L - ns) cs)
          | _ => false end
      | SDict kt vt | SMap kt vt =>
          match v with
          | VDict kvs => nodup_keys kvs && forallb (fun p => match p with (k, x) => conf_g k kt && conf_g x vt end) kvs
          | _ => false end
      | SOpt t' => is_none v || on_t t'
      | SData c =>
          match v with
          | VObj c' fs =>
              String.eqb c c' &&
              match sfind E KData c with
              | None => false
              | Some k =>
                  (fix go (fds: list sfield) (fs: list (string * pv)) {struct fs} : bool :=
                     match fds, fs with
                     | [], [] => true
                     | f :: fds', (n, x) :: fs' =>
                         String.eqb n f.(sf_name) &&
                         ((sfield_nullable f && is_none x) || conf_g x f.(sf_ty)) && go fds' fs'
                     | _, _ => false end) k.(sc_fields) fs
              end
          | _ => false end
      | SNamed c =>
          match v with
          | VNT c' l =>
              String.eqb c c' &&
              match sfind E KNamed c with
              | None => false
              | Some k => nt_all (fun f x => conf_g x f.(sf_ty)) k.(sc_fields) l
              end
          | _ => false end
      | STyped c =>
          match v with
          | VDict kvs =>
              match sfind E KTyped c with
              | None => false
              | Some k =>
                  nodup_keys kvs && forallb (fun p => key_declared k.(sc_fields) (fst p)) kvs &&
                  (let cs : list (pv * (sty -> bool)) := map (fun p => match p with (key, x) => (key, conf_g x) end) kvs in
                   forallb (fun f => match look cs f.(sf_name) with
                                     | Some cx => cx f.(sf_ty)
                                     | None => f.(sf_opt) end) k.(sc_fields)) &&
                  (if o then td_sorted (td_order k.(sc_fields)) kvs else true)
              end
          | _ => false end
      | SBox b t' =>
          (* an instance of exactly that collection class around a conforming list / dict *)
          match v with
          | VObj c [(n, inner)] =>
              String.eqb c (box_name b) && String.eqb n "" && chain_canon b inner && conf_g inner t'
          | _ => false end
      | SLit ls => existsb (exact_eq v) ls
      end.
End Conf.
Notation conf := (conf_g false).
Notation conf_ord := (conf_g true).

(* ------------------------------------------------------------------ *)
Section C02.
  Variable o : bool.
  Variable E : senv.
  Variable P : prims.

  (* with could_be_none = false the generator omits the None test of an Optional: the
     field loop has already dealt with None *)
  Definition none_guard (cbn: bool) (t: sty) (v: pv) : Prop :=
    cbn = false -> sty_nullable t = true -> is_none v = false.

  Lemma is_id_cp_true t : is_id (cp true t) = true ->
    forall v, ref_enc E P v t = Ok v.
  Proof.
    destruct t; cbn [cp]; intros H v; try discriminate; try (destruct v; reflexivity).
    - unfold seq_expr in H. destruct (is_id (cp true t)); discriminate.
    - unfold seq_expr in H. destruct (is_id (cp true t)); discriminate.
    - unfold map_expr in H. destruct (is_id (cp true t1) && is_id (cp true t2)); discriminate.
  Qed.

  Lemma mapM_id (l: list pv) (f: pv -> res pv) :
    (forall x, In x l -> f x = Ok x) -> mapM f l = Ok l.
  Proof.
    induction l as [|a l IH]; intros H; [reflexivity|].
    cbn [mapM]. rewrite (H a (or_introl eq_refl)). rewrite IH; [reflexivity|].
    intros x Hx. apply H. right. exact Hx.
  Qed.

  Lemma mapM_pair_id (kvs: list (pv * pv)) (f g: pv -> res pv) :
    (forall p, In p kvs -> f (fst p) = Ok (fst p) /\ g (snd p) = Ok (snd p)) ->
    mapM (fun p => match p with (k, x) => k' <- f k ;; x' <- g x ;; Ok (k', x') end) kvs = Ok kvs.
  Proof.
    induction kvs as [|[k x] r IH]; intros H; [reflexivity|].
    cbn [mapM]. destruct (H (k, x) (or_introl eq_refl)) as [Hk Hx]. cbn [fst snd] in Hk, Hx.
    rewrite Hk, Hx. cbn [bind]. rewrite IH; [reflexivity|].
    intros p Hp. apply H. right. exact Hp.
  Qed.

  (* the statement proved by nested induction (value, then type) *)
  Definition pk_ok (v: pv) : Prop :=
    forall t cbn, conf_g o E v t = true -> none_guard cbn t v -> pk E P v (cp cbn t) = ref_enc E P v t.

  Lemma pk_unfold v e : pk E P v e =
    match e with
    | EId => Ok v
    | ELeaf => match v with VLeaf k w => Ok (P.(p_render) k w) | _ => Exn XAttributeError end
    | EB64 => match v with VBytes _ b => Ok (VStr (P.(p_b64enc) b)) | _ => Exn XTypeError end
    | EEnumValue => match v with VEnum en mn => lift (P.(p_enum_value) en mn) | _ => Exn XAttributeError end
    | EOpt e' => if is_none v then Ok VNone else pk E P v e'
    | ECopyList => match v with VList l => Ok (VList l) | _ => Exn XAttributeError end
    | ECopyDict => match v with VDict kvs => Ok (VDict kvs) | _ => Exn XAttributeError end
    | EListComp e' =>
        match v with
        | VList l | VTuple l | VSet _ l => r <- mapM (fun x => pk E P x e') l ;; Ok (VList r)
        | _ => Exn XTypeError end
    | EDictComp ke ve =>
        match v with
        | VDict kvs =>
            r <- mapM (fun p => match p with (k, x) =>
                                  k' <- pk E P k ke ;; x' <- pk E P x ve ;; Ok (k', x') end) kvs ;;
            Ok (VDict (dict_of_pairs r))
        | _ => Exn XAttributeError end
    | ETupleFix es =>
        match v with
        | VTuple l | VList l =>
            r <- (fix go (es: list penc) (l: list pv) {struct l} : res (list pv) :=
                    match es, l with
                    | [], _ => Ok []
                    | _ :: _, [] => Exn XIndexError
                    | e' :: es', x :: l' => y <- pk E P x e' ;; ys <- go es' l' ;; Ok (y :: ys)
                    end) es l ;;
            Ok (VList r)
        | _ => Exn XTypeError end
    | ETupleU plan pre emid post =>
        let run := fun (e': penc) (dx: penc -> res pv) => dx e' in
        let items : option (list (penc -> res pv)) :=
            match v with VTuple l | VList l => Some (map (fun x => pk E P x) l) | _ => None end in
        r <- tu_walk run (fun _ => None) items plan pre post
               (match emid with
                | EListComp e' => mid_var run e'
                | ETupleFix es => mid_fix run (fun _ => None) (fun _ => Exn XIndexError) es
                | _ => fun _ => Exn XTypeError end) ;;
        Ok (VList r)
    | EData c =>
        match v with
        | VObj c' fs =>
            match sfind E KData c with
            | None => Exn XAttributeError
            | Some k =>
                r <- (fix go (fds: list sfield) (fs: list (string * pv)) {struct fs} : res (list (pv * pv)) :=
                        match fds, fs with
                        | [], _ => Ok []
                        | _ :: _, [] => Exn XAttributeError
                        | f :: fds', (n, x) :: fs' =>
                            if String.eqb n f.(sf_name) then
                              y <- (if sfield_nullable f && is_none x then Ok VNone
                                    else pk E P x (cp false f.(sf_ty))) ;;
                              tl <- go fds' fs' ;; Ok ((VStr f.(sf_name), y) :: tl)
                            else Exn XAttributeError
                        end) k.(sc_fields) fs ;;
                Ok (VDict r)
            end
        | _ => Exn XAttributeError
        end
    | ENamed c =>
        match sfind E KNamed c with
        | None => Exn XAttributeError
        | Some k =>
            match v with
            | VNT _ l | VTuple l | VList l =>
                r <- nt_items (fun f x => pk E P x (cp true f.(sf_ty))) (fun _ => None)
                              (fun _ => Exn XIndexError) k.(sc_fields) l ;;
                Ok (VList r)
            | _ => Exn XTypeError
            end
        end
    | ETyped c =>
        match sfind E KTyped c with
        | None => Exn XAttributeError
        | Some k =>
            match v with
            | VDict kvs =>
                let entries : list (pv * (penc -> res pv)) :=
                    map (fun p => match p with (key, x) => (key, pk E P x) end) kvs in
                r <- td_go (fun f dx => dx (cp true f.(sf_ty))) (fun _ => None) XKeyError
                           entries (td_order k.(sc_fields)) ;;
                Ok (VDict r)
            | _ => Exn XTypeError
            end
        end
    | EBox ch e' =>
        match v with
        | VObj _ [(_, inner)] => if chain_empty ch inner then Ok (VList [VDict []]) else pk E P inner e'
        | _ => Exn XAttributeError end
    | ELit ls => lit_find ls v
    end.
  Proof. destruct v, e; reflexivity. Qed.

  Lemma ref_enc_unfold v t : ref_enc E P v t =
    match t with
    | SAny | SNoneT | SIntT | SFloatT | SBoolT | SStrT => Ok v
    | SBytes _ => match v with VBytes _ b => Ok (VStr (P.(p_b64enc) b)) | _ => Exn XTypeError end
    | SLeaf _ => match v with VLeaf k w => Ok (P.(p_render) k w) | _ => Exn XAttributeError end
    | SEnum _ => match v with VEnum en mn => lift (P.(p_enum_value) en mn) | _ => Exn XAttributeError end
    | SList t' | SSet _ t' | STupleVar t' | SSeq t' =>
        match v with
        | VList l | VTuple l | VSet _ l => r <- mapM (fun x => ref_enc E P x t') l ;; Ok (VList r)
        | _ => Exn XTypeError end
    | STupleFix ts =>
        match v with
        | VTuple l | VList l =>
            r <- (fix go (ts: list sty) (l: list pv) {struct l} : res (list pv) :=
                    match ts, l with
                    | [], _ => Ok []
                    | _ :: _, [] => Exn XIndexError
                    | t' :: ts', x :: l' => y <- ref_enc E P x t' ;; ys <- go ts' l' ;; Ok (y :: ys)
                    end) ts l ;;
            Ok (VList r)
        | _ => Exn XTypeError end
    | STupleU pre mid post =>
        match v with
        | VTuple l | VList l =>
            if (List.length l <? List.length pre + List.length post)%nat then Exn XIndexError
            else
              let run := fun (t': sty) (dx: sty -> res pv) => dx t' in
              r <- tu_split run (fun _ => None) (map (fun x => ref_enc E P x) l) pre post
                     (match mid with
                      | STupleVar t' => mid_var run t'
                      | STupleFix ts => mid_fix run (fun _ => None) (fun _ => Exn XIndexError) ts
                      | _ => fun _ => Exn XTypeError end) ;;
              Ok (VList r)
        | _ => Exn XTypeError end
    | SDict kt vt | SMap kt vt =>
        match v with
        | VDict kvs =>
            r <- mapM (fun p => match p with (k, x) =>
                                  k' <- ref_enc E P k kt ;; x' <- ref_enc E P x vt ;; Ok (k', x') end) kvs ;;
            Ok (VDict (dict_of_pairs r))
        | _ => Exn XAttributeError end
    | SOpt t' => if is_none v then Ok VNone else ref_enc E P v t'
    | SData c =>
        match v with
        | VObj c' fs =>
            match sfind E KData c with
            | None => Exn XAttributeError
            | Some k =>
                r <- (fix go (fds: list sfield) (fs: list (string * pv)) {struct fs} : res (list (pv * pv)) :=
                        match fds, fs with
                        | [], _ => Ok []
                        | _ :: _, [] => Exn XAttributeError
                        | f :: fds', (n, x) :: fs' =>
                            if String.eqb n f.(sf_name) then
                              y <- (if sfield_nullable f && is_none x then Ok VNone
                                    else ref_enc E P x f.(sf_ty)) ;;
                              tl <- go fds' fs' ;; Ok ((VStr f.(sf_name), y) :: tl)
                            else Exn XAttributeError
                        end) k.(sc_fields) fs ;;
                Ok (VDict r)
            end
        | _ => Exn XAttributeError
        end
    | SNamed c =>
        match sfind E KNamed c with
        | None => Exn XAttributeError
        | Some k =>
            match v with
            | VNT _ l | VTuple l | VList l =>
                r <- nt_items (fun f x => ref_enc E P x f.(sf_ty)) (fun _ => None)
                              (fun _ => Exn XIndexError) k.(sc_fields) l ;;
                Ok (VList r)
            | _ => Exn XTypeError
            end
        end
    | STyped c =>
        match sfind E KTyped c with
        | None => Exn XAttributeError
        | Some k =>
            match v with
            | VDict kvs =>
                let entries : list (pv * (sty -> res pv)) :=
                    map (fun p => match p with (key, x) => (key, ref_enc E P x) end) kvs in
                r <- td_go (fun f dx => dx f.(sf_ty)) (fun _ => None) XKeyError
                           entries (td_order k.(sc_fields)) ;;
                Ok (VDict r)
            | _ => Exn XTypeError
            end
        end
    | SBox b t' =>
        match v with
        | VObj _ [(_, inner)] => if chain_empty (is_chain b) inner then Ok (VList [VDict []]) else ref_enc E P inner t'
        | _ => Exn XAttributeError end
    | SLit ls => lit_find ls v
    end.
  Proof. destruct v, t; reflexivity. Qed.

  Lemma conf_unfold v t : conf_g o E v t =
    match t with
    | SAny => true
    | SNoneT => is_none v
    | SIntT => match v with VInt _ => true | _ => false end
    | SFloatT => match v with VFloat _ => true | _ => false end
    | SBoolT => match v with VBool _ => true | _ => false end
    | SStrT => match v with VStr _ => true | _ => false end
    | SBytes m => match v with VBytes m' _ => Bool.eqb m m' | _ => false end
    | SLeaf k => match v with VLeaf k' _ => String.eqb k k' | _ => false end
    | SEnum e => match v with VEnum e' _ => String.eqb e e' | _ => false end
    | SList t' | SSeq t' => match v with VList l => forallb (fun x => conf_g o E x t') l | _ => false end
    | SSet fr t' => match v with VSet fr' l => Bool.eqb fr fr' && forallb (fun x => conf_g o E x t') l | _ => false end
    | STupleVar t' => match v with VTuple l => forallb (fun x => conf_g o E x t') l | _ => false end
    | STupleFix ts =>
        match v with
        | VTuple l =>
            (fix go (ts: list sty) (l: list pv) {struct l} : bool :=
               match ts, l with
               | [], [] => true
               | t' :: ts', x :: l' => conf_g o E x t' && go ts' l'
               | _, _ => false end) ts l
        | _ => false end
    | STupleU pre mid post =>
        match v with
        | VTuple l =>
            let cs : list (sty -> bool) := map (fun x => conf_g o E x) l in
            let np := List.length pre in
            let ns := List.length post in
            let L := List.length l in
            (np + ns <=? L)%nat &&
            pos_all (fun t' cx => cx t') pre (firstn np cs) &&
            (match mid with
             | STupleVar t' => forallb (fun cx => cx t') (firstn (L - np - ns) (skipn np cs))
             | STupleFix ts => pos_all (fun t' cx => cx t') ts (firstn (L - np - ns) (skipn np cs))
             | _ => false end) &&
            pos_all (fun t' cx => cx t') post (skipn (L - ns) cs)
        | _ => false end
    | SDict kt vt | SMap kt vt =>
        match v with
        | VDict kvs => nodup_keys kvs && forallb (fun p => match p with (k, x) => conf_g o E k kt && conf_g o E x vt end) kvs
        | _ => false end
    | SOpt t' => is_none v || conf_g o E v t'
    | SData c =>
        match v with
        | VObj c' fs =>
            String.eqb c c' &&
            match sfind E KData c with
            | None => false
            | Some k =>
                (fix go (fds: list sfield) (fs: list (string * pv)) {struct fs} : bool :=
                   match fds, fs with
                   | [], [] => true
                   | f :: fds', (n, x) :: fs' =>
                       String.eqb n f.(sf_name) &&
                       ((sfield_nullable f && is_none x) || conf_g o E x f.(sf_ty)) && go fds' fs'
                   | _, _ => false end) k.(sc_fields) fs
            end
        | _ => false end
    | SNamed c =>
        match v with
        | VNT c' l =>
            String.eqb c c' &&
            match sfind E KNamed c with
            | None => false
            | Some k => nt_all (fun f x => conf_g o E x f.(sf_ty)) k.(sc_fields) l
            end
        | _ => false end
    | STyped c =>
        match v with
        | VDict kvs =>
            match sfind E KTyped c with
            | None => false
            | Some k =>
                nodup_keys kvs && forallb (fun p => key_declared k.(sc_fields) (fst p)) kvs &&
                (let cs : list (pv * (sty -> bool)) := map (fun p => match p with (key, x) => (key, conf_g o E x) end) kvs in
                 forallb (fun f => match look cs f.(sf_name) with
                                   | Some cx => cx f.(sf_ty)
                                   | None => f.(sf_opt) end) k.(sc_fields)) &&
                (if o then td_sorted (td_order k.(sc_fields)) kvs else true)
            end
        | _ => false end
    | SBox b t' =>
        match v with
        | VObj c [(n, inner)] =>
            String.eqb c (box_name b) && String.eqb n "" && chain_canon b inner && conf_g o E inner t'
        | _ => false end
    | SLit ls => existsb (exact_eq v) ls
    end.
  Proof. destruct v, t; reflexivity. Qed.

  (* element-wise list lemma used by list / set / variadic tuple *)
  Lemma pk_list_elems (l: list pv) t' :
    Forall pk_ok l -> forallb (fun x => conf_g o E x t') l = true ->
    mapM (fun x => pk E P x (cp true t')) l = mapM (fun x => ref_enc E P x t') l.
  Proof.
    intros HF HC. apply mapM_ext_in. intros x Hx.
    apply (Forall_In _ _ HF x Hx).
    - rewrite forallb_forall in HC. apply HC. exact Hx.
    - intros Hc. discriminate.
  Qed.

  Lemma seq_copy_ok (l: list pv) t' :
    is_id (cp true t') = true -> mapM (fun x => ref_enc E P x t') l = Ok l.
  Proof. intros H. apply mapM_id. intros x _. apply is_id_cp_true. exact H. Qed.

  (* tuple with an unpacked segment: the plan-driven generated form reads a conforming
     (hence long enough) tuple exactly as head / middle / tail *)
  Lemma conf_tupleu_parts l pre mid post : conf_g o E (VTuple l) (STupleU pre mid post) = true ->
    (List.length pre + List.length post <= List.length l)%nat /\
    pos_all (fun t' x => conf_g o E x t') pre (firstn (List.length pre) l) = true /\
    (match mid with
     | STupleVar t' => forallb (fun x => conf_g o E x t') (firstn (List.length l - List.length pre - List.length post) (skipn (List.length pre) l))
     | STupleFix ts => pos_all (fun t' x => conf_g o E x t') ts (firstn (List.length l - List.length pre - List.length post) (skipn (List.length pre) l))
     | _ => false end) = true /\
    pos_all (fun t' x => conf_g o E x t') post (skipn (List.length l - List.length post) l) = true.
  Proof.
    intros HC. rewrite conf_unfold in HC. cbv zeta in HC.
    apply andb_prop in HC. destruct HC as [HC Hpost]. apply andb_prop in HC. destruct HC as [HC Hmid].
    apply andb_prop in HC. destruct HC as [Hlen Hpre]. apply Nat.leb_le in Hlen.
    rewrite firstn_map, pos_all_map in Hpre. rewrite skipn_map, pos_all_map in Hpost.
    rewrite skipn_map, firstn_map in Hmid.
    repeat split; try assumption.
    destruct mid; try exact Hmid.
    - rewrite forallb_map' in Hmid. exact Hmid.
    - rewrite pos_all_map in Hmid. exact Hmid.
  Qed.

  Lemma conf_tupleu_intro l pre mid post :
    (List.length pre + List.length post <= List.length l)%nat ->
    pos_all (fun t' x => conf_g o E x t') pre (firstn (List.length pre) l) = true ->
    (match mid with
     | STupleVar t' => forallb (fun x => conf_g o E x t') (firstn (List.length l - List.length pre - List.length post) (skipn (List.length pre) l))
     | STupleFix ts => pos_all (fun t' x => conf_g o E x t') ts (firstn (List.length l - List.length pre - List.length post) (skipn (List.length pre) l))
     | _ => false end) = true ->
    pos_all (fun t' x => conf_g o E x t') post (skipn (List.length l - List.length post) l) = true ->
    conf_g o E (VTuple l) (STupleU pre mid post) = true.
  Proof.
    intros Hlen Hpre Hmid Hpost. rewrite conf_unfold. cbv zeta.
    rewrite !skipn_map, !firstn_map.
    rewrite (pos_all_map _ _ pre), Hpre. rewrite (pos_all_map _ _ post), Hpost.
    rewrite (proj2 (Nat.leb_le _ _) Hlen). cbn [andb]. rewrite andb_true_r.
    destruct mid; try exact Hmid.
    - rewrite forallb_map'. exact Hmid.
    - rewrite pos_all_map. exact Hmid.
  Qed.

  Lemma pk_tupleu l pre mid post cbn : Forall pk_ok l ->
    conf_g o E (VTuple l) (STupleU pre mid post) = true ->
    pk E P (VTuple l) (cp cbn (STupleU pre mid post)) = ref_enc E P (VTuple l) (STupleU pre mid post).
  Proof.
    intros IHl HC. destruct (conf_tupleu_parts _ _ _ _ HC) as [Hlen [Hpre [Hmid Hpost]]].
    cbn [cp]. rewrite pk_unfold, ref_enc_unfold. cbv zeta.
    replace (List.length l <? List.length pre + List.length post)%nat with false by (symmetry; apply Nat.ltb_ge; exact Hlen).
    rewrite <- (map_length (cp true) pre) at 1. rewrite <- (map_length (cp true) post) at 1.
    rewrite tu_walk_split by (rewrite !map_length; exact Hlen).
    assert (Hr: forall (d: sty) (x: pv), In x l -> conf_g o E x d = true -> pk E P x (cp true d) = ref_enc E P x d).
    { intros d x Hx Hq. apply (Forall_In _ _ IHl x Hx d true Hq). intros Hc; discriminate Hc. }
    f_equal.
    apply (tu_split_rel_all (cp true) (fun x => pk E P x) (fun x => ref_enc E P x)
             (fun (e': penc) (dx: penc -> res pv) => dx e') (fun (t': sty) (dx: sty -> res pv) => dx t')
             (fun _ => None) (fun _ => None)
             (fun t' x => conf_g o E x t') (fun _ => eq_refl) l pre post); try assumption.
    destruct mid; try discriminate Hmid; cbn [cp].
    - apply (mid_var_rel_all (cp true) (fun x => pk E P x) (fun x => ref_enc E P x)
               (fun (e': penc) (dx: penc -> res pv) => dx e') (fun (t': sty) (dx: sty -> res pv) => dx t')
               (fun t' x => conf_g o E x t')); [exact Hmid|].
      intros x Hx Hq. apply Hr; [|exact Hq]. apply (in_skipn _ _ _ (in_firstn _ _ _ Hx)).
    - apply (mid_fix_rel_all (cp true) (fun x => pk E P x) (fun x => ref_enc E P x)
               (fun (e': penc) (dx: penc -> res pv) => dx e') (fun (t': sty) (dx: sty -> res pv) => dx t')
               (fun _ => None) (fun _ => None) (fun _ => Exn XIndexError) (fun _ => Exn XIndexError)
               (fun t' x => conf_g o E x t') (fun _ => eq_refl)); [exact Hmid|].
      intros d x Hx Hq. apply Hr; [|exact Hq]. apply (in_skipn _ _ _ (in_firstn _ _ _ Hx)).
  Qed.

  Theorem pk_cp_ref : forall v, pk_ok v.
  Proof.
    induction v as [ | b | z | f | s | m b | l IHl | l IHl | fr l IHl | kvs IHk | c fs IHf | e m | k w | c l IHl | tg ]
      using pv_rect'; unfold pk_ok.
    (* every case: inner induction on the type is only needed for SOpt, so destruct and recurse there *)
    all: intros t; induction t as [ | | | | | | m' | k' | e' | t' IHt | fr' t' IHt | t' IHt | ts | pre mid IHmid post | kt IHkt vt IHvt | t' IHt | c' | c' | c' | t' IHt | kt IHkt vt IHvt | bx t' IHt | ls ];
      intros cbn HC HG; try (solve [apply (pk_tupleu _ _ _ _ _ IHl HC)]);
      rewrite conf_unfold in HC; rewrite ref_enc_unfold;
      try discriminate HC;
      try (cbn [cp]; rewrite pk_unfold; reflexivity).
    (* remaining goals are handled uniformly below *)
    all: try (cbn [cp]; destruct cbn;
              [ rewrite pk_unfold; cbn [is_none]; try reflexivity;
                apply IHt; [ cbn [is_none orb] in HC; exact HC | intros Hc; discriminate ]
              | cbn [is_none orb] in HC; cbn [is_none];
                apply IHt; [ exact HC | intros _ _; reflexivity ] ]).
    (* comprehensions without the copy shortcut: variadic tuples, Sequence *)
    all: try solve [ cbn [cp]; rewrite pk_unfold; rewrite (pk_list_elems l t' IHl HC); reflexivity ].
    - (* VNone, SOpt *)
      destruct cbn; [cbn [cp]; rewrite pk_unfold; reflexivity|].
      specialize (HG eq_refl eq_refl). discriminate.
    - (* VList, SList *)
      cbn [cp]. unfold seq_expr. destruct (is_id (cp true t')) eqn:Hid; rewrite pk_unfold.
      + rewrite seq_copy_ok by exact Hid. reflexivity.
      + rewrite (pk_list_elems l t' IHl HC). reflexivity.
    - (* VTuple, STupleFix *)
      cbn [cp]. rewrite pk_unfold. f_equal.
      clear HG. revert ts HC. induction l as [|x l IHl']; intros ts HC.
      + destruct ts; reflexivity.
      + destruct ts as [|t1 ts]; [reflexivity|]. cbn [map].
        apply andb_prop in HC. destruct HC as [Hx Hr].
        inversion IHl as [|? ? Qx Ql]; subst.
        rewrite (Qx t1 true Hx) by (intros Hc; discriminate).
        rewrite (IHl' Ql ts Hr). reflexivity.
    - (* VSet, SSet *)
      apply andb_prop in HC. destruct HC as [_ HC].
      cbn [cp]. unfold seq_expr. destruct (is_id (cp true t')); rewrite pk_unfold;
        rewrite (pk_list_elems l t' IHl HC); reflexivity.
    - (* VDict, SDict *)
      apply andb_prop in HC. destruct HC as [Hnd HC].
      assert (Hext: forall ke ve, ke = cp true kt -> ve = cp true vt ->
                mapM (fun p => match p with (k, x) => k' <- pk E P k ke ;; x' <- pk E P x ve ;; Ok (k', x') end) kvs =
                mapM (fun p => match p with (k, x) => k' <- ref_enc E P k kt ;; x' <- ref_enc E P x vt ;; Ok (k', x') end) kvs).
      { intros ke ve -> ->. apply mapM_ext_in. intros [k x] Hp.
        pose proof (Forall_In _ _ IHk (k, x) Hp) as [Qk Qx]. cbn [fst snd] in Qk, Qx.
        rewrite forallb_forall in HC. specialize (HC (k, x) Hp). cbn in HC.
        apply andb_prop in HC. destruct HC as [Ck Cx].
        rewrite (Qk kt true Ck) by (intros Hc; discriminate).
        rewrite (Qx vt true Cx) by (intros Hc; discriminate). reflexivity. }
      cbn [cp]. unfold map_expr. destruct (is_id (cp true kt) && is_id (cp true vt)) eqn:Hid; rewrite pk_unfold.
      + apply andb_prop in Hid. destruct Hid as [Hk Hv].
        rewrite mapM_pair_id.
        * cbn [bind]. rewrite dict_of_pairs_nodup by exact Hnd. reflexivity.
        * intros p _. split; apply is_id_cp_true; assumption.
      + rewrite (Hext _ _ eq_refl eq_refl). reflexivity.
    - (* VDict, STyped *)
      cbn [cp]. rewrite pk_unfold.
      destruct (sfind E _ c') as [k|]; [|discriminate HC].
      apply andb_prop in HC. destruct HC as [HC _]. apply andb_prop in HC. destruct HC as [_ HCf].
      cbv zeta. f_equal. apply td_go_ext. intros f Hf. apply In_td_order in Hf.
      unfold td_field. rewrite (look_map (pk E P) kvs), (look_map (ref_enc E P) kvs).
      rewrite forallb_forall in HCf. specialize (HCf f Hf). cbv zeta in HCf. rewrite (look_map (conf_g o E) kvs) in HCf.
      destruct (look kvs (sf_name f)) as [x|] eqn:El; cbn [option_map] in *; [|reflexivity].
      destruct (look_In _ _ _ El) as [key [Hin _]].
      pose proof (Forall_In _ _ IHk (key, x) Hin) as [_ Qx]. cbn [snd] in Qx.
      rewrite (Qx (sf_ty f) true HCf) by (intros Hc; discriminate Hc). reflexivity.
    - (* VDict, SMap: always the comprehension *)
      apply andb_prop in HC. destruct HC as [Hnd HC].
      cbn [cp]. rewrite pk_unfold. f_equal. apply mapM_ext_in. intros [k x] Hp.
      pose proof (Forall_In _ _ IHk (k, x) Hp) as [Qk Qx]. cbn [fst snd] in Qk, Qx.
      rewrite forallb_forall in HC. specialize (HC (k, x) Hp). cbn in HC.
      apply andb_prop in HC. destruct HC as [Ck Cx].
      rewrite (Qk kt true Ck) by (intros Hc; discriminate).
      rewrite (Qx vt true Cx) by (intros Hc; discriminate). reflexivity.
    - (* VObj, SData *)
      apply andb_prop in HC. destruct HC as [_ HC].
      cbn [cp]. rewrite pk_unfold. destruct (sfind E _ c') as [k|]; [|reflexivity].
      f_equal. clear HG. revert HC. generalize (sc_fields k). intros fds HC. revert fds HC.
      induction fs as [|[n x] fs IHfs]; intros fds HC.
      + destruct fds; reflexivity.
      + destruct fds as [|f fds]; [reflexivity|].
        inversion IHf as [|? ? Qx Qfs]; subst. cbn [snd] in Qx.
        apply andb_prop in HC. destruct HC as [HC Hr]. apply andb_prop in HC. destruct HC as [Hn Hx].
        rewrite Hn.
        destruct (sfield_nullable f && is_none x) eqn:Hnull.
        * cbn [bind]. rewrite (IHfs Qfs fds Hr). reflexivity.
        * cbn [orb] in Hx.
          rewrite (Qx (sf_ty f) false Hx).
          -- rewrite (IHfs Qfs fds Hr). reflexivity.
          -- intros _ Hnl. unfold sfield_nullable in Hnull. rewrite Hnl in Hnull. cbn [orb andb] in Hnull. exact Hnull.
    - (* VObj, SBox: the comprehension runs on the content *)
      destruct fs as [|[n inner] [|]]; try discriminate HC.
      apply andb_prop in HC. destruct HC as [_ HC].
      cbn [cp]. rewrite pk_unfold. destruct (chain_empty (is_chain bx) inner); [reflexivity|].
      inversion IHf as [|? ? Qi _]; subst. cbn [snd] in Qi.
      apply (Qi t' true HC). intros Hc; discriminate.
    - (* VNT, SNamed *)
      cbn [cp]. rewrite pk_unfold.
      apply andb_prop in HC. destruct HC as [_ HC].
      destruct (sfind E _ c') as [k|]; [|discriminate HC].
      f_equal. apply (nt_items_ext_all (fun f x => conf_g o E x (sf_ty f))); [exact HC|].
      intros f x Hx Hq. apply (Forall_In _ _ IHl x Hx); [exact Hq | intros Hc; discriminate Hc].
  Qed.

  (* C02 for the codec entry point: BasicEncoder(T).encode(v) *)
  Corollary encode_is_ref v t : conf_g o E v t = true -> pk E P v (cp true t) = ref_enc E P v t.
  Proof. intros H. apply pk_cp_ref; [exact H | intros Hc; discriminate]. Qed.
End C02.

(* ------------------------------------------------------------------ *)
(* the ordered conformance used by C01 is conformance plus the TypedDict key order *)
Lemma forallb_impl_in {A} (p q: A -> bool) l :
  (forall x, In x l -> p x = true -> q x = true) -> forallb p l = true -> forallb q l = true.
Proof.
  induction l as [|a l IH]; intros H Hp; [reflexivity|].
  cbn [forallb] in *. apply andb_prop in Hp. destruct Hp as [Ha Hl].
  rewrite (H a (or_introl eq_refl) Ha). apply IH; [|exact Hl]. intros x Hx. apply H. right. exact Hx.
Qed.

Lemma nt_all_impl_in {X} (p q: sfield -> X -> bool) fds (l: list X) :
  (forall f x, In x l -> p f x = true -> q f x = true) -> nt_all p fds l = true -> nt_all q fds l = true.
Proof.
  revert fds. induction l as [|x l IH]; intros fds H Hp; destruct fds as [|f r]; try discriminate Hp; [reflexivity|].
  cbn [nt_all] in *. apply andb_prop in Hp. destruct Hp as [Ha Hl].
  rewrite (H f x (or_introl eq_refl) Ha). apply IH; [|exact Hl]. intros f0 x0 Hx. apply H. right. exact Hx.
Qed.

Section ConfMono.
  Variable E : senv.
  Definition mono_ok (v: pv) : Prop := forall t, conf_ord E v t = true -> conf E v t = true.

  Lemma conf_tupleu_mono l pre mid post : Forall mono_ok l ->
    conf_ord E (VTuple l) (STupleU pre mid post) = true -> conf E (VTuple l) (STupleU pre mid post) = true.
  Proof.
    intros IHl HC.
    destruct (conf_tupleu_parts _ _ _ _ _ _ HC) as [Hlen [Hpre [Hmid Hpost]]].
    assert (Hm: forall d x, In x l -> conf_g true E x d = true -> conf_g false E x d = true)
      by (intros d x Hx Hc; apply (Forall_In _ _ IHl x Hx); exact Hc).
    apply conf_tupleu_intro; [exact Hlen | | |].
    - refine (pos_all_impl_in _ _ _ _ _ Hpre). intros d x Hx. apply Hm. apply (in_firstn _ _ _ Hx).
    - destruct mid; try discriminate Hmid.
      + refine (forallb_impl_in _ _ _ _ Hmid). intros x Hx. apply Hm. apply (in_skipn _ _ _ (in_firstn _ _ _ Hx)).
      + refine (pos_all_impl_in _ _ _ _ _ Hmid). intros d x Hx. apply Hm. apply (in_skipn _ _ _ (in_firstn _ _ _ Hx)).
    - refine (pos_all_impl_in _ _ _ _ _ Hpost). intros d x Hx. apply Hm. apply (in_skipn _ _ _ Hx).
  Qed.

  Theorem conf_ord_conf : forall v, mono_ok v.
  Proof.
    induction v as [ | b | z | f | s | m b | l IHl | l IHl | fr l IHl | kvs IHk | c fs IHf | e m | k w | c l IHl | tg ]
      using pv_rect'; unfold mono_ok.
    all: intros t; induction t as [ | | | | | | m' | k' | e' | t' IHt | fr' t' IHt | t' IHt | ts | pre mid IHmid post | kt IHkt vt IHvt | t' IHt | c' | c' | c' | t' IHt | kt IHkt vt IHvt | bx t' IHt | ls ];
      intros HC; try (solve [apply (conf_tupleu_mono _ _ _ _ IHl HC)]);
      rewrite conf_unfold in HC; rewrite conf_unfold; try exact HC; try discriminate HC.
    (* Optional *)
    all: try solve [ cbn [is_none orb] in HC |- *; apply IHt; exact HC ].
    (* homogeneous containers *)
    all: try solve [ try (apply andb_prop in HC; destruct HC as [Hfr HC]; rewrite Hfr; cbn [andb]);
                     refine (forallb_impl_in _ _ _ _ HC); intros x Hx Hc; apply (Forall_In _ _ IHl x Hx); exact Hc ].
    (* dict / Mapping *)
    all: try solve [
      apply andb_prop in HC; destruct HC as [Hnd HC]; rewrite Hnd; cbn [andb];
      refine (forallb_impl_in _ _ _ _ HC); intros [k x] Hp Hc; apply andb_prop in Hc; destruct Hc as [Ck Cx];
      destruct (Forall_In _ _ IHk (k, x) Hp) as [Qk Qx]; cbn [fst snd] in Qk, Qx; rewrite (Qk kt Ck), (Qx vt Cx); reflexivity ].
    (* boxed collections *)
    all: try solve [
      destruct fs as [|[n inner] [|]]; try discriminate HC;
      apply andb_prop in HC; destruct HC as [Hc HC];
      rewrite Hc; cbn [andb];
      inversion IHf as [|? ? Qi _]; subst; cbn [snd] in Qi; apply Qi; exact HC ].
    - (* fixed tuple *)
      revert ts HC. induction l as [|x l IHl']; intros ts HC; destruct ts as [|t1 ts]; try discriminate HC; [reflexivity|].
      apply andb_prop in HC. destruct HC as [Cx Cl]. inversion IHl as [|? ? Qx Ql]; subst.
      rewrite (Qx t1 Cx). apply (IHl' Ql ts Cl).
    - (* TypedDict: drop the order, keep the rest *)
      destruct (sfind E _ c') as [k0|]; [|discriminate HC].
      apply andb_prop in HC. destruct HC as [HC _]. apply andb_prop in HC. destruct HC as [HC HCf]. rewrite HC. cbn [andb].
      rewrite andb_true_r. cbv zeta in HCf |- *.
      refine (forallb_impl_in _ _ _ _ HCf). intros f _ Hc.
      rewrite (look_map (conf_g true E) kvs) in Hc. rewrite (look_map (conf_g false E) kvs).
      destruct (look kvs (sf_name f)) as [x|] eqn:El; cbn [option_map] in *; [|exact Hc].
      destruct (look_In _ _ _ El) as [key [Hin _]].
      apply (proj2 (Forall_In _ _ IHk (key, x) Hin)). exact Hc.
    - (* dataclass *)
      apply andb_prop in HC. destruct HC as [Hc HC]. rewrite Hc. cbn [andb].
      destruct (sfind E _ c') as [k0|]; [|discriminate HC].
      revert HC. generalize (sc_fields k0) as fds. intros fds. revert fds.
      induction fs as [|[n x] fs IHfs]; intros fds HC; destruct fds as [|f fds]; try discriminate HC; [reflexivity|].
      apply andb_prop in HC. destruct HC as [HC Cr]. apply andb_prop in HC. destruct HC as [Hn Cx].
      inversion IHf as [|? ? Qx Qr]; subst. cbn [snd] in Qx.
      rewrite Hn, (IHfs Qr fds Cr). cbn [andb]. rewrite andb_true_r.
      destruct (sfield_nullable f && is_none x); [reflexivity|]. cbn [orb] in *. apply Qx. exact Cx.
    - (* NamedTuple *)
      apply andb_prop in HC. destruct HC as [Hc HC]. rewrite Hc. cbn [andb].
      destruct (sfind E _ c') as [k0|]; [|discriminate HC].
      refine (nt_all_impl_in _ _ _ _ _ HC). intros f x Hx Hq. apply (Forall_In _ _ IHl x Hx). exact Hq.
  Qed.
End ConfMono.

(* ------------------------------------------------------------------ *)
(* C03: the generated unpacker equals the reference decoder on every input *)
Section C03.
  Variable E : senv.
  Variable P : prims.

  Lemma omapM_ext_in {A B} (f g: A -> option B) l : (forall x, In x l -> f x = g x) -> omapM f l = omapM g l.
  Proof.
    induction l as [|a l IH]; intros H; [reflexivity|].
    cbn [omapM]. rewrite (H a (or_introl eq_refl)), IH; [reflexivity|]. intros x Hx. apply H. right. exact Hx.
  Qed.

  Lemma omapM_map {A B C} (h: A -> B) (f: B -> option C) l : omapM f (map h l) = omapM (fun x => f (h x)) l.
  Proof. induction l as [|a l IH]; [reflexivity|]. cbn [map omapM]. rewrite IH. reflexivity. Qed.

  Lemma const_dec_n_unfold n u : const_dec_n E n u =
    match u with
    | UScalar SNone => Some VNone
    | UTupleFix us => match omapM (const_dec_n E n) us with Some cs => Some (VTuple cs) | None => None end
    | UTupleU _ pre umid post =>
        match omapM (const_dec_n E n) pre, (match umid with UTupleFix us => omapM (const_dec_n E n) us | _ => None end), omapM (const_dec_n E n) post with
        | Some a, Some m, Some b => Some (VTuple (a ++ m ++ b))
        | _, _, _ => None end
    | UNamed c =>
        match n with
        | O => None
        | S n' =>
            match sfind E KNamed c with
            | None => None
            | Some k =>
                if has_default k.(sc_fields) then None
                else match omapM (fun f => const_dec_n E n' (cu true f.(sf_ty))) k.(sc_fields) with
                     | Some cs => Some (VNT c cs)
                     | None => None end
            end
        end
    | _ => None end.
  Proof. destruct n, u; reflexivity. Qed.

  Lemma const_ty_n_unfold n t : const_ty_n E n t =
    match t with
    | SNoneT => Some VNone
    | STupleFix ts => match omapM (const_ty_n E n) ts with Some cs => Some (VTuple cs) | None => None end
    | STupleU pre mid post =>
        match omapM (const_ty_n E n) pre, (match mid with STupleFix ts => omapM (const_ty_n E n) ts | _ => None end), omapM (const_ty_n E n) post with
        | Some a, Some m, Some b => Some (VTuple (a ++ m ++ b))
        | _, _, _ => None end
    | SNamed c =>
        match n with
        | O => None
        | S n' =>
            match sfind E KNamed c with
            | None => None
            | Some k =>
                if has_default k.(sc_fields) then None
                else match omapM (fun f => const_ty_n E n' f.(sf_ty)) k.(sc_fields) with
                     | Some cs => Some (VNT c cs)
                     | None => None end
            end
        end
    | _ => None end.
  Proof. destruct n, t; reflexivity. Qed.

  Lemma opt_tuple_inj (a b: option (list pv)) :
    match a with Some cs => Some (VTuple cs) | None => None end = match b with Some cs => Some (VTuple cs) | None => None end -> a = b.
  Proof. destruct a, b; intros H; inversion H; reflexivity. Qed.

  Lemma const_tupleu_step m pre mid post :
    Forall (fun t => const_dec_n E m (cu true t) = const_ty_n E m t) pre ->
    const_dec_n E m (cu true mid) = const_ty_n E m mid ->
    Forall (fun t => const_dec_n E m (cu true t) = const_ty_n E m t) post ->
    const_dec_n E m (cu true (STupleU pre mid post)) = const_ty_n E m (STupleU pre mid post).
  Proof.
    intros Hpre Hmid Hpost. cbn [cu]. rewrite const_dec_n_unfold, const_ty_n_unfold.
    rewrite !omapM_map.
    rewrite (omapM_ext_in _ (const_ty_n E m) pre) by (intros x Hx; apply (Forall_In _ _ Hpre x Hx)).
    rewrite (omapM_ext_in _ (const_ty_n E m) post) by (intros x Hx; apply (Forall_In _ _ Hpost x Hx)).
    destruct mid; cbn [cu] in *; try reflexivity.
    rewrite const_dec_n_unfold, const_ty_n_unfold in Hmid. rewrite (opt_tuple_inj _ _ Hmid). reflexivity.
  Qed.

  (* constant-ness is decided alike by the generator and by the reference *)
  Lemma const_dec_cu_n n : forall t, const_dec_n E n (cu true t) = const_ty_n E n t.
  Proof.
    induction n as [|n IHn].
    all: induction t as [ | | | | | | m' | k' | e' | t' IHt | fr' t' IHt | t' IHt | ts IHts | pre IHpre mid IHmid IHmide post IHpost | kt IHkt vt IHvt | t' IHt | c' | c' | c' | t' IHt | kt IHkt vt IHvt | bx t' IHt | ls ]
      using sty_ind'; try (solve [apply const_tupleu_step; assumption]);
      cbn [cu]; rewrite const_dec_n_unfold, const_ty_n_unfold; try reflexivity.
    all: try (match goal with |- context [omapM (const_dec_n E ?m) (map (cu true) ?l)] =>
                rewrite omapM_map; rewrite (omapM_ext_in _ (const_ty_n E m) l);
                [reflexivity | intros x Hx; apply (Forall_In _ _ IHts x Hx)] end).
    destruct (sfind E KNamed c') as [k|]; [|reflexivity]. destruct (has_default (sc_fields k)); [reflexivity|].
    rewrite (omapM_ext_in _ (fun f => const_ty_n E n (sf_ty f))); [reflexivity | intros f _; apply IHn].
  Qed.

  Lemma const_dec_cu t : const_dec E (cu true t) = const_ty E t.
  Proof. apply const_dec_cu_n. Qed.

  Lemma none_tail_cu ts : none_tail E (map (cu true) ts) = none_tail_t E ts.
  Proof.
    induction ts as [|t ts IH]; [reflexivity|].
    cbn [map none_tail none_tail_t]. rewrite IH, const_dec_cu. reflexivity.
  Qed.

  Lemma konst_u_t f : (konst_u E) f = (konst_t E) f.
  Proof. unfold konst_u, konst_t. apply const_dec_cu. Qed.

  Lemma uk_str_unfold n u s : uk_str E P n u s =
    match u with
    | UId => Ok (VStr s)
    | UScalar sc => coerce_s P sc (VStr s)
    | ULeaf k => w <- lift (P.(p_parse) k (VStr s)) ;; Ok (VLeaf k w)
    | UB64 m => b <- lift (P.(p_b64dec) (VStr s)) ;; Ok (VBytes m b)
    | UEnum e => mn <- lift (P.(p_enum_of) e (VStr s)) ;; Ok (VEnum e mn)
    | UOpt u' => uk_str E P n u' s
    | UListComp u' => r <- mapM (uk_str E P n u') (utf8_chars s) ;; Ok (VList r)
    | USetComp fr u' => r <- mapM (uk_str E P n u') (utf8_chars s) ;;
        if forallb hashable r then Ok (VSet fr (set_of_list r)) else Exn XTypeError
    | UTupleVar u' => r <- mapM (uk_str E P n u') (utf8_chars s) ;; Ok (VTuple r)
    | UTupleFix us =>
        r <- (fix go (us: list pdec) (l: list string) {struct us} : res (list pv) :=
                match us, l with
                | [], _ => Ok []
                | _ :: _, [] => none_tail E us
                | u' :: us', x :: l' => y <- uk_str E P n u' x ;; ys <- go us' l' ;; Ok (y :: ys)
                end) us (utf8_chars s) ;;
        Ok (VTuple r)
    | UTupleU plan pre umid post =>
        r <- tu_walk (uk_str E P n) (const_dec E) (Some (utf8_chars s)) plan pre post
               (match umid with
                | UTupleVar u' => mid_var (uk_str E P n) u'
                | UTupleFix us => mid_fix (uk_str E P n) (const_dec E) (none_tail E) us
                | _ => fun _ => Exn XTypeError end) ;;
        Ok (VTuple r)
    | UDictComp _ _ => Exn XAttributeError
    | UData c => match sfind E KData c with
                 | Some _ => Exn XValueError
                 | None => Exn XAttributeError end
    | UNamed c =>
        match sfind E KNamed c with
        | None => Exn XAttributeError
        | Some k =>
            match n with
            | O => Exn XRecursion
            | S n' =>
                r <- nt_items (fun f x => uk_str E P n' (cu true f.(sf_ty)) x) (konst_u E)
                              (nt_exhausted (has_default k.(sc_fields))) k.(sc_fields) (utf8_chars s) ;;
                Ok (VNT c r)
            end
        end
    | UTyped c =>
        match sfind E KTyped c with
        | None => Exn XAttributeError
        | Some k => td_nondict (konst_u E) k.(sc_fields) end
    | UBox b u' => r <- uk_str E P n u' s ;; Ok (box_val b r)
    | ULit ls => lit_find ls (VStr s)
    end.
  Proof. destruct n, u; reflexivity. Qed.

  Lemma ref_dec_str_unfold sm n t s : ref_dec_str_g E P sm n t s =
    match t with
    | SAny => Ok (VStr s)
    | SNoneT => Ok VNone
    | SIntT => coerce_s P SInt (VStr s)
    | SFloatT => coerce_s P SFloat (VStr s)
    | SBoolT => coerce_s P SBool (VStr s)
    | SStrT => Ok (VStr s)
    | SBytes m => b <- lift (P.(p_b64dec) (VStr s)) ;; Ok (VBytes m b)
    | SLeaf k => w <- lift (P.(p_parse) k (VStr s)) ;; Ok (VLeaf k w)
    | SEnum e => mn <- lift (P.(p_enum_of) e (VStr s)) ;; Ok (VEnum e mn)
    | SList t' | SSeq t' => r <- mapM (ref_dec_str_g E P sm n t') (utf8_chars s) ;; Ok (VList r)
    | SSet fr t' => r <- mapM (ref_dec_str_g E P sm n t') (utf8_chars s) ;;
        if forallb hashable r then Ok (VSet fr (set_of_list r)) else Exn XTypeError
    | STupleVar t' => r <- mapM (ref_dec_str_g E P sm n t') (utf8_chars s) ;; Ok (VTuple r)
    | STupleFix ts =>
        r <- (fix go (ts: list sty) (l: list string) {struct ts} : res (list pv) :=
                match ts, l with
                | [], _ => Ok []
                | _ :: _, [] => none_tail_t E ts
                | t' :: ts', x :: l' => y <- ref_dec_str_g E P sm n t' x ;; ys <- go ts' l' ;; Ok (y :: ys)
                end) ts (utf8_chars s) ;;
        Ok (VTuple r)
    | STupleU pre mid post =>
        r <- tu_ref E sm (ref_dec_str_g E P sm n) (none_tail_t E) (utf8_chars s) pre mid post ;; Ok (VTuple r)
    | SDict _ _ | SMap _ _ => Exn XAttributeError
    | SOpt t' => ref_dec_str_g E P sm n t' s
    | SData c => match sfind E KData c with
                 | Some _ => Exn XValueError
                 | None => Exn XAttributeError end
    | SNamed c =>
        match sfind E KNamed c with
        | None => Exn XAttributeError
        | Some k =>
            match n with
            | O => Exn XRecursion
            | S n' =>
                r <- nt_items (fun f x => ref_dec_str_g E P sm n' f.(sf_ty) x) (konst_t E)
                              (nt_exhausted (has_default k.(sc_fields))) k.(sc_fields) (utf8_chars s) ;;
                Ok (VNT c r)
            end
        end
    | STyped c =>
        match sfind E KTyped c with
        | None => Exn XAttributeError
        | Some k => td_nondict (konst_t E) k.(sc_fields) end
    | SBox b t' => r <- ref_dec_str_g E P sm n t' s ;; Ok (box_val b r)
    | SLit ls => lit_find ls (VStr s)
    end.
  Proof. destruct n, t; reflexivity. Qed.

  (* for EVERY amount of fuel (so no acyclicity hypothesis is needed for the equality; with the
     fuel [List.length E] that [uk] / [ref_dec] supply, exhaustion needs a NamedTuple class that
     reaches itself through NamedTuple/container positions) *)
  Lemma uk_str_ref n : forall t cbn s, uk_str E P n (cu cbn t) s = ref_dec_str_g E P false n t s.
  Proof.
    induction n as [|n IHn].
    all: induction t as [ | | | | | | m' | k' | e' | t' IHt | fr' t' IHt | t' IHt | ts IHts | pre IHpre mid IHmid IHmide post IHpost | kt IHkt vt IHvt | t' IHt | c' | c' | c' | t' IHt | kt IHkt vt IHvt | bx t' IHt | ls ]
      using sty_ind'; intros cbn s;
      try (rewrite (ref_dec_str_unfold _ _ (SOpt t')); destruct cbn; cbn [cu]; [rewrite uk_str_unfold|]; apply IHt);
      cbn [cu]; rewrite uk_str_unfold, ref_dec_str_unfold; try reflexivity.
    all: try (f_equal; apply mapM_ext_in; intros x _; apply IHt).
    all: try (f_equal; generalize (utf8_chars s) as l; induction IHts as [|t1 ts H1 Hts IH]; intros l;
              [ reflexivity
              | cbn [map]; destruct l as [|x l]; [exact (none_tail_cu (t1 :: ts))|]; rewrite H1; rewrite IH; reflexivity ]).
    all: try (destruct (sfind E _ c') as [k|]; [|reflexivity]; apply td_nondict_ext; exact konst_u_t).
    all: try solve [ f_equal; unfold tu_ref; rewrite <- (map_id (utf8_chars s));
      apply (tu_walk_rel (cu true) (fun x: string => x) (fun x: string => x) (uk_str E P _) (ref_dec_str_g E P false _)
               (const_dec E) (const_ty E) (Some (utf8_chars s)));
      [ intros d _; apply const_dec_cu
      | intros d x Hd _; apply in_app_or in Hd; destruct Hd as [Hd|Hd];
        [ apply (Forall_In _ _ IHpre d Hd) | apply (Forall_In _ _ IHpost d Hd) ]
      | intros i j; cbn [option_map]; destruct mid; cbn [cu]; try reflexivity;
        [ apply (mid_var_rel (cu true) (fun x: string => x) (fun x: string => x) _ _ (Some _));
          intros x _; inversion IHmide as [|? ? Hq _]; apply Hq
        | apply (mid_fix_rel (cu true) (fun x: string => x) (fun x: string => x) _ _ _ _ _ _ none_tail_cu (Some _));
          [ intros d _; apply const_dec_cu | intros d x Hd _; apply (Forall_In _ _ IHmide d Hd) ] ] ] ].
    all: try solve [ rewrite IHt; reflexivity ].
    - destruct (sfind E _ c') as [k|]; [|reflexivity]. f_equal.
      apply nt_items_ext; [ intros f x _; apply IHn | exact konst_u_t | reflexivity ].
  Qed.

  (* ---------------------------------------------------------------- *)
  (* the fuel of the str descent is enough for a class table whose NamedTuple classes are
     ranked (= do not reach themselves through NamedTuple / container positions): no
     RecursionError comes out of [ref_dec_str] / [uk_str] *)
  Section Fuel.
    Variable rk : string -> nat.

    (* number of NamedTuple classes a str can descend through, starting at a type *)
    Fixpoint need (t: sty) : nat :=
      match t with
      | SList t' | SSet _ t' | STupleVar t' | SOpt t' | SSeq t' | SBox _ t' => need t'
      | STupleFix ts => (fix go (l: list sty) : nat := match l with [] => O | t' :: r => Nat.max (need t') (go r) end) ts
      | STupleU pre mid post =>
          Nat.max ((fix go (l: list sty) : nat := match l with [] => O | t' :: r => Nat.max (need t') (go r) end) pre)
                  (Nat.max (need mid)
                           ((fix go (l: list sty) : nat := match l with [] => O | t' :: r => Nat.max (need t') (go r) end) post))
      | SNamed c => match sfind E KNamed c with Some _ => S (rk c) | None => O end
      | _ => O end.

    Hypothesis ranked : forall c k, sfind E KNamed c = Some k ->
      forall f, In f k.(sc_fields) -> (need f.(sf_ty) <= rk c)%nat.

    Definition nrec {A} (r: res A) : Prop := r <> Exn XRecursion.

    Lemma nrec_bind {A B} (r: res A) (k: A -> res B) : nrec r -> (forall a, nrec (k a)) -> nrec (bind r k).
    Proof. destruct r as [a|e]; cbn [bind]; intros H1 H2; [apply H2 | intros H; apply H1; inversion H; reflexivity]. Qed.

    Lemma nrec_exn {A B} e : @nrec A (Exn e) -> @nrec B (Exn e).
    Proof. intros H Hc. apply H. inversion Hc. reflexivity. Qed.

    Lemma nrec_lift {A} (x: option A) : nrec (lift x).
    Proof. destruct x; intros H; discriminate H. Qed.

    Lemma nrec_coerce sc v : nrec (coerce_s P sc v).
    Proof.
      destruct sc; cbn [coerce_s]; try (intros H; discriminate H);
        destruct v; try (intros H; discriminate H); (apply nrec_bind; [apply nrec_lift | intros a H; discriminate H]).
    Qed.

    Lemma nrec_mapM {A B} (f: A -> res B) l : (forall x, In x l -> nrec (f x)) -> nrec (mapM f l).
    Proof.
      induction l as [|a l IH]; intros H; [intros Hc; discriminate Hc|].
      cbn [mapM]. pose proof (H a (or_introl eq_refl)) as Ha.
      destruct (f a) as [y|e]; [|exact (nrec_exn e Ha)].
      assert (Hl: nrec (mapM f l)) by (apply IH; intros x Hx; apply H; right; exact Hx).
      destruct (mapM f l) as [ys|e]; [intros Hc; discriminate Hc | exact Hl].
    Qed.

    Lemma nrec_none_tail_t ts : nrec (none_tail_t E ts).
    Proof.
      induction ts as [|t ts IH]; cbn [none_tail_t]; [intros H; discriminate H|].
      destruct (const_ty E t); [|intros H; discriminate H]. apply nrec_bind; [exact IH | intros a H; discriminate H].
    Qed.

    Lemma nrec_nt_exhausted hd rest : nrec (nt_exhausted hd rest).
    Proof.
      unfold nt_exhausted. destruct hd; [|intros H; discriminate H].
      induction rest as [|f r IH]; cbn [nt_defaults]; [intros H; discriminate H|].
      destruct (sf_default f); [|intros H; discriminate H]. apply nrec_bind; [exact IH | intros a H; discriminate H].
    Qed.

    Lemma nrec_nt_tail konst miss fds : (forall rest, nrec (miss rest)) -> nrec (nt_tail konst miss fds).
    Proof.
      intros Hm. induction fds as [|f r IH]; cbn [nt_tail]; [intros H; discriminate H|].
      destruct (konst f); [|apply Hm]. destruct (nt_tail konst miss r); [intros H; discriminate H | exact IH].
    Qed.

    Lemma nrec_nt_items {X} (run: sfield -> X -> res pv) konst miss fds (l: list X) :
      (forall f x, In f fds -> nrec (run f x)) -> (forall rest, nrec (miss rest)) -> nrec (nt_items run konst miss fds l).
    Proof.
      intros Hr Hm. revert fds Hr. induction l as [|x l IH]; intros fds Hr.
      - destruct fds; cbn [nt_items]; [intros H; discriminate H | apply nrec_nt_tail; exact Hm].
      - destruct fds as [|f r]; cbn [nt_items]; [intros H; discriminate H|].
        pose proof (Hr f x (or_introl eq_refl)) as Hx. destruct (run f x) as [y|e]; [|exact (nrec_exn e Hx)].
        assert (Hl: nrec (nt_items run konst miss r l)) by (apply IH; intros f0 x0 Hf0; apply Hr; right; exact Hf0).
        destruct (nt_items run konst miss r l); [intros H; discriminate H | exact Hl].
    Qed.

    Lemma nrec_td_nondict konst fds : nrec (td_nondict konst fds).
    Proof.
      unfold td_nondict. apply nrec_bind; [|intros a; destruct (existsb _ _); intros H; discriminate H].
      induction (td_order fds) as [|f r IH]; cbn [td_go]; [intros H; discriminate H|].
      unfold td_field. cbn [look].
      destruct (sf_opt f); [exact IH|].
      destruct (konst f); cbn [bind]; [|intros H; discriminate H].
      apply nrec_bind; [exact IH | intros a H; discriminate H].
    Qed.

    Lemma need_fix_le ts n : (need (STupleFix ts) <= n)%nat -> Forall (fun t' => (need t' <= n)%nat) ts.
    Proof.
      induction ts as [|t ts IH]; intros H; [constructor|].
      cbn [need] in H. constructor; [lia | apply IH; cbn [need]; lia].
    Qed.

    Lemma need_tupleu_le pre mid post n : (need (STupleU pre mid post) <= n)%nat ->
      Forall (fun t' => (need t' <= n)%nat) pre /\ (need mid <= n)%nat /\ Forall (fun t' => (need t' <= n)%nat) post.
    Proof.
      intros H. cbn [need] in H. repeat split.
      - apply need_fix_le. cbn [need]. lia.
      - lia.
      - apply need_fix_le. cbn [need]. lia.
    Qed.

    Lemma need_mid_elems mid n : (need mid <= n)%nat -> Forall (fun t' => (need t' <= n)%nat) (mid_elems mid).
    Proof.
      intros H. destruct mid; cbn [mid_elems]; try constructor.
      - exact H.
      - constructor.
      - apply need_fix_le. exact H.
    Qed.

    Lemma nrec_tu_ones {T X} (run: T -> X -> res pv) konst items plan ds :
      (forall d x, In d ds -> nrec (run d x)) -> nrec (tu_ones run konst items plan ds).
    Proof.
      revert plan. induction ds as [|d ds IH]; intros plan Hr; destruct plan as [|a plan]; cbn [tu_ones]; try (intros H; discriminate H).
      assert (Ha: nrec (tu_at run konst items a d)).
      { unfold tu_at. destruct (konst d); [intros H; discriminate H|]. destruct items as [l|]; [|intros H; discriminate H].
        destruct a; [|intros H; discriminate H]. destruct (nth_signed l i); [apply Hr; left; reflexivity | intros H; discriminate H]. }
      destruct (tu_at run konst items a d) as [y|e]; [|exact (nrec_exn e Ha)].
      assert (Hl: nrec (tu_ones run konst items plan ds)) by (apply IH; intros d0 x0 Hd0; apply Hr; right; exact Hd0).
      destruct (tu_ones run konst items plan ds); [intros H; discriminate H | exact Hl].
    Qed.

    Lemma nrec_pos_walk {T X} (run: T -> X -> res pv) konst ds (l: list X) :
      (forall d x, In d ds -> nrec (run d x)) -> nrec (pos_walk run konst ds l).
    Proof.
      revert l. induction ds as [|d ds IH]; intros l Hr; destruct l as [|x l]; cbn [pos_walk]; try (intros H; discriminate H).
      assert (Ha: nrec (match konst d with Some c => Ok c | None => run d x end)).
      { destruct (konst d); [intros H; discriminate H | apply Hr; left; reflexivity]. }
      destruct (match konst d with Some c => Ok c | None => run d x end) as [y|e]; [|exact (nrec_exn e Ha)].
      assert (Hl: nrec (pos_walk run konst ds l)) by (apply IH; intros d0 x0 Hd0; apply Hr; right; exact Hd0).
      destruct (pos_walk run konst ds l); [intros H; discriminate H | exact Hl].
    Qed.

    Lemma nrec_fix_walk {T X} (run: T -> X -> res pv) tail ds (l: list X) :
      (forall d x, In d ds -> nrec (run d x)) -> (forall ds', nrec (tail ds')) -> nrec (fix_walk run tail ds l).
    Proof.
      intros Hr Ht. revert l Hr. induction ds as [|d ds IH]; intros l Hr; destruct l as [|x l]; cbn [fix_walk];
        try (intros H; discriminate H); [apply Ht|].
      pose proof (Hr d x (or_introl eq_refl)) as Ha. destruct (run d x) as [y|e]; [|exact (nrec_exn e Ha)].
      assert (Hl: nrec (fix_walk run tail ds l)) by (apply IH; intros d0 x0 Hd0; apply Hr; right; exact Hd0).
      destruct (fix_walk run tail ds l); [intros H; discriminate H | exact Hl].
    Qed.

    Lemma nrec_tu_ref {X} sm (run: sty -> X -> res pv) (l: list X) pre mid post :
      (forall d x, In d (pre ++ mid_elems mid ++ post) -> nrec (run d x)) ->
      nrec (tu_ref E sm run (none_tail_t E) l pre mid post).
    Proof.
      intros Hr.
      assert (Hm: forall sl, nrec (match mid with
                                   | STupleVar t' => mid_var run t'
                                   | STupleFix ts => mid_fix run (const_ty E) (none_tail_t E) ts
                                   | _ => fun _ => Exn XTypeError end sl)).
      { intros sl. destruct mid; try (intros H; discriminate H).
        - unfold mid_var. destruct sl; [|intros H; discriminate H]. apply nrec_mapM. intros x _. apply Hr.
          apply in_or_app. right. apply in_or_app. left. left. reflexivity.
        - unfold mid_fix. destruct (omapM _ _); [intros H; discriminate H|]. destruct sl; [|intros H; discriminate H].
          apply nrec_fix_walk; [|apply nrec_none_tail_t]. intros d x Hd. apply Hr. apply in_or_app. right. apply in_or_app. left. exact Hd. }
      assert (Hp: forall d x, In d pre -> nrec (run d x)) by (intros d x Hd; apply Hr; apply in_or_app; left; exact Hd).
      assert (Hq: forall d x, In d post -> nrec (run d x)) by (intros d x Hd; apply Hr; apply in_or_app; right; apply in_or_app; right; exact Hd).
      unfold tu_ref. destruct sm.
      - destruct (_ <? _)%nat; [intros H; discriminate H|]. unfold tu_split.
        apply nrec_bind; [apply nrec_pos_walk; exact Hp|]. intros a.
        apply nrec_bind; [apply Hm|]. intros m.
        apply nrec_bind; [apply nrec_pos_walk; exact Hq|]. intros b H. discriminate H.
      - unfold tu_walk.
        apply nrec_bind; [apply nrec_tu_ones; exact Hp|]. intros a.
        apply nrec_bind; [destruct (nth_error _ _) as [[|]|]; try (intros H; discriminate H); apply Hm|]. intros m.
        apply nrec_bind; [apply nrec_tu_ones; exact Hq|]. intros b H. discriminate H.
    Qed.

    Theorem ref_dec_str_no_recursion sm n : forall t s, (need t <= n)%nat -> nrec (ref_dec_str_g E P sm n t s).
    Proof.
      induction n as [|n IHn].
      all: induction t as [ | | | | | | m' | k' | e' | t' IHt | fr' t' IHt | t' IHt | ts IHts | pre IHpre mid IHmid IHmide post IHpost | kt IHkt vt IHvt | t' IHt | c' | c' | c' | t' IHt | kt IHkt vt IHvt | bx t' IHt | ls ]
        using sty_ind'; intros s Hn; rewrite ref_dec_str_unfold;
        try (intros H; discriminate H); try apply nrec_coerce;
        try (apply nrec_bind; [apply nrec_lift | intros a H; discriminate H]);
        try (apply IHt; exact Hn);
        try (destruct (sfind E _ c'); intros H; discriminate H);
        try (destruct (sfind E _ c'); [apply nrec_td_nondict | intros H; discriminate H]).
      all: try (apply nrec_bind; [apply nrec_mapM; intros x _; apply IHt; exact Hn
                                 | intros a; try destruct (forallb hashable a); intros H; discriminate H]).
      all: try (apply nrec_bind; [|intros a H; discriminate H];
                pose proof (need_fix_le ts _ Hn) as Hall; clear Hn; generalize (utf8_chars s) as l;
                induction IHts as [|t1 ts H1 Hts IH]; intros l;
                [ intros H; discriminate H
                | inversion Hall as [|? ? Hn1 Hall']; subst; destruct l as [|x l];
                  [ apply nrec_none_tail_t
                  | apply nrec_bind; [apply H1; exact Hn1 | intros y; apply nrec_bind; [apply (IH Hall') | intros ys H; discriminate H]] ] ]).
      all: try solve [ destruct (need_tupleu_le _ _ _ _ Hn) as [Hp [Hm Hq]];
                       apply nrec_bind; [|intros a H; discriminate H]; apply nrec_tu_ref;
                       intros d x Hd; apply in_app_or in Hd; destruct Hd as [Hd|Hd];
                       [ apply (Forall_In _ _ IHpre d Hd); apply (Forall_In _ _ Hp d Hd)
                       | apply in_app_or in Hd; destruct Hd as [Hd|Hd];
                         [ apply (Forall_In _ _ IHmide d Hd); apply (Forall_In _ _ (need_mid_elems _ _ Hm) d Hd)
                         | apply (Forall_In _ _ IHpost d Hd); apply (Forall_In _ _ Hq d Hd) ] ] ].
      all: try solve [ apply nrec_bind; [apply IHt; exact Hn | intros a H; discriminate H] ].
      all: try solve [ unfold lit_find; destruct (find _ _); intros H; discriminate H ].
      - (* a NamedTuple class with no fuel left: excluded by the bound *)
        cbn [need] in Hn. destruct (sfind E _ c') as [k|]; [lia | intros H; discriminate H].
      - cbn [need] in Hn. destruct (sfind E _ c') as [k|] eqn:Ef; [|intros H; discriminate H].
        apply nrec_bind; [|intros a H; discriminate H].
        apply nrec_nt_items; [|apply nrec_nt_exhausted].
        intros f x Hf. apply IHn. pose proof (ranked c' k Ef f Hf). lia.
    Qed.

    Corollary uk_str_no_recursion t cbn s : (need t <= List.length E)%nat ->
      uk_str E P (List.length E) (cu cbn t) s <> Exn XRecursion.
    Proof. intros Hn. rewrite uk_str_ref. apply (ref_dec_str_no_recursion false _ t s Hn). Qed.
  End Fuel.

  (* ---------------------------------------------------------------- *)
  (* a computable acyclicity check of the NamedTuple reference graph gives the rank function *)
  Section Acyclic.
    (* longest chain of NamedTuple classes a str can descend through below class [c], cut at depth [n] *)
    Fixpoint rank_n (n: nat) (c: string) : nat :=
      match n with
      | O => O
      | S n' =>
          match sfind E KNamed c with
          | Some k => fold_right Nat.max O (map (fun f => need (rank_n n') f.(sf_ty)) k.(sc_fields))
          | None => O end
      end.

    (* the ranks computed with depth |E| do not grow any more with depth |E| + 1 (no cycle is being
       unrolled) and stay below |E| *)
    Definition acyclic : bool :=
      let N := List.length E in
      forallb (fun k => Nat.eqb (rank_n N k.(sc_name)) (rank_n (S N) k.(sc_name)) && (rank_n N k.(sc_name) <? N)%nat) E.

    Lemma sfind_name kd c k : sfind E kd c = Some k -> sc_name k = c.
    Proof.
      induction E as [|x E' IH]; cbn [sfind]; [discriminate|].
      destruct (ckind_eqb (sc_kind x) kd && String.eqb (sc_name x) c) eqn:Eq; [|exact IH].
      intros H. inversion H; subst. apply andb_prop in Eq. apply String.eqb_eq. apply Eq.
    Qed.

    Lemma fold_max_ge (l: list nat) x : In x l -> (x <= fold_right Nat.max O l)%nat.
    Proof. induction l as [|a l IH]; intros H; [destruct H|]. cbn [fold_right]. destruct H as [H|H]; [subst; lia | specialize (IH H); lia]. Qed.

    Hypothesis Hacyc : acyclic = true.

    Lemma acyclic_class c k : sfind E KNamed c = Some k ->
      rank_n (List.length E) c = rank_n (S (List.length E)) c /\ (rank_n (List.length E) c < List.length E)%nat.
    Proof.
      intros Hf. destruct (sfind_In E _ c k Hf) as [Hin _]. pose proof (sfind_name _ _ _ Hf) as Hn.
      unfold acyclic in Hacyc. cbv zeta in Hacyc. rewrite forallb_forall in Hacyc. specialize (Hacyc k Hin).
      rewrite Hn in Hacyc. apply andb_prop in Hacyc. destruct Hacyc as [H1 H2].
      split; [apply Nat.eqb_eq; exact H1 | apply Nat.ltb_lt; exact H2].
    Qed.

    Lemma acyclic_ranked c k : sfind E KNamed c = Some k ->
      forall f, In f k.(sc_fields) -> (need (rank_n (List.length E)) f.(sf_ty) <= rank_n (List.length E) c)%nat.
    Proof.
      intros Hf f Hin. rewrite (proj1 (acyclic_class c k Hf)). cbn [rank_n]. rewrite Hf.
      apply fold_max_ge. apply in_map_iff. exists f. split; [reflexivity | exact Hin].
    Qed.

    Lemma need_list_le rk n (l: list sty) : Forall (fun t => (need rk t <= n)%nat) l ->
      ((fix go (l: list sty) : nat := match l with [] => O | t' :: r => Nat.max (need rk t') (go r) end) l <= n)%nat.
    Proof. intros H. induction H as [|t l Ht Hl IH]; [lia|]. lia. Qed.

    Lemma acyclic_bound : forall t, (need (rank_n (List.length E)) t <= List.length E)%nat.
    Proof.
      induction t as [ | | | | | | m' | k' | e' | t' IHt | fr' t' IHt | t' IHt | ts IHts | pre IHpre mid IHmid IHmide post IHpost | kt IHkt vt IHvt | t' IHt | c' | c' | c' | t' IHt | kt IHkt vt IHvt | bx t' IHt | ls ]
        using sty_ind'; cbn [need]; try lia; try exact IHt.
      - apply need_list_le. exact IHts.
      - pose proof (need_list_le _ _ _ IHpre). pose proof (need_list_le _ _ _ IHpost). lia.
      - destruct (sfind E KNamed c') as [k|] eqn:Ef; [|lia]. pose proof (proj2 (acyclic_class c' k Ef)). lia.
    Qed.

    (* the fuel [List.length E] never runs out on an acyclic table, for any type and any str *)
    Theorem uk_str_no_recursion_acyclic t cbn s : uk_str E P (List.length E) (cu cbn t) s <> Exn XRecursion.
    Proof. apply (uk_str_no_recursion (rank_n (List.length E)) acyclic_ranked t cbn s (acyclic_bound t)). Qed.
  End Acyclic.

  Lemma uk_unfold d u : uk E P d u =
      match u with
      | UId => Ok d
      | UScalar s => coerce_s P s d
      | ULeaf k => w <- lift (P.(p_parse) k d) ;; Ok (VLeaf k w)
      | UB64 m => b <- lift (P.(p_b64dec) d) ;; Ok (VBytes m b)
      | UEnum e => mn <- lift (P.(p_enum_of) e d) ;; Ok (VEnum e mn)
      | UOpt u' => if is_none d then Ok VNone else uk E P d u'
      | UListComp u' =>
          match d with
          | VList l | VTuple l | VSet _ l => r <- mapM (fun x => uk E P x u') l ;; Ok (VList r)
          | VDict kvs => r <- mapM (fun p => match p with (k, _) => uk E P k u' end) kvs ;; Ok (VList r)
          | VStr s => uk_str E P (List.length E) u s
          | _ => Exn XTypeError end
      | USetComp fr u' =>
          match d with
          | VList l | VTuple l | VSet _ l =>
              r <- mapM (fun x => uk E P x u') l ;;
              if forallb hashable r then Ok (VSet fr (set_of_list r)) else Exn XTypeError
          | VDict kvs => r <- mapM (fun p => match p with (k, _) => uk E P k u' end) kvs ;;
              if forallb hashable r then Ok (VSet fr (set_of_list r)) else Exn XTypeError
          | VStr s => uk_str E P (List.length E) u s
          | _ => Exn XTypeError end
      | UTupleVar u' =>
          match d with
          | VList l | VTuple l | VSet _ l => r <- mapM (fun x => uk E P x u') l ;; Ok (VTuple r)
          | VDict kvs => r <- mapM (fun p => match p with (k, _) => uk E P k u' end) kvs ;; Ok (VTuple r)
          | VStr s => uk_str E P (List.length E) u s
          | _ => Exn XTypeError end
      | UTupleFix us =>
          match d with
          | VList l | VTuple l =>
              r <- (fix go (us: list pdec) (l: list pv) {struct l} : res (list pv) :=
                      match us, l with
                      | [], _ => Ok []                       (* surplus items are ignored *)
                      | _ :: _, [] => none_tail E us
                      | u' :: us', x :: l' => y <- uk E P x u' ;; ys <- go us' l' ;; Ok (y :: ys)
                      end) us l ;;
              Ok (VTuple r)
          | VStr s => uk_str E P (List.length E) u s
          | _ => r <- none_tail E us ;; Ok (VTuple r)     (* only constant positions never index the value *)
          end
      | UTupleU plan pre umid post =>
          match d with
          | VStr s => uk_str E P (List.length E) u s
          | _ =>
              let run := fun (u': pdec) (dx: pdec -> res pv) => dx u' in
              let items : option (list (pdec -> res pv)) :=
                  match d with VList l | VTuple l => Some (map (fun x => uk E P x) l) | _ => None end in
              r <- tu_walk run (const_dec E) items plan pre post
                     (match umid with
                      | UTupleVar u' => mid_var run u'
                      | UTupleFix us => mid_fix run (const_dec E) (none_tail E) us
                      | _ => fun _ => Exn XTypeError end) ;;
              Ok (VTuple r)
          end
      | UDictComp ku vu =>
          match d with
          | VDict kvs =>
              r <- mapM (fun p => match p with (k, x) =>
                                    k' <- uk E P k ku ;; x' <- uk E P x vu ;;
                                    if hashable k' then Ok (k', x') else Exn XTypeError end) kvs ;;
              Ok (VDict (dict_of_pairs r))
          | _ => Exn XAttributeError end
      | UData c =>
          match sfind E KData c with
          | None => Exn XAttributeError
          | Some k =>
              match d with
              | VDict kvs =>
                  (* closures (key, (raw value, decoder of that entry)): the lookup happens on
                     them so that the recursion stays structural on the input *)
                  let entries : list (pv * (pv * (pdec -> res pv))) :=
                      map (fun p => match p with (key, x) => (key, (x, uk E P x)) end) kvs in
                  r <- (fix go (fds: list sfield) : res (list (string * pv)) :=
                          match fds with
                          | [] => Ok []
                          | f :: rest =>
                              y <- match (fix look (es: list (pv * (pv * (pdec -> res pv)))) : option (pv * (pdec -> res pv)) :=
                                            match es with
                                            | [] => None
                                            | (key, xd) :: er =>
                                                if py_eq key (VStr f.(sf_name)) then Some xd else look er
                                            end) entries with
                                   | Some (x, dx) =>
                                       (* nullable field: explicit null gives None without calling the unpacker *)
                                       if is_none x && sfield_nullable f then Ok VNone else dx (cu false f.(sf_ty))
                                   | None => match f.(sf_default) with
                                             | Some dv => Ok dv
                                             | None => Exn (XMissingField f.(sf_name) c) end
                                   end ;;
                              tl <- go rest ;; Ok ((f.(sf_name), y) :: tl)
                          end) k.(sc_fields) ;;
                  Ok (VObj c r)
              | _ => Exn XValueError               (* non-mapping argument *)
              end
          end
      | UNamed c =>
          match sfind E KNamed c with
          | None => Exn XAttributeError
          | Some k =>
              match d with
              | VList l | VTuple l =>
                  r <- nt_items (fun f x => uk E P x (cu true f.(sf_ty))) (konst_u E)
                                (nt_exhausted (has_default k.(sc_fields))) k.(sc_fields) l ;;
                  Ok (VNT c r)
              | VStr s => uk_str E P (List.length E) u s
              | _ => r <- nt_tail (konst_u E) (fun _ => Exn XTypeError) k.(sc_fields) ;; Ok (VNT c r)
              end
          end
      | UTyped c =>
          match sfind E KTyped c with
          | None => Exn XAttributeError
          | Some k =>
              match d with
              | VDict kvs =>
                  let entries : list (pv * (pdec -> res pv)) :=
                      map (fun p => match p with (key, x) => (key, uk E P x) end) kvs in
                  r <- td_go (fun f dx => dx (cu true f.(sf_ty))) (konst_u E) XKeyError
                             entries (td_order k.(sc_fields)) ;;
                  Ok (VDict r)
              | _ => td_nondict (konst_u E) k.(sc_fields)
              end
          end
      | UBox b u' => r <- uk E P d u' ;; Ok (box_val b r)
      | ULit ls => lit_find ls d
      end.
  Proof. destruct d, u; reflexivity. Qed.

  Lemma ref_dec_unfold sm d t : ref_dec_g E P sm d t =
      match t with
      | SAny => Ok d
      | SNoneT => Ok VNone
      | SIntT => coerce_s P SInt d
      | SFloatT => coerce_s P SFloat d
      | SBoolT => coerce_s P SBool d
      | SStrT => coerce_s P SStr d
      | SBytes m => b <- lift (P.(p_b64dec) d) ;; Ok (VBytes m b)
      | SLeaf k => w <- lift (P.(p_parse) k d) ;; Ok (VLeaf k w)
      | SEnum e => mn <- lift (P.(p_enum_of) e d) ;; Ok (VEnum e mn)
      | SList t' | SSeq t' =>
          match d with
          | VList l | VTuple l | VSet _ l => r <- mapM (fun x => ref_dec_g E P sm x t') l ;; Ok (VList r)
          | VDict kvs => r <- mapM (fun p => match p with (k, _) => ref_dec_g E P sm k t' end) kvs ;; Ok (VList r)
          | VStr s => ref_dec_str_g E P sm (List.length E) t s
          | _ => Exn XTypeError end
      | SSet fr t' =>
          match d with
          | VList l | VTuple l | VSet _ l =>
              r <- mapM (fun x => ref_dec_g E P sm x t') l ;;
              if forallb hashable r then Ok (VSet fr (set_of_list r)) else Exn XTypeError
          | VDict kvs => r <- mapM (fun p => match p with (k, _) => ref_dec_g E P sm k t' end) kvs ;;
              if forallb hashable r then Ok (VSet fr (set_of_list r)) else Exn XTypeError
          | VStr s => ref_dec_str_g E P sm (List.length E) t s
          | _ => Exn XTypeError end
      | STupleVar t' =>
          match d with
          | VList l | VTuple l | VSet _ l => r <- mapM (fun x => ref_dec_g E P sm x t') l ;; Ok (VTuple r)
          | VDict kvs => r <- mapM (fun p => match p with (k, _) => ref_dec_g E P sm k t' end) kvs ;; Ok (VTuple r)
          | VStr s => ref_dec_str_g E P sm (List.length E) t s
          | _ => Exn XTypeError end
      | STupleFix ts =>
          match d with
          | VList l | VTuple l =>
              r <- (fix go (ts: list sty) (l: list pv) {struct l} : res (list pv) :=
                      match ts, l with
                      | [], _ => Ok []
                      | _ :: _, [] => none_tail_t E ts
                      | t' :: ts', x :: l' => y <- ref_dec_g E P sm x t' ;; ys <- go ts' l' ;; Ok (y :: ys)
                      end) ts l ;;
              Ok (VTuple r)
          | VStr s => ref_dec_str_g E P sm (List.length E) t s
          | _ => r <- none_tail_t E ts ;; Ok (VTuple r)
          end
      | STupleU pre mid post =>
          match d with
          | VList l | VTuple l =>
              r <- tu_ref E sm (fun (t': sty) (dx: sty -> res pv) => dx t') (none_tail_t E) (map (fun x => ref_dec_g E P sm x) l) pre mid post ;;
              Ok (VTuple r)
          | VStr s => ref_dec_str_g E P sm (List.length E) t s
          | _ =>
              r <- tu_walk (fun (t': sty) (dx: sty -> res pv) => dx t') (const_ty E) None
                     (tu_plan (List.length pre) (List.length post)) pre post
                     (match mid with
                      | STupleFix ts => mid_fix (fun (t': sty) (dx: sty -> res pv) => dx t') (const_ty E) (none_tail_t E) ts
                      | _ => fun _ => Exn XTypeError end) ;;
              Ok (VTuple r)
          end
      | SDict kt vt | SMap kt vt =>
          match d with
          | VDict kvs =>
              r <- mapM (fun p => match p with (k, x) =>
                                    k' <- ref_dec_g E P sm k kt ;; x' <- ref_dec_g E P sm x vt ;;
                                    if hashable k' then Ok (k', x') else Exn XTypeError end) kvs ;;
              Ok (VDict (dict_of_pairs r))
          | _ => Exn XAttributeError end
      | SOpt t' => if is_none d then Ok VNone else ref_dec_g E P sm d t'
      | SData c =>
          match sfind E KData c with
          | None => Exn XAttributeError
          | Some k =>
              match d with
              | VDict kvs =>
                  let entries : list (pv * (pv * (sty -> res pv))) :=
                      map (fun p => match p with (key, x) => (key, (x, ref_dec_g E P sm x)) end) kvs in
                  r <- (fix go (fds: list sfield) : res (list (string * pv)) :=
                          match fds with
                          | [] => Ok []
                          | f :: rest =>
                              y <- match (fix look (es: list (pv * (pv * (sty -> res pv)))) : option (pv * (sty -> res pv)) :=
                                            match es with
                                            | [] => None
                                            | (key, xd) :: er =>
                                                if py_eq key (VStr f.(sf_name)) then Some xd else look er
                                            end) entries with
                                   | Some (x, dx) =>
                                       if is_none x && sfield_nullable f then Ok VNone else dx f.(sf_ty)
                                   | None => match f.(sf_default) with
                                             | Some dv => Ok dv
                                             | None => Exn (XMissingField f.(sf_name) c) end
                                   end ;;
                              tl <- go rest ;; Ok ((f.(sf_name), y) :: tl)
                          end) k.(sc_fields) ;;
                  Ok (VObj c r)
              | VStr s => ref_dec_str_g E P sm (List.length E) t s
              | _ => Exn XValueError
              end
          end
      | SNamed c =>
          match sfind E KNamed c with
          | None => Exn XAttributeError
          | Some k =>
              match d with
              | VList l | VTuple l =>
                  r <- nt_items (fun f x => ref_dec_g E P sm x f.(sf_ty)) (konst_t E)
                                (nt_exhausted (has_default k.(sc_fields))) k.(sc_fields) l ;;
                  Ok (VNT c r)
              | VStr s => ref_dec_str_g E P sm (List.length E) t s
              | _ => r <- nt_tail (konst_t E) (fun _ => Exn XTypeError) k.(sc_fields) ;; Ok (VNT c r)
              end
          end
      | STyped c =>
          match sfind E KTyped c with
          | None => Exn XAttributeError
          | Some k =>
              match d with
              | VDict kvs =>
                  let entries : list (pv * (sty -> res pv)) :=
                      map (fun p => match p with (key, x) => (key, ref_dec_g E P sm x) end) kvs in
                  r <- td_go (fun f dx => dx f.(sf_ty)) (konst_t E) XKeyError
                             entries (td_order k.(sc_fields)) ;;
                  Ok (VDict r)
              | _ => td_nondict (konst_t E) k.(sc_fields)
              end
          end
      | SBox b t' => r <- ref_dec_g E P sm d t' ;; Ok (box_val b r)
      | SLit ls => lit_find ls d
      end.
  Proof. destruct d, t; reflexivity. Qed.

  Definition uk_ok (d: pv) : Prop :=
    forall t cbn, none_guard cbn t d -> uk E P d (cu cbn t) = ref_dec_g E P false d t.

  (* tuple with an unpacked segment: the generated code and the lenient reading of the
     reference walk the same index / slice plan with related item decoders *)
  Lemma uk_tupleu d pre mid post cbn :
    (forall x, In x (match d with VList l | VTuple l => l | _ => [] end) -> uk_ok x) ->
    uk E P d (cu cbn (STupleU pre mid post)) = ref_dec_g E P false d (STupleU pre mid post).
  Proof.
    intros IH. cbn [cu]. rewrite uk_unfold, ref_dec_unfold.
    assert (Hseq: forall l, (forall x, In x l -> uk_ok x) ->
      (r <- tu_walk (fun (u': pdec) (dx: pdec -> res pv) => dx u') (const_dec E) (Some (map (fun x => uk E P x) l))
              (tu_plan (List.length pre) (List.length post)) (map (cu true) pre) (map (cu true) post)
              (match cu true mid with
               | UTupleVar u' => mid_var (fun (u': pdec) (dx: pdec -> res pv) => dx u') u'
               | UTupleFix us => mid_fix (fun (u': pdec) (dx: pdec -> res pv) => dx u') (const_dec E) (none_tail E) us
               | _ => fun _ => Exn XTypeError end) ;; Ok (VTuple r)) =
      (r <- tu_ref E false (fun (t': sty) (dx: sty -> res pv) => dx t') (none_tail_t E) (map (fun x => ref_dec_g E P false x) l) pre mid post ;;
       Ok (VTuple r))).
    { intros l IHl. f_equal. unfold tu_ref.
      assert (Hr: forall (d': sty) (x: pv), In x l -> uk E P x (cu true d') = ref_dec_g E P false x d')
        by (intros d' x Hx; apply (IHl x Hx); intros Hc; discriminate Hc).
      apply (tu_walk_rel (cu true) (fun x => uk E P x) (fun x => ref_dec_g E P false x)
               (fun (u': pdec) (dx: pdec -> res pv) => dx u') (fun (t': sty) (dx: sty -> res pv) => dx t')
               (const_dec E) (const_ty E) (Some l)).
      - intros d' _. apply const_dec_cu.
      - intros d' x _ Hx. apply Hr. exact Hx.
      - intros i j. cbn [option_map]. destruct mid; cbn [cu]; try reflexivity.
        + apply (mid_var_rel (cu true) (fun x => uk E P x) (fun x => ref_dec_g E P false x) _ _ (Some _)).
          intros x Hx. apply Hr. apply (slice_list_In _ _ _ _ Hx).
        + apply (mid_fix_rel (cu true) (fun x => uk E P x) (fun x => ref_dec_g E P false x) _ _ _ _ _ _ none_tail_cu (Some _)).
          * intros d' _. apply const_dec_cu.
          * intros d' x _ Hx. apply Hr. apply (slice_list_In _ _ _ _ Hx). }
    assert (Hoth:
      (r <- tu_walk (fun (u': pdec) (dx: pdec -> res pv) => dx u') (const_dec E) None
              (tu_plan (List.length pre) (List.length post)) (map (cu true) pre) (map (cu true) post)
              (match cu true mid with
               | UTupleVar u' => mid_var (fun (u': pdec) (dx: pdec -> res pv) => dx u') u'
               | UTupleFix us => mid_fix (fun (u': pdec) (dx: pdec -> res pv) => dx u') (const_dec E) (none_tail E) us
               | _ => fun _ => Exn XTypeError end) ;; Ok (VTuple r)) =
      (r <- tu_walk (fun (t': sty) (dx: sty -> res pv) => dx t') (const_ty E) None
              (tu_plan (List.length pre) (List.length post)) pre post
              (match mid with
               | STupleFix ts => mid_fix (fun (t': sty) (dx: sty -> res pv) => dx t') (const_ty E) (none_tail_t E) ts
               | _ => fun _ => Exn XTypeError end) ;; Ok (VTuple r))).
    { f_equal.
      apply (tu_walk_rel (cu true) (fun x => uk E P x) (fun x => ref_dec_g E P false x)
               (fun (u': pdec) (dx: pdec -> res pv) => dx u') (fun (t': sty) (dx: sty -> res pv) => dx t')
               (const_dec E) (const_ty E) None).
      - intros d' _. apply const_dec_cu.
      - intros d' x _ [].
      - intros i j. cbn [option_map]. destruct mid; cbn [cu]; try reflexivity.
        apply (mid_fix_rel (cu true) (fun x => uk E P x) (fun x => ref_dec_g E P false x) _ _ _ _ _ _ none_tail_cu None).
        + intros d' _. apply const_dec_cu.
        + intros d' x _ []. }
    destruct d; try exact Hoth.
    - exact (uk_str_ref _ (STupleU pre mid post) true s).
    - apply (Hseq l IH).
    - apply (Hseq l IH).
  Qed.

  Theorem uk_cu_ref : forall d, uk_ok d.
  Proof.
    induction d as [ | b | z | f | s | m b | l IHl | l IHl | fr l IHl | kvs IHk | c fs IHf | e m | k w | c l IHl | tg ]
      using pv_rect'; unfold uk_ok.
    all: intros t; induction t as [ | | | | | | m' | k' | e' | t' IHt | fr' t' IHt | t' IHt | ts | pre mid IHmid post | kt IHkt vt IHvt | t' IHt | c' | c' | c' | t' IHt | kt IHkt vt IHvt | bx t' IHt | ls ];
      intros cbn HG;
      try (solve [ apply uk_tupleu; cbn; intros x Hx; first [ destruct Hx | apply (Forall_In _ _ IHl x Hx) ] ]);
      cbn [cu]; try (rewrite uk_unfold, ref_dec_unfold; reflexivity).
    (* Optional *)
    all: try solve [ destruct cbn;
      [ rewrite uk_unfold, ref_dec_unfold; cbn [is_none];
        first [ reflexivity | apply IHt; intros Hc; discriminate Hc ]
      | pose proof (HG eq_refl eq_refl) as Hn; rewrite ref_dec_unfold; cbn [is_none] in *;
        first [ discriminate Hn | apply IHt; intros _ _; reflexivity ] ] ].
    (* a str input: everything is a function of the decoder *)
    all: try solve [ rewrite uk_unfold, ref_dec_unfold;
                     first [ exact (uk_str_ref _ (SList t') true s)
                           | exact (uk_str_ref _ (SSet fr' t') true s)
                           | exact (uk_str_ref _ (STupleVar t') true s)
                           | exact (uk_str_ref _ (SSeq t') true s)
                           | exact (uk_str_ref _ (STupleFix ts) true s) ] ].
    (* NamedTuple: sequences item-wise, a str through [uk_str], anything else only constants *)
    all: try solve [ rewrite uk_unfold, ref_dec_unfold; destruct (sfind E _ c') as [kc|]; [|reflexivity];
                     first [ exact (uk_str_ref _ (SNamed c') true s)
                           | f_equal; apply nt_items_ext;
                             [ intros f x Hx; apply (Forall_In _ _ IHl x Hx); intros Hc; discriminate Hc
                             | exact konst_u_t | reflexivity ]
                           | f_equal; apply nt_tail_ext; [ exact konst_u_t | reflexivity ] ] ].
    (* TypedDict given a non-dict *)
    all: try solve [ rewrite uk_unfold, ref_dec_unfold; destruct (sfind E _ c') as [kc|]; [|reflexivity];
                     apply td_nondict_ext; exact konst_u_t ].
    (* fixed tuple given a non-sequence *)
    all: try solve [ rewrite uk_unfold, ref_dec_unfold; rewrite (none_tail_cu ts); reflexivity ].
    (* homogeneous containers over list-like inputs *)
    all: try solve [ rewrite uk_unfold, ref_dec_unfold;
                     rewrite (mapM_ext_in _ (fun x => ref_dec_g E P false x t'));
                     [ reflexivity | intros x Hx; apply (Forall_In _ _ IHl x Hx); intros Hc; discriminate Hc ] ].
    (* VDict iterated by a list decoder: its keys *)
    all: try solve [ rewrite uk_unfold, ref_dec_unfold;
      rewrite (mapM_ext_in _ (fun p : pv * pv => match p with (k, _) => ref_dec_g E P false k t' end)); [reflexivity|];
      intros [k x] Hp; apply (proj1 (Forall_In _ _ IHk (k, x) Hp)); intros Hc; discriminate Hc ].
    (* VDict, SDict / SMap *)
    all: try solve [ rewrite uk_unfold, ref_dec_unfold;
      rewrite (mapM_ext_in _ (fun p : pv * pv => match p with (k, x) =>
                 k' <- ref_dec_g E P false k kt ;; x' <- ref_dec_g E P false x vt ;;
                 if hashable k' then Ok (k', x') else Exn XTypeError end)); [reflexivity|];
      intros [k x] Hp; destruct (Forall_In _ _ IHk (k, x) Hp) as [Qk Qx]; cbn [fst snd] in Qk, Qx;
      rewrite (Qk kt true) by (intros Hc; discriminate Hc);
      rewrite (Qx vt true) by (intros Hc; discriminate Hc); reflexivity ].
    (* boxed collections: the inner unpacker, then the class *)
    all: try solve [ rewrite uk_unfold, ref_dec_unfold; rewrite (IHt true) by (intros Hc; discriminate Hc); reflexivity ].
    - (* VStr, SData *)
      rewrite uk_unfold, ref_dec_unfold. rewrite ref_dec_str_unfold.
      destruct (sfind E _ c') as [k|]; reflexivity.
    - (* VList, STupleFix *)
      rewrite uk_unfold, ref_dec_unfold. f_equal.
      clear HG. revert ts. induction l as [|x l IHl']; intros ts.
      + destruct ts as [|t0 ts]; [reflexivity | exact (none_tail_cu (t0 :: ts))].
      + destruct ts as [|t1 ts]; [reflexivity|]. cbn [map].
        inversion IHl as [|? ? Qx Ql]; subst.
        rewrite (Qx t1 true) by (intros Hc; discriminate Hc).
        rewrite (IHl' Ql ts). reflexivity.
    - (* VTuple, STupleFix *)
      rewrite uk_unfold, ref_dec_unfold. f_equal.
      clear HG. revert ts. induction l as [|x l IHl']; intros ts.
      + destruct ts as [|t0 ts]; [reflexivity | exact (none_tail_cu (t0 :: ts))].
      + destruct ts as [|t1 ts]; [reflexivity|]. cbn [map].
        inversion IHl as [|? ? Qx Ql]; subst.
        rewrite (Qx t1 true) by (intros Hc; discriminate Hc).
        rewrite (IHl' Ql ts). reflexivity.
    - (* VDict, SData: the field loop *)
      rewrite uk_unfold, ref_dec_unfold.
      destruct (sfind E _ c') as [k|]; [|reflexivity].
      cbv zeta. f_equal. clear HG. induction (sc_fields k) as [|f fds IHfds]; [reflexivity|].
      rewrite IHfds. f_equal.
      (* the entry found for this field is the same on both sides, decoded by related closures *)
      clear IHfds.
      induction kvs as [|[key x] kvs IHkvs]; [reflexivity|].
      cbn [map]. destruct (py_eq key (VStr (sf_name f))).
      + inversion IHk as [|? ? [_ Qx] _]; subst. cbn [snd] in Qx.
        destruct (is_none x && sfield_nullable f) eqn:Hn; [reflexivity|].
        apply Qx. intros _ Hnl. unfold sfield_nullable in Hn. rewrite Hnl in Hn. cbn [orb] in Hn.
        rewrite andb_true_r in Hn. exact Hn.
      + apply IHkvs. inversion IHk; assumption.
    - (* VDict, STyped *)
      rewrite uk_unfold, ref_dec_unfold.
      destruct (sfind E _ c') as [k|]; [|reflexivity].
      cbv zeta. f_equal. apply td_go_ext. intros f _.
      unfold td_field. rewrite (look_map (uk E P) kvs), (look_map (ref_dec_g E P false) kvs). rewrite konst_u_t.
      destruct (look kvs (sf_name f)) as [x|] eqn:El; cbn [option_map]; [|reflexivity].
      destruct (look_In _ _ _ El) as [key [Hin _]].
      pose proof (Forall_In _ _ IHk (key, x) Hin) as [_ Qx]. cbn [snd] in Qx.
      rewrite (Qx (sf_ty f) true) by (intros Hc; discriminate Hc). reflexivity.
  Qed.

  (* C03 for the codec entry point: BasicDecoder(T).decode(d), every input d *)
  Corollary decode_is_ref d t : uk E P d (cu true t) = ref_dec_g E P false d t.
  Proof. apply uk_cu_ref. intros Hc; discriminate Hc. Qed.
End C03.
