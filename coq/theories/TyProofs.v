(* Proofs about the type-level model (TyModel.v):
   - C02: the generated packer (with its optimisations) equals the reference encoder
   - C03: the generated unpacker equals the reference decoder on EVERY input
   - basic-form closure of the reference encoder *)
From Coq Require Import List String Ascii ZArith Bool Lia.
From Verif Require Import Core TyModel.
Import ListNotations.
Open Scope string_scope.
Open Scope Z_scope.
Open Scope list_scope.

(* ------------------------------------------------------------------ *)
(* induction principle for the nested value type *)
Section PvInd.
  Variable Q : pv -> Prop.
  Hypothesis HNone : Q VNone.
  Hypothesis HBool : forall b, Q (VBool b).
  Hypothesis HInt : forall z, Q (VInt z).
  Hypothesis HFloat : forall f, Q (VFloat f).
  Hypothesis HStr : forall s, Q (VStr s).
  Hypothesis HBytes : forall m b, Q (VBytes m b).
  Hypothesis HList : forall l, Forall Q l -> Q (VList l).
  Hypothesis HTuple : forall l, Forall Q l -> Q (VTuple l).
  Hypothesis HSet : forall f l, Forall Q l -> Q (VSet f l).
  Hypothesis HDict : forall kvs, Forall (fun p => Q (fst p) /\ Q (snd p)) kvs -> Q (VDict kvs).
  Hypothesis HObj : forall c fs, Forall (fun p => Q (snd p)) fs -> Q (VObj c fs).
  Hypothesis HEnum : forall e m, Q (VEnum e m).
  Hypothesis HLeaf : forall k w, Q (VLeaf k w).
  Hypothesis HNT : forall c l, Forall Q l -> Q (VNT c l).
  Hypothesis HOther : forall t, Q (VOther t).

  Fixpoint pv_rect' (v: pv) : Q v :=
    let fix all (l: list pv) : Forall Q l :=
        match l with [] => Forall_nil _ | x :: r => @Forall_cons _ Q x r (pv_rect' x) (all r) end in
    match v with
    | VNone => HNone | VBool b => HBool b | VInt z => HInt z | VFloat f => HFloat f
    | VStr s => HStr s | VBytes m b => HBytes m b
    | VList l => HList l (all l)
    | VTuple l => HTuple l (all l)
    | VSet f l => HSet f l (all l)
    | VDict kvs =>
        HDict kvs ((fix alld (l: list (pv * pv)) : Forall (fun p => Q (fst p) /\ Q (snd p)) l :=
                      match l with
                      | [] => Forall_nil _
                      | (k, x) :: r => @Forall_cons _ (fun p => Q (fst p) /\ Q (snd p)) (k, x) r (conj (pv_rect' k) (pv_rect' x)) (alld r) end) kvs)
    | VObj c fs =>
        HObj c fs ((fix allo (l: list (string * pv)) : Forall (fun p => Q (snd p)) l :=
                      match l with
                      | [] => Forall_nil _
                      | (n, x) :: r => @Forall_cons _ (fun p => Q (snd p)) (n, x) r (pv_rect' x) (allo r) end) fs)
    | VEnum e m => HEnum e m | VLeaf k w => HLeaf k w
    | VNT c l => HNT c l (all l)
    | VOther t => HOther t
    end.
End PvInd.


(* induction principle for the type grammar (nested list in STupleFix) *)
Section StyInd.
  Variable Q : sty -> Prop.
  Hypothesis H1 : Q SAny. Hypothesis H2 : Q SNoneT. Hypothesis H3 : Q SIntT. Hypothesis H4 : Q SFloatT.
  Hypothesis H5 : Q SBoolT. Hypothesis H6 : Q SStrT.
  Hypothesis H7 : forall m, Q (SBytes m).
  Hypothesis H8 : forall k, Q (SLeaf k).
  Hypothesis H9 : forall e, Q (SEnum e).
  Hypothesis H10 : forall t, Q t -> Q (SList t).
  Hypothesis H11 : forall f t, Q t -> Q (SSet f t).
  Hypothesis H12 : forall t, Q t -> Q (STupleVar t).
  Hypothesis H13 : forall ts, Forall Q ts -> Q (STupleFix ts).
  Hypothesis H14 : forall kt, Q kt -> forall vt, Q vt -> Q (SDict kt vt).
  Hypothesis H15 : forall t, Q t -> Q (SOpt t).
  Hypothesis H16 : forall c, Q (SData c).
  Fixpoint sty_ind' (t: sty) : Q t :=
    match t with
    | SAny => H1 | SNoneT => H2 | SIntT => H3 | SFloatT => H4 | SBoolT => H5 | SStrT => H6
    | SBytes m => H7 m | SLeaf k => H8 k | SEnum e => H9 e
    | SList t' => H10 t' (sty_ind' t')
    | SSet f t' => H11 f t' (sty_ind' t')
    | STupleVar t' => H12 t' (sty_ind' t')
    | STupleFix ts =>
        H13 ts ((fix all (l: list sty) : Forall Q l :=
                   match l with [] => Forall_nil _ | x :: r => @Forall_cons _ Q x r (sty_ind' x) (all r) end) ts)
    | SDict kt vt => H14 kt (sty_ind' kt) vt (sty_ind' vt)
    | SOpt t' => H15 t' (sty_ind' t')
    | SData c => H16 c
    end.
End StyInd.

(* ------------------------------------------------------------------ *)
(* mapM congruence *)
Lemma mapM_ext_in {A B} (f g: A -> res B) (l: list A) :
  (forall x, In x l -> f x = g x) -> mapM f l = mapM g l.
Proof.
  induction l as [|a l IH]; intros H; [reflexivity|].
  cbn [mapM]. rewrite (H a (or_introl eq_refl)). rewrite IH; [reflexivity|].
  intros x Hx. apply H. right. exact Hx.
Qed.

Lemma Forall_In {A} (Q: A -> Prop) l : Forall Q l -> forall x, In x l -> Q x.
Proof. intros H x Hx. rewrite Forall_forall in H. auto. Qed.

(* ------------------------------------------------------------------ *)
(* the Python dict invariant: no two keys are equal *)
Fixpoint nodup_keys (kvs: list (pv * pv)) : bool :=
  match kvs with
  | [] => true
  | (k, _) :: r => negb (existsb (fun p => py_eq k (fst p)) r) && nodup_keys r end.

Lemma d_insert_fresh acc k v :
  (forall a, In a acc -> py_eq (fst a) k = false) -> d_insert acc k v = acc ++ [(k, v)].
Proof.
  induction acc as [|[k' x] acc IH]; intros H; [reflexivity|].
  cbn [d_insert]. pose proof (H (k', x) (or_introl eq_refl)) as Hk. cbn [fst] in Hk. rewrite Hk. cbn [app]. f_equal.
  apply IH. intros a Ha. apply H. right. exact Ha.
Qed.

Lemma fold_insert_nodup (l acc: list (pv * pv)) :
  nodup_keys l = true ->
  (forall a p, In a acc -> In p l -> py_eq (fst a) (fst p) = false) ->
  fold_left (fun acc kv => d_insert acc (fst kv) (snd kv)) l acc = acc ++ l.
Proof.
  revert acc. induction l as [|[k v] r IH]; intros acc Hn Hd.
  - cbn. rewrite app_nil_r. reflexivity.
  - cbn [fold_left fst snd]. cbn [nodup_keys] in Hn. apply andb_prop in Hn. destruct Hn as [Hk Hr].
    rewrite d_insert_fresh.
    + rewrite IH; [rewrite <- app_assoc; reflexivity | exact Hr |].
      intros a p Ha Hp. apply in_app_or in Ha. destruct Ha as [Ha|[Ha|[]]].
      * apply Hd; [exact Ha | right; exact Hp].
      * subst a. cbn [fst]. apply negb_true_iff in Hk.
        destruct (py_eq k (fst p)) eqn:Epe; [|reflexivity].
        exfalso. assert (existsb (fun p0 => py_eq k (fst p0)) r = true) as Hx.
        { apply existsb_exists. exists p. split; assumption. }
        rewrite Hx in Hk. discriminate.
    + intros a Ha. apply (Hd a (k, v) Ha (or_introl eq_refl)).
Qed.

Lemma dict_of_pairs_nodup kvs : nodup_keys kvs = true -> dict_of_pairs kvs = kvs.
Proof.
  intros H. unfold dict_of_pairs. rewrite fold_insert_nodup; [reflexivity | exact H |].
  intros a p [].
Qed.

(* ------------------------------------------------------------------ *)
(* conformance: the value is built from the canonical concrete classes of the annotation *)
Section Conf.
  Variable E : senv.

  Fixpoint conf (v: pv) {struct v} : sty -> bool :=
    fix on_t (t: sty) {struct t} : bool :=
      match t with
      | SAny => true
      | SNoneT => is_none v
      | SIntT => match v with VInt _ => true | _ => false end
      | SFloatT => match v with VFloat _ => true | _ => false end
      | SBoolT => match v with VBool _ => true | _ => false end
      | SStrT => match v with VStr _ => true | _ => false end
      | SBytes m => match v with VBytes m' _ => Bool.eqb m m' | _ => false end
      | SLeaf k => match v with VLeaf k' _ => String.eqb k k' | _ => false end
      | SEnum e => match v with VEnum e' _ => String.eqb e e' | _ => false end
      | SList t' => match v with VList l => forallb (fun x => conf x t') l | _ => false end
      | SSet fr t' => match v with VSet fr' l => Bool.eqb fr fr' && forallb (fun x => conf x t') l | _ => false end
      | STupleVar t' => match v with VTuple l => forallb (fun x => conf x t') l | _ => false end
      | STupleFix ts =>
          match v with
          | VTuple l =>
              (fix go (ts: list sty) (l: list pv) {struct l} : bool :=
                 match ts, l with
                 | [], [] => true
                 | t' :: ts', x :: l' => conf x t' && go ts' l'
                 | _, _ => false end) ts l
          | _ => false end
      | SDict kt vt =>
          match v with
          | VDict kvs => nodup_keys kvs && forallb (fun p => match p with (k, x) => conf k kt && conf x vt end) kvs
          | _ => false end
      | SOpt t' => is_none v || on_t t'
      | SData c =>
          match v with
          | VObj c' fs =>
              String.eqb c c' &&
              match sfind E c with
              | None => false
              | Some k =>
                  (fix go (fds: list sfield) (fs: list (string * pv)) {struct fs} : bool :=
                     match fds, fs with
                     | [], [] => true
                     | f :: fds', (n, x) :: fs' =>
                         String.eqb n f.(sf_name) &&
                         ((sfield_nullable f && is_none x) || conf x f.(sf_ty)) && go fds' fs'
                     | _, _ => false end) k.(sc_fields) fs
              end
          | _ => false end
      end.
End Conf.

(* ------------------------------------------------------------------ *)
Section C02.
  Variable E : senv.
  Variable P : prims.

  (* with could_be_none = false the generator omits the None test of an Optional: the
     field loop has already dealt with None *)
  Definition none_guard (cbn: bool) (t: sty) (v: pv) : Prop :=
    cbn = false -> sty_nullable t = true -> is_none v = false.

  Lemma is_id_cp_true t : is_id (cp true t) = true ->
    forall v, ref_enc E P v t = Ok v.
  Proof.
    destruct t; cbn [cp]; intros H v; try discriminate; try (destruct v; reflexivity).
    - unfold seq_expr in H. destruct (is_id (cp true t)); discriminate.
    - unfold seq_expr in H. destruct (is_id (cp true t)); discriminate.
    - unfold map_expr in H. destruct (is_id (cp true t1) && is_id (cp true t2)); discriminate.
  Qed.

  Lemma mapM_id (l: list pv) (f: pv -> res pv) :
    (forall x, In x l -> f x = Ok x) -> mapM f l = Ok l.
  Proof.
    induction l as [|a l IH]; intros H; [reflexivity|].
    cbn [mapM]. rewrite (H a (or_introl eq_refl)). rewrite IH; [reflexivity|].
    intros x Hx. apply H. right. exact Hx.
  Qed.

  Lemma mapM_pair_id (kvs: list (pv * pv)) (f g: pv -> res pv) :
    (forall p, In p kvs -> f (fst p) = Ok (fst p) /\ g (snd p) = Ok (snd p)) ->
    mapM (fun p => match p with (k, x) => k' <- f k ;; x' <- g x ;; Ok (k', x') end) kvs = Ok kvs.
  Proof.
    induction kvs as [|[k x] r IH]; intros H; [reflexivity|].
    cbn [mapM]. destruct (H (k, x) (or_introl eq_refl)) as [Hk Hx]. cbn [fst snd] in Hk, Hx.
    rewrite Hk, Hx. cbn [bind]. rewrite IH; [reflexivity|].
    intros p Hp. apply H. right. exact Hp.
  Qed.

  (* the statement proved by nested induction (value, then type) *)
  Definition pk_ok (v: pv) : Prop :=
    forall t cbn, conf E v t = true -> none_guard cbn t v -> pk E P v (cp cbn t) = ref_enc E P v t.

  Lemma pk_unfold v e : pk E P v e =
    match e with
    | EId => Ok v
    | ELeaf => match v with VLeaf k w => Ok (P.(p_render) k w) | _ => Exn XAttributeError end
    | EB64 => match v with VBytes _ b => Ok (VStr (P.(p_b64enc) b)) | _ => Exn XTypeError end
    | EEnumValue => match v with VEnum en mn => lift (P.(p_enum_value) en mn) | _ => Exn XAttributeError end
    | EOpt e' => if is_none v then Ok VNone else pk E P v e'
    | ECopyList => match v with VList l => Ok (VList l) | _ => Exn XAttributeError end
    | ECopyDict => match v with VDict kvs => Ok (VDict kvs) | _ => Exn XAttributeError end
    | EListComp e' =>
        match v with
        | VList l | VTuple l | VSet _ l => r <- mapM (fun x => pk E P x e') l ;; Ok (VList r)
        | _ => Exn XTypeError end
    | EDictComp ke ve =>
        match v with
        | VDict kvs =>
            r <- mapM (fun p => match p with (k, x) =>
                                  k' <- pk E P k ke ;; x' <- pk E P x ve ;; Ok (k', x') end) kvs ;;
            Ok (VDict (dict_of_pairs r))
        | _ => Exn XAttributeError end
    | ETupleFix es =>
        match v with
        | VTuple l | VList l =>
            r <- (fix go (es: list penc) (l: list pv) {struct l} : res (list pv) :=
                    match es, l with
                    | [], _ => Ok []
                    | _ :: _, [] => Exn XIndexError
                    | e' :: es', x :: l' => y <- pk E P x e' ;; ys <- go es' l' ;; Ok (y :: ys)
                    end) es l ;;
            Ok (VList r)
        | _ => Exn XTypeError end
    | EData c =>
        match v with
        | VObj c' fs =>
            match sfind E c with
            | None => Exn XAttributeError
            | Some k =>
                r <- (fix go (fds: list sfield) (fs: list (string * pv)) {struct fs} : res (list (pv * pv)) :=
                        match fds, fs with
                        | [], _ => Ok []
                        | _ :: _, [] => Exn XAttributeError
                        | f :: fds', (n, x) :: fs' =>
                            if String.eqb n f.(sf_name) then
                              y <- (if sfield_nullable f && is_none x then Ok VNone
                                    else pk E P x (cp false f.(sf_ty))) ;;
                              tl <- go fds' fs' ;; Ok ((VStr f.(sf_name), y) :: tl)
                            else Exn XAttributeError
                        end) k.(sc_fields) fs ;;
                Ok (VDict r)
            end
        | _ => Exn XAttributeError
        end
    end.
  Proof. destruct v, e; reflexivity. Qed.

  Lemma ref_enc_unfold v t : ref_enc E P v t =
    match t with
    | SAny | SNoneT | SIntT | SFloatT | SBoolT | SStrT => Ok v
    | SBytes _ => match v with VBytes _ b => Ok (VStr (P.(p_b64enc) b)) | _ => Exn XTypeError end
    | SLeaf _ => match v with VLeaf k w => Ok (P.(p_render) k w) | _ => Exn XAttributeError end
    | SEnum _ => match v with VEnum en mn => lift (P.(p_enum_value) en mn) | _ => Exn XAttributeError end
    | SList t' | SSet _ t' | STupleVar t' =>
        match v with
        | VList l | VTuple l | VSet _ l => r <- mapM (fun x => ref_enc E P x t') l ;; Ok (VList r)
        | _ => Exn XTypeError end
    | STupleFix ts =>
        match v with
        | VTuple l | VList l =>
            r <- (fix go (ts: list sty) (l: list pv) {struct l} : res (list pv) :=
                    match ts, l with
                    | [], _ => Ok []
                    | _ :: _, [] => Exn XIndexError
                    | t' :: ts', x :: l' => y <- ref_enc E P x t' ;; ys <- go ts' l' ;; Ok (y :: ys)
                    end) ts l ;;
            Ok (VList r)
        | _ => Exn XTypeError end
    | SDict kt vt =>
        match v with
        | VDict kvs =>
            r <- mapM (fun p => match p with (k, x) =>
                                  k' <- ref_enc E P k kt ;; x' <- ref_enc E P x vt ;; Ok (k', x') end) kvs ;;
            Ok (VDict (dict_of_pairs r))
        | _ => Exn XAttributeError end
    | SOpt t' => if is_none v then Ok VNone else ref_enc E P v t'
    | SData c =>
        match v with
        | VObj c' fs =>
            match sfind E c with
            | None => Exn XAttributeError
            | Some k =>
                r <- (fix go (fds: list sfield) (fs: list (string * pv)) {struct fs} : res (list (pv * pv)) :=
                        match fds, fs with
                        | [], _ => Ok []
                        | _ :: _, [] => Exn XAttributeError
                        | f :: fds', (n, x) :: fs' =>
                            if String.eqb n f.(sf_name) then
                              y <- (if sfield_nullable f && is_none x then Ok VNone
                                    else ref_enc E P x f.(sf_ty)) ;;
                              tl <- go fds' fs' ;; Ok ((VStr f.(sf_name), y) :: tl)
                            else Exn XAttributeError
                        end) k.(sc_fields) fs ;;
                Ok (VDict r)
            end
        | _ => Exn XAttributeError
        end
    end.
  Proof. destruct v, t; reflexivity. Qed.

  Lemma conf_unfold v t : conf E v t =
    match t with
    | SAny => true
    | SNoneT => is_none v
    | SIntT => match v with VInt _ => true | _ => false end
    | SFloatT => match v with VFloat _ => true | _ => false end
    | SBoolT => match v with VBool _ => true | _ => false end
    | SStrT => match v with VStr _ => true | _ => false end
    | SBytes m => match v with VBytes m' _ => Bool.eqb m m' | _ => false end
    | SLeaf k => match v with VLeaf k' _ => String.eqb k k' | _ => false end
    | SEnum e => match v with VEnum e' _ => String.eqb e e' | _ => false end
    | SList t' => match v with VList l => forallb (fun x => conf E x t') l | _ => false end
    | SSet fr t' => match v with VSet fr' l => Bool.eqb fr fr' && forallb (fun x => conf E x t') l | _ => false end
    | STupleVar t' => match v with VTuple l => forallb (fun x => conf E x t') l | _ => false end
    | STupleFix ts =>
        match v with
        | VTuple l =>
            (fix go (ts: list sty) (l: list pv) {struct l} : bool :=
               match ts, l with
               | [], [] => true
               | t' :: ts', x :: l' => conf E x t' && go ts' l'
               | _, _ => false end) ts l
        | _ => false end
    | SDict kt vt =>
        match v with
        | VDict kvs => nodup_keys kvs && forallb (fun p => match p with (k, x) => conf E k kt && conf E x vt end) kvs
        | _ => false end
    | SOpt t' => is_none v || conf E v t'
    | SData c =>
        match v with
        | VObj c' fs =>
            String.eqb c c' &&
            match sfind E c with
            | None => false
            | Some k =>
                (fix go (fds: list sfield) (fs: list (string * pv)) {struct fs} : bool :=
                   match fds, fs with
                   | [], [] => true
                   | f :: fds', (n, x) :: fs' =>
                       String.eqb n f.(sf_name) &&
                       ((sfield_nullable f && is_none x) || conf E x f.(sf_ty)) && go fds' fs'
                   | _, _ => false end) k.(sc_fields) fs
            end
        | _ => false end
    end.
  Proof. destruct v, t; reflexivity. Qed.

  (* element-wise list lemma used by list / set / variadic tuple *)
  Lemma pk_list_elems (l: list pv) t' :
    Forall pk_ok l -> forallb (fun x => conf E x t') l = true ->
    mapM (fun x => pk E P x (cp true t')) l = mapM (fun x => ref_enc E P x t') l.
  Proof.
    intros HF HC. apply mapM_ext_in. intros x Hx.
    apply (Forall_In _ _ HF x Hx).
    - rewrite forallb_forall in HC. apply HC. exact Hx.
    - intros Hc. discriminate.
  Qed.

  Lemma seq_copy_ok (l: list pv) t' :
    is_id (cp true t') = true -> mapM (fun x => ref_enc E P x t') l = Ok l.
  Proof. intros H. apply mapM_id. intros x _. apply is_id_cp_true. exact H. Qed.

  Theorem pk_cp_ref : forall v, pk_ok v.
  Proof.
    induction v as [ | b | z | f | s | m b | l IHl | l IHl | fr l IHl | kvs IHk | c fs IHf | e m | k w | c l IHl | tg ]
      using pv_rect'; unfold pk_ok.
    (* every case: inner induction on the type is only needed for SOpt, so destruct and recurse there *)
    all: intros t; induction t as [ | | | | | | m' | k' | e' | t' IHt | fr' t' IHt | t' IHt | ts | kt IHkt vt IHvt | t' IHt | c' ];
      intros cbn HC HG; rewrite conf_unfold in HC; rewrite ref_enc_unfold;
      try discriminate HC;
      try (cbn [cp]; rewrite pk_unfold; reflexivity).
    (* remaining goals are handled uniformly below *)
    all: try (cbn [cp]; destruct cbn;
              [ rewrite pk_unfold; cbn [is_none]; try reflexivity;
                apply IHt; [ cbn [is_none orb] in HC; exact HC | intros Hc; discriminate ]
              | cbn [is_none orb] in HC; cbn [is_none];
                apply IHt; [ exact HC | intros _ _; reflexivity ] ]).
    - (* VNone, SOpt *)
      destruct cbn; [cbn [cp]; rewrite pk_unfold; reflexivity|].
      specialize (HG eq_refl eq_refl). discriminate.
    - (* VList, SList *)
      cbn [cp]. unfold seq_expr. destruct (is_id (cp true t')) eqn:Hid; rewrite pk_unfold.
      + rewrite seq_copy_ok by exact Hid. reflexivity.
      + rewrite (pk_list_elems l t' IHl HC). reflexivity.
    - (* VTuple, STupleVar *)
      cbn [cp]. rewrite pk_unfold. rewrite (pk_list_elems l t' IHl HC). reflexivity.
    - (* VTuple, STupleFix *)
      cbn [cp]. rewrite pk_unfold. f_equal.
      clear HG. revert ts HC. induction l as [|x l IHl']; intros ts HC.
      + destruct ts; reflexivity.
      + destruct ts as [|t1 ts]; [reflexivity|]. cbn [map].
        apply andb_prop in HC. destruct HC as [Hx Hr].
        inversion IHl as [|? ? Qx Ql]; subst.
        rewrite (Qx t1 true Hx) by (intros Hc; discriminate).
        rewrite (IHl' Ql ts Hr). reflexivity.
    - (* VSet, SSet *)
      apply andb_prop in HC. destruct HC as [_ HC].
      cbn [cp]. unfold seq_expr. destruct (is_id (cp true t')); rewrite pk_unfold;
        rewrite (pk_list_elems l t' IHl HC); reflexivity.
    - (* VDict, SDict *)
      apply andb_prop in HC. destruct HC as [Hnd HC].
      assert (Hext: forall ke ve, ke = cp true kt -> ve = cp true vt ->
                mapM (fun p => match p with (k, x) => k' <- pk E P k ke ;; x' <- pk E P x ve ;; Ok (k', x') end) kvs =
                mapM (fun p => match p with (k, x) => k' <- ref_enc E P k kt ;; x' <- ref_enc E P x vt ;; Ok (k', x') end) kvs).
      { intros ke ve -> ->. apply mapM_ext_in. intros [k x] Hp.
        pose proof (Forall_In _ _ IHk (k, x) Hp) as [Qk Qx]. cbn [fst snd] in Qk, Qx.
        rewrite forallb_forall in HC. specialize (HC (k, x) Hp). cbn in HC.
        apply andb_prop in HC. destruct HC as [Ck Cx].
        rewrite (Qk kt true Ck) by (intros Hc; discriminate).
        rewrite (Qx vt true Cx) by (intros Hc; discriminate). reflexivity. }
      cbn [cp]. unfold map_expr. destruct (is_id (cp true kt) && is_id (cp true vt)) eqn:Hid; rewrite pk_unfold.
      + apply andb_prop in Hid. destruct Hid as [Hk Hv].
        rewrite mapM_pair_id.
        * cbn [bind]. rewrite dict_of_pairs_nodup by exact Hnd. reflexivity.
        * intros p _. split; apply is_id_cp_true; assumption.
      + rewrite (Hext _ _ eq_refl eq_refl). reflexivity.
    - (* VObj, SData *)
      apply andb_prop in HC. destruct HC as [_ HC].
      cbn [cp]. rewrite pk_unfold. destruct (sfind E c') as [k|]; [|reflexivity].
      f_equal. clear HG. revert HC. generalize (sc_fields k). intros fds HC. revert fds HC.
      induction fs as [|[n x] fs IHfs]; intros fds HC.
      + destruct fds; reflexivity.
      + destruct fds as [|f fds]; [reflexivity|].
        inversion IHf as [|? ? Qx Qfs]; subst. cbn [snd] in Qx.
        apply andb_prop in HC. destruct HC as [HC Hr]. apply andb_prop in HC. destruct HC as [Hn Hx].
        rewrite Hn.
        destruct (sfield_nullable f && is_none x) eqn:Hnull.
        * cbn [bind]. rewrite (IHfs Qfs fds Hr). reflexivity.
        * cbn [orb] in Hx.
          rewrite (Qx (sf_ty f) false Hx).
          -- rewrite (IHfs Qfs fds Hr). reflexivity.
          -- intros _ Hnl. unfold sfield_nullable in Hnull. rewrite Hnl in Hnull. cbn [orb andb] in Hnull. exact Hnull.
  Qed.

  (* C02 for the codec entry point: BasicEncoder(T).encode(v) *)
  Corollary encode_is_ref v t : conf E v t = true -> pk E P v (cp true t) = ref_enc E P v t.
  Proof. intros H. apply pk_cp_ref; [exact H | intros Hc; discriminate]. Qed.
End C02.

(* ------------------------------------------------------------------ *)
(* C03: the generated unpacker equals the reference decoder on every input *)
Section C03.
  Variable E : senv.
  Variable P : prims.

  Lemma none_tail_cu ts : none_tail (map (cu true) ts) = none_tail_t ts.
  Proof.
    induction ts as [|t ts IH]; [reflexivity|].
    cbn [map none_tail none_tail_t]. rewrite IH.
    destruct t as [ | | | | | | | | | | | | [|t1 ts1] | | t' | ]; reflexivity.
  Qed.

  Lemma uk_str_ref t : forall cbn s, uk_str E P (cu cbn t) s = ref_dec_str E P t s.
  Proof.
    induction t as [ | | | | | | m' | k' | e' | t' IHt | fr' t' IHt | t' IHt | ts IHts | kt IHkt vt IHvt | t' IHt | c' ]
      using sty_ind'; intros cbn s; cbn [cu uk_str ref_dec_str]; try reflexivity.
    - rewrite (mapM_ext_in _ (ref_dec_str E P t')); [reflexivity | intros x _; apply IHt].
    - rewrite (mapM_ext_in _ (ref_dec_str E P t')); [reflexivity | intros x _; apply IHt].
    - rewrite (mapM_ext_in _ (ref_dec_str E P t')); [reflexivity | intros x _; apply IHt].
    - f_equal. generalize (utf8_chars s) as l. induction IHts as [|t1 ts H1 Hts IH]; intros l.
      + reflexivity.
      + cbn [map]. destruct l as [|x l]; [exact (none_tail_cu (t1 :: ts))|]. rewrite H1. rewrite IH. reflexivity.
    - destruct cbn; cbn [uk_str]; apply IHt.
  Qed.

  Lemma uk_unfold d u : uk E P d u =
      match u with
      | UId => Ok d
      | UScalar s => coerce_s P s d
      | ULeaf k => w <- lift (P.(p_parse) k d) ;; Ok (VLeaf k w)
      | UB64 m => b <- lift (P.(p_b64dec) d) ;; Ok (VBytes m b)
      | UEnum e => mn <- lift (P.(p_enum_of) e d) ;; Ok (VEnum e mn)
      | UOpt u' => if is_none d then Ok VNone else uk E P d u'
      | UListComp u' =>
          match d with
          | VList l | VTuple l | VSet _ l => r <- mapM (fun x => uk E P x u') l ;; Ok (VList r)
          | VDict kvs => r <- mapM (fun p => match p with (k, _) => uk E P k u' end) kvs ;; Ok (VList r)
          | VStr s => uk_str E P u s
          | _ => Exn XTypeError end
      | USetComp fr u' =>
          match d with
          | VList l | VTuple l | VSet _ l =>
              r <- mapM (fun x => uk E P x u') l ;;
              if forallb hashable r then Ok (VSet fr (set_of_list r)) else Exn XTypeError
          | VDict kvs => r <- mapM (fun p => match p with (k, _) => uk E P k u' end) kvs ;;
              if forallb hashable r then Ok (VSet fr (set_of_list r)) else Exn XTypeError
          | VStr s => uk_str E P u s
          | _ => Exn XTypeError end
      | UTupleVar u' =>
          match d with
          | VList l | VTuple l | VSet _ l => r <- mapM (fun x => uk E P x u') l ;; Ok (VTuple r)
          | VDict kvs => r <- mapM (fun p => match p with (k, _) => uk E P k u' end) kvs ;; Ok (VTuple r)
          | VStr s => uk_str E P u s
          | _ => Exn XTypeError end
      | UTupleFix us =>
          match d with
          | VList l | VTuple l =>
              r <- (fix go (us: list pdec) (l: list pv) {struct l} : res (list pv) :=
                      match us, l with
                      | [], _ => Ok []                       (* surplus items are ignored *)
                      | _ :: _, [] => none_tail us
                      | u' :: us', x :: l' => y <- uk E P x u' ;; ys <- go us' l' ;; Ok (y :: ys)
                      end) us l ;;
              Ok (VTuple r)
          | VStr s => uk_str E P u s
          | _ => r <- none_tail us ;; Ok (VTuple r)     (* only constant positions never index the value *)
          end
      | UDictComp ku vu =>
          match d with
          | VDict kvs =>
              r <- mapM (fun p => match p with (k, x) =>
                                    k' <- uk E P k ku ;; x' <- uk E P x vu ;;
                                    if hashable k' then Ok (k', x') else Exn XTypeError end) kvs ;;
              Ok (VDict (dict_of_pairs r))
          | _ => Exn XAttributeError end
      | UData c =>
          match sfind E c with
          | None => Exn XAttributeError
          | Some k =>
              match d with
              | VDict kvs =>
                  (* closures (key, (raw value, decoder of that entry)): the lookup happens on
                     them so that the recursion stays structural on the input *)
                  let entries : list (pv * (pv * (pdec -> res pv))) :=
                      map (fun p => match p with (key, x) => (key, (x, uk E P x)) end) kvs in
                  r <- (fix go (fds: list sfield) : res (list (string * pv)) :=
                          match fds with
                          | [] => Ok []
                          | f :: rest =>
                              y <- match (fix look (es: list (pv * (pv * (pdec -> res pv)))) : option (pv * (pdec -> res pv)) :=
                                            match es with
                                            | [] => None
                                            | (key, xd) :: er =>
                                                if py_eq key (VStr f.(sf_name)) then Some xd else look er
                                            end) entries with
                                   | Some (x, dx) =>
                                       (* nullable field: explicit null gives None without calling the unpacker *)
                                       if is_none x && sfield_nullable f then Ok VNone else dx (cu false f.(sf_ty))
                                   | None => match f.(sf_default) with
                                             | Some dv => Ok dv
                                             | None => Exn (XMissingField f.(sf_name) c) end
                                   end ;;
                              tl <- go rest ;; Ok ((f.(sf_name), y) :: tl)
                          end) k.(sc_fields) ;;
                  Ok (VObj c r)
              | _ => Exn XValueError               (* non-mapping argument *)
              end
          end
      end.
  Proof. destruct d, u; reflexivity. Qed.

  Lemma ref_dec_unfold d t : ref_dec E P d t =
      match t with
      | SAny => Ok d
      | SNoneT => Ok VNone
      | SIntT => coerce_s P SInt d
      | SFloatT => coerce_s P SFloat d
      | SBoolT => coerce_s P SBool d
      | SStrT => coerce_s P SStr d
      | SBytes m => b <- lift (P.(p_b64dec) d) ;; Ok (VBytes m b)
      | SLeaf k => w <- lift (P.(p_parse) k d) ;; Ok (VLeaf k w)
      | SEnum e => mn <- lift (P.(p_enum_of) e d) ;; Ok (VEnum e mn)
      | SList t' =>
          match d with
          | VList l | VTuple l | VSet _ l => r <- mapM (fun x => ref_dec E P x t') l ;; Ok (VList r)
          | VDict kvs => r <- mapM (fun p => match p with (k, _) => ref_dec E P k t' end) kvs ;; Ok (VList r)
          | VStr s => ref_dec_str E P t s
          | _ => Exn XTypeError end
      | SSet fr t' =>
          match d with
          | VList l | VTuple l | VSet _ l =>
              r <- mapM (fun x => ref_dec E P x t') l ;;
              if forallb hashable r then Ok (VSet fr (set_of_list r)) else Exn XTypeError
          | VDict kvs => r <- mapM (fun p => match p with (k, _) => ref_dec E P k t' end) kvs ;;
              if forallb hashable r then Ok (VSet fr (set_of_list r)) else Exn XTypeError
          | VStr s => ref_dec_str E P t s
          | _ => Exn XTypeError end
      | STupleVar t' =>
          match d with
          | VList l | VTuple l | VSet _ l => r <- mapM (fun x => ref_dec E P x t') l ;; Ok (VTuple r)
          | VDict kvs => r <- mapM (fun p => match p with (k, _) => ref_dec E P k t' end) kvs ;; Ok (VTuple r)
          | VStr s => ref_dec_str E P t s
          | _ => Exn XTypeError end
      | STupleFix ts =>
          match d with
          | VList l | VTuple l =>
              r <- (fix go (ts: list sty) (l: list pv) {struct l} : res (list pv) :=
                      match ts, l with
                      | [], _ => Ok []
                      | _ :: _, [] => none_tail_t ts
                      | t' :: ts', x :: l' => y <- ref_dec E P x t' ;; ys <- go ts' l' ;; Ok (y :: ys)
                      end) ts l ;;
              Ok (VTuple r)
          | VStr s => ref_dec_str E P t s
          | _ => r <- none_tail_t ts ;; Ok (VTuple r)
          end
      | SDict kt vt =>
          match d with
          | VDict kvs =>
              r <- mapM (fun p => match p with (k, x) =>
                                    k' <- ref_dec E P k kt ;; x' <- ref_dec E P x vt ;;
                                    if hashable k' then Ok (k', x') else Exn XTypeError end) kvs ;;
              Ok (VDict (dict_of_pairs r))
          | _ => Exn XAttributeError end
      | SOpt t' => if is_none d then Ok VNone else ref_dec E P d t'
      | SData c =>
          match sfind E c with
          | None => Exn XAttributeError
          | Some k =>
              match d with
              | VDict kvs =>
                  let entries : list (pv * (pv * (sty -> res pv))) :=
                      map (fun p => match p with (key, x) => (key, (x, ref_dec E P x)) end) kvs in
                  r <- (fix go (fds: list sfield) : res (list (string * pv)) :=
                          match fds with
                          | [] => Ok []
                          | f :: rest =>
                              y <- match (fix look (es: list (pv * (pv * (sty -> res pv)))) : option (pv * (sty -> res pv)) :=
                                            match es with
                                            | [] => None
                                            | (key, xd) :: er =>
                                                if py_eq key (VStr f.(sf_name)) then Some xd else look er
                                            end) entries with
                                   | Some (x, dx) =>
                                       if is_none x && sfield_nullable f then Ok VNone else dx f.(sf_ty)
                                   | None => match f.(sf_default) with
                                             | Some dv => Ok dv
                                             | None => Exn (XMissingField f.(sf_name) c) end
                                   end ;;
                              tl <- go rest ;; Ok ((f.(sf_name), y) :: tl)
                          end) k.(sc_fields) ;;
                  Ok (VObj c r)
              | VStr s => ref_dec_str E P t s
              | _ => Exn XValueError
              end
          end
      end.
  Proof. destruct d, t; reflexivity. Qed.

  Definition uk_ok (d: pv) : Prop :=
    forall t cbn, none_guard cbn t d -> uk E P d (cu cbn t) = ref_dec E P d t.

  Theorem uk_cu_ref : forall d, uk_ok d.
  Proof.
    induction d as [ | b | z | f | s | m b | l IHl | l IHl | fr l IHl | kvs IHk | c fs IHf | e m | k w | c l IHl | tg ]
      using pv_rect'; unfold uk_ok.
    all: intros t; induction t as [ | | | | | | m' | k' | e' | t' IHt | fr' t' IHt | t' IHt | ts | kt IHkt vt IHvt | t' IHt | c' ];
      intros cbn HG; cbn [cu]; try (rewrite uk_unfold, ref_dec_unfold; reflexivity).
    (* Optional *)
    all: try solve [ destruct cbn;
      [ rewrite uk_unfold, ref_dec_unfold; cbn [is_none];
        first [ reflexivity | apply IHt; intros Hc; discriminate Hc ]
      | pose proof (HG eq_refl eq_refl) as Hn; rewrite ref_dec_unfold; cbn [is_none] in *;
        first [ discriminate Hn | apply IHt; intros _ _; reflexivity ] ] ].
    (* a str input: everything is a function of the decoder *)
    all: try solve [ rewrite uk_unfold, ref_dec_unfold;
                     first [ exact (uk_str_ref (SList t') true s)
                           | exact (uk_str_ref (SSet fr' t') true s)
                           | exact (uk_str_ref (STupleVar t') true s)
                           | exact (uk_str_ref (STupleFix ts) true s) ] ].
    (* fixed tuple given a non-sequence *)
    all: try solve [ rewrite uk_unfold, ref_dec_unfold; rewrite (none_tail_cu ts); reflexivity ].
    (* homogeneous containers over list-like inputs *)
    all: try solve [ rewrite uk_unfold, ref_dec_unfold;
                     rewrite (mapM_ext_in _ (fun x => ref_dec E P x t'));
                     [ reflexivity | intros x Hx; apply (Forall_In _ _ IHl x Hx); intros Hc; discriminate Hc ] ].
    - (* VStr, SData *)
      rewrite uk_unfold, ref_dec_unfold. cbn [ref_dec_str].
      destruct (sfind E c') as [k|]; reflexivity.
    - (* VList, STupleFix *)
      rewrite uk_unfold, ref_dec_unfold. f_equal.
      clear HG. revert ts. induction l as [|x l IHl']; intros ts.
      + destruct ts as [|t0 ts]; [reflexivity | exact (none_tail_cu (t0 :: ts))].
      + destruct ts as [|t1 ts]; [reflexivity|]. cbn [map].
        inversion IHl as [|? ? Qx Ql]; subst.
        rewrite (Qx t1 true) by (intros Hc; discriminate Hc).
        rewrite (IHl' Ql ts). reflexivity.
    - (* VTuple, STupleFix *)
      rewrite uk_unfold, ref_dec_unfold. f_equal.
      clear HG. revert ts. induction l as [|x l IHl']; intros ts.
      + destruct ts as [|t0 ts]; [reflexivity | exact (none_tail_cu (t0 :: ts))].
      + destruct ts as [|t1 ts]; [reflexivity|]. cbn [map].
        inversion IHl as [|? ? Qx Ql]; subst.
        rewrite (Qx t1 true) by (intros Hc; discriminate Hc).
        rewrite (IHl' Ql ts). reflexivity.
    - (* VDict iterated by a list decoder: its keys *)
      rewrite uk_unfold, ref_dec_unfold.
      rewrite (mapM_ext_in _ (fun p : pv * pv => match p with (k, _) => ref_dec E P k t' end)); [reflexivity|].
      intros [k x] Hp. apply (proj1 (Forall_In _ _ IHk (k, x) Hp)). intros Hc; discriminate Hc.
    - rewrite uk_unfold, ref_dec_unfold.
      rewrite (mapM_ext_in _ (fun p : pv * pv => match p with (k, _) => ref_dec E P k t' end)); [reflexivity|].
      intros [k x] Hp. apply (proj1 (Forall_In _ _ IHk (k, x) Hp)). intros Hc; discriminate Hc.
    - rewrite uk_unfold, ref_dec_unfold.
      rewrite (mapM_ext_in _ (fun p : pv * pv => match p with (k, _) => ref_dec E P k t' end)); [reflexivity|].
      intros [k x] Hp. apply (proj1 (Forall_In _ _ IHk (k, x) Hp)). intros Hc; discriminate Hc.
    - (* VDict, SDict *)
      rewrite uk_unfold, ref_dec_unfold.
      rewrite (mapM_ext_in _ (fun p : pv * pv => match p with (k, x) =>
                 k' <- ref_dec E P k kt ;; x' <- ref_dec E P x vt ;;
                 if hashable k' then Ok (k', x') else Exn XTypeError end)); [reflexivity|].
      intros [k x] Hp. destruct (Forall_In _ _ IHk (k, x) Hp) as [Qk Qx]. cbn [fst snd] in Qk, Qx.
      rewrite (Qk kt true) by (intros Hc; discriminate Hc).
      rewrite (Qx vt true) by (intros Hc; discriminate Hc). reflexivity.
    - (* VDict, SData: the field loop *)
      rewrite uk_unfold, ref_dec_unfold.
      destruct (sfind E c') as [k|]; [|reflexivity].
      cbv zeta. f_equal. clear HG. induction (sc_fields k) as [|f fds IHfds]; [reflexivity|].
      rewrite IHfds. f_equal.
      (* the entry found for this field is the same on both sides, decoded by related closures *)
      clear IHfds.
      induction kvs as [|[key x] kvs IHkvs]; [reflexivity|].
      cbn [map]. destruct (py_eq key (VStr (sf_name f))).
      + inversion IHk as [|? ? [_ Qx] _]; subst. cbn [snd] in Qx.
        destruct (is_none x && sfield_nullable f) eqn:Hn; [reflexivity|].
        apply Qx. intros _ Hnl. unfold sfield_nullable in Hn. rewrite Hnl in Hn. cbn [orb] in Hn.
        rewrite andb_true_r in Hn. exact Hn.
      + apply IHkvs. inversion IHk; assumption.
  Qed.

  (* C03 for the codec entry point: BasicDecoder(T).decode(d), every input d *)
  Corollary decode_is_ref d t : uk E P d (cu true t) = ref_dec E P d t.
  Proof. apply uk_cu_ref. intros Hc; discriminate Hc. Qed.
End C03.
