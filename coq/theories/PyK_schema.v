(* Kernel primitives for K9 (context handling of mashumaro.jsonschema.builder):
   str.rstrip("/") and f-string concatenation. *)
From Coq Require Import List String Ascii ZArith Bool.
From Verif Require Import Regex PyK.
Import ListNotations.
Open Scope string_scope.

Definition slash : ascii := "/"%char.

(* s.rstrip("/"): drop every trailing slash *)
Fixpoint rstrip_slash (s: string) : string :=
  match s with
  | EmptyString => EmptyString
  | String c r =>
      match rstrip_slash r with
      | EmptyString => if Ascii.eqb c slash then EmptyString else String c EmptyString
      | r' => String c r'
      end
  end.

Definition k_rstrip_slash (v: kv) : res kv :=
  match v with KStr s => Ok (KStr (rstrip_slash s)) | _ => Raise AttributeError end.

(* f"{a}{b}..." over strings (format() of a str is the str itself) *)
Fixpoint k_fstr (parts: list kv) : res kv :=
  match parts with
  | [] => Ok (KStr "")
  | KStr s :: r => match k_fstr r with Ok (KStr t) => Ok (KStr (s ++ t)) | Ok _ => Raise TypeError | Raise e => Raise e end
  | _ => Raise TypeError
  end.

Fixpoint ends_with_slash (s: string) : bool :=
  match s with
  | EmptyString => false
  | String c EmptyString => Ascii.eqb c slash
  | String _ r => ends_with_slash r
  end.
