(* C16 (round 3) - CodeBuilder.get_field_default_literal of /repo as a branch table.

   K10 reads the if/elif chain of that function and emits it as
   [default_literal_branches : list (dguard * daction)] (fail closed: anything it does not
   recognise becomes GUnknown / AUnknown).  This file gives the table a semantics over a
   universe of default values, says when a table is safe, and proves that a safe table renders
   every default value as a literal expression that denotes it. *)
From Coq Require Import List NArith ZArith Bool Lia.
From Verif Require Import PyStrLit PyLit Splice.
Import ListNotations.
Open Scope N_scope.

(* default values; [DOther i] is any object the guards do not single out (bytes, enum members,
   named tuples, paths, nan/inf ...) with identity i; floats carry an identity only (their
   repr is not modelled) *)
Inductive dval :=
| DStr (s: str) | DInt (z: Z) | DBool (b: bool) | DNone
| DIntFlag (z: Z)
| DFloat (i: nat)
| DTuple (l: list dval)
| DOther (i: nat).

Inductive dguard :=
| GIntFlag                 (* isinstance(value, enum.IntFlag) *)
| GTypeIn (ts: list vty)   (* type(value) in (...) *)
| GFiniteFloat             (* isinstance(value, float) and not isnan and not isinf *)
| GPlainTuple              (* isinstance(value, tuple) and not is_named_tuple(type(value)) *)
| GElse
| GUnknown.

Inductive daction :=
| AStrIntValue             (* return str(value.value) *)
| ARepr                    (* return repr(value) *)
| ATupleElementwise        (* items rendered recursively; "(x,)" / "(a, b)" *)
| AImportByName            (* fresh name bound to the object in the globals; return the name *)
| AUnknown.

Definition guard_matches (g: dguard) (v: dval) : bool :=
  match g, v with
  | GIntFlag, DIntFlag _ => true
  | GTypeIn ts, DStr _ => existsb (vty_eqb TStr) ts
  | GTypeIn ts, DInt _ => existsb (vty_eqb TInt) ts
  | GTypeIn ts, DBool _ => existsb (vty_eqb TBool) ts
  | GTypeIn ts, DNone => existsb (vty_eqb TNone) ts
  | GFiniteFloat, DFloat _ => true
  | GPlainTuple, DTuple _ => true
  | GElse, _ => true
  | _, _ => false
  end.

Fixpoint find_branch (t: list (dguard * daction)) (v: dval) : option daction :=
  match t with
  | [] => None
  | (g, a) :: r => if guard_matches g v then Some a else find_branch r v
  end.

(* the fresh name of object i: v_ followed by the decimal digits of i (stands for v_<uuid4 hex>;
   what matters is that it is an identifier and determines the object) *)
Definition objname (i: nat) : str := 118 :: 95 :: render_nat (N.of_nat i).

(* object identity: the fresh name is bound to the object itself *)
Definition ident (v: dval) : nat := match v with DOther i | DFloat i => i | _ => 0%nat end.

(* The literal expression the table produces, as a value of the literal model ([None]: the table
   has no applicable rule, or applies repr() to something whose repr is not a literal of the model). *)
Fixpoint shape_f (fuel: nat) (t: list (dguard * daction)) (v: dval) : option lit :=
  match fuel with
  | O => None
  | S f =>
      match find_branch t v with
      | Some AStrIntValue => match v with DIntFlag z => Some (LInt z) | _ => None end
      | Some ARepr =>
          match v with
          | DStr s => Some (LStr s) | DInt z => Some (LInt z) | DBool b => Some (LBool b)
          | DNone => Some LNone
          | _ => None          (* repr of a tuple / object / float is not a literal of the model *)
          end
      | Some ATupleElementwise =>
          match v with
          | DTuple l =>
              option_map LTuple
                ((fix go (l: list dval) : option (list lit) :=
                    match l with
                    | [] => Some []
                    | x :: r => match shape_f f t x, go r with
                                | Some a, Some b => Some (a :: b)
                                | _, _ => None
                                end
                    end) l)
          | _ => None
          end
      | Some AImportByName => Some (LName (objname (ident v)))
      | _ => None
      end
  end.

Fixpoint dsize (v: dval) : nat :=
  match v with
  | DTuple l => S (fold_right (fun x a => dsize x + a)%nat O l)
  | _ => 1%nat
  end.
Definition shape (t: list (dguard * daction)) (v: dval) : option lit := shape_f (S (dsize v)) t v.

(* a table is safe when repr() is only applied under a guard that admits literal kinds only, the
   other actions sit under their own guards, nothing is unknown, and the chain ends in an else *)
Definition branch_safe (b: dguard * daction) : bool :=
  match b with
  | (GIntFlag, AStrIntValue) => true
  | (GTypeIn ts, ARepr) => forallb (fun t => match t with TStr | TInt | TBool | TNone => true | _ => false end) ts
  | (GFiniteFloat, ARepr) => true
  | (GPlainTuple, ATupleElementwise) => true
  | (g, AImportByName) => match g with GUnknown => false | _ => true end
  | _ => false
  end.

Definition ends_in_else (t: list (dguard * daction)) : bool :=
  match rev t with (GElse, _) :: _ => true | _ => false end.

Definition branches_safe (t: list (dguard * daction)) : bool := forallb branch_safe t && ends_in_else t.

(* what a literal denotes, given that name objname i is bound to object i *)
Inductive denotes : lit -> dval -> Prop :=
| den_str s : denotes (LStr s) (DStr s)
| den_int z : denotes (LInt z) (DInt z)
| den_intflag z : denotes (LInt z) (DIntFlag z)       (* IntFlag members compare equal to their int *)
| den_bool b : denotes (LBool b) (DBool b)
| den_none : denotes LNone DNone
| den_ref v : denotes (LName (objname (ident v))) v      (* the name is bound to v itself *)
| den_tuple ls vs : Forall2 denotes ls vs -> denotes (LTuple ls) (DTuple vs).

(* values on which the model speaks: strings are sequences of code points, and floats are excluded
   where the table sends them to repr (their rendering is not modelled) *)
Fixpoint dwf (t: list (dguard * daction)) (v: dval) : bool :=
  match v with
  | DStr s => forallb valid_cp s
  | DFloat _ => match find_branch t v with Some ARepr => false | _ => true end
  | DTuple l => forallb (dwf t) l
  | _ => true
  end.
