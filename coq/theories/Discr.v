(* C12 - model of mashumaro's discriminated-union dispatch as a state machine.

   Source modelled (mashumaro 3.15, /repo):
     mashumaro/core/meta/types/unpack.py  DiscriminatedUnionUnpackerBuilder._add_body (l.359-469),
                                          _get_variant_names (l.322-336), _add_register_variant_tags (l.530-541),
                                          SubtypeUnpackerBuilder (l.544-549)
     mashumaro/core/meta/code/builder.py  class-level wiring (l.388-411): include_supertypes is dropped
     mashumaro/core/meta/helpers.py       iter_all_subclasses (l.735-738)
     mashumaro/types.py                   Discriminator.__post_init__

   State  = classes in definition order (class id = position) + one registry (tag -> class) per
            annotation site / Config root, created empty.
   Ops    = Define parents own_tags(per key name) tagger_tags own_required_fields | Decode site present_keys present_fields.
   This file holds only executable definitions (it must keep running when a proof breaks). *)
From Coq Require Import List Arith Bool.
Import ListNotations.

Definition tag := nat.

(* A class as the dispatcher sees it. *)
Record cls := Cls {
  c_parents : list nat;   (* ids of the direct bases inside the modelled forest, in declaration order *)
  c_tags    : list (nat * tag);   (* OWN __dict__ of the class: discriminator field name (id) -> tag value; one entry per name at most *)
  c_ttags   : list tag;   (* result of variant_tagger_fn(cls) (a list registers every element; a bare value = singleton) *)
  c_req     : list nat    (* all required (default-less) init fields incl. inherited ones: abstract acceptance data *)
}.

Definition dummy_cls : cls := Cls [] [] [] [].

Definition memb (x: nat) (l: list nat) : bool := existsb (Nat.eqb x) l.

(* iter_all_subclasses(c): depth first, cls.__subclasses__() order = definition order.
   [l] is a suffix of the class list and [i] the id of its head.  A class can only be a
   subclass of classes defined before it, so scanning the suffix after [i] for the
   children of [i] is the recursive call of the Python generator.  With multiple
   inheritance a class is yielded once per path, exactly like the Python code. *)
Fixpoint walk (c: nat) (l: list cls) (i: nat) : list nat :=
  match l with
  | [] => []
  | d :: r =>
      if memb c (c_parents d)
      then i :: (walk i r (S i) ++ walk c r (S i))
      else walk c r (S i)
  end.

Definition all_sub (cl: list cls) (c: nat) : list nat := walk c cl 0.

(* One annotation site (Annotated field of a holder, codec) or one Config root. *)
Record site := Site {
  s_bases  : list nat;   (* the annotated class, or the members of the annotated Union *)
  s_sub    : bool;       (* include_subtypes *)
  s_sup    : bool;       (* include_supertypes *)
  s_field  : bool;       (* Discriminator.field is not None *)
  s_tagger : bool;       (* variant_tagger_fn is not None *)
  s_config : bool;       (* class-level (Config.discriminator) wiring; then s_bases = [the declaring class] *)
  s_codec  : bool;       (* site of a codec (non-nailed builder): nested class-level registries live on the codec *)
  s_fid    : nat         (* Discriminator.field: id of the key name (dispatchers of one hierarchy may use different keys) *)
}.

(* builder.py:396-401 rebuilds the Discriminator without include_supertypes *)
Definition eff_sup (s: site) : bool := s_sup s && negb (s_config s).

(* Discriminator.__post_init__ / builder.py:390-394 raise ValueError otherwise *)
Definition site_ok (s: site) (n: nat) : bool :=
  (s_sub s || s_sup s) && implb (s_config s) (s_sub s)
  && negb (match s_bases s with [] => true | _ => false end)
  && forallb (fun b => b <? n) (s_bases s).

(* _get_variant_names: subclasses of every base first, then the bases themselves *)
Definition variants (cl: list cls) (s: site) : list nat :=
  (if s_sub s then flat_map (all_sub cl) (s_bases s) else [])
  ++ (if eff_sup s then s_bases s else []).

(* dict lookup by key name *)
Fixpoint assoc (f: nat) (l: list (nat * tag)) : option tag :=
  match l with
  | [] => None
  | (g, t) :: r => if Nat.eqb f g then Some t else assoc f r
  end.

Definition tags_of (s: site) (k: cls) : list tag :=
  if s_tagger s then c_ttags k
  else match assoc (s_fid s) (c_tags k) with Some t => [t] | None => [] end.

(* registry = Python dict tag -> class; newest binding first, lookup takes the first hit *)
Definition reg := list (tag * nat).

Fixpoint reg_get (t: tag) (r: reg) : option nat :=
  match r with
  | [] => None
  | (t', c) :: r' => if Nat.eqb t t' then Some c else reg_get t r'
  end.

Definition reg_add_variant (cl: list cls) (s: site) (r: reg) (v: nat) : reg :=
  fold_left (fun r t => (t, v) :: r) (tags_of s (nth v cl dummy_cls)) r.

(* the `except (KeyError, AttributeError)` block: for variant in variants: variants_map[tag] = variant *)
Definition refill (cl: list cls) (s: site) (r: reg) : reg :=
  fold_left (reg_add_variant cl s) (variants cl s) r.

(* Registry keys: (i, 0) = registry of site i (for a Config root: the class attribute
   __mashumaro_subtype_variants__ in the root's own __dict__); (i, S c) = registry of the class-level
   discriminator of class c as compiled *inside codec i* (a non-nailed builder keeps it on its own
   AttrsHolder, not on the class). *)
Definition rkey := (nat * nat)%type.
Definition rkey_eqb (a b: rkey) : bool := Nat.eqb (fst a) (fst b) && Nat.eqb (snd a) (snd b).

Record st := St { classes : list cls; regs : list (rkey * reg) }.

Fixpoint get_reg (k: rkey) (rs: list (rkey * reg)) : reg :=
  match rs with
  | [] => []
  | (j, r) :: rs' => if rkey_eqb k j then r else get_reg k rs'
  end.

(* the class-level discriminator declared by class c itself, if any: the Config site whose base is c *)
Definition is_config_of (c: nat) (s: site) : bool :=
  s_config s && match s_bases s with [b] => Nat.eqb b c | _ => false end.

Fixpoint find_idx {A} (p: A -> bool) (l: list A) (i: nat) : option (nat * A) :=
  match l with
  | [] => None
  | a :: r => if p a then Some (i, a) else find_idx p r (S i)
  end.

(* variants whose unpacker is (re)built by a refill: those that registered a tag (every one with a tagger) *)
Definition built (cl: list cls) (s: site) : list nat :=
  if s_tagger s then variants cl s
  else filter (fun v => match assoc (s_fid s) (c_tags (nth v cl dummy_cls)) with None => false | _ => true end) (variants cl s).

Definition reset_nested (top: nat) (vs: list nat) (rs: list (rkey * reg)) : list (rkey * reg) :=
  fold_left (fun rs v => ((top, S v), []) :: rs) vs rs.

Definition config_site (sites: list site) (c: nat) : option (nat * site) := find_idx (is_config_of c) sites 0.

Fixpoint find_map {A B} (f: A -> option B) (l: list A) : option B :=
  match l with
  | [] => None
  | a :: r => match f a with Some b => Some b | None => find_map f r end
  end.

Inductive op :=
| Define (parents: list nat) (own_tags: list (nat * tag)) (tagger_tags: list tag) (own_req: list nat)
| Decode (site_id: nat) (keys: list (nat * tag)) (present: list nat).
(* [keys]: the discriminator keys PRESENT in the input with their values (a key present with a falsy value or None
   is present); [present]: the other fields present (no-field mode acceptance) *)

Inductive outcome := OInst (c: nat) | OMissing | ONotFound | OBadSite.

Definition st0 : st := St [] [].

Section Step.
  (* does class k accept an input with the given present fields? (abstract in the theorems) *)
  Variable acc : cls -> list nat -> bool.
  Variable sites : list site.

  Definition define (cl: list cls) (ps: list nat) (tg: list (nat * tag)) (tu rq: list nat) : cls :=
    let ps' := filter (fun p => p <? length cl) ps in
    Cls ps' tg tu (rq ++ flat_map (fun p => c_req (nth p cl dummy_cls)) ps').

  (* Generated dispatcher with registry key k and settings s.  `registry[tag].from_dict(value)` enters the
     chosen class: a class that declares its own class-level discriminator is a dispatcher again
     (over its strict subclasses, with its own registry); any other class yields an instance. *)
  Fixpoint dispatch (fuel: nat) (top: nat) (codec: bool) (k: rkey) (s: site) (x: st) (inp: list (nat * tag)) (t: tag) : st * outcome :=
    match fuel with
    | 0 => (x, OBadSite)
    | S f =>
        if negb (site_ok s (length (classes x))) then (x, OBadSite) else
        let enter (x: st) (c: nat) : st * outcome :=
          match config_site sites c with
          | None => (x, OInst c)
          | Some (j, sj) =>
              if s_field sj then
                match assoc (s_fid sj) inp with
                | None => (x, OMissing)  (* inner `value[field]` -> MissingDiscriminatorError: a LookupError but NOT a KeyError,
                                            so the outer `except (KeyError, AttributeError)` lets it through *)
                | Some t' => dispatch f top codec (if codec then (top, S c) else (j, 0)) sj x inp t'
                end
              else (x, ONotFound)        (* not generated: a no-field dispatcher below a field one *)
          end in
        let r := get_reg k (regs x) in
        match reg_get t r with
        | Some c => enter x c                                       (* try: return registry[tag].from_dict(value) *)
        | None =>
            let r' := refill (classes x) s r in                     (* except KeyError: refill ... *)
            (* a codec compiles every registered variant afresh on each refill (new AttrsHolder):
               the registries of their nested class-level dispatchers start empty again *)
            let rs := if codec then reset_nested top (built (classes x) s) (regs x) else regs x in
            let x' := St (classes x) ((k, r') :: rs) in
            match reg_get t r' with
            | Some c => enter x' c                                  (* ... retry *)
            | None => (x', ONotFound)                               (* SuitableVariantNotFoundError *)
            end
        end
    end.

  (* no-field mode: `variant.from_dict(value)` of a class with its own (no-field) class-level
     discriminator succeeds iff one of its strict subclasses does, and returns that instance *)
  Fixpoint try_cls (fuel: nat) (cl: list cls) (present: list nat) (c: nat) : option nat :=
    match fuel with
    | 0 => None
    | S f =>
        match config_site sites c with
        | None => if acc (nth c cl dummy_cls) present then Some c else None
        | Some (_, sj) =>
            if s_field sj then None      (* not generated: MissingDiscriminatorError is swallowed by `except Exception` *)
            else if negb (site_ok sj (length cl)) then None
            else find_map (try_cls f cl present) (variants cl sj)
        end
    end.

  Definition decode_nofield (s: site) (x: st) (present: list nat) : outcome :=
    match find_map (try_cls (S (length (classes x))) (classes x) present) (variants (classes x) s) with
    | Some c => OInst c
    | None => ONotFound
    end.

  Definition step (x: st) (o: op) : st * option outcome :=
    match o with
    | Define ps tg tu rq => (St (classes x ++ [define (classes x) ps tg tu rq]) (regs x), None)
    | Decode i inp present =>
        match nth_error sites i with
        | None => (x, Some OBadSite)
        | Some s =>
            if negb (site_ok s (length (classes x))) then (x, Some OBadSite)
            else if s_field s then
              match assoc (s_fid s) inp with
              | None => (x, Some OMissing)                    (* value[field] -> KeyError *)
              | Some t => let (x', o) := dispatch (S (S (length (classes x)))) i (s_codec s) (i, 0) s x inp t in (x', Some o)
              end
            else (x, Some (decode_nofield s x present))
        end
    end.

  Definition final (ops: list op) : st := fold_left (fun x o => fst (step x o)) ops st0.

  (* one output per op, aligned with the op list *)
  Fixpoint trace (x: st) (ops: list op) : list (option outcome) :=
    match ops with
    | [] => []
    | o :: r => let (x', out) := step x o in out :: trace x' r
    end.

  Definition run (ops: list op) : list (option outcome) := trace st0 ops.
End Step.

(* classes defined by a history: independent of the Decode events and of the sites *)
Definition defs (ops: list op) : list cls :=
  fold_left (fun cl o => match o with
                         | Define ps tg tu rq => cl ++ [define cl ps tg tu rq]
                         | Decode _ _ _ => cl end) ops [].

(* concrete acceptance used by the correspondence: every required field is present *)
Definition acc_req (k: cls) (present: list nat) : bool := forallb (fun f => memb f present) (c_req k).

(* computable domain predicate: at most one eligible class carries tag t *)
Definition carriers (cl: list cls) (s: site) (t: tag) : list nat :=
  filter (fun c => memb t (tags_of s (nth c cl dummy_cls))) (nodup Nat.eq_dec (variants cl s)).

Definition tag_uniqueb (cl: list cls) (s: site) (t: tag) : bool := length (carriers cl s t) <=? 1.

(* ---- comparison helpers for harness-generated case files ---- *)
Definition outcome_eqb (a b: outcome) : bool :=
  match a, b with
  | OInst x, OInst y => Nat.eqb x y
  | OMissing, OMissing | ONotFound, ONotFound | OBadSite, OBadSite => true
  | _, _ => false
  end.

Definition oout_eqb (a b: option outcome) : bool :=
  match a, b with
  | Some x, Some y => outcome_eqb x y
  | None, None => true
  | _, _ => false
  end.

Fixpoint list_eqb {A} (e: A -> A -> bool) (a b: list A) : bool :=
  match a, b with
  | [], [] => true
  | x :: a', y :: b' => e x y && list_eqb e a' b'
  | _, _ => false
  end.

(* uniqueness flag of every Decode event of a field site, at the time of the event *)
Fixpoint uniq_flags (sites: list site) (cl: list cls) (ops: list op) : list (option bool) :=
  match ops with
  | [] => []
  | Define ps tg tu rq :: r => None :: uniq_flags sites (cl ++ [define cl ps tg tu rq]) r
  | Decode i inp _ :: r =>
      (match nth_error sites i with
       | Some s => match assoc (s_fid s) inp with
                   | Some t => if s_field s then Some (tag_uniqueb cl s t) else None
                   | None => None
                   end
       | None => None
       end) :: uniq_flags sites cl r
  end.

Definition obool_eqb (a b: option bool) : bool :=
  match a, b with
  | Some x, Some y => Bool.eqb x y
  | None, None => true
  | _, _ => false
  end.

(* a correspondence case: sites, history, observed outcomes of the real library, uniqueness flags of the Python oracle *)
Definition case_ok (c: list site * list op * list (option outcome) * list (option bool)) : bool :=
  let '(sites, ops, expected, flags) := c in
  list_eqb oout_eqb (run acc_req sites ops) expected
  && list_eqb obool_eqb (uniq_flags sites [] ops) flags.
