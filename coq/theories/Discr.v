(* C12 - model of mashumaro's discriminated-union dispatch as a state machine.

   Source modelled (mashumaro 3.15, /repo):
     mashumaro/core/meta/types/unpack.py  DiscriminatedUnionUnpackerBuilder._add_body (l.359-469),
                                          _get_variant_names (l.322-336), _add_register_variant_tags (l.530-541),
                                          SubtypeUnpackerBuilder (l.544-549)
     mashumaro/core/meta/code/builder.py  class-level wiring (l.388-411): include_supertypes is dropped
     mashumaro/core/meta/helpers.py       iter_all_subclasses (l.735-738)
     mashumaro/types.py                   Discriminator.__post_init__

   State  = classes in definition order (class id = position) + one registry (tag -> class) per site (one Annotated
            occurrence: a holder field per call-time dialect, a codec; one per Config root), per nested class-level
            dispatcher and per codec x nested dispatcher; all created empty.
   Ops    = Define parents own_tags(per key name) tagger_tags(per tagger function) own_required_fields keyerror_hook
          | Decode site present_keys(with hashable / unhashable values) present_fields
          | DecodeSeq [(site, keys, fields)]   (one call of a holder with several discriminated fields)
          | DecodeBad site                      (the input is not a mapping)
          | DecodeF format site keys fields      (the same call through from_msgpack / orjson's from_json: the dispatcher
                                                 compiled for that format; [comp]/[cur] below).
   One dispatcher function for both modes; entering a class is a leaf (accept / reject / leak KeyError) or a nested
   dispatcher of either mode.  This file holds only executable definitions (it must keep running when a proof breaks). *)
From Coq Require Import List Arith Bool.
Import ListNotations.

Definition tag := nat.

(* A class as the dispatcher sees it. *)
Record cls := Cls {
  c_parents : list nat;   (* ids of the direct bases inside the modelled forest, in declaration order *)
  c_tags    : list (nat * tag);        (* OWN __dict__ of the class: discriminator key name (id) -> tag value; one entry per name at most *)
  c_ttags   : list (nat * list tag);   (* per tagger function (id): variant_tagger_fn(cls) (a list registers every element; a bare value = singleton) *)
  c_req     : list nat;   (* all required (default-less) init fields incl. inherited ones: abstract acceptance data *)
  c_kerr    : bool        (* the class's own or inherited __pre_deserialize__ hook raises KeyError on inputs carrying the marker key *)
}.

Definition dummy_cls : cls := Cls [] [] [] [] false.

Definition memb (x: nat) (l: list nat) : bool := existsb (Nat.eqb x) l.

(* iter_all_subclasses(c): depth first, cls.__subclasses__() order = definition order.
   [l] is a suffix of the class list and [i] the id of its head.  A class can only be a
   subclass of classes defined before it, so scanning the suffix after [i] for the
   children of [i] is the recursive call of the Python generator.  With multiple
   inheritance a class is yielded once per path, exactly like the Python code. *)
Fixpoint walk (c: nat) (l: list cls) (i: nat) : list nat :=
  match l with
  | [] => []
  | d :: r =>
      if memb c (c_parents d)
      then i :: (walk i r (S i) ++ walk c r (S i))
      else walk c r (S i)
  end.

Definition all_sub (cl: list cls) (c: nat) : list nat := walk c cl 0.

(* One annotation site (one Annotated occurrence: a holder field, a codec) or one Config root.
   A holder with several discriminated fields is several sites. *)
Record site := Site {
  s_bases  : list nat;   (* the annotated class, or the members of the annotated Union *)
  s_sub    : bool;       (* include_subtypes *)
  s_sup    : bool;       (* include_supertypes *)
  s_field  : bool;       (* Discriminator.field is not None *)
  s_tagger : bool;       (* variant_tagger_fn is not None *)
  s_config : bool;       (* class-level (Config.discriminator) wiring; then s_bases = [the declaring class] *)
  s_codec  : bool;       (* site of a codec (non-nailed builder): nested class-level registries live on the codec *)
  s_fid    : nat;        (* Discriminator.field: id of the key name (dispatchers of one hierarchy may use different keys) *)
  s_tgid   : nat;        (* which tagger function (every dispatcher binds its own since /repo 79143aa) *)
  s_none   : bool        (* Annotated[Optional[Union[..]], D]: the union flattens to Union[.., None], NoneType is a base variant *)
}.

(* known finding optional-union-nonetype-variant: with include_supertypes NoneType is a variant (the last one); a tagger
   makes the refill compile every variant, and compiling NoneType raises TypeError - after all real classes were registered *)
Definition crash_on_refill (s: site) : bool := false.
(* until /repo 439013a this was  s_none s && s_sup s && negb (s_config s) && s_tagger s && negb (s_codec s)  (a holder's
   refill crashed while compiling NoneType); now None is dropped from the base variants and answered by the field itself *)

(* builder.py:396-401 rebuilds the Discriminator without include_supertypes *)
Definition eff_sup (s: site) : bool := s_sup s && negb (s_config s).

(* Discriminator.__post_init__ / builder.py:390-394 raise ValueError otherwise *)
Definition site_ok (s: site) (n: nat) : bool :=
  (s_sub s || s_sup s) && implb (s_config s) (s_sub s)
  && negb (match s_bases s with [] => true | _ => false end)
  && forallb (fun b => b <? n) (s_bases s).

(* _get_variant_names: subclasses of every base first, then the bases themselves *)
Definition variants (cl: list cls) (s: site) : list nat :=
  (if s_sub s then flat_map (all_sub cl) (s_bases s) else [])
  ++ (if eff_sup s then s_bases s else []).

(* dict lookup by key name *)
Fixpoint assoc {B} (f: nat) (l: list (nat * B)) : option B :=
  match l with
  | [] => None
  | (g, t) :: r => if Nat.eqb f g then Some t else assoc f r
  end.

Definition tags_of (s: site) (k: cls) : list tag :=
  if s_tagger s then match assoc (s_tgid s) (c_ttags k) with Some l => l | None => [] end
  else match assoc (s_fid s) (c_tags k) with Some t => [t] | None => [] end.

(* registry = Python dict tag -> class; newest binding first, lookup takes the first hit *)
Definition reg := list (tag * nat).

Fixpoint reg_get (t: tag) (r: reg) : option nat :=
  match r with
  | [] => None
  | (t', c) :: r' => if Nat.eqb t t' then Some c else reg_get t r'
  end.

Definition reg_add_variant (cl: list cls) (s: site) (r: reg) (v: nat) : reg :=
  fold_left (fun r t => (t, v) :: r) (tags_of s (nth v cl dummy_cls)) r.

(* the `except (KeyError, AttributeError)` block: for variant in variants: variants_map[tag] = variant *)
Definition refill (cl: list cls) (s: site) (r: reg) : reg :=
  fold_left (reg_add_variant cl s) (variants cl s) r.

(* Registry keys: (i, 0) = registry of site i (for a Config root: the class attribute
   __mashumaro_subtype_variants__ in the root's own __dict__); (i, S c) = registry of the class-level
   discriminator of class c as compiled *inside codec i* (a non-nailed builder keeps it on its own
   AttrsHolder, not on the class). *)
Definition rkey := (nat * nat)%type.
Definition rkey_eqb (a b: rkey) : bool := Nat.eqb (fst a) (fst b) && Nat.eqb (snd a) (snd b).

(* [comp]: (class, format) pairs = the class has its OWN per-format unpack method `__mashumaro_from_dict_<format>__`
   (format id > 0: msgpack, orjson, ...; compiled on demand only: by a refill for every registered variant, by a no-field
   loop for every variant it tries).  The method of format 0 (`__mashumaro_from_dict__`) is compiled together with the
   registry entry (private registries) or at class creation (mixin hierarchies of class-level dispatchers).
   [cur]: the format of the running call (set by DecodeF for the duration of one call, 0 between calls). *)
Record st := St { classes : list cls; regs : list (rkey * reg); comp : list (nat * nat); cur : nat }.

Fixpoint get_reg (k: rkey) (rs: list (rkey * reg)) : reg :=
  match rs with
  | [] => []
  | (j, r) :: rs' => if rkey_eqb k j then r else get_reg k rs'
  end.

(* the class-level discriminator declared by class c itself, if any: the Config site whose base is c *)
Definition is_config_of (c: nat) (s: site) : bool :=
  s_config s && match s_bases s with [b] => Nat.eqb b c | _ => false end.

Fixpoint find_idx {A} (p: A -> bool) (l: list A) (i: nat) : option (nat * A) :=
  match l with
  | [] => None
  | a :: r => if p a then Some (i, a) else find_idx p r (S i)
  end.

(* variants whose unpacker is (re)built by a refill: those that registered a tag (every one with a tagger) *)
Definition built (cl: list cls) (s: site) : list nat :=
  if s_tagger s then variants cl s
  else filter (fun v => match assoc (s_fid s) (c_tags (nth v cl dummy_cls)) with None => false | _ => true end) (variants cl s).

Definition reset_nested (top: nat) (vs: list nat) (rs: list (rkey * reg)) : list (rkey * reg) :=
  fold_left (fun rs v => ((top, S v), []) :: rs) vs rs.

Definition config_site (sites: list site) (c: nat) : option (nat * site) := find_idx (is_config_of c) sites 0.

Definition keys := list (nat * tag).

(* the value found under a discriminator key of the input: hashable (an abstract tag) or not (a list, a dict) *)
Inductive tagv := Hashable (t: tag) | Unhashable.
Definition inkeys := list (nat * tagv).

Inductive op :=
| Define (parents: list nat) (own_tags: keys) (tagger_tags: list (nat * list tag)) (own_req: list nat) (kerr: bool)
| Decode (site_id: nat) (inp: inkeys) (present: list nat)
| DecodeSeq (fields: list (nat * inkeys * list nat))
| DecodeF (fmt: nat) (site_id: nat) (inp: inkeys) (present: list nat)   (* from_msgpack / from_json (orjson) ...: the
     dispatcher compiled for format [fmt] - same registry attribute for a class-level site, other variant method *)
| DecodeBad (site_id: nat).     (* the input is not a mapping (a list, a number, a string, None) *)
(* [inp]: the discriminator keys PRESENT in the input with their values (a key present with a falsy value or None
   is present); [present]: the other fields present.  DecodeSeq = ONE from_dict call of a holder with several
   discriminated fields: (site, its sub-input) in field order; the first failing field raises. *)

(* what `cls.from_dict(value)` of a class WITHOUT class-level discriminator does *)
Inductive verdict := VAccept | VReject | VKeyError | VAttrError.   (* ... or leaks an AttributeError *)

Inductive outcome :=
| OInst (c: nat)
| OMissing                 (* MissingDiscriminatorError *)
| ONotFound                (* SuitableVariantNotFoundError *)
| OBadSite
| ORej (c: nat)            (* the selected class rejects the input (MissingField / InvalidFieldValue of class c surfaces) *)
| OKeyErr (c: nat)         (* a KeyError leaving class c's from_dict surfaces (swallowed only by a no-field loop) *)
| OMany (cs: list nat)     (* all fields of a DecodeSeq succeeded *)
| ONotDict                 (* ValueError "Argument for ... discriminated by ... should be a dict instance" *)
| OCrash
| OAttrErr (c: nat).       (* an AttributeError leaving class c's from_dict surfaces (the variant is called outside the guarded lookup) *)                  (* TypeError from compiling NoneType during a refill (the registry is filled nevertheless) *)

Definition st0 : st := St [] [] [] 0.

Definition set_cur (f: nat) (x: st) : st := St (classes x) (regs x) (comp x) f.

(* `'__mashumaro_from_dict_<fmt>__' in variant.__dict__` (nailed builders; a codec keeps its variants' methods together
   with its registry on its own AttrsHolder objects) *)
Definition has_method (codec: bool) (x: st) (c: nat) : bool :=
  codec || Nat.eqb (cur x) 0 || existsb (fun p => Nat.eqb (fst p) c && Nat.eqb (snd p) (cur x)) (comp x).

(* `if get_class_that_defines_method(name, variant) != variant: CodeBuilder(variant, format_name=..).add_unpack_method()` *)
Definition mark (codec: bool) (vs: list nat) (x: st) : st :=
  if codec || Nat.eqb (cur x) 0 then x
  else St (classes x) (regs x) (map (fun v => (v, cur x)) vs ++ comp x) (cur x).

Section Step.
  (* what does class k do with an input that has the given fields? (abstract in the theorems) *)
  Variable acc : cls -> list nat -> verdict.
  Variable sites : list site.

  Definition define (cl: list cls) (ps: list nat) (tg: keys) (tu: list (nat * list tag)) (rq: list nat) (ke: bool) : cls :=
    let ps' := filter (fun p => p <? length cl) ps in
    Cls ps' tg tu (rq ++ flat_map (fun p => c_req (nth p cl dummy_cls)) ps')
        (ke || existsb (fun p => c_kerr (nth p cl dummy_cls)) ps').

  Definition leaf (cl: list cls) (c: nat) (present: list nat) : outcome :=
    match acc (nth c cl dummy_cls) present with
    | VAccept => OInst c
    | VReject => ORej c
    | VKeyError => OKeyErr c
    | VAttrError => OAttrErr c
    end.

  (* `variant.from_dict(value)` ENTERS a class: a class that declares its own class-level discriminator is a
     dispatcher again (over its strict subclasses, own registry, own mode and key: [rec]); any other class is a leaf. *)
  Definition enter_with (rec: rkey -> site -> st -> st * outcome) (top: nat) (codec: bool) (present: list nat)
                        (x: st) (c: nat) : st * outcome :=
    match config_site sites c with
    | None => (x, leaf (classes x) c present)
    | Some (j, sj) => rec (if codec then (top, S c) else (j, 0)) sj x
    end.

  (* except (KeyError, AttributeError): refill the registry, retry, `except KeyError` -> SuitableVariantNotFound *)
  Definition refill_retry (enter: st -> nat -> st * outcome) (top: nat) (codec: bool) (k: rkey) (s: site) (t: tag)
                          (x0: st) : st * outcome :=
    let r' := refill (classes x0) s (get_reg k (regs x0)) in
    (* a codec compiles every registered variant afresh on each refill (new AttrsHolder):
       the registries of their nested class-level dispatchers start empty again *)
    let rs := if codec then reset_nested top (built (classes x0) s) (regs x0) else regs x0 in
    let x' := mark codec (built (classes x0) s) (St (classes x0) ((k, r') :: rs) (comp x0) (cur x0)) in
    if crash_on_refill s then (x', OCrash) else
    match reg_get t r' with
    | Some c => enter x' c                                        (* the call is outside the guarded lookup *)
    | None => (x', ONotFound)
    end.

  (* field mode, key present with value t *)
  Definition field_body (enter: st -> nat -> st * outcome) (top: nat) (codec: bool) (k: rkey) (s: site) (t: tag)
                        (x: st) : st * outcome :=
    match reg_get t (get_reg k (regs x)) with
    | Some c => if has_method codec x c then enter x c            (* try: unpack = registry[tag].from_dict / return unpack(value) *)
                else refill_retry enter top codec k s t x         (* the method is not the variant's own: raise AttributeError *)
    | None => refill_retry enter top codec k s t x
    end.

  (* no-field mode: for variant in variants: try: return variant.from_dict(value) / except Exception: pass *)
  Fixpoint loop_body (enter: st -> nat -> st * outcome) (vs: list nat) (x: st) : st * outcome :=
    match vs with
    | [] => (x, ONotFound)
    | v :: r => let (x1, o) := enter x v in
                match o with OInst c => (x1, OInst c) | _ => loop_body enter r x1 end
    end.

  (* The generated dispatcher with registry key k and settings s (unpack.py:359-469), both modes. *)
  Fixpoint dispatcher (fuel: nat) (top: nat) (codec: bool) (k: rkey) (s: site) (x: st)
                      (inp: inkeys) (present: list nat) : st * outcome :=
    match fuel with
    | 0 => (x, OBadSite)
    | S f =>
        if negb (site_ok s (length (classes x))) then (x, OBadSite) else
        let enter := enter_with (fun k' s' x' => dispatcher f top codec k' s' x' inp present) top codec present in
        if s_field s then
          match assoc (s_fid s) inp with
          | None => (x, OMissing)                                   (* value[field] -> KeyError -> MissingDiscriminatorError *)
          | Some Unhashable => (x, ONotFound)                       (* hash(tag) -> TypeError: no variant can carry it; no lookup, no refill *)
          | Some (Hashable t) => field_body enter top codec k s t x
          end
        else loop_body (fun x1 v => enter (mark codec [v] x1) v) (variants (classes x) s) x   (* a variant without its
                                                                     own method is compiled right before it is tried *)
    end.

  Definition decode1 (x: st) (i: nat) (inp: inkeys) (present: list nat) : st * outcome :=
    match nth_error sites i with
    | None => (x, OBadSite)
    | Some s => dispatcher (S (S (length (classes x)))) i (s_codec s) (i, 0) s x inp present
    end.

  (* a non-mapping input: `value[field]` raises TypeError -> ValueError; in no-field mode every variant rejects it *)
  Definition decode_bad (x: st) (i: nat) : outcome :=
    match nth_error sites i with
    | None => OBadSite
    | Some s => if negb (site_ok s (length (classes x))) then OBadSite
                else if s_field s then ONotDict else ONotFound
    end.

  Fixpoint decode_seq (x: st) (l: list (nat * inkeys * list nat)) (done: list nat) : st * outcome :=
    match l with
    | [] => (x, OMany (rev done))
    | (i, inp, present) :: r =>
        let (x1, o) := decode1 x i inp present in
        match o with
        | OInst c => decode_seq x1 r (c :: done)
        | _ => (x1, o)                                               (* the first failing field raises *)
        end
    end.

  Definition step (x: st) (o: op) : st * option outcome :=
    match o with
    | Define ps tg tu rq ke => (St (classes x ++ [define (classes x) ps tg tu rq ke]) (regs x) (comp x) (cur x), None)
    | Decode i inp present => let (x', o) := decode1 x i inp present in (x', Some o)
    | DecodeSeq l => let (x', o) := decode_seq x l [] in (x', Some o)
    | DecodeF f i inp present => let (x', o) := decode1 (set_cur f x) i inp present in (set_cur 0 x', Some o)
    | DecodeBad i => (x, Some (decode_bad x i))
    end.

  Definition final (ops: list op) : st := fold_left (fun x o => fst (step x o)) ops st0.

  (* one output per op, aligned with the op list *)
  Fixpoint trace (x: st) (ops: list op) : list (option outcome) :=
    match ops with
    | [] => []
    | o :: r => let (x', out) := step x o in out :: trace x' r
    end.

  Definition run (ops: list op) : list (option outcome) := trace st0 ops.
End Step.

(* classes defined by a history: independent of the Decode events and of the sites *)
Definition defs (ops: list op) : list cls :=
  fold_left (fun cl o => match o with
                         | Define ps tg tu rq ke => cl ++ [define cl ps tg tu rq ke]
                         | _ => cl end) ops [].

(* concrete acceptance used by the correspondence: the hook raises KeyError on the marker field, else every
   required field must be present *)
Definition kerr_marker : nat := 999.
Definition aerr_marker : nat := 998.
Definition acc_req (k: cls) (present: list nat) : verdict :=
  if c_kerr k && memb kerr_marker present then VKeyError
  else if c_kerr k && memb aerr_marker present then VAttrError
  else if forallb (fun f => memb f present) (c_req k) then VAccept else VReject.

(* computable domain predicate: at most one eligible class carries tag t *)
Definition carriers (cl: list cls) (s: site) (t: tag) : list nat :=
  filter (fun c => memb t (tags_of s (nth c cl dummy_cls))) (nodup Nat.eq_dec (variants cl s)).

Definition tag_uniqueb (cl: list cls) (s: site) (t: tag) : bool := length (carriers cl s t) <=? 1.

(* ---- comparison helpers for harness-generated case files ---- *)
Fixpoint list_eqb {A} (e: A -> A -> bool) (a b: list A) : bool :=
  match a, b with
  | [], [] => true
  | x :: a', y :: b' => e x y && list_eqb e a' b'
  | _, _ => false
  end.

Definition outcome_eqb (a b: outcome) : bool :=
  match a, b with
  | OInst x, OInst y | ORej x, ORej y | OKeyErr x, OKeyErr y | OAttrErr x, OAttrErr y => Nat.eqb x y
  | OMissing, OMissing | ONotFound, ONotFound | OBadSite, OBadSite => true
  | OMany x, OMany y => list_eqb Nat.eqb x y
  | ONotDict, ONotDict | OCrash, OCrash => true
  | _, _ => false
  end.

Definition oout_eqb (a b: option outcome) : bool :=
  match a, b with
  | Some x, Some y => outcome_eqb x y
  | None, None => true
  | _, _ => false
  end.

(* uniqueness flag of every Decode event of a field site, at the time of the event *)
Fixpoint uniq_flags (sites: list site) (cl: list cls) (ops: list op) : list (option bool) :=
  match ops with
  | [] => []
  | Define ps tg tu rq ke :: r => None :: uniq_flags sites (cl ++ [define cl ps tg tu rq ke]) r
  | Decode i inp _ :: r =>
      (match nth_error sites i with
       | Some s => match assoc (s_fid s) inp with
                   | Some (Hashable t) => if s_field s then Some (tag_uniqueb cl s t) else None
                   | _ => None
                   end
       | None => None
       end) :: uniq_flags sites cl r
  | DecodeSeq _ :: r => None :: uniq_flags sites cl r
  | DecodeF _ i inp _ :: r =>
      (match nth_error sites i with
       | Some s => match assoc (s_fid s) inp with
                   | Some (Hashable t) => if s_field s then Some (tag_uniqueb cl s t) else None
                   | _ => None
                   end
       | None => None
       end) :: uniq_flags sites cl r
  | DecodeBad _ :: r => None :: uniq_flags sites cl r
  end.

Definition obool_eqb (a b: option bool) : bool :=
  match a, b with
  | Some x, Some y => Bool.eqb x y
  | None, None => true
  | _, _ => false
  end.

(* a correspondence case: sites, history, observed outcomes of the real library, uniqueness flags of the Python oracle *)
Definition case_ok (c: list site * list op * list (option outcome) * list (option bool)) : bool :=
  let '(sites, ops, expected, flags) := c in
  list_eqb oout_eqb (run acc_req sites ops) expected
  && list_eqb obool_eqb (uniq_flags sites [] ops) flags.
