(* C02 / K45b: the expression returned by the (translated) pack_named_tuple computes the model:
   as_list -- the list of TyModel.nt_items; as_dict -- TyNtDict.nd_pack.  Re-checked on every run against coq/gen/K45b.v. *)
From Coq Require Import List Bool ZArith String Lia.
From Verif Require Import Core TupleIdx TyModel TyProofs TyNtDict NtEmit K45Proofs.
From VerifGen Require Import K45 K45b.
Import ListNotations.

Section K45b.
  Context {X: Type}.
  Variable run : sfield -> X -> res pv.
  Variable l : list X.

  Lemma run_call_pack fds :
    run_call (ev_list run (fun _ => None) l) (map IPos (seq 0 (List.length (map sf_name fds)))) fds
      = nt_items run (fun _ => None) (fun _ => Exn XIndexError) fds l.
  Proof.
    rewrite (run_call_items run (fun _ => None) l fds 0). cbn [skipn].
    apply nt_items_ext; intros; reflexivity.
  Qed.

  Theorem k45b_as_list fds :
    run_pack_code (ev_list run (fun _ => None) l) (k45b_pack false (map sf_name fds)) fds
      = (r <- nt_items run (fun _ => None) (fun _ => Exn XIndexError) fds l ;; Ok (VList r)).
  Proof. unfold k45b_pack, run_pack_code. rewrite run_call_pack. reflexivity. Qed.

  Theorem k45b_as_dict fds :
    run_pack_code (ev_list run (fun _ => None) l) (k45b_pack true (map sf_name fds)) fds = nd_pack run fds l.
  Proof.
    unfold k45b_pack, run_pack_code, nd_pack, nd_zip. rewrite run_call_pack. rewrite map_map. reflexivity.
  Qed.
End K45b.
