(* Kernel universe for K6 = the min/max/prefix arithmetic of
   mashumaro.jsonschema.schema.on_tuple (translated by tools/kernels/k6_on_tuple.py).
   Element schemas are abstract (type parameter A): the kernel only moves them around. *)
From Coq Require Import List ZArith Bool.
Import ListNotations.
Open Scope Z_scope.

(* what the kernel reads of the schema of an Unpack[...] argument *)
Record uschema (A: Type) := mkU {
  u_prefix : option (list A);     (* .prefixItems *)
  u_items  : option A;            (* .items *)
  u_min    : option Z;            (* .minItems *)
  u_max    : option Z;            (* .maxItems *)
}.
Arguments mkU {A}.
Arguments u_prefix {A}. Arguments u_items {A}. Arguments u_min {A}. Arguments u_max {A}.

(* one type argument of Tuple[...]:  is_unpack(arg) = false / true, together with
   get_schema(instance.derive(type=arg), ctx) *)
Inductive targ (A: Type) := Plain (s: A) | Unpack (u: uschema A).
Arguments Plain {A}. Arguments Unpack {A}.

(* JSONArraySchema(prefixItems=, items=, minItems=, maxItems=) *)
Record tschema (A: Type) := mkT {
  t_prefix : option (list A);
  t_items  : option A;
  t_min    : option Z;
  t_max    : option Z;
}.
Arguments mkT {A}.
Arguments t_prefix {A}. Arguments t_items {A}. Arguments t_min {A}. Arguments t_max {A}.

(* Python `x or d` on Optional[int] / int / Optional[list] / list *)
Definition oz_or (o: option Z) (d: Z) : Z :=
  match o with Some z => if z =? 0 then d else z | None => d end.
Definition z_or_none (z: Z) : option Z := if z =? 0 then None else Some z.
Definition ol_or_nil {A} (o: option (list A)) : list A :=
  match o with Some (x :: r) => x :: r | _ => [] end.
Definition l_or_none {A} (l: list A) : option (list A) :=
  match l with [] => None | _ => Some l end.

(* enumerate(args, start=1) *)
Fixpoint enum_from {A} (i: Z) (l: list A) : list (Z * A) :=
  match l with [] => [] | x :: r => (i, x) :: enum_from (i + 1) r end.
Definition zlen {A} (l: list A) : Z := Z.of_nat (length l).

(* decidable comparison of kernel results over element ids (used by the harness when it
   validates the translated kernel against the Python original) *)
Definition opt_eqb {X} (e: X -> X -> bool) (a b: option X) : bool :=
  match a, b with Some x, Some y => e x y | None, None => true | _, _ => false end.
Fixpoint nat_list_eqb (a b: list nat) : bool :=
  match a, b with [] , [] => true | x :: r, y :: s => Nat.eqb x y && nat_list_eqb r s | _, _ => false end.
Definition tschema_nat_eqb (a b: tschema nat) : bool :=
  opt_eqb nat_list_eqb (t_prefix a) (t_prefix b) && opt_eqb Nat.eqb (t_items a) (t_items b)
  && opt_eqb Z.eqb (t_min a) (t_min b) && opt_eqb Z.eqb (t_max a) (t_max b).
