(* C12 - the EMITTED registry region of the field-mode dispatcher, as a program.

   Kernel K12 (tools/kernels/k12_discr.py) translates the statements that DiscriminatedUnionUnpackerBuilder._add_body
   (unpack.py) emits between the hash test and the end of the `if discriminator.field:` branch - the guarded lookup
   `try: <registry / own-method lookup>  except (KeyError, AttributeError): <refill loop, retry>` and the final call -
   together with _add_register_variant_tags, into a list of [estmt] (VerifGen.K12.emit_lookup nailed tagger): one
   constructor per emitted line shape, the control structure (try / except / for / if / continue, the order of the
   lines, what is inside which handler) taken from the source on every run.

   This file gives those statements their meaning (trusted: the semantics of the individual lines below and of Python's
   try / for / continue) and proves that running the emitted program IS the model's clause Discr.field_body /
   Discr.refill_retry: same registry afterwards, same variants (re)built, same class entered. *)
From Coq Require Import List Arith Bool.
From Verif Require Import Discr PyK_discr.
Import ListNotations.

(* what `variant_tagger_fn(variant)` returned: `type(variant_tags) is list` or a bare value *)
Inductive tagres := TList (l: list tag) | TScalar (t: tag).
Definition flat (r: tagres) : list tag := match r with TList l => l | TScalar t => [t] end.

Record env := Env {
  e_map    : bool;         (* `variants_map = REG` was executed: the handler of the guarded lookup (the refill) ran *)
  e_reg    : reg;          (* the registry dict; `variants_map` is an alias of the same object *)
  e_built  : list nat;     (* variants handed to _add_build_variant_unpacker, newest first *)
  e_var    : nat;          (* variant *)
  e_tags   : tagres;       (* variant_tags *)
  e_tag1   : tag;          (* varint_tag *)
  e_chosen : option nat;   (* __variant *)
  e_unpack : option nat    (* unpack = the method of this class *)
}.

Inductive ctl := CNext | CExc (x: exn) | CContinue | CReturn (c: nat) | CNotFound.

(* Python's for statement: the body runs once per element; `continue` ends the iteration, an exception / return the loop *)
Section Loop.
  Context {A: Type} (body: A -> env -> ctl * env).
  Fixpoint for_loop (l: list A) (e: env) {struct l} : ctl * env :=
    match l with
    | [] => (CNext, e)
    | v :: r => match body v e with
                | (CNext, e') | (CContinue, e') => for_loop r e'
                | y => y
                end
    end.
End Loop.

Section Exec.
  Variable cl : list cls.
  Variable s : site.
  Variable t : tag.                  (* discriminator *)
  Variable vs : list nat.            (* the variants iterable, evaluated when the for statement starts *)
  Variable hm : nat -> bool.         (* the class has its own unpack method (nailed) / an entry in the codec's attrs registry *)
  Variable tr : nat -> tagres.       (* variant_tagger_fn *)

  Definition has_m (e: env) (c: nat) : bool := hm c || memb c (e_built e).
  Definition set_reg (e: env) (r: reg) : env := Env (e_map e) r (e_built e) (e_var e) (e_tags e) (e_tag1 e) (e_chosen e) (e_unpack e).

  (* one emitted line *)
  Definition prim (p: estmt) (e: env) : ctl * env :=
    match p with
    | SLookup => match reg_get t (e_reg e) with
                 | Some c => (CNext, Env (e_map e) (e_reg e) (e_built e) (e_var e) (e_tags e) (e_tag1 e) (Some c) (e_unpack e))
                 | None => (CExc EKeyError, e)
                 end
    | SOwnCheck => match e_chosen e with
                   | Some c => if has_m e c then (CNext, e) else (CExc EAttributeError, e)
                   | None => (CExc ETypeError, e)
                   end
    | SBind => (CNext, Env (e_map e) (e_reg e) (e_built e) (e_var e) (e_tags e) (e_tag1 e) (e_chosen e) (e_chosen e))
    | SBindReg => match reg_get t (e_reg e) with
                  | Some c => if has_m e c then (CNext, Env (e_map e) (e_reg e) (e_built e) (e_var e) (e_tags e) (e_tag1 e) (e_chosen e) (Some c))
                              else (CExc EKeyError, e)                 (* attrs_registry[cls] *)
                  | None => (CExc EKeyError, e)
                  end
    | SSetMap => (CNext, Env true (e_reg e) (e_built e) (e_var e) (e_tags e) (e_tag1 e) (e_chosen e) (e_unpack e))
    | SRegOwn => match assoc (s_fid s) (c_tags (nth (e_var e) cl dummy_cls)) with
                 | Some tg => (CNext, set_reg e ((tg, e_var e) :: e_reg e))
                 | None => (CExc EKeyError, e)                          (* variant.__dict__[field] *)
                 end
    | STags => (CNext, Env (e_map e) (e_reg e) (e_built e) (e_var e) (tr (e_var e)) (e_tag1 e) (e_chosen e) (e_unpack e))
    | SRegTagVar => (CNext, set_reg e ((e_tag1 e, e_var e) :: e_reg e))
    | SRegTagsVar => match e_tags e with
                     | TScalar tg => (CNext, set_reg e ((tg, e_var e) :: e_reg e))
                     | TList _ => (CExc ETypeError, e)                  (* a list is not hashable *)
                     end
    | SContinue => (CContinue, e)
    | SBuild => (CNext, Env (e_map e) (e_reg e) (e_var e :: e_built e) (e_var e) (e_tags e) (e_tag1 e) (e_chosen e) (e_unpack e))
    | SRetry | SRetryReg =>
        match reg_get t (e_reg e) with
        | Some c => (CNext, Env (e_map e) (e_reg e) (e_built e) (e_var e) (e_tags e) (e_tag1 e) (e_chosen e) (Some c))
        | None => (CExc EKeyError, e)
        end
    | SRaiseNotFound => (CNotFound, e)
    | SReturnCall => match e_unpack e with Some c => (CReturn c, e) | None => (CExc ETypeError, e) end
    | _ => (CExc EException, e)
    end.

  Fixpoint exec (p: estmt) (e: env) {struct p} : ctl * env :=
    let block := fix block (l: list estmt) (e: env) {struct l} : ctl * env :=
      match l with
      | [] => (CNext, e)
      | q :: r => match exec q e with (CNext, e') => block r e' | y => y end
      end in
    match p with
    | STry b h hb =>
        match block b e with
        | (CExc x, e') => if catches h [x] then block hb e' else (CExc x, e')
        | y => y
        end
    | SForVariants b =>
        for_loop (fun v e => block b (Env (e_map e) (e_reg e) (e_built e) v (e_tags e) (e_tag1 e) (e_chosen e) (e_unpack e))) vs e
    | SForTags b =>
        for_loop (fun g e => block b (Env (e_map e) (e_reg e) (e_built e) (e_var e) (e_tags e) g (e_chosen e) (e_unpack e)))
                 (match e_tags e with TList l => l | TScalar _ => [] end) e
    | SIfList a b => match e_tags e with TList _ => block a e | TScalar _ => block b e end
    | q => prim q e
    end.

  Fixpoint exec_block (l: list estmt) (e: env) {struct l} : ctl * env :=
    match l with
    | [] => (CNext, e)
    | q :: r => match exec q e with (CNext, e') => exec_block r e' | y => y end
    end.
End Exec.

Definition env0 (r: reg) : env := Env false r [] 0 (TList []) 0 None None.

(* what the model says about the same region (Discr.field_body / Discr.refill_retry, one dispatcher, one call):
   (class entered | not found, registry afterwards, variants built in order) *)
Definition model_lookup (cl: list cls) (s: site) (t: tag) (hm: nat -> bool) (r: reg) : bool * option nat * reg * list nat :=
  let miss := let r' := refill cl s r in (true, reg_get t r', r', built cl s) in
  match reg_get t r with
  | Some c => if hm c then (false, Some c, r, []) else miss
  | None => miss
  end.

(* (the handler ran, class whose method is called | not found, registry afterwards, variants (re)built in order) *)
Definition result_of (x: ctl * env) : option (bool * option nat * reg * list nat) :=
  match x with
  | (CReturn c, e) => Some (e_map e, Some c, e_reg e, rev (e_built e))
  | (CNotFound, e) => Some (e_map e, None, e_reg e, rev (e_built e))
  | _ => None
  end.

(* Discr.field_body, written as "run the lookup region, then commit its effects and call the class":
   proved equal to Discr.field_body below (DiscrEmitProofs.field_body_is_lookup) *)
Definition commit_lookup (enter: st -> nat -> st * outcome) (top: nat) (codec: bool) (k: rkey) (x: st)
                         (res: bool * option nat * reg * list nat) : st * outcome :=
  let '(refilled, oc, r', b) := res in
  let x' := if refilled
            then mark codec b (St (classes x) ((k, r') :: (if codec then reset_nested top b (regs x) else regs x)) (comp x) (cur x))
            else x in
  match oc with Some c => enter x' c | None => (x', ONotFound) end.
