(* C08 - the proposed repair of known finding call-dialect-vs-flag-defaults (fixes/C08-call-dialect-
   flag-defaults.diff): the default method forwards omit_none / by_alias to the dialect-specific
   method only when the caller gave them.  Model of that dispatch and proof that it restores the full
   statement.  (Not the current /repo: OptProj.ctx_of is.) *)
From Coq Require Import List String Ascii ZArith Bool.
From Verif Require Import OptProj OptProjProofs.
Import ListNotations.
Open Scope string_scope.

Definition ctx_of_fixed (o: opts) : sctx :=
  let bd := if o.(o_fdl) then o.(o_call) else None in
  {| s_on := look n_on (levels o bd);
     s_od := look n_od (levels o bd);
     s_ba := look n_ba (levels o bd);
     s_fon := o.(o_fon); s_fba := o.(o_fba);
     (* a keyword that was not given is resolved by the method that runs: its own rendered default *)
     r_on := kwdef o.(o_kon) (look n_on (levels o bd));
     r_ba := kwdef o.(o_kba) (look n_ba (levels o bd)) |}.

Definition to_dict_fixed (o: opts) (fs: list fplan) (vs: list fval) : out :=
  body (ctx_of_fixed o) o.(o_sort) (combine fs vs).

Lemma coherent_fixed o : kw_ok o = true -> coherent (ctx_of_fixed o) (eff_of o).
Proof.
  intros Hk. pose proof (bd_eq o Hk) as Hbd.
  unfold kw_ok in Hk. apply andb_true_iff in Hk. destruct Hk as [Hk _].
  apply andb_true_iff in Hk. destruct Hk as [Hk1 Hk2].
  unfold coherent, ctx_of_fixed, eff_of. cbn. rewrite Hbd. repeat split.
  - destruct (o_fon o); [reflexivity|]. destruct (o_kon o); [discriminate | reflexivity].
  - destruct (o_fba o); [reflexivity|]. destruct (o_kba o); [discriminate | reflexivity].
Qed.

Theorem project_fixed_full o fs vs :
  kw_ok o = true -> vals_ok fs vs = true ->
  to_dict_fixed o fs vs = Some (project (eff_of o) fs vs (plain_out fs vs)).
Proof.
  intros Hk Hv. unfold to_dict_fixed. change (o_sort o) with (e_sort (eff_of o)).
  apply body_project; [now apply coherent_fixed | exact Hv].
Qed.

(* where the finding does not apply the repair changes nothing *)
Lemma fixed_same o : flag_defaults_ok o = true -> kw_ok o = true -> forall fs vs,
  vals_ok fs vs = true -> to_dict_fixed o fs vs = to_dict_model o fs vs.
Proof.
  intros Hd Hk fs vs Hv. now rewrite (project_fixed_full o fs vs Hk Hv), (project_partial o fs vs Hk Hv Hd).
Qed.
