(* C16 (round 4) - the literal at a splice site is a token of the LINE. *)
From Coq Require Import List NArith Bool Lia.
From Verif Require Import PyStrLit PyStrLitProofs PyLine Splice.
Import ListNotations.
Open Scope N_scope.

(* a literal state behaves like [scan] *)
Lemma tok_scan b q : forall l s out acc v rest,
  scan false b q s out l = Some (v, rest) ->
  tok_line (LStr b q s out) acc l =
  tok_line (LDef false) ((if b then TkBytes v else TkStr v) :: acc) rest.
Proof.
  induction l as [|c l IH]; intros s out acc v rest H; [discriminate|].
  cbn [scan] in H. cbn [tok_line].
  destruct (step false b q s out c) as [o| |s' o].
  - injection H as <- <-. reflexivity.
  - discriminate.
  - apply IH. exact H.
Qed.

Lemma before_char_facts c : before_char_ok c = true ->
  is_quote c = false /\ (c =? 35) = false /\ (c =? BS) = false.
Proof.
  unfold before_char_ok. intros H.
  apply andb_true_iff in H. destruct H as [H H3].
  apply andb_true_iff in H. destruct H as [H1 H2].
  apply negb_true_iff in H1, H2, H3. auto.
Qed.

(* default text without quote, comment sign or backslash is passed character by character; [c0] is
   the character that follows the text [b] (it is not a quote either) *)
Lemma tok_default_chars : forall b c0 l prev acc,
  forallb before_char_ok (b ++ [c0]) = true ->
  exists prev', tok_line (LDef prev) acc (b ++ c0 :: l)
              = tok_line (LDef prev') (rev (map TkChar b) ++ acc) (c0 :: l).
Proof.
  induction b as [|c b IH]; intros c0 l prev acc H.
  - exists prev. reflexivity.
  - cbn [app forallb] in H. apply andb_true_iff in H. destruct H as [Hc Hb].
    destruct (before_char_facts c Hc) as (H1 & H2 & H3).
    assert (Hn: next_is_quote (b ++ c0 :: l) = false).
    { destruct b as [|c1 b'].
      - cbn in Hb |- *. apply andb_true_iff in Hb. destruct Hb as [Hb _]. apply (before_char_facts c0 Hb).
      - cbn in Hb |- *. apply andb_true_iff in Hb. destruct Hb as [Hb _]. apply (before_char_facts c1 Hb). }
    cbn [app tok_line]. rewrite H1, H2, H3, Hn, andb_false_r.
    destruct (IH c0 l (is_ident_char c) (TkChar c :: acc) Hb) as (p' & E).
    exists p'. rewrite E. cbn [map rev]. rewrite <- app_assoc. reflexivity.
Qed.

(* the whole before-text of a site: afterwards the machine is in default state, the previous
   character is not an identifier character, and exactly the characters of the text were emitted *)
Lemma tok_before b l prev acc :
  before_ok b = true ->
  tok_line (LDef prev) acc (b ++ l) = tok_line (LDef false) (rev (map TkChar b) ++ acc) l.
Proof.
  unfold before_ok. intros H. apply andb_true_iff in H. destruct H as [Hall Hlast].
  destruct (rev b) as [|c0 rb] eqn:Er; [discriminate|].
  assert (Eb: b = rev rb ++ [c0]) by (rewrite <- (rev_involutive b), Er; reflexivity).
  rewrite Eb in *. rewrite <- app_assoc. cbn [app].
  destruct (tok_default_chars (rev rb) c0 l prev acc Hall) as (p' & E). rewrite E.
  (* the last character *)
  rewrite forallb_app in Hall. apply andb_true_iff in Hall. destruct Hall as [_ Hc0].
  cbn [forallb] in Hc0. apply andb_true_iff in Hc0. destruct Hc0 as [Hc0 _].
  destruct (before_char_facts c0 Hc0) as (H1 & H2 & H3).
  unfold last_char_ok in Hlast. apply andb_true_iff in Hlast. destruct Hlast as [Hid _].
  apply negb_true_iff in Hid.
  assert (H98: (c0 =? 98) = false).
  { destruct (N.eqb_spec c0 98) as [->|]; [discriminate Hid | reflexivity]. }
  cbn [tok_line]. rewrite H1, H2, H3, H98, Hid. cbn [andb].
  rewrite map_app, rev_app_distr. cbn [map rev app]. try rewrite <- app_assoc; reflexivity.
Qed.

(* entering a non-prefixed literal from default text *)
Lemma tok_enter q r acc v rest :
  is_quote q = true -> (forall r', r <> q :: q :: r') ->
  scan false false q Norm [] r = Some (v, rest) ->
  tok_line (LDef false) acc (q :: r) = tok_line (LDef false) (TkStr v :: acc) rest.
Proof.
  intros Hq Hnt Hs. cbn [tok_line]. rewrite Hq.
  assert (E: starts_two q r = false).
  { unfold starts_two. destruct r as [|q1 [|q2 r']]; try reflexivity.
    destruct (N.eqb_spec q1 q) as [->|]; [|reflexivity].
    destruct (N.eqb_spec q2 q) as [->|]; [|reflexivity].
    exfalso. eapply Hnt. reflexivity. }
  rewrite E. cbn [orb]. apply (tok_scan false q r Norm [] acc v rest Hs).
Qed.

(* repr(s) seen from the line: not a triple quote, and scanned to exactly s *)
Lemma repr_parts p s rest :
  oracle_ok p -> wf_str s -> ctx_ok rest = true ->
  exists q r, py_repr p s ++ rest = q :: r /\ is_quote q = true /\ (forall r', r <> q :: q :: r')
              /\ scan false false q Norm [] r = Some (s, rest).
Proof.
  intros Hp Hw Hc. unfold py_repr. cbv zeta. set (q := choose_quote s).
  assert (Hq: is_quote q = true) by apply choose_quote_is_quote.
  exists q, ((repr_body p q s ++ [q]) ++ rest). split; [reflexivity|]. split; [exact Hq|]. split.
  - intros r' E. destruct s as [|c s'].
    + cbn in E. destruct rest as [|c0 rest']; [discriminate|].
      injection E as E1 E2. apply (ctx_ok_not_quote q c0 rest' Hq Hc). exact E1.
    + unfold repr_body in E. cbn [flat_map] in E.
      destruct (esc_char_head p q c Hq) as (f & t & Ef & Hf). rewrite Ef in E.
      cbn in E. injection E as E1 _. congruence.
  - rewrite <- app_assoc. rewrite scan_repr_body by assumption.
    cbn [app scan]. rewrite step_close. rewrite app_nil_r, rev_involutive. reflexivity.
Qed.

(* THE LINE THEOREM: a line that consists of an admissible before-text, repr(s) and any text that
   does not start with a quote is tokenized as the characters of the before-text, then ONE string
   token whose value is s, then whatever the rest of the line gives *)
Theorem line_literal p b s rest prev acc :
  oracle_ok p -> wf_str s -> before_ok b = true -> ctx_ok rest = true ->
  tok_line (LDef prev) acc (b ++ py_repr p s ++ rest)
  = tok_line (LDef false) (TkStr s :: rev (map TkChar b) ++ acc) rest.
Proof.
  intros Hp Hw Hb Hc. rewrite tok_before by exact Hb.
  destruct (repr_parts p s rest Hp Hw Hc) as (q & r & E & Hq & Hnt & Hs).
  rewrite E. apply tok_enter; assumption.
Qed.

(* the same for a bytes literal: b prefix, then the quoted part *)
Theorem line_literal_bytes b s rest prev acc :
  wf_bytes s -> before_ok b = true -> ctx_ok rest = true ->
  tok_line (LDef prev) acc (b ++ py_repr_bytes s ++ rest)
  = tok_line (LDef false) (TkBytes s :: rev (map TkChar b) ++ acc) rest.
Proof.
  intros Hw Hb Hc. rewrite tok_before by exact Hb.
  unfold py_repr_bytes, py_repr_bytes_lit. cbv zeta. set (q := choose_quote s).
  assert (Hq: is_quote q = true) by apply choose_quote_is_quote.
  assert (Hnt: forall r', (flat_map (esc_byte q) s ++ [q]) ++ rest <> q :: q :: r').
  { intros r' E. destruct s as [|c s'].
    - cbn in E. destruct rest as [|c0 rest']; [discriminate|].
      injection E as E1 E2. apply (ctx_ok_not_quote q c0 rest' Hq Hc). exact E1.
    - cbn [flat_map] in E. destruct (esc_byte_head q c Hq) as (f & t & Ef & Hf). rewrite Ef in E.
      cbn in E. injection E as E1 _. congruence. }
  assert (Hs: scan false true q Norm [] ((flat_map (esc_byte q) s ++ [q]) ++ rest) = Some (s, rest)).
  { rewrite <- app_assoc. rewrite scan_bytes_body by assumption.
    cbn [app scan]. rewrite step_close. rewrite app_nil_r, rev_involutive. reflexivity. }
  assert (E2: starts_two q ((flat_map (esc_byte q) s ++ [q]) ++ rest) = false).
  { unfold starts_two. destruct ((flat_map (esc_byte q) s ++ [q]) ++ rest) as [|q1 [|q2 r']] eqn:Er; try reflexivity.
    destruct (N.eqb_spec q1 q) as [->|]; [|reflexivity].
    destruct (N.eqb_spec q2 q) as [->|]; [|reflexivity].
    exfalso. eapply Hnt. reflexivity. }
  cbn [app tok_line]. change (is_quote 98) with false. change (98 =? 35) with false. change (98 =? BS) with false.
  change (98 =? 98) with true. cbn [negb andb next_is_quote]. rewrite Hq, E2. cbn [negb andb]. cbv iota.
  apply (tok_scan true q _ Norm [] _ s rest Hs).
Qed.

(* ------------------------------------------------------------------ inert text (finite floats) *)
Lemma float_char_facts c : float_char c = true ->
  is_quote c = false /\ (c =? 35) = false /\ (c =? BS) = false /\ (c =? 98) = false.
Proof.
  unfold float_char, is_quote, SQ, DQ, BS. intros H.
  repeat match goal with
  | H: _ || _ = true |- _ => apply orb_true_iff in H; destruct H as [H|H]
  end; b2p;
  (repeat split; try (apply N.eqb_neq; lia); apply orb_false_iff; split; apply N.eqb_neq; lia).
Qed.

(* a float rendering is passed character by character: it opens no literal and no comment, and the
   machine is in default state afterwards *)
Theorem float_inert : forall t l prev acc,
  forallb float_char t = true ->
  exists prev', tok_line (LDef prev) acc (t ++ l) = tok_line (LDef prev') (rev (map TkChar t) ++ acc) l.
Proof.
  induction t as [|c t IH]; intros l prev acc H.
  - exists prev. reflexivity.
  - cbn [forallb] in H. apply andb_true_iff in H. destruct H as [Hc Ht].
    destruct (float_char_facts c Hc) as (H1 & H2 & H3 & H4).
    cbn [app tok_line]. rewrite H1, H2, H3, H4. cbn [andb].
    destruct (IH l (is_ident_char c) (TkChar c :: acc) Ht) as (p' & E).
    exists p'. rewrite E. cbn [map rev]. rewrite <- app_assoc. reflexivity.
Qed.
