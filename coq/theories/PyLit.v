(* C16 (round 3) - literal VALUES as data: the values that the generator renders into source
   text with repr() (field defaults under omit_default, Literal values, aliases ...) and the
   Python expression grammar that reads them back.

   lit         the value universe: str, bytes, int, bool, None, tuples of those (nested), and
               names (objects imported by reference under a fresh name)
   render_lit  CPython repr() of such a value; tuples element-wise exactly like
               CodeBuilder.get_field_default_literal in /repo (one-element tuple with a comma)
   eval_lit    parser + evaluator of the literal-expression grammar (string / bytes literal,
               decimal int with optional minus, True False None, identifier, parenthesised
               expression, tuple display), fuel = length of the input

   MODEL ONLY; proofs in PyLitProofs.v.  Compared with the running CPython (repr, eval) and with
   the real get_field_default_literal on every run (harness/props/c16.py). *)
From Coq Require Import List NArith ZArith Bool Decimal DecimalN.
From Verif Require Import PyStrLit.
Import ListNotations.
Open Scope N_scope.

Inductive lit :=
| LStr (s: str)
| LBytes (b: str)
| LInt (z: Z)
| LBool (b: bool)
| LNone
| LName (n: str)          (* an object bound by reference under this name *)
| LTuple (l: list lit).

(* ---------------------------------------------------------------- render *)
Fixpoint uint_chars (u: uint) : list N :=
  match u with
  | Nil => []
  | D0 u => 48 :: uint_chars u | D1 u => 49 :: uint_chars u | D2 u => 50 :: uint_chars u
  | D3 u => 51 :: uint_chars u | D4 u => 52 :: uint_chars u | D5 u => 53 :: uint_chars u
  | D6 u => 54 :: uint_chars u | D7 u => 55 :: uint_chars u | D8 u => 56 :: uint_chars u
  | D9 u => 57 :: uint_chars u
  end.

Definition render_nat (n: N) : list N := uint_chars (N.to_uint n).
Definition render_int (z: Z) : list N :=
  match z with
  | Z0 => render_nat 0
  | Zpos p => render_nat (Npos p)
  | Zneg p => 45 :: render_nat (Npos p)
  end.

Definition T_True : list N := [84; 114; 117; 101].
Definition T_False : list N := [70; 97; 108; 115; 101].
Definition T_None : list N := [78; 111; 110; 101].
Definition LP : N := 40.
Definition RP : N := 41.
Definition COMMA : N := 44.
Definition SP : N := 32.

(* items of a tuple display: a, b, c *)
Definition render_items (f: lit -> list N) : list lit -> list N :=
  fix go (l: list lit) : list N :=
    match l with
    | [] => []
    | x :: r => match r with [] => f x | _ => f x ++ [COMMA; SP] ++ go r end
    end.

Fixpoint render_lit (p: N -> bool) (v: lit) : list N :=
  match v with
  | LStr s => py_repr p s
  | LBytes b => py_repr_bytes b
  | LInt z => render_int z
  | LBool true => T_True
  | LBool false => T_False
  | LNone => T_None
  | LName n => n
  | LTuple l =>
      match l with
      | [x] => LP :: render_lit p x ++ [COMMA; RP]
      | _ => LP :: render_items (render_lit p) l ++ [RP]
      end
  end.

(* ---------------------------------------------------------------- eval *)
Definition is_digit (c: N) : bool := (48 <=? c) && (c <=? 57).

Definition digit_cons (c: N) (u: uint) : uint :=
  match c - 48 with
  | 0 => D0 u | 1 => D1 u | 2 => D2 u | 3 => D3 u | 4 => D4 u
  | 5 => D5 u | 6 => D6 u | 7 => D7 u | 8 => D8 u | _ => D9 u
  end.

(* the maximal run of digits at the head, as a decimal numeral (most significant first) *)
Fixpoint read_uint (l: list N) : uint * list N :=
  match l with
  | c :: r => if is_digit c then let (u, r') := read_uint r in (digit_cons c u, r') else (Nil, l)
  | [] => (Nil, [])
  end.

(* the maximal run of identifier characters at the head *)
Fixpoint read_ident (l: list N) : list N * list N :=
  match l with
  | c :: r => if is_ident_char c then let (i, r') := read_ident r in (c :: i, r') else ([], l)
  | [] => ([], [])
  end.

Fixpoint skip_sp (l: list N) : list N :=
  match l with
  | c :: r => if c =? SP then skip_sp r else l
  | [] => []
  end.

(* what may follow a number or a name: not a character that would continue it (or turn it into a
   float / attribute / call / prefixed string) *)
Definition ends_token (l: list N) : bool :=
  match l with
  | [] => true
  | c :: _ => negb (is_ident_char c) && negb (is_quote c) && negb (c =? 46) && negb (c =? LP)
  end.

Definition eval_number (neg: bool) (l: list N) : option (lit * list N) :=
  let (u, r) := read_uint l in
  match u with
  | Nil => None
  | _ =>
      (* no leading zeros (Python refuses 007; the all-zero numerals 00.. are not modelled) *)
      if uint_beq (unorm u) u && ends_token r
      then Some (LInt (if neg then Z.opp (Z.of_N (N.of_uint u)) else Z.of_N (N.of_uint u)), r)
      else None
  end.

Definition eval_name (l: list N) : option (lit * list N) :=
  let (i, r) := read_ident l in
  if ends_token r then
    if leqb i T_True then Some (LBool true, r)
    else if leqb i T_False then Some (LBool false, r)
    else if leqb i T_None then Some (LNone, r)
    else Some (LName i, r)
  else None.

(* items of a display after the opening parenthesis; [pe] parses one element *)
Fixpoint eval_items (fuel: nat) (pe: list N -> option (lit * list N)) (l: list N) (acc: list lit)
  : option (lit * list N) :=
  match fuel with
  | O => None
  | S f =>
      match pe l with
      | None => None
      | Some (v, r) =>
          match skip_sp r with
          | c :: r1 =>
              if c =? COMMA then
                match skip_sp r1 with
                | c2 :: r2 => if c2 =? RP then Some (LTuple (List.rev (v :: acc)), r2)
                              else eval_items f pe (c2 :: r2) (v :: acc)
                | [] => None
                end
              else if c =? RP then
                match acc with
                | [] => Some (v, r1)                           (* parenthesised expression *)
                | _ => Some (LTuple (List.rev (v :: acc)), r1)
                end
              else None
          | [] => None
          end
      end
  end.

Fixpoint eval_f (fuel: nat) (l: list N) : option (lit * list N) :=
  match fuel with
  | O => None
  | S f =>
      match l with
      | [] => None
      | c :: r =>
          if is_quote c then
            match lex_string l with Some (s, r') => Some (LStr s, r') | None => None end
          else if (c =? 98) && (match r with q :: _ => is_quote q | [] => false end) then
            match lex_bytes l with Some (b, r') => Some (LBytes b, r') | None => None end
          else if c =? LP then
            match skip_sp r with
            | c1 :: r1 => if c1 =? RP then Some (LTuple [], r1) else eval_items f (eval_f f) (c1 :: r1) []
            | [] => None
            end
          else if c =? 45 then eval_number true r
          else if is_digit c then eval_number false l
          else if is_ident_char c then eval_name l
          else None
      end
  end.

Definition eval_lit (l: list N) : option (lit * list N) := eval_f (S (List.length l)) l.

(* ---------------------------------------------------------------- well-formed values *)
Definition name_ok (n: str) : bool :=
  match n with
  | [] => false
  | c :: _ =>
      forallb is_ident_char n && negb (is_digit c)
      && negb (leqb n T_True) && negb (leqb n T_False) && negb (leqb n T_None)
  end.

Fixpoint lit_size (v: lit) : nat :=
  match v with
  | LTuple l => S (fold_right (fun x a => lit_size x + a)%nat O l)
  | _ => 1%nat
  end.

Fixpoint wf_litb (v: lit) : bool :=
  match v with
  | LStr s => forallb valid_cp s
  | LBytes b => forallb (fun c => c <? 256) b
  | LName n => name_ok n
  | LTuple l => forallb wf_litb l
  | _ => true
  end.
Definition wf_lit (v: lit) : Prop := wf_litb v = true.

(* ---------------------------------------------------------------- equality, for case files *)
Fixpoint lit_eqb (a b: lit) {struct a} : bool :=
  match a, b with
  | LStr x, LStr y | LBytes x, LBytes y | LName x, LName y => leqb x y
  | LInt x, LInt y => Z.eqb x y
  | LBool x, LBool y => Bool.eqb x y
  | LNone, LNone => true
  | LTuple x, LTuple y =>
      (fix go (x y: list lit) : bool :=
         match x, y with
         | [], [] => true
         | a :: x', b :: y' => lit_eqb a b && go x' y'
         | _, _ => false
         end) x y
  | _, _ => false
  end.

Definition render_case_ok (tab: list N) (c: lit * list N) : bool :=
  leqb (render_lit (tab_oracle tab) (fst c)) (snd c).

Definition eval_case_ok (c: list N * option (lit * nat)) : bool :=
  match eval_lit (fst c), snd c with
  | Some (v, r), Some (v', n) => lit_eqb v v' && Nat.eqb (List.length r) n
  | None, None => true
  | _, _ => false
  end.
