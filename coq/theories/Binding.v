(* C17: identity binding over the object model of the namespace (Closed.world).

   The globals of a generated function are assembled by dict.setdefault from the builder module's
   own globals g0 (builder.py: reset / ensure_module_imported / ensure_object_imported).  A class is
   referred to by a rendered chain: `pkg.mod.Outer.Inner` rooted at the imported top-level package,
   or a single alias name (clean_id of the qualified name).  [binding] says when the chain reaches the
   very object that was imported; the _refuted lemmas are the ways it does not. *)
From Coq Require Import List Bool Arith NArith Lia.
From Verif Require Import Closed.
Import ListNotations.

Definition gmap := list (name * N).

Definition gsetdefault (k : name) (o : N) (g : gmap) : gmap :=
  match assoc k g with Some _ => g | None => g ++ [(k, o)] end.

Definition assemble (g0 : gmap) (imps : list (name * N)) : gmap :=
  fold_left (fun g i => gsetdefault (fst i) (snd i) g) imps g0.

(* dict-update semantics, for comparison only (not what the library does) *)
Definition assemble_update (g0 : gmap) (imps : list (name * N)) : gmap :=
  fold_left (fun g i => (fst i, snd i) :: g) imps g0.

Definition functional (imps : list (name * N)) : Prop :=
  forall n o1 o2, In (n, o1) imps -> In (n, o2) imps -> o1 = o2.

Lemma assoc_app {A} k (l1 l2 : list (N * A)) :
  assoc k (l1 ++ l2) = match assoc k l1 with Some v => Some v | None => assoc k l2 end.
Proof.
  induction l1 as [| [k' v] r IH]; simpl; [reflexivity|].
  destruct (N.eqb k k'); [reflexivity | exact IH].
Qed.

Lemma gsetdefault_keeps k v k' v' g : assoc k g = Some v -> assoc k (gsetdefault k' v' g) = Some v.
Proof.
  intros H. unfold gsetdefault. destruct (assoc k' g); [exact H|]. rewrite assoc_app, H. reflexivity.
Qed.

Lemma gsetdefault_new k v g : assoc k g = None -> assoc k (gsetdefault k v g) = Some v.
Proof.
  intros H. unfold gsetdefault. rewrite H, assoc_app, H. simpl. rewrite N.eqb_refl. reflexivity.
Qed.

Lemma gsetdefault_other k k' v g : k <> k' -> assoc k g = None -> assoc k (gsetdefault k' v g) = None.
Proof.
  intros Hn H. unfold gsetdefault. destruct (assoc k' g); [exact H|].
  rewrite assoc_app, H. simpl. apply N.eqb_neq in Hn. rewrite Hn. reflexivity.
Qed.

Lemma assemble_keeps imps : forall g k v, assoc k g = Some v -> assoc k (assemble g imps) = Some v.
Proof.
  induction imps as [| [n o] r IH]; intros g k v H; simpl; [exact H|].
  apply IH. apply gsetdefault_keeps. exact H.
Qed.

Theorem assemble_lookup imps : forall g0 root m,
  functional imps -> assoc root g0 = None -> In (root, m) imps ->
  assoc root (assemble g0 imps) = Some m.
Proof.
  induction imps as [| [n o] r IH]; intros g0 root m Fn H0 Hin; [destruct Hin|].
  simpl. destruct (N.eq_dec n root) as [-> | Hne].
  - assert (o = m) as -> by (apply (Fn root o m); [left; reflexivity | exact Hin]).
    apply assemble_keeps. apply gsetdefault_new. exact H0.
  - destruct Hin as [E | Hin]; [inversion E; congruence|].
    apply IH; [| | exact Hin].
    + intros a o1 o2 A B. apply (Fn a o1 o2); right; assumption.
    + apply gsetdefault_other; [congruence | exact H0].
Qed.

(* identity binding: the rendered chain reaches the very object it was rendered from *)
Theorem binding g0 imps h root path m c :
  functional imps ->                        (* rendered root names are injective on the imported objects *)
  assoc root g0 = None ->                   (* the root is not a name the builder module already owns *)
  In (root, m) imps ->                      (* the root object (module / package / alias target) was imported *)
  walk h m path = Some (Some c) ->          (* the class is where its qualified name says *)
  resolve (mkW (assemble g0 imps) h) root path = Some (Some c).
Proof.
  intros Fn H0 Hin Hw. unfold resolve. simpl.
  rewrite (assemble_lookup imps g0 root m Fn H0 Hin). exact Hw.
Qed.

Corollary binding_denote g0 imps h en root path m c :
  functional imps -> assoc root g0 = None -> In (root, m) imps ->
  walk h m path = Some (Some c) ->
  falls_global en root = true ->            (* the root is not a local name of the generated function *)
  denote (mkW (assemble g0 imps) h) en root path = Some c.
Proof.
  intros Fn H0 Hin Hw Hf. unfold denote. rewrite Hf.
  rewrite (binding g0 imps h root path m c Fn H0 Hin Hw). reflexivity.
Qed.

(* ---- the ways it fails (each is a known finding of /repo) *)

(* two objects rendered to one name: the first import wins, for both *)
Lemma first_wins g0 n o1 o2 rest :
  assoc n g0 = None -> assoc n (assemble g0 ((n, o1) :: (n, o2) :: rest)) = Some o1.
Proof.
  intros H0. simpl. apply assemble_keeps. apply gsetdefault_keeps. apply gsetdefault_new. exact H0.
Qed.

(* with dict-update semantics the last one would win: the two disciplines are distinguishable *)
Lemma update_last_wins g0 n o1 o2 :
  assoc n (assemble_update g0 [(n, o1); (n, o2)]) = Some o2.
Proof. simpl. rewrite N.eqb_refl. reflexivity. Qed.

(* the root is a name the builder module owns already (MISSING, Field, ...): the import is ignored *)
Lemma prepopulated_wins g0 imps root o' : assoc root g0 = Some o' -> assoc root (assemble g0 imps) = Some o'.
Proof. intros H. apply assemble_keeps. exact H. Qed.

(* the class is not at module.qualname (functional Enum / NamedTuple / make_dataclass in a function,
   a merged dialect): the chain is an AttributeError *)
Lemma not_at_qualname ns W en root path :
  lookup_ok ns en root = true -> falls_global en root = true -> resolve W root path = None ->
  eval ns W en (EAttr root path) RName.
Proof.
  intros Hl Hf Hr. apply EvAttrBad; auto. unfold chain_ok. rewrite Hr. reflexivity.
Qed.

(* the root is a local name of the generated function (a user module called `value`, `d`, `cls`):
   the chain does not denote the imported object at all *)
Lemma local_root_shadows W en root path : falls_global en root = false -> denote W en root path = None.
Proof. intros H. unfold denote. rewrite H. reflexivity. Qed.

(* ---- executable checks used by the generated shard files *)

Definition chain_eqb (a b : name * list name) : bool :=
  N.eqb (fst a) (fst b) && (if list_eq_dec N.eq_dec (snd a) (snd b) then true else false).

(* expectations: (root, path, object the harness knows the annotation's class to be) *)
Definition expectation := (name * list name * N)%type.

Definition inj_ok (exps : list expectation) : bool :=
  forallb (fun e1 => forallb (fun e2 =>
     negb (chain_eqb (fst e1) (fst e2)) || N.eqb (snd e1) (snd e2)) exps) exps.

Definition binding_ok (W : world) (exps : list expectation) : bool :=
  forallb (fun e => match resolve W (fst (fst e)) (snd (fst e)) with
                    | Some (Some o) => N.eqb o (snd e)
                    | _ => false
                    end) exps.

(* domain of [binding]: the root of every expectation is not a name the builder module owned already *)
Definition roots_fresh (g0 : gmap) (exps : list expectation) : bool :=
  forallb (fun e => match assoc (fst (fst e)) g0 with None => true | Some _ => false end) exps.

Theorem binding_ok_sound W exps :
  binding_ok W exps = true ->
  forall root path c, In (root, path, c) exps -> resolve W root path = Some (Some c).
Proof.
  unfold binding_ok. rewrite forallb_forall. intros H root path c Hin.
  specialize (H _ Hin). simpl in H.
  destruct (resolve W root path) as [[o|]|]; try discriminate.
  apply N.eqb_eq in H. subst. reflexivity.
Qed.

(* namespace assembly, model vs implementation: on the names the builder imported, the model's
   namespace and the function's real __globals__ hold the same objects *)
Definition opt_eqb (a b : option N) : bool :=
  match a, b with Some x, Some y => N.eqb x y | None, None => true | _, _ => false end.

Definition assembly_ok (g0 : gmap) (imps : list (name * N)) (real : gmap) : bool :=
  forallb (fun i => opt_eqb (assoc (fst i) (assemble g0 imps)) (assoc (fst i) real)) imps.

Theorem assembly_ok_sound g0 imps real :
  assembly_ok g0 imps real = true ->
  forall n o, In (n, o) imps -> assoc n real = assoc n (assemble g0 imps).
Proof.
  unfold assembly_ok. rewrite forallb_forall. intros H n o Hin. specialize (H _ Hin). simpl in H.
  destruct (assoc n (assemble g0 imps)), (assoc n real); simpl in H; try discriminate; auto.
  apply N.eqb_eq in H. subst. reflexivity.
Qed.
