(* C07 — (T) tie of the field block of Bind.v to the translated source (kernel K107b, regenerated from
   /repo/mashumaro/core/meta/code/builder.py on every run): K107b.build_block is FieldUnpackerCodeBlockBuilder.build
   returning the emitted lines as a tree (templates of the string literals of the source + their arguments).
   This file gives the emitted lines their meaning (a small interpreter of the Python subset that the block
   builder emits: reads of d, tests against MISSING / None, raise MissingField, try / bare except around the
   assignment of the converted value) and proves that running the emitted block is Bind.field_block, for every
   member, every alias situation, every default and every input.
   Trusted here: the reading of the 16 templates (exec_line / cond below); the unpacker expression is opaque
   (Bind.uconv).  Nothing of Bind.v is changed. *)
From Coq Require Import List String ZArith Bool Arith.
From Verif Require Import PyK PyK_c08 Bind.
From VerifGen Require K107b.
Import ListNotations.
Open Scope string_scope.
Open Scope list_scope.

(* ---------- the state of one block: the locals `value` and `__<f>`, the slot kwargs['<f>'] ---------- *)
(* a local holds MISSING (None here) or a value; an unassigned local is never read by the emitted code *)
Record env := { e_value : option pv; e_tgt : option pv; e_kw : option pv }.
Definition env0 : env := {| e_value := None; e_tgt := None; e_kw := None |}.

Inductive ex := XMissing | XInvalid | XConv.      (* MissingField / InvalidFieldValue / whatever the unpacker raises *)

Section Interp.
Variable get : kv -> option pv.         (* d.get(k, MISSING) for a key as the block names it: None = MISSING *)
Variable ev : pv -> option pv.          (* the unpacker expression as a function of `value`; None = it raises *)

(* the local __<f> (one block only ever names its own field: checked on the real text by the harness) *)
Definition target_var (a: kv) : bool :=
  match a with
  | KTuple [KStr "fstr"; KStr "__{}"; KList [_]] => true
  | _ => false
  end.

(* a variable named in a test *)
Definition rvar (a: kv) (e: env) : option (option pv) :=
  match a with
  | KStr "value" => Some (e_value e)
  | _ => if target_var a then Some (e_tgt e) else None
  end.

(* the right-hand side of an assignment; outer None = not understood, inner None = it raises *)
Definition rhs (a: kv) (e: env) : option (option pv) :=
  match a with
  | KStr "value" => match e_value e with Some v => Some (Some v) | None => None end
  | KStr "None" => Some (Some PNone)
  | KStr _ => match e_value e with Some v => Some (ev v) | None => None end
  | _ => if target_var a then match e_tgt e with Some v => Some (Some v) | None => None end else None
  end.

Definition set_value_var (e: env) (v: option pv) : env := {| e_value := v; e_tgt := e_tgt e; e_kw := e_kw e |}.
Definition set_tgt (e: env) (v: option pv) : env := {| e_value := e_value e; e_tgt := v; e_kw := e_kw e |}.
Definition set_kw (e: env) (v: option pv) : env := {| e_value := e_value e; e_tgt := e_tgt e; e_kw := v |}.

(* one emitted line; None = a line this interpreter does not know *)
Definition exec_line (t: string) (args: list kv) (e: env) : option (env + ex) :=
  match t, args with
  | "value = d.get({!r}, MISSING)", [k] => Some (inl (set_value_var e (get k)))
  | "value = d.get('{}', MISSING)", [k] => Some (inl (set_value_var e (get k)))
  | "__{} = d.get({!r}, MISSING)", [_; k] =>
      Some (inl (set_tgt e (get k)))
  | "__{} = d.get('{}', MISSING)", [_; k] =>
      Some (inl (set_tgt e (get k)))
  | "raise MissingField('{}',{},cls) from None", [_; _] => Some (inr XMissing)
  | "raise InvalidFieldValue('{}',{},value,cls)", [_; _] => Some (inr XInvalid)
  | "kwargs['{}'] = {}", [_; a] =>
      match rhs a e with
      | Some (Some v) => Some (inl (set_kw e (Some v)))
      | Some None => Some (inr XConv)
      | None => None
      end
  | "__{} = {}", [_; a] =>
      match rhs a e with
      | Some (Some v) => Some (inl (set_tgt e (Some v)))
      | Some None => Some (inr XConv)
      | None => None
      end
  | _, _ => None
  end.

Definition is_missing (o: option pv) : bool := match o with None => true | Some _ => false end.
Definition is_pnone (o: option pv) : bool := match o with Some PNone => true | _ => false end.

(* the header of an `if` *)
Definition cond (t: string) (args: list kv) (e: env) : option bool :=
  match t, args with
  | "if value is MISSING:", [] => Some (is_missing (e_value e))
  | "if __{} is MISSING:", [_] => Some (is_missing (e_tgt e))
  | "if {} is MISSING:", [a] => option_map is_missing (rvar a e)
  | "if {} is not MISSING:", [a] => option_map (fun o => negb (is_missing o)) (rvar a e)
  | "if {} is not None:", [a] => option_map (fun o => negb (is_pnone o)) (rvar a e)
  | _, _ => None
  end.

(* a block; fuel bounds the nesting depth *)
Fixpoint run (fuel: nat) (b: list kv) (e: env) : option (env + ex) :=
  match fuel with
  | O => None
  | S fu =>
    match b with
    | [] => Some (inl e)
    | KTuple [KStr "line"; KStr t; KList args; KList []] :: r =>
        match exec_line t args e with
        | Some (inl e') => run fu r e'
        | other => other
        end
    | KTuple [KStr "indent"; KStr "try:"; KList []; KList body]
        :: KTuple [KStr "indent"; KStr "except:"; KList []; KList handler] :: r =>
        match run fu body e with
        | Some (inl e') => run fu r e'
        | Some (inr _) =>                      (* bare except: whatever was raised *)
            match run fu handler e with
            | Some (inl e') => run fu r e'
            | other => other
            end
        | None => None
        end
    | KTuple [KStr "indent"; KStr t; KList args; KList body]
        :: KTuple [KStr "indent"; KStr "else:"; KList []; KList other] :: r =>
        match cond t args e with
        | Some c =>
            match (if c then run fu body e else run fu other e) with
            | Some (inl e') => run fu r e'
            | x => x
            end
        | None => None
        end
    | KTuple [KStr "indent"; KStr t; KList args; KList body] :: r =>
        match cond t args e with
        | Some true =>
            match run fu body e with
            | Some (inl e') => run fu r e'
            | x => x
            end
        | Some false => run fu r e
        | None => None
        end
    | _ => None
    end
  end.

(* what the block did for the constructor call: raised, stored into kwargs, bound __<f>, or nothing *)
Definition result (in_kwargs: bool) (o: option (env + ex)) : option fb :=
  match o with
  | None => None
  | Some (inr XMissing) => Some FbMissing
  | Some (inr XInvalid) => Some FbInvalid
  | Some (inr XConv) => None                                   (* an exception escaped the block *)
  | Some (inl e) =>
      if in_kwargs then Some (match e_kw e with Some v => FbSet v | None => FbSkip end)
      else match e_kw e, e_tgt e with
           | None, Some v => Some (FbSet v)
           | _, _ => None                                       (* a positional / keyword argument left unbound *)
           end
  end.

End Interp.

(* ---------- the emitted block of a member ---------- *)
(* build is run on two uninterpreted names: FNAME for the field name, ALIAS for its alias (the translated function
   only passes them around, compares them with None and with each other); a read of d under FNAME is the lookup of
   the member's name, a read under ALIAS the lookup of its alias *)
Definition FNAME : kv := KObj 0.
Definition ALIAS : kv := KObj 1.
Definition enc_default (df: dflt) : kv :=
  match df with DNone => KMissing | DVal PNone => KNone | _ => KObj 1 end.

Definition code_block_of (has_alias nba ident nullable: bool) (df: dflt) : res kv :=
  K107b.build_block (enc_default df) (KStr "T") (KBool nullable)
                    (KStr (if ident then "value" else "unpack(value)")) (KBool nba)
                    FNAME (if has_alias then ALIAS else KNone).

Definition reads (gn ga: option pv) (k: kv) : option pv :=
  match k with KObj 0 => gn | KObj 1 => ga | _ => None end.

Definition run_block_of (has_alias nba ident nullable: bool) (df: dflt)
           (gn ga: option pv) (ev: pv -> option pv) : option fb :=
  match code_block_of has_alias nba ident nullable df with
  | Ok (KList b) => result (has_dflt df) (run (reads gn ga) ev 8 b env0)
  | _ => None
  end.

(* Bind.field_block over the same parameters: gn = lookup of the name, ga = lookup of the alias *)
Definition field_block_of (has_alias nba ident nullable: bool) (df: dflt)
           (gn ga: option pv) (ev: pv -> option pv) : fb :=
  match (if has_alias then (if nba then match ga with Some v => Some v | None => gn end else ga) else gn) with
  | None => if has_dflt df then FbSkip else FbMissing
  | Some v =>
      if ident then FbSet v
      else if nullable && is_none v
           then (if has_dflt df && dflt_is_none df then FbSkip else FbSet PNone)
           else match ev v with Some w => FbSet w | None => FbInvalid end
  end.

Ltac crunch :=
  vm_compute;
  repeat (match goal with
          | |- context [match ?g ?k with _ => _ end] => is_var g; destruct (g k) as [?v|]
          | |- context [match ?v with _ => _ end] => is_var v; destruct v
          end; vm_compute);
  try reflexivity.

Lemma block_lemma : forall has_alias nba ident nullable df gn ga ev,
  (nullable = false -> dflt_is_none df = false) ->
  run_block_of has_alias nba ident nullable df gn ga ev
  = Some (field_block_of has_alias nba ident nullable df gn ga ev).
Proof.
  intros has_alias nba ident nullable df gn ga ev HN.
  destruct df as [|dv|]; [ | destruct dv | ]; destruct nullable;
    try (specialize (HN eq_refl); discriminate HN); clear HN;
    destruct ident, nba, has_alias, gn as [vn|], ga as [va|];
    solve [crunch].
Qed.

(* the emitted block of a member of a layout, run on an input *)
Definition has_alias (m: member) : bool := match m_alias m with Some _ => true | None => false end.
Definition code_block (nba: bool) (m: member) : res kv :=
  code_block_of (has_alias m) nba (m_ident m) (nullable m) (seen_default m).
Definition run_block (conv: string -> pv -> option pv) (nba: bool) (m: member) (d: inp) : option fb :=
  run_block_of (has_alias m) nba (m_ident m) (nullable m) (seen_default m)
               (lookup (m_name m) d) (match m_alias m with Some a => lookup a d | None => None end)
               (uconv conv m).

(* ---------- the tie ---------- *)
Theorem field_block_is_code : forall conv nba m d,
  run_block conv nba m d = Some (field_block conv nba m d).
Proof.
  intros conv nba m d. unfold run_block. rewrite block_lemma.
  - unfold field_block_of, field_block, rd, has_alias. destruct (m_alias m); reflexivity.
  - unfold nullable. intros H. apply orb_false_iff in H. tauto.
Qed.
