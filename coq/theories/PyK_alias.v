(* Kernel primitives used by the K4 translation (tools/kernels/k4_alias.py):
   for-loops over a sequence with one accumulator, isinstance against a named class,
   set comprehension / add / union (sets are represented by KList; consumers only test
   membership), tuples.  Everything is total and computable. *)
From Coq Require Import List String Ascii ZArith Bool.
From Verif Require Import Regex PyK.
Import ListNotations.
Open Scope string_scope.

(* `for x in seq: body` where body updates exactly one local (the accumulator) *)
Fixpoint for_list (l: list kv) (f: kv -> kv -> res kv) (acc: kv) : res kv :=
  match l with
  | [] => Ok acc
  | x :: r => match f x acc with Ok a => for_list r f a | Raise e => Raise e end
  end.

Definition k_for (it: kv) (f: kv -> kv -> res kv) (acc: kv) : res kv :=
  match it with
  | KList l | KTuple l => for_list l f acc
  | _ => Raise TypeError
  end.

(* instances of user classes are namespaces carrying their class name *)
Definition k_isinstance (v: kv) (cls: string) : bool :=
  match v with
  | KNs attrs => match ns_get attrs "__class__" with
                 | Some (KStr c) => String.eqb c cls
                 | _ => false end
  | _ => false
  end.

Fixpoint map_res (f: kv -> res kv) (l: list kv) : res (list kv) :=
  match l with
  | [] => Ok []
  | x :: r => match f x with
              | Ok y => match map_res f r with Ok ys => Ok (y :: ys) | Raise e => Raise e end
              | Raise e => Raise e end
  end.

(* {elt for x in seq} *)
Definition k_setcomp (it: kv) (f: kv -> res kv) : res kv :=
  match it with
  | KList l | KTuple l => match map_res f l with Ok ys => Ok (KList ys) | Raise e => Raise e end
  | _ => Raise TypeError
  end.

(* s.add(x) / s |= t, as functional updates *)
Definition k_set_add (s x: kv) : res kv :=
  match s with KList l => Ok (KList (l ++ [x])) | _ => Raise AttributeError end.

Definition k_set_union (s t: kv) : res kv :=
  match s, t with KList a, KList b => Ok (KList (a ++ b)) | _, _ => Raise TypeError end.

Definition k_set_mem (s x: kv) : bool :=
  match s with KList l => existsb (kv_eqb x) l | _ => false end.
