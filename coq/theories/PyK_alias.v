(* Kernel primitives used by the K4 translation (tools/kernels/k4_alias.py):
   for-loops over a sequence with one accumulator, isinstance against a named class,
   set comprehension / add / union (sets are represented by KList; consumers only test
   membership), tuples.  Everything is total and computable. *)
From Coq Require Import List String Ascii ZArith Bool.
From Verif Require Import Regex PyK.
Import ListNotations.
Open Scope string_scope.

(* `for x in seq: body` where body updates exactly one local (the accumulator) *)
Fixpoint for_list (l: list kv) (f: kv -> kv -> res kv) (acc: kv) : res kv :=
  match l with
  | [] => Ok acc
  | x :: r => match f x acc with Ok a => for_list r f a | Raise e => Raise e end
  end.

Definition k_for (it: kv) (f: kv -> kv -> res kv) (acc: kv) : res kv :=
  match it with
  | KList l | KTuple l => for_list l f acc
  | _ => Raise TypeError
  end.

(* instances of user classes are namespaces carrying their class name *)
Definition k_isinstance (v: kv) (cls: string) : bool :=
  match v with
  | KNs attrs => match ns_get attrs "__class__" with
                 | Some (KStr c) => String.eqb c cls
                 | _ => false end
  | _ => false
  end.

Fixpoint map_res (f: kv -> res kv) (l: list kv) : res (list kv) :=
  match l with
  | [] => Ok []
  | x :: r => match f x with
              | Ok y => match map_res f r with Ok ys => Ok (y :: ys) | Raise e => Raise e end
              | Raise e => Raise e end
  end.

(* {elt for x in seq} *)
Definition k_setcomp (it: kv) (f: kv -> res kv) : res kv :=
  match it with
  | KList l | KTuple l => match map_res f l with Ok ys => Ok (KList ys) | Raise e => Raise e end
  | _ => Raise TypeError
  end.

(* s.add(x) / s |= t, as functional updates *)
Definition k_set_add (s x: kv) : res kv :=
  match s with KList l => Ok (KList (l ++ [x])) | _ => Raise AttributeError end.

Definition k_set_union (s t: kv) : res kv :=
  match s, t with KList a, KList b => Ok (KList (a ++ b)) | _, _ => Raise TypeError end.

Definition k_set_mem (s x: kv) : bool :=
  match s with KList l => existsb (kv_eqb x) l | _ => false end.

(* ---- class objects (for CodeBuilder.get_config) ----
   A class is KNs [("__id__", id); ("__dict__", KDict own); ("__mro__", KList entries)] where an entry is
   KTuple [id; KDict dict] and the first entry is the class itself.  Attribute lookup walks the MRO. *)
Definition cls_entry (id: kv) (d: list (kv * kv)) : kv := KTuple [id; KDict d].

Definition mk_class (id: kv) (own: list (kv * kv)) (tail: list kv) : kv :=
  KNs [("__id__", id); ("__dict__", KDict own); ("__mro__", KList (cls_entry id own :: tail))].

Definition cls_mro (c: kv) : list kv :=
  match c with KNs attrs => match ns_get attrs "__mro__" with Some (KList l) => l | _ => [] end | _ => [] end.

Definition entry_id (e: kv) : kv := match e with KTuple [i; _] => i | _ => KNone end.

Fixpoint mro_lookup (m: list kv) (name: kv) : option kv :=
  match m with
  | [] => None
  | KTuple [_; KDict d] :: r => match d_get d name with Some v => Some v | None => mro_lookup r name end
  | _ :: r => mro_lookup r name
  end.

(* getattr(cls, name, default) on a class *)
Definition k_cls_getattr (c name dflt: kv) : kv :=
  match mro_lookup (cls_mro c) name with Some v => v | None => dflt end.

(* issubclass(a, b) *)
Definition k_issubclass (a b: kv) : bool :=
  match b with
  | KNs attrs => match ns_get attrs "__id__" with
                 | Some i => existsb (fun e => kv_eqb (entry_id e) i) (cls_mro a)
                 | None => false end
  | _ => false
  end.

(* type(name, (b1, b2), dict) for bases whose MROs share nothing (but `object`, which is not modelled):
   the linearisation is the new class, then b1's MRO, then what b2's MRO adds *)
Definition k_type3 (name bases dict: kv) : res kv :=
  match bases, dict with
  | KTuple [b1; b2], KDict d =>
      let m1 := cls_mro b1 in
      let m2 := filter (fun e => negb (existsb (fun e1 => kv_eqb (entry_id e1) (entry_id e)) m1)) (cls_mro b2) in
      Ok (mk_class (KTuple [name; KStr "<merged>"]) d (m1 ++ m2))
  | _, _ => Raise TypeError
  end.
