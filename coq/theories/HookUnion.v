(* C19: the speculative try-each of the union packer, tied to the source through C11's kernel K21 (the two loops of
   pack.py:pack_union translated on every run; K21Proofs.foldA_packers).

   Hooks.pack at a Union position runs  try_each  over the DISTINCT call expressions of the members, in order of first
   occurrence (mixin: value.__mashumaro_to_dict__(<keywords>), distinct keyword lists - dedup_pf; codec:
   <Alias of member>___mashumaro_to_dict__(value), distinct per class - dedup_nat).  Here: the method the translated
   loops emit for dataclass members is exactly one `try: return <expr> / except Exception: pass` per distinct expression,
   in that order, then `raise`; interpreted with the hook-trace meaning of a try block (events of a failed attempt
   stay), it IS Hooks.pack at that position. *)
From Coq Require Import List Bool Arith String.
From Verif Require Import UnionModel PackEmit K21Proofs Hooks.
From VerifGen Require Import K21.
Import ListNotations.
Local Open Scope list_scope.

(* ---------------------------------------------------------------- the emitted lines for non-identity members *)
Lemma filter_all_true : forall {A} (f: A -> bool) l, (forall x, In x l -> f x = true) -> filter f l = l.
Proof.
  induction l as [|x r IH]; intros H; simpl; [reflexivity|].
  rewrite (H x (or_introl eq_refl)). f_equal. apply IH. intros y Hy. apply H. right. exact Hy.
Qed.
Lemma filter_all_false : forall {A} (f: A -> bool) l, (forall x, In x l -> f x = false) -> filter f l = [].
Proof.
  induction l as [|x r IH]; intros H; simpl; [reflexivity|].
  rewrite (H x (or_introl eq_refl)). apply IH. intros y Hy. apply H. right. exact Hy.
Qed.

Lemma stepB_try : forall s m, p_ident m = false -> stepB s m = PLTry m.
Proof. intros s m H. unfold stepB. cbv zeta. rewrite H. destruct (Nat.ltb 1 _); reflexivity. Qed.

Lemma emit_tries :
  forall pms, pms <> [] -> (forall m, In m pms -> p_ident m = false) ->
    emit pms = PMethod (map PLTry (ddp [] pms) ++ [PLRaise]).
Proof.
  intros pms Hne Hall. unfold emit.
  set (s := fold_left stepA pms pst0).
  pose proof (foldA_packers pms pst0 eq_refl) as HF. cbv zeta in HF. destruct HF as [Ho [Hn Hi]].
  fold s in Ho, Hn, Hi. simpl in Hn, Hi.
  assert (Hpid: pid pms = []).
  { unfold pid. apply filter_all_false. exact Hall. }
  assert (Hpnon: pnon pms = pms).
  { unfold pnon. apply filter_all_true. intros m Hm. unfold nonid. rewrite (Hall m Hm). reflexivity. }
  rewrite Hpid in Hi. rewrite Hpnon in Hn.
  assert (Hp: ps_packers s = ddp [] pms) by (rewrite Ho, Hi, Hn; reflexivity).
  rewrite Hp.
  assert (HD: forall m, In m (ddp [] pms) -> p_ident m = false).
  { intros m Hm. apply Hall. eapply ddp_incl. exact Hm. }
  assert (Hc: (Nat.eqb (List.length (ddp [] pms)) 1
               && match ddp [] pms with m :: _ => p_ident m | [] => false end) = false).
  { destruct (ddp [] pms) as [|m r] eqn:ED; [apply andb_false_r|].
    rewrite (HD m (or_introl eq_refl)). apply andb_false_r. }
  rewrite Hc. f_equal. f_equal.
  apply map_ext_in. intros m Hm. apply stepB_try. apply HD. exact Hm.
Qed.

(* ---------------------------------------------------------------- call expressions as numbers *)
Definition b2n (b: bool) : nat := if b then 1 else 0.
Definition pf_code (a: pf) : nat :=
  match a with (c, (x1, x2, x3)) => b2n c + 2 * b2n x1 + 4 * b2n x2 + 8 * b2n x3 end.
Definition all_pf : list pf :=
  flat_map (fun x3 => flat_map (fun x2 => flat_map (fun x1 => map (fun c => (c, (x1, x2, x3))) [false; true])
                                                   [false; true]) [false; true]) [false; true].
Definition pf_decode (n: nat) : pf := nth n all_pf (false, xf_none).

Lemma pf_decode_code : forall a, pf_decode (pf_code a) = a.
Proof. intros [c [[x1 x2] x3]]. destruct c, x1, x2, x3; reflexivity. Qed.
Lemma pf_code_eqb : forall a b, Nat.eqb (pf_code a) (pf_code b) = pf_eqb a b.
Proof.
  intros [c [[x1 x2] x3]] [d [[y1 y2] y3]].
  destruct c, x1, x2, x3, d, y1, y2, y3; reflexivity.
Qed.

(* ---------------------------------------------------------------- dedup of the translated loop = dedup of the model *)
Section Dedup.
  Context {K : Type}.
  Variable keyeq : K -> K -> bool.
  Variable code : K -> nat.
  Hypothesis code_eqb : forall a b, Nat.eqb (code a) (code b) = keyeq a b.
  Variable keyof : nat -> K.                 (* member class -> its call expression *)
  Variable mb : nat -> pmember.
  Hypothesis mb_e : forall c, p_e (mb c) = Some (code (keyof c)).

  Fixpoint dd (l: list K) (seen: list K) : list K :=
    match l with
    | [] => []
    | x :: r => if existsb (keyeq x) seen then dd r seen else x :: dd r (x :: seen)
    end.

  Lemma pe_eqb_mb : forall c c', pe_eqb (mb c) (mb c') = keyeq (keyof c) (keyof c').
  Proof. intros c c'. unfold pe_eqb. rewrite !mb_e. apply code_eqb. Qed.

  Lemma ddp_dd : forall cs seenM seenK,
    (forall c, existsb (pe_eqb (mb c)) seenM = existsb (keyeq (keyof c)) seenK) ->
    map p_e (ddp seenM (map mb cs)) = map (fun a => Some (code a)) (dd (map keyof cs) seenK).
  Proof.
    induction cs as [|c r IH]; intros seenM seenK H; simpl; [reflexivity|].
    rewrite (H c). destruct (existsb (keyeq (keyof c)) seenK) eqn:Ex.
    - apply IH. exact H.
    - simpl. rewrite mb_e. f_equal. apply IH. intros c'. simpl. rewrite pe_eqb_mb, (H c'). reflexivity.
  Qed.
End Dedup.

Lemma dd_dedup_pf : forall l seen, dd pf_eqb l seen = dedup_pf l seen.
Proof. induction l as [|x r IH]; intros seen; simpl; [reflexivity|]. rewrite !IH. reflexivity. Qed.
Lemma dd_dedup_nat : forall l seen, dd Nat.eqb l seen = dedup_nat l seen.
Proof. induction l as [|x r IH]; intros seen; simpl; [reflexivity|]. rewrite !IH. reflexivity. Qed.

(* ---------------------------------------------------------------- hook-trace meaning of the emitted method *)
(* `try: return <expr>` / `except Exception: pass`, one after the other, then `raise`: Hooks.try_each over the tried
   expressions (an identity line `if value.__class__ ...: return value` calls nothing) *)
Definition run_union_lines (call: pmember -> M) (ls: list pline) : M :=
  try_each (flat_map (fun l => match l with PLTry m => [call m] | _ => [] end) ls).

Lemma run_union_tries : forall call D,
  run_union_lines call (map PLTry D ++ [PLRaise]) = try_each (map call D).
Proof.
  intros call D. unfold run_union_lines. f_equal.
  induction D as [|m r IH]; simpl; [reflexivity|]. f_equal. exact IH.
Qed.

Lemma map_via_codes : forall {K} (code: K -> nat) (decode: nat -> K) (f: K -> M) (D: list pmember) (l: list K),
  (forall a, decode (code a) = a) ->
  map p_e D = map (fun a => Some (code a)) l ->
  map (fun m => f (decode (p_key m))) D = map f l.
Proof.
  intros K code decode f D. induction D as [|m r IH]; intros l Hd H; destruct l as [|a l']; simpl in *;
    try discriminate; [reflexivity|].
  inversion H as [[H1 H2]]. unfold p_key. rewrite H1, Hd. f_equal. apply IH; assumption.
Qed.

(* ---------------------------------------------------------------- the theorems *)
(* keyword list of member c's call expression in a class with options (pc, px) - as in Hooks.pack *)
Definition pfc (E: env) (pc: bool) (px: xf) (c: nat) : pf := (pc && c_ctx (cls E c), xf_and px (c_xf (cls E c))).

Theorem k21_pack_union_mixin :
  forall E stubs cr i j fs cs pc px k (nm: nat -> string) (en: nat -> uv -> option uv),
    cs <> [] ->
    let subs := map (fun kx => match kx with (n, x) => (n, pack E stubs Mixin x) end) fs in
    let mb := fun c => PM (nm c) (Some (pf_code (pfc E pc px c))) (en c) in
    exists ls, emit (map mb cs) = PMethod ls /\
      pack E stubs Mixin (VInst cr i j fs) (TUnion cs) pc px k
      = run_union_lines (fun m => let a := pf_decode (p_key m) in call_mixin E stubs (fst a) (snd a) k cr i j subs) ls.
Proof.
  intros E stubs cr i j fs cs pc px k nm en Hne subs mb.
  assert (Hall: forall m, In m (map mb cs) -> p_ident m = false).
  { intros m Hm. apply in_map_iff in Hm. destruct Hm as [c [Hc _]]. subst m. reflexivity. }
  assert (Hne': map mb cs <> []) by (destruct cs; [congruence | discriminate]).
  exists (map PLTry (ddp [] (map mb cs)) ++ [PLRaise]). split; [apply emit_tries; assumption|].
  rewrite run_union_tries.
  assert (Hd := ddp_dd pf_eqb pf_code pf_code_eqb (pfc E pc px) mb (fun c => eq_refl) cs [] [] (fun c => eq_refl)).
  rewrite dd_dedup_pf in Hd. cbv zeta.
  rewrite (map_via_codes pf_code pf_decode (fun a => call_mixin E stubs (fst a) (snd a) k cr i j subs)
             (ddp [] (map mb cs)) _ pf_decode_code Hd).
  reflexivity.
Qed.

Theorem k21_pack_union_codec :
  forall E stubs cr i j fs cs pc px k (nm: nat -> string) (en: nat -> uv -> option uv),
    cs <> [] ->
    let subs := map (fun kx => match kx with (n, x) => (n, pack E stubs Codec x) end) fs in
    let mb := fun c => PM (nm c) (Some c) (en c) in
    exists ls, emit (map mb cs) = PMethod ls /\
      pack E stubs Codec (VInst cr i j fs) (TUnion cs) pc px k
      = run_union_lines (fun m => call_codec E stubs (p_key m) cr i j subs) ls.
Proof.
  intros E stubs cr i j fs cs pc px k nm en Hne subs mb.
  assert (Hall: forall m, In m (map mb cs) -> p_ident m = false).
  { intros m Hm. apply in_map_iff in Hm. destruct Hm as [c [Hc _]]. subst m. reflexivity. }
  assert (Hne': map mb cs <> []) by (destruct cs; [congruence | discriminate]).
  exists (map PLTry (ddp [] (map mb cs)) ++ [PLRaise]). split; [apply emit_tries; assumption|].
  rewrite run_union_tries.
  assert (Hd := ddp_dd Nat.eqb (fun c => c) (fun a b => eq_refl) (fun c => c) mb (fun c => eq_refl) cs [] [] (fun c => eq_refl)).
  rewrite dd_dedup_nat, map_id in Hd.
  rewrite (map_via_codes (fun c => c) (fun c => c) (fun c => call_codec E stubs c cr i j subs)
             (ddp [] (map mb cs)) _ (fun a => eq_refl) Hd).
  reflexivity.
Qed.
